package cep

import (
	"fmt"
	"testing"

	"github.com/rulego/streamsql/types"
)

// Demonstrations for two findings repaired in /repo (edaf18b, 06715c0). Drop into cep/ and run
//   go test -vet=off -run TestGreedyFindings ./cep
func zzRunK(pat *types.PatternNode, ks []int) string {
	spec := &types.MatchRecognizeSpec{
		Pattern: pat,
		Defines: []types.MatchDefine{{Symbol: "A", Cond: "k == 1"}, {Symbol: "B", Cond: "k == 2"}, {Symbol: "C", Cond: "k == 3"}, {Symbol: "D", Cond: "k == 4"}},
		OrderBy: []types.OrderByField{{Expression: "ts"}},
		Measures: []types.Measure{{Expr: "FIRST(ts)", Alias: "s"}, {Expr: "LAST(ts)", Alias: "e"}, {Expr: "MATCH_NUMBER()", Alias: "mn"}},
	}
	e, _ := NewEngine(spec)
	out := ""
	for i, k := range ks {
		for _, o := range e.Process(map[string]any{"ts": i + 1, "k": k}, "") {
			out += fmt.Sprintf("[%v..%v mn=%v]", o["s"], o["e"], o["mn"])
		}
	}
	for _, o := range e.Flush() {
		out += fmt.Sprintf("[%v..%v mn=%v]", o["s"], o["e"], o["mn"])
	}
	return out
}

func TestGreedyFindings(t *testing.T) {
	l := func(s string) *types.PatternNode { return &types.PatternNode{Kind: types.PatternLiteral, Symbol: s} }
	sq := func(cs ...*types.PatternNode) *types.PatternNode { return &types.PatternNode{Kind: types.PatternSequence, Children: cs} }
	// (A B)+ on A B A x: the match A B was lost (the longer attempt A B A fails in a non-accepting state)
	plus := &types.PatternNode{Kind: types.PatternRepetition, Children: []*types.PatternNode{sq(l("A"), l("B"))}, Quant: &types.Quantifier{Min: 1, Max: -1, Greedy: true}}
	if got := zzRunK(plus, []int{1, 2, 1, 0}); got != "[1..2 mn=1]" {
		t.Errorf("(A B)+ on A B A x: got %q, want [1..2 mn=1]", got)
	}
	// (A B | A B C D | B C) on A B C x: B C (start 2) was emitted while start 1 was still live, discarding A B
	alt := &types.PatternNode{Kind: types.PatternAlternation, Children: []*types.PatternNode{sq(l("A"), l("B")), sq(l("A"), l("B"), l("C"), l("D")), sq(l("B"), l("C"))}}
	if got := zzRunK(alt, []int{1, 2, 3, 0}); got != "[1..2 mn=1]" {
		t.Errorf("(A B | A B C D | B C) on A B C x: got %q, want [1..2 mn=1]", got)
	}
}
