package functions

import (
	"math"
	"testing"
)

func TestZZLpadHuge(t *testing.T) {
	defer func() {
		if r := recover(); r != nil {
			t.Logf("PANIC: %v", r)
			t.Fail()
		}
	}()
	fn, _ := Get("lpad")
	args := []any{"", int64(math.MaxInt64)}
	if err := fn.Validate(args); err != nil {
		t.Logf("validate: %v", err)
		return
	}
	v, err := fn.Execute(&FunctionContext{}, args)
	t.Logf("v=%v err=%v", v, err)
}
