package streamsql

// Demonstration of the open finding C07 / bounded:having_case (place in the repository root and run
// `go test -vet=off -run TestHavingCaseComparedWithALiteral .`): a CASE expression compared with a literal in HAVING
// drops every group, although the predicate is true for group b.

import (
	"sync"
	"testing"
	"time"
)

func TestHavingCaseComparedWithALiteral(t *testing.T) {
	s := New()
	defer s.Stop()
	if err := s.Execute("SELECT g, SUM(v) AS s FROM stream GROUP BY g, CountingWindow(2) HAVING CASE WHEN s > 5 THEN 1 ELSE 0 END = 1"); err != nil {
		t.Fatal(err)
	}
	var mu sync.Mutex
	var got []map[string]any
	s.AddSyncSink(func(r []map[string]any) { mu.Lock(); got = append(got, r...); mu.Unlock() })
	s.Emit(map[string]any{"g": "a", "v": 1.0})
	s.Emit(map[string]any{"g": "b", "v": 9.0})
	s.Emit(map[string]any{"g": "a", "v": 2.0})
	s.Emit(map[string]any{"g": "b", "v": 1.0})
	time.Sleep(300 * time.Millisecond)
	mu.Lock()
	defer mu.Unlock()
	if len(got) != 1 || got[0]["g"] != "b" {
		t.Fatalf("HAVING CASE WHEN s > 5 THEN 1 ELSE 0 END = 1: delivered %v, expected the group b (s = 10)", got)
	}
}
