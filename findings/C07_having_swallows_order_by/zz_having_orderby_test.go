package rsql

import "testing"

// Demonstration for the finding repaired in /repo: parseHaving collected everything up to LIMIT / WITH / end of input,
// so a following ORDER BY clause became part of the HAVING text. The HAVING expression then failed to compile at run
// time and the batch was delivered unfiltered. Drop into rsql/ and run
//   go test -vet=off -run TestHavingStopsAtOrderBy ./rsql
func TestHavingStopsAtOrderBy(t *testing.T) {
	stmt, err := NewParser("SELECT name, SUM(v) AS s FROM stream GROUP BY name, TumblingWindow('1s') HAVING s > 20 ORDER BY s DESC LIMIT 3").Parse()
	if err != nil {
		t.Fatal(err)
	}
	if stmt.Having != "s > 20" {
		t.Errorf("HAVING text = %q, want %q", stmt.Having, "s > 20")
	}
	if len(stmt.OrderBy) != 1 || stmt.OrderBy[0].Expression != "s" || stmt.Limit != 3 {
		t.Errorf("ORDER BY = %+v LIMIT = %d", stmt.OrderBy, stmt.Limit)
	}
}
