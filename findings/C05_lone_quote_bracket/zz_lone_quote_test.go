package fieldpath

import "testing"

// Demonstration for the finding fixed in /repo: a bracket holding a single quote character made
// parseBracketContent slice content[1:0] (panic). Drop this file into utils/fieldpath and run
//   go test -vet=off -run TestLoneQuoteBracket ./utils/fieldpath
func TestLoneQuoteBracket(t *testing.T) {
	for _, p := range []string{"a[']", "a[\"]", "a[ ' ]"} {
		func() {
			defer func() {
				if r := recover(); r != nil {
					t.Errorf("GetNestedField(%q) panicked: %v", p, r)
				}
			}()
			if v, ok := GetNestedField(map[string]any{"a": map[string]any{"x": 1}}, p); ok {
				t.Errorf("GetNestedField(%q) = %v, true; want not found", p, v)
			}
		}()
	}
}
