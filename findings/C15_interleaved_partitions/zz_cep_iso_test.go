package cep

import (
	"fmt"
	"math/rand"
	"testing"

	"github.com/rulego/streamsql/types"
)

func zzSpec(skip types.AfterMatchSkip) *types.MatchRecognizeSpec {
	return &types.MatchRecognizeSpec{
		Pattern:  seq(rep(lit("A"), 1, -1), lit("B")),
		Defines:  []types.MatchDefine{def("A", "k == 1"), def("B", "k == 2")},
		OrderBy:  orderBy("ts"),
		Measures: []types.Measure{measure("MATCH_NUMBER()", "mn"), measure("FIRST(A.ts)", "fa"), measure("B.ts", "bt")},
		Skip:     skip,
	}
}

func zzRun(spec *types.MatchRecognizeSpec, rows []map[string]any, parts []string) map[string][]string {
	e, _ := NewEngine(spec)
	out := map[string][]string{}
	for i, r := range rows {
		for _, o := range e.Process(r, parts[i]) {
			out[parts[i]] = append(out[parts[i]], fmt.Sprint(o))
		}
	}
	return out
}

func TestZZInterleave(t *testing.T) {
	rng := rand.New(rand.NewSource(1))
	bad := 0
	for _, skip := range []types.AfterMatchSkip{types.SkipPastLastRow, types.SkipToNextRow} {
		for iter := 0; iter < 300 && bad < 3; iter++ {
			n := 4 + rng.Intn(8)
			var rows []map[string]any
			var parts []string
			for i := 0; i < n; i++ {
				rows = append(rows, map[string]any{"ts": i + 1, "k": 1 + rng.Intn(2)})
				parts = append(parts, []string{"p1", "p2"}[rng.Intn(2)])
			}
			inter := zzRun(zzSpec(skip), rows, parts)
			for _, p := range []string{"p1", "p2"} {
				var rs []map[string]any
				var ps []string
				for i := range rows {
					if parts[i] == p {
						rs = append(rs, rows[i])
						ps = append(ps, p)
					}
				}
				alone := zzRun(zzSpec(skip), rs, ps)
				if fmt.Sprint(inter[p]) != fmt.Sprint(alone[p]) {
					bad++
					t.Logf("skip=%v partition %s differs:\n rows=%v\n parts=%v\n interleaved=%v\n alone=%v", skip, p, rows, parts, inter[p], alone[p])
				}
			}
		}
	}
	if bad > 0 {
		t.Fail()
	}
}
