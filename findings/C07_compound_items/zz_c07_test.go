package streamsql

import (
	"fmt"
	"sync"
	"testing"
	"time"
)

func zzRun(t *testing.T, sql string, rows []map[string]any, want int) [][]map[string]any {
	s := New()
	defer s.Stop()
	if err := s.Execute(sql); err != nil {
		t.Fatalf("execute %q: %v", sql, err)
	}
	var mu sync.Mutex
	var got [][]map[string]any
	s.AddSyncSink(func(r []map[string]any) {
		mu.Lock()
		defer mu.Unlock()
		got = append(got, r)
	})
	for _, r := range rows {
		s.Emit(r)
	}
	dl := time.Now().Add(5 * time.Second)
	for time.Now().Before(dl) {
		mu.Lock()
		n := len(got)
		mu.Unlock()
		if n >= want {
			break
		}
		time.Sleep(5 * time.Millisecond)
	}
	mu.Lock()
	defer mu.Unlock()
	return got
}

func TestZZCompoundAgg(t *testing.T) {
	rows := []map[string]any{{"g": "a", "v": 1.0, "w": 10.0}, {"g": "a", "v": 3.0, "w": 2.0}}
	for _, sql := range []string{
		`SELECT g, AVG(v) * 1.8 + 32 AS f FROM stream GROUP BY g, CountingWindow(2)`,
		`SELECT g, SUM(v*2) + MAX(w) AS f FROM stream GROUP BY g, CountingWindow(2)`,
		`SELECT g, SUM(v) + MAX(w) AS f FROM stream GROUP BY g, CountingWindow(2)`,
		`SELECT g, AVG(v) + 1 AS f FROM stream GROUP BY g, CountingWindow(2)`,
	} {
		got := zzRun(t, sql, rows, 1)
		fmt.Printf("ZZ %s => %v\n", sql, got)
	}
}
