package streamsql

import (
	"fmt"
	"testing"
)

func TestZZCompoundAgg2(t *testing.T) {
	rows := []map[string]any{{"g": "a", "v": 1.0, "w": 10.0}, {"g": "a", "v": 3.0, "w": 2.0}}
	for _, sql := range []string{
		`SELECT g, MAX(w) + SUM(v*2) AS f FROM stream GROUP BY g, CountingWindow(2)`,
		`SELECT g, SUM(v*2) + MAX(w) AS f FROM stream GROUP BY g, CountingWindow(2)`,
		`SELECT g, MAX(w) AS m, SUM(v*2) AS s FROM stream GROUP BY g, CountingWindow(2)`,
		`SELECT g, MIN(w) + SUM(v*2) AS f FROM stream GROUP BY g, CountingWindow(2)`,
		`SELECT g, SUM(v*2) AS f FROM stream GROUP BY g, CountingWindow(2)`,
	} {
		got := zzRun(t, sql, rows, 1)
		fmt.Printf("ZZ %s => %v\n", sql, got)
	}
}
