package window

// Demonstration of the open known finding for C10 (run with go test -overlay, see README in this directory).
// Two events of one key 10s apart with a 2s session timeout and nothing in between are kept in ONE open session
// when no expiry pass runs between the two Adds.

import (
	"testing"
	"time"

	"github.com/rulego/streamsql/types"
)

func TestZZSessionGapNotSplit(t *testing.T) {
	cfg := types.WindowConfig{
		Type:               "session",
		Params:             []interface{}{2 * time.Second},
		TsProp:             "ts",
		TimeCharacteristic: types.EventTime,
		MaxOutOfOrderness:  20 * time.Second,
		GroupByKeys:        []string{"k"},
	}
	sw, err := NewSessionWindow(cfg)
	if err != nil {
		t.Fatal(err)
	}
	base := time.Unix(1700000000, 0)
	sw.Add(map[string]interface{}{"k": "a", "ts": base})
	sw.Add(map[string]interface{}{"k": "a", "ts": base.Add(10 * time.Second)})
	sw.mu.Lock()
	defer sw.mu.Unlock()
	if len(sw.sessionMap) != 1 {
		t.Fatalf("sessions: %d", len(sw.sessionMap))
	}
	for _, s := range sw.sessionMap {
		if len(s.data) == 2 {
			t.Logf("GAP-NOT-SPLIT: one session holds both events: start=%v end=%v (timeout 2s, gap 10s)", s.slot.Start.Sub(base), s.slot.End.Sub(base))
			t.Fail()
		}
	}
}
