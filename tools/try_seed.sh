#!/bin/sh
# usage: try_seed.sh <patch.diff> <prop> [<prop>...]   -- applies the patch to /repo, runs the checks, reverts.
P=$1; shift
cd /repo || exit 2
if [ -n "$(git status --porcelain --untracked-files=no)" ]; then echo "REFUSING: /repo has uncommitted changes"; exit 4; fi
if ! git apply --check "$P" 2>/dev/null; then echo "PATCH DOES NOT APPLY: $P"; exit 3; fi
git apply "$P"
export GOFLAGS=-mod=mod GOPROXY=off GOSUMDB=off GOTOOLCHAIN=local
if ! go build ./... 2>/dev/null; then echo "BUILD FAILS with patch"; fi
for prop in "$@"; do
  (cd /verif && ./bin/govc check --property $prop --no-evidence --out /verif/out/seedrun/$prop 2>&1 | grep -E "^(VIOLATION|UNDECIDED|KNOWN|property)" | cut -c1-260)
done
git checkout -- . ; git status --short | grep -v '^??'
exit 0
