#!/bin/sh
# runs every seed of round N (/tmp/seedN/<P>/_seed/<k>/patch.diff) through the check of its own property, each in its
# own scratch worktree of /repo HEAD (so /repo is not touched), J at a time: usage: run_seeds_wt.sh N [J]
# -> one line per seed "P/k: violations=.. undecided=.. <first reports>" on stdout (same format as run_all_seeds.sh)
N=$1; J=${2:-5}
export GOFLAGS=-mod=mod GOPROXY=off GOSUMDB=off GOTOOLCHAIN=local
ROOT=/tmp/runwt$N
rm -rf $ROOT; mkdir -p $ROOT
ls -d /tmp/seed$N/C*/_seed/[12] > $ROOT/list.txt
cat > $ROOT/one.sh <<'EOF2'
#!/bin/sh
d=$1; ROOT=$2
P=$(echo $d | cut -d/ -f4); k=$(basename $d)
wt=$ROOT/wt_${P}_$k
git -C /repo worktree add --detach $wt HEAD >/dev/null 2>&1 || { echo "$P/$k: worktree failed"; exit 0; }
cd $wt
if ! git apply --check $d/patch.diff 2>/dev/null; then echo "$P/$k: NEEDS-REBASE"; cd /; git -C /repo worktree remove --force $wt; exit 0; fi
git apply $d/patch.diff
out=$(cd /verif && ./bin/govc check --property $P --repo $wt --no-evidence --out $ROOT/out_${P}_$k 2>&1 | grep -E "^(VIOLATION|UNDECIDED|property)")
nv=$(echo "$out" | grep -c "^VIOLATION")
nu=$(echo "$out" | grep -c "^UNDECIDED")
first=$(echo "$out" | grep "^VIOLATION" | head -2 | sed 's/.*replay=[^ ]*\/replay\/[^/]*\///' | tr '\n' ' ' | cut -c1-200)
echo "$P/$k: violations=$nv undecided=$nu $first"
cd /; git -C /repo worktree remove --force $wt; rm -rf $ROOT/out_${P}_$k
EOF2
chmod +x $ROOT/one.sh
cat $ROOT/list.txt | xargs -P $J -I{} $ROOT/one.sh {} $ROOT | sort
git -C /repo worktree prune
