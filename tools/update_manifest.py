#!/usr/bin/env python3
"""Keeps MANIFEST.json consistent: refreshes hooks.source_commits from /repo's "verif:" commits and
adds/updates check entries from tools/manifest_entries.json (id -> {level_text, level_note, category})."""
import json, subprocess, sys, os
root = os.path.dirname(os.path.dirname(os.path.abspath(__file__)))
m = json.load(open(os.path.join(root, 'MANIFEST.json')))
log = subprocess.run(['git', '-C', '/repo', 'log', '--format=%H %s'], capture_output=True, text=True).stdout.splitlines()
commits = [l.split(' ', 1)[0] for l in log if l.split(' ', 1)[1].startswith('verif:')]
m['hooks']['source_commits'] = list(reversed(commits))
ent = json.load(open(os.path.join(root, 'tools', 'manifest_entries.json')))
byid = {c['property_id']: c for c in m['checks']}
for pid, e in ent.items():
    c = byid.get(pid)
    if c is None:
        c = {"property_id": pid,
             "quick_cmd": f"./bin/govc check --property {pid} --tier quick",
             "thorough_cmd": f"./bin/govc check --property {pid} --tier thorough",
             "evidence_file": f"evidence/{pid}.json",
             "replay_cmd_template": "./bin/govc replay {path}",
             "engine": "govc",
             "technique": "contract-based deductive verification: weakest-precondition style VCs generated from go/ssa of the real functions, discharged by SMT (z3/cvc5)"}
        m['checks'].append(c)
    c['level_claimed'] = {"category": e.get('category', 'proof'), "text": e['level_text'], "design_ref": e.get('design_ref', f"DESIGN.md section 6 {pid}")}
    c['level_note'] = e['level_note']
    m['not_applicable'] = [n for n in m['not_applicable'] if n['property_id'] != pid]
for pid, reason in ent.get('_not_applicable', {}).items() if isinstance(ent.get('_not_applicable'), dict) else []:
    pass
m['checks'].sort(key=lambda c: c['property_id'])
json.dump(m, open(os.path.join(root, 'MANIFEST.json'), 'w'), indent=1)
print('checks:', ' '.join(c['property_id'] for c in m['checks']))
print('not_applicable:', ' '.join(n['property_id'] for n in m['not_applicable']))
