#!/bin/sh
# replays every kept seeded change (/verif/seeded/<property>/<round>_<n>/patch.diff) against the check of its property:
# applies the patch to /repo transiently, runs the quick check, reverts. One line per seed; exit 1 if any is missed.
cd /verif
miss=0
for d in seeded/C*/r*_*; do
  P=$(echo $d | cut -d/ -f2)
  [ -f $d/patch.diff ] || continue
  out=$(tools/try_seed.sh /verif/$d/patch.diff $P 2>&1)
  if echo "$out" | grep -q "PATCH DOES NOT APPLY"; then echo "$d: NEEDS-REBASE"; miss=1; continue; fi
  nv=$(echo "$out" | grep -c "^VIOLATION")
  first=$(echo "$out" | grep "^VIOLATION" | head -1 | sed 's/.*replay=\/verif\/out\/replay\/[^/]*\///' | cut -c1-140)
  [ "$nv" = 0 ] && miss=1
  echo "$d: violations=$nv $first"
done
exit $miss
