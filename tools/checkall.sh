#!/bin/sh
# runs every claimed check (quick tier); with PIN=1 re-pins the obligation lists
cd /verif
for p in $(python3 -c "import json;print(' '.join(c['property_id'] for c in json.load(open('MANIFEST.json'))['checks']))"); do
  if [ -n "$PIN" ]; then ./bin/govc check --property $p --pin 2>&1 | tail -1; else ./bin/govc check --property $p 2>&1 | grep -E "^(VIOLATION|UNDECIDED|property)" | cut -c1-220; fi
done
