#!/usr/bin/env python3
"""Every contract serves each property named in its props line and each property whose anchors.files include the source file
of the function under contract. This adds the missing property ids to the props lines of /verif/contracts/*.go (idempotent)."""
import re, json, glob, os
anch={}
for l in open('/verif/properties.jsonl'):
    p=json.loads(l)
    for f in p['anchors']['files']:
        anch.setdefault(f,set()).add(p['id'])
claimed={c['property_id'] for c in json.load(open('/verif/MANIFEST.json'))['checks']}
pkgdir={'streamsql':'.','aggregator':'aggregator','cep':'cep','condition':'condition','expr':'expr','functions':'functions','rsql':'rsql','stream':'stream','types':'types','cast':'utils/cast','fieldpath':'utils/fieldpath','window':'window','metrics':'metrics'}
added=0
for cf in sorted(glob.glob('/verif/contracts/*.go')):
    src=open(cf).read()
    pkg=re.search(r'^package (\w+)',src,re.M).group(1)
    d=pkgdir.get(pkg)
    if d is None: continue
    # index: function key -> file
    where={}
    for gf in glob.glob(os.path.join('/repo',d,'*.go')):
        if gf.endswith('_test.go') or gf.endswith('contracts_verif.go'): continue
        rel=os.path.relpath(gf,'/repo')
        for m in re.finditer(r'^func (\((\w+) (\*?)([\w\[\], ]+)\) )?(\w+)',open(gf).read(),re.M):
            if m.group(1):
                t=m.group(4); n=m.group(5)
                where['(*%s).%s'%(t,n) if m.group(3) else '(%s).%s'%(t,n)]=rel
            else:
                where[m.group(5)]=rel
    lines=src.split('\n')
    i=0
    while i<len(lines):
        m=re.match(r'^(func|extern)\s+(\S+)\s*$',lines[i])
        if m:
            key=m.group(2)
            base=key.split('$')[0]
            f=where.get(base)
            # find the props line of this contract
            j=i+1
            while j<len(lines) and lines[j].startswith('  '):
                pm=re.match(r'^  props (.*)$',lines[j])
                if pm and f:
                    have=pm.group(1).split()
                    want=[p for p in sorted(anch.get(f,set())&claimed) if p not in have]
                    if want:
                        lines[j]='  props '+' '.join(have+want); added+=len(want)
                    break
                j+=1
        i+=1
    open(cf,'w').write('\n'.join(lines))
print('added',added)
