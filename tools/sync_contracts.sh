#!/bin/sh
# Copies the contract files kept in /verif/contracts into the packages of /repo
# (comment-only files behind the build tag `verif`).
set -e
REPO=${1:-/repo}
for f in /verif/contracts/*.go; do
  name=$(basename "$f" .go)
  if [ "$name" = root ]; then dir="$REPO"; else dir="$REPO/$(echo "$name" | tr _ /)"; fi
  cp "$f" "$dir/contracts_verif.go"
done
