#!/bin/sh
# Copies the contract files kept in /verif/contracts into the packages of /repo
# (comment-only files behind the build tag `verif`).
set -e
REPO=${1:-/repo}
for f in /verif/contracts/*.go; do
  name=$(basename "$f" .go)
  if [ "$name" = root ]; then dir="$REPO"; else dir="$REPO/$(echo "$name" | tr _ /)"; fi
  cp "$f" "$dir/contracts_verif.go"
done
# a "*/" inside a contract line would end the comment block early; the guarded files must still build
if grep -n '\*/' /verif/contracts/*.go | grep -v ':@\*/$' | grep -q .; then echo "sync_contracts: '*/' inside a contract line (write \\x2a/ in string literals):"; grep -n '\*/' /verif/contracts/*.go | grep -v ':@\*/$' | cut -c1-120; fi
(cd /repo && GOFLAGS=-mod=mod GOPROXY=off GOSUMDB=off GOTOOLCHAIN=local go build -tags verif ./... 2>&1 | head -5)
