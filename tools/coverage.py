#!/usr/bin/env python3
"""Lists, per anchored source file, the functions of /repo and what kind of contract each has
(functional clauses / safety only / extern (trusted) / none), with body line counts. Development aid."""
import re, json, glob, os, sys
contracts={}
for f in glob.glob('/verif/contracts/*.go'):
    pkg=re.search(r'^package (\w+)',open(f).read(),re.M).group(1)
    cur=None
    for l in open(f):
        m=re.match(r'^(func|extern|pure|closure)\s+(\S+)',l)
        if m:
            cur=(pkg,m.group(2)); contracts[cur]={'kind':m.group(1),'clauses':0,'safety':False}
            continue
        if cur:
            s=l.strip()
            if re.match(r'(ensures|atreturn|before|assert|loop \d+ invariant|monitor|after)',s): contracts[cur]['clauses']+=1
            if s=='option safety': contracts[cur]['safety']=True
files=set()
for l in open('/verif/properties.jsonl'):
    files|=set(json.loads(l)['anchors']['files'])
tot={'func':0,'safety':0,'extern':0,'none':0}
lines={'func':0,'safety':0,'extern':0,'none':0}
out=[]
for f in sorted(files):
    src=open('/repo/'+f).read().split('\n')
    pkg=re.search(r'^package (\w+)','\n'.join(src),re.M).group(1)
    i=0
    while i<len(src):
        m=re.match(r'^func (\((\w+) (\*?)([\w\[\], ]+)\) )?(\w+)',src[i])
        if m:
            j=i
            while j<len(src) and not src[j].startswith('}') : j+=1
            n=j-i
            name=m.group(5)
            if m.group(1):
                t=m.group(4)
                key='(*%s).%s'%(t,name) if m.group(3) else '(%s).%s'%(t,name)
                keys=[key,'%s.%s'%(t,name),'(*%s).%s'%(t,name),'(%s).%s'%(t,name)]
            else: keys=[name]
            c=None
            for k in keys:
                if (pkg,k) in contracts: c=contracts[(pkg,k)];break
            if c is None: kind='none'
            elif c['kind']=='extern' or c['kind']=='pure': kind='extern'
            elif c['clauses']>0: kind='func'
            else: kind='safety'
            tot[kind]+=1; lines[kind]+=n
            out.append((f,keys[0],n,kind,c['clauses'] if c else 0))
            i=j
        i+=1
want=sys.argv[1] if len(sys.argv)>1 else None
for f,k,n,kind,cl in out:
    if want and want not in f: continue
    print(f"{f:40s} {k:60s} {n:4d} {kind:7s} {cl}")
print(tot, lines)
