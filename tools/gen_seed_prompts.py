#!/usr/bin/env python3
"""usage: gen_seed_prompts.py <round-number> [extra-seed-dir ...]
Creates /tmp/seed<N>/<P> (scratch worktree of /repo HEAD) and /tmp/seed<N>/<P>.prompt.txt for every claimed property.
The prompt holds the property's own JSON and a list of places earlier changes already hit (taken from the
summaries the earlier agents wrote, kept in /verif/seeded/<P>/*/meta.json and, for a round not yet archived,
<extra-seed-dir>/<P>/_seed/<k>/meta.json) -- nothing else from /verif."""
import json, os, subprocess, sys, glob
N = sys.argv[1]; extra = sys.argv[2:]
root = f'/tmp/seed{N}'
os.makedirs(root, exist_ok=True)
tmpl = open('/verif/tools/seed_prompt.tmpl').read()
props = {json.loads(l)['id']: json.loads(l) for l in open('/verif/properties.jsonl')}
claimed = [c['property_id'] for c in json.load(open('/verif/MANIFEST.json'))['checks']]
if os.environ.get('ONLY'): claimed = [p for p in claimed if p in os.environ['ONLY'].split()]  # ONLY="C04 C09": a partial round
for P in claimed:
    wt = f'{root}/{P}'
    if not os.path.isdir(wt):
        subprocess.run(['git', '-C', '/repo', 'worktree', 'add', '--detach', wt, 'HEAD'], check=True, capture_output=True)
    metas = sorted(glob.glob(f'/verif/seeded/{P}/*/meta.json'))
    for e in extra: metas += sorted(glob.glob(f'{e}/{P}/_seed/*/meta.json'))
    places = []
    for m in metas:
        try: s = json.load(open(m)).get('summary', '')
        except Exception: continue
        if s: places.append('  - ' + s[:260].replace('\n', ' '))
    t = tmpl.replace('__WT__', wt).replace('__PROP__', json.dumps(props[P], indent=1, ensure_ascii=False)).replace('__N__', '2')
    t += '\n\nNote: earlier work already produced changes at these places; choose DIFFERENT functions/mechanisms than these:\n' + '\n'.join(places)
    t += '\nAlso note that the suite has a few wall-clock-sensitive tests (e.g. TestStreamData, TestOverflowStrategies); if one of them fails, re-run that test alone before concluding your change broke it.\n'
    open(f'{root}/{P}.prompt.txt', 'w').write(t)
    print(P, len(places))
