#!/usr/bin/env python3
"""Copies the confirmed seeded changes into /verif/seeded/<prop>/<round>_<n>/ and writes RESULTS.md.
Inputs (scratch, outside /verif): seed dirs, rebased patches, confirmation results, detection results."""
import json, os, re, shutil, sys, glob
ROOT='/verif/seeded'
rounds=[('r1','/tmp/seed','/tmp/seedfix','/tmp/confirm/results.txt','/tmp/seedruns.txt'),
        ('r2','/tmp/seed2',None,'/tmp/confirm2/results.txt','/tmp/seedruns2.txt'),
        ('r3','/tmp/seed3',None,'/tmp/confirm3/results.txt','/tmp/seedruns3.txt'),
        ('r4','/tmp/seed4',None,'/tmp/confirm4/results.txt','/tmp/seedruns4.txt'),
        ('r5','/tmp/seed5',None,'/tmp/confirm5/results.txt','/tmp/seedruns5.txt'),
        ('r6','/tmp/seed6',None,'/tmp/confirm6/results.txt','/tmp/seedruns6.txt'),
        ('r7','/tmp/seed7',None,'/tmp/confirm7/results.txt','/tmp/seedruns7.txt'),
        ('r8','/tmp/seed8',None,'/tmp/confirm8/results.txt','/tmp/seedruns8.txt'),
        ('r9','/tmp/seed9',None,'/tmp/confirm9/results.txt','/tmp/seedruns9.txt'),
        ('r10','/tmp/seed10',None,'/tmp/confirm10/results.txt','/tmp/seedruns10.txt'),
        ('r11','/tmp/seed11',None,'/tmp/confirm11/results.txt','/tmp/seedruns11.txt'),
        ('r12','/tmp/seed12',None,'/tmp/confirm12/results.txt','/tmp/seedruns12.txt')]
# what I know about whether the obligation that catches a seed existed before I looked at the seed
AFTER={
 'r1':{'C15/1':'Flush contract written after the seed was seen','C15/2':'compileRepeat contract was planned, written after the seed was seen',
  'C09/1':'ownership obligation (own:) added to the engine after this seed was missed','C09/2':'bounded window_keys stand-in linked to C09 after the seed',
  'C16/2':'before-Lookup clause added after the seed was missed','C19/1':'drained-before-swap clause added after the seed was missed',
  'C20/2':'cache-key clauses added after the seed was missed','C10/2':'late-event-never-reaches-ingest clause added after the seed was seen',
  'C11/1':'ORDER BY direction clause written knowing the seed','C05/1':'splitter closure contract added after the seed was missed',
  'C05/2':'mixed-and-or clause added after the seed was missed','C06/1':'same clause as C05/2','C06/2':'round() contract written knowing the seed (the clause is the documented rule)',
  'C12/1':'bounded shape stand-in added after the seed was missed','C07/1':'bounded oracle added after the seed was missed (the oracle also found two real defects)',
  'C07/2':'HAVING part of the bounded oracle added after the seed was missed','C02/2':'caught at first run by an invariant; a sharper postcondition was added afterwards'},
 'r2':{}, 'r3':{}, 'r4':{}, 'r5':{}, 'r6':{}, 'r7':{}, 'r8':{}, 'r9':{}, 'r10':{}, 'r11':{}, 'r12':{}}
# rounds 2 and 3: what the checks said the first time they saw the seed, and what was written afterwards (kept in /verif)
PROV=json.load(open('/verif/seeded_provenance.json')) if os.path.exists('/verif/seeded_provenance.json') else {}
for rd in ('r2','r3','r4','r5','r6','r7','r8','r9','r10','r11','r12'):
    AFTER[rd].update(PROV.get(rd,{}).get('after',{}))
FIRST={rd:PROV.get(rd,{}).get('first_run',{}) for rd in ('r1','r2','r3','r4','r5','r6','r7','r8','r9','r10','r11','r12')}
lines=['# Seeded changes: what is kept here and which check catches what','',
 'Produced by fresh sub-agents that saw only one property and a scratch worktree (round 2: a worktree without the contract files).',
 'Confirmation = in a scratch worktree: the demonstration passes on the unchanged code, fails with the patch, and the full suite passes with the patch.',
 'Detection = `tools/try_seed.sh <patch> <property>` (applies the patch to /repo transiently, runs the quick check, reverts).','',
 '| seed | where | confirmed | first run (rounds 2-5) | check result now | first obligations reported | written after the seed was seen |','|---|---|---|---|---|---|---|']
_only=os.environ.get('ROUNDS','').split(',') if os.environ.get('ROUNDS') else None
for rd,seeddir,fixdir,conf,runs in rounds:
    if _only and rd not in _only: continue
    confd={}
    if os.path.exists(conf):
        for l in open(conf):
            m=re.match(r'(C\d\d)_(\d): (.*)',l)
            if m: confd[f'{m.group(1)}/{m.group(2)}']=m.group(3).strip()
    rund={}
    if os.path.exists(runs):
        for l in open(runs):
            m=re.match(r'(C\d\d)/(\d): (.*)',l)
            if m: rund[f'{m.group(1)}/{m.group(2)}']=m.group(3).strip()
    for pdir in sorted(glob.glob(seeddir+'/C??')):
        P=os.path.basename(pdir)
        for n in ('1','2','3'):
            sd=f'{pdir}/_seed/{n}'
            if not os.path.exists(sd+'/patch.diff'): continue
            src=sd
            rebased=False
            if fixdir and os.path.exists(f'{fixdir}/{P}_{n}/patch.diff'):
                src=f'{fixdir}/{P}_{n}'; rebased=True
            key=f'{P}/{n}'
            c=confd.get(key,'not confirmed')
            ok=('demo_clean_exit=0' in c and 'demo_patched_exit=1' in c and 'suite_exit=0' in c)
            dst=f'{ROOT}/{P}/{rd}_{n}'
            if not ok:
                lines.append(f'| {rd} {key} | – | NOT confirmed ({c}) | | not kept | | |')
                continue
            os.makedirs(dst,exist_ok=True)
            shutil.copy(src+'/patch.diff',dst+'/patch.diff')
            for f in glob.glob(sd+'/zz_seed*_test.go')+glob.glob(src+'/zz_seed*_test.go'):
                shutil.copy(f,dst+'/'+os.path.basename(f)+'.txt')  # .txt: must never be compiled as part of /verif
            meta=json.load(open(sd+'/meta.json'))
            meta.pop('suite_result',None)
            r=rund.get(key,'')
            caught=r.startswith('violations=') and not r.startswith('violations=0')
            meta.update({'round':rd,'rebased_onto_current_tree':rebased,'confirmation':c,'check_result':r,
                         'caught':caught,'contract_written_after_seed_was_seen':AFTER[rd].get(key,'no record: the catching obligation predates my look at this seed as far as the session log shows')})
            json.dump(meta,open(dst+'/meta.json','w'),indent=1)
            where=meta.get('summary','').split(':')[0][:70].replace('|','/')
            first=' '.join(re.findall(r'[\w#@.$()*\-~/]+\.json',r)[:2])[:110]
            meta['first_run']=FIRST[rd].get(key,'' if rd!='r1' else 'not recorded for round 1')
            json.dump(meta,open(dst+'/meta.json','w'),indent=1)
            lines.append(f"| {rd} {key} | {where} | yes{' (rebased)' if rebased else ''} | {FIRST[rd].get(key,'')[:60].replace('|','/')} | {'CAUGHT' if caught else 'MISSED'} | {first} | {AFTER[rd].get(key,'– (caught as the checks stood)' if rd!='r1' else 'not recorded otherwise')} |")
# summary per round
summ=['','## Summary','','| round | kept (confirmed) | reported by the current checks | reported on the first run, before any strengthening for that seed |','|---|---|---|---|']
for rd in ('r1','r2','r3','r4','r5','r6','r7','r8','r9','r10','r11','r12'):
    rows=[l for l in lines if l.startswith(f'| {rd} ')]
    kept=[l for l in rows if 'NOT confirmed' not in l]
    caught=[l for l in kept if '| CAUGHT |' in l]
    firsts=[l for l in kept if l.split('|')[4].strip().startswith('caught')]
    fr = 'not recorded (the checks were being written while these seeds came in)' if rd=='r1' else f'{len(firsts)}'
    summ.append(f'| {rd} | {len(kept)} | {len(caught)} | {fr} |')
if not _only:
    open(ROOT+'/RESULTS.md','w').write('\n'.join(lines+summ)+'\n')
print('\n'.join(lines[-45:]))
