#!/usr/bin/env python3
"""Writes /verif/seeded/RESULTS.md from the meta.json files kept under /verif/seeded/<property>/<round>_<n>/ (the scratch
directories the seeds came from are not needed)."""
import json, glob, os, re
ROOT='/verif/seeded'
lines=['# Seeded changes: what is kept here and which check catches what','',
 'Produced by fresh sub-agents that saw only one property and a scratch worktree (the worktree is a checkout of /repo; from round 9 on the first-run trial runs a frozen copy of the committed checks against a scratch worktree with the seed applied, tools/first_run.sh).',
 'Confirmation = in a scratch worktree: the demonstration passes on the unchanged code, fails with the patch, and the full suite passes with the patch.',
 'Detection = `tools/try_seed.sh <patch> <property>` (applies the patch to /repo transiently, runs the quick check, reverts); `tools/replay_seeded.sh` replays all of them from this directory.','',
 '| seed | where | confirmed | first run | check result now | first obligations reported | written after the seed was seen |','|---|---|---|---|---|---|---|']
rows=[]
for f in sorted(glob.glob(ROOT+'/C??/r*_?/meta.json')):
    m=json.load(open(f))
    P=f.split('/')[-3]; rd,n=f.split('/')[-2].split('_')
    rows.append((rd,P,n,m))
rows.sort(key=lambda r:(int(r[0][1:]),r[1],r[2]))
summ={}
for rd,P,n,m in rows:
    where=m.get('summary','').split(':')[0][:70].replace('|','/')
    first=str(m.get('first_run','')).replace('|','/')[:60]
    caught=m.get('caught',False)
    r=m.get('check_result','')
    obs=' '.join(re.findall(r'[\w#@.$()*\-~/]+\.json',r)[:2])[:110]
    after=str(m.get('contract_written_after_seed_was_seen','')).replace('|','/')
    lines.append(f"| {rd} {P}/{n} | {where} | yes{' (rebased)' if m.get('rebased_onto_current_tree') else ''} | {first} | {'CAUGHT' if caught else 'MISSED'} | {obs} | {after} |")
    s=summ.setdefault(rd,[0,0,0]); s[0]+=1; s[1]+=1 if caught else 0; s[2]+=1 if first.startswith('caught') else 0
lines+=['','## Summary','','| round | kept (confirmed) | reported by the current checks | reported on the first run, before any strengthening for that seed |','|---|---|---|---|']
for rd in sorted(summ,key=lambda x:int(x[1:])):
    k,c,f=summ[rd]
    lines.append(f"| {rd} | {k} | {c} | {'not recorded (the checks were being written while these seeds came in)' if rd=='r1' else f} |")
open(ROOT+'/RESULTS.md','w').write('\n'.join(lines)+'\n')
print('\n'.join(lines[-8:]))
