#!/bin/sh
# first-run trial of freshly seeded changes without touching /repo: each seed is applied in its own scratch worktree of
# /repo HEAD and the committed check of its property is run against that worktree.
# usage: first_run.sh <round-number> P [P ...]   -> appends "== P/k" blocks to /verif/seeded_round<N>_firstrun.txt
N=$1; shift
export GOFLAGS=-mod=mod GOPROXY=off GOSUMDB=off GOTOOLCHAIN=local
mkdir -p /tmp/first$N
for P in "$@"; do for k in 1 2; do
  d=/tmp/seed$N/$P/_seed/$k
  out=/tmp/first$N/${P}_$k.txt
  [ -f $d/patch.diff ] || { printf "== $P/$k\nNO PATCH\n" > $out; continue; }
  wt=/tmp/first$N/wt_${P}_$k
  git -C /repo worktree remove --force $wt 2>/dev/null
  git -C /repo worktree add --detach $wt ${BASE:-HEAD} >/dev/null 2>&1
  ( cd $wt && git apply $d/patch.diff ) || { printf "== $P/$k\nPATCH DOES NOT APPLY\n" > $out; git -C /repo worktree remove --force $wt; continue; }
  echo "== $P/$k" > $out
  ( cd ${VROOT:-/verif} && ${GOVC:-./bin/govc} check --property $P --repo $wt --no-evidence --out /tmp/first$N/out_${P}_$k 2>&1 | grep -E "^(VIOLATION|UNDECIDED|KNOWN-FINDING|property)" | sed "s#/tmp/first$N/out_${P}_$k#/verif/out#" >> $out )
  git -C /repo worktree remove --force $wt; rm -rf /tmp/first$N/out_${P}_$k
  cat $out >> /verif/seeded_round${N}_firstrun.txt
done; done
