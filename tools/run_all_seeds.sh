#!/bin/sh
# runs every seed through the check of its own property; prints one line per seed
cd /verif
SEEDS=${1:-/tmp/seed}   # /tmp/seed (round 1, rebased patches in /tmp/seedfix), /tmp/seed2, /tmp/seed3
for P in C01 C02 C03 C04 C05 C06 C07 C08 C09 C10 C11 C12 C13 C14 C15 C16 C17 C19 C20; do
  for i in 1 2; do
    patch=$SEEDS/$P/_seed/$i/patch.diff
    [ "$SEEDS" = /tmp/seed ] && [ -f /tmp/seedfix/${P}_$i/patch.diff ] && patch=/tmp/seedfix/${P}_$i/patch.diff
    [ -f $patch ] || continue
    out=$(tools/try_seed.sh $patch $P 2>&1)
    if echo "$out" | grep -q "PATCH DOES NOT APPLY"; then echo "$P/$i: NEEDS-REBASE"; continue; fi
    nv=$(echo "$out" | grep -c "^VIOLATION")
    nu=$(echo "$out" | grep -c "^UNDECIDED")
    first=$(echo "$out" | grep "^VIOLATION" | head -2 | sed 's/.*replay=\/verif\/out\/replay\/[^/]*\///' | tr '\n' ' ' | cut -c1-200)
    echo "$P/$i: violations=$nv undecided=$nu $first"
  done
done
