#!/bin/sh
# replays every kept seeded change in parallel, each in its own scratch worktree of /repo HEAD (so /repo itself is not
# touched): usage: replay_parallel.sh [jobs]  -> one line per seed on stdout; exit 1 if any is missed
J=${1:-6}
export GOFLAGS=-mod=mod GOPROXY=off GOSUMDB=off GOTOOLCHAIN=local
ROOT=/tmp/replaywt
rm -rf $ROOT; mkdir -p $ROOT
ls -d /verif/seeded/C*/r*_* > $ROOT/list.txt
cat > $ROOT/one.sh <<'EOS'
#!/bin/sh
d=$1
P=$(echo $d | cut -d/ -f4)
slot=$(echo "$d" | md5sum | cut -c1-8)
wt=/tmp/replaywt/wt_$slot
git -C /repo worktree add --detach $wt HEAD >/dev/null 2>&1 || { echo "$d: worktree failed"; exit 0; }
cd $wt
if ! git apply --check $d/patch.diff 2>/dev/null; then echo "$d: NEEDS-REBASE"; cd /; git -C /repo worktree remove --force $wt; exit 0; fi
git apply $d/patch.diff
out=$(cd /verif && ./bin/govc check --property $P --repo $wt --no-evidence --out /tmp/replaywt/out_$slot 2>&1 | grep -E "^(VIOLATION|UNDECIDED|property)")
nv=$(echo "$out" | grep -c "^VIOLATION")
first=$(echo "$out" | grep "^VIOLATION" | head -1 | sed 's/.*replay=\/verif\/out\/replay\/[^/]*\///' | cut -c1-140)
echo "$d: violations=$nv $first"
cd /; git -C /repo worktree remove --force $wt; rm -rf /tmp/replaywt/out_$slot
EOS
chmod +x $ROOT/one.sh
cat $ROOT/list.txt | xargs -P $J -L 1 $ROOT/one.sh | sort > $ROOT/results.txt
cat $ROOT/results.txt
git -C /repo worktree prune
if grep -q "violations=0\|NEEDS-REBASE\|worktree failed" $ROOT/results.txt; then exit 1; fi
exit 0
