#!/bin/sh
# usage: confirm_seed.sh <seed-dir> <label>  (seed-dir has patch.diff, meta.json, zz_seed*_test.go)
# Confirms in a scratch worktree of /repo HEAD: demo passes without the patch, fails with it; full suite passes with it.
SD=$1; L=$2
export GOFLAGS=-mod=mod GOPROXY=off GOSUMDB=off GOTOOLCHAIN=local
OUT=${OUT:-/tmp/confirm}
WT=$OUT/wt_$L
mkdir -p $OUT
git -C /repo worktree remove --force $WT 2>/dev/null
git -C /repo worktree add --detach $WT HEAD >/dev/null 2>&1 || { echo "$L: worktree failed"; exit 2; }
cd $WT
pkgdir=$(python3 -c "import json;print(json.load(open('$SD/meta.json')).get('demo_pkg_dir','.'))")
for f in $SD/zz_seed*_test.go; do cp $f $WT/$pkgdir/; done
run=$(python3 -c "import json;print(json.load(open('$SD/meta.json')).get('demo_run',''))")
[ -z "$run" ] && run="go test -vet=off -count=1 -run TestSeed ./$pkgdir/"
run=$(echo "$run" | sed 's/^export [^;&]*\(;\|&&\) *//; s/cd [^&;]*\(&&\|;\) *//g')
sh -c "$run" > $OUT/$L.clean.log 2>&1; clean=$?
if ! git apply --check $SD/patch.diff 2>/dev/null; then echo "$L: PATCH-DOES-NOT-APPLY clean_demo_exit=$clean"; git -C /repo worktree remove --force $WT; exit 3; fi
git apply $SD/patch.diff
go build ./... > $OUT/$L.build.log 2>&1; build=$?
sh -c "$run" > $OUT/$L.patched.log 2>&1; patched=$?
rm -f $WT/$pkgdir/zz_seed*_test.go
go test -vet=off -count=1 -timeout 25m ./... > $OUT/$L.suite.log 2>&1; suite=$?
echo "$L: build=$build demo_clean_exit=$clean demo_patched_exit=$patched suite_exit=$suite" | tee -a $OUT/results.txt
cd /; git -C /repo worktree remove --force $WT
