#!/usr/bin/env python3
"""Development aid: mutation testing of the contracts. For every function under a `func` contract, small mutants of its body
(relational / logical operator flips, continue -> break) are written into scratch copies of /repo and `govc verify` is run
on that function alone. A mutant that still verifies is a place where the contract says too little (or the mutant is
equivalent / irrelevant to the contract's properties): the list is reviewed by hand. Nothing here is part of the checks.
usage: muttest.py [workers] [max-mutants-per-function] [package-filter]"""
import re, glob, os, sys, subprocess, shutil, json, random, threading, queue
W=int(sys.argv[1]) if len(sys.argv)>1 else 6
MAXM=int(sys.argv[2]) if len(sys.argv)>2 else 10
FILT=sys.argv[3] if len(sys.argv)>3 else ''
ROOT='/tmp/mutwt'
env=dict(os.environ,GOFLAGS='-mod=mod',GOPROXY='off',GOSUMDB='off',GOTOOLCHAIN='local')
pkgdir={'streamsql':'.','aggregator':'aggregator','cep':'cep','condition':'condition','expr':'expr','functions':'functions','rsql':'rsql','stream':'stream','types':'types','cast':'utils/cast','fieldpath':'utils/fieldpath','window':'window','metrics':'metrics'}
subprocess.run(['/verif/tools/sync_contracts.sh'],capture_output=True)
shutil.rmtree(ROOT,ignore_errors=True); os.makedirs(ROOT)
for k in range(W):
    subprocess.run(['rsync','-a','--exclude','.git','/repo/',f'{ROOT}/{k}/'],check=True)
# contracted functions
funcs=[]
for f in sorted(glob.glob('/verif/contracts/*.go')):
    src=open(f).read()
    pkg=re.search(r'^package (\w+)',src,re.M).group(1)
    for m in re.finditer(r'^func (\S+)\n((?:  .*\n)+)',src,re.M):
        name=m.group(1)
        if '$' in name or name.startswith('iface.'): continue
        if 'option pure' in m.group(2) and 'ensures' not in m.group(2) and 'atreturn' not in m.group(2): continue
        funcs.append((pkg,name))
OPS=[(' <= ',' < '),(' < ',' <= '),(' >= ',' > '),(' > ',' >= '),(' == ',' != '),(' != ',' == '),(' && ',' || '),(' || ',' && '),('continue','break')]
jobs=[]
for pkg,name in funcs:
    d=pkgdir.get(pkg)
    if d is None or (FILT and FILT not in d and FILT!=pkg): continue
    m=re.match(r'\(\*?(\w+)\)\.(\w+)',name)
    pat = r'^func \(\w+ \*?%s\) %s\('%(m.group(1),m.group(2)) if m else r'^func %s\('%re.escape(name)
    for gf in glob.glob(os.path.join('/repo',d,'*.go')):
        if gf.endswith('_test.go') or 'contracts_verif' in gf: continue
        src=open(gf).read()
        mm=re.search(pat,src,re.M)
        if not mm: continue
        end=src.find('\n}\n',mm.start())
        if end<0: continue
        body=src[mm.start():end]
        muts=[]
        for a,b in OPS:
            for x in re.finditer(re.escape(a) if a!='continue' else r'\bcontinue\b',body):
                # skip occurrences inside string literals / comments (rough)
                ls=body.rfind('\n',0,x.start())+1
                line=body[ls:body.find('\n',x.start())]
                pre=body[ls:x.start()]
                if '//' in pre or pre.count('"')%2==1 or pre.count('`')%2==1: continue
                muts.append((x.start(),x.end(),b,a.strip()+'->'+b.strip(),src[:mm.start()].count('\n')+body[:x.start()].count('\n')+1))
        random.Random(hash(name)&0xffff).shuffle(muts)
        for (s0,e0,b,desc,line) in muts[:MAXM]:
            jobs.append((pkg,d,name,os.path.relpath(gf,'/repo'),mm.start()+s0,mm.start()+e0,b,desc,line))
        break
print('functions',len(funcs),'mutants',len(jobs),flush=True)
q=queue.Queue()
for j in jobs: q.put(j)
res=[]; lock=threading.Lock()
def worker(k):
    wt=f'{ROOT}/{k}'
    while True:
        try: j=q.get_nowait()
        except queue.Empty: return
        pkg,d,name,rel,s0,e0,b,desc,line=j
        p=os.path.join(wt,rel)
        orig=open(p).read()
        try:
            open(p,'w').write(orig[:s0]+b+orig[e0:])
            r=subprocess.run(['/verif/bin/govc','verify','--repo',wt,'--spec-dir','/verif/contracts','--out',f'{ROOT}/out{k}','--timeout','3000','--func',name,'./'+d],cwd=wt,env=env,capture_output=True,text=True,timeout=300)
            out=r.stdout+r.stderr
            if 'total obligations' not in out:
                st='nocompile'
            else:
                fails=[l for l in out.split('\n') if ' FAIL ' in l or 'ERROR' in l or 'UNDECIDED' in l]
                st='caught' if fails else 'SURVIVED'
        except Exception as ex:
            st='error:'+str(ex)[:40]
        finally:
            open(p,'w').write(orig)
        with lock:
            res.append((st,pkg,name,rel,line,desc))
            if len(res)%50==0: print(len(res),'/',len(jobs),flush=True)
ts=[threading.Thread(target=worker,args=(k,)) for k in range(W)]
for t in ts: t.start()
for t in ts: t.join()
from collections import Counter
c=Counter(r[0] for r in res)
print(dict(c))
os.makedirs('/verif/out',exist_ok=True)
with open('/verif/out/muttest_survivors.txt','w') as f:
    for r in sorted(res):
        if r[0]=='SURVIVED': f.write('%s %s %s:%d %s\n'%(r[1],r[2],r[3],r[4],r[5]))
print('survivors written to /verif/out/muttest_survivors.txt')
shutil.rmtree(ROOT,ignore_errors=True)
