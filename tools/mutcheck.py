#!/usr/bin/env python3
"""Development aid: apply one textual replacement to a file of /repo, run `govc verify` for the named functions, restore the file.
usage: mutcheck.py <file relative to /repo> <old> <new> <pkg dir> <func[,func]>"""
import sys, subprocess, os
f,old,new,pkg,fn=sys.argv[1:6]
p='/repo/'+f
src=open(p).read()
if src.count(old)!=1:
    print('replacement text occurs',src.count(old),'times'); sys.exit(2)
env=dict(os.environ,GOFLAGS='-mod=mod',GOPROXY='off',GOSUMDB='off',GOTOOLCHAIN='local')
try:
    open(p,'w').write(src.replace(old,new,1))
    r=subprocess.run(['/verif/bin/govc','verify','--spec-dir','/verif/contracts','--func',fn,'./'+pkg],cwd='/repo',env=env,capture_output=True,text=True)
    out=[l for l in (r.stdout+r.stderr).split('\n') if 'FAIL' in l or 'ERROR' in l or l.startswith('total') or 'UNDECIDED' in l]
    print('\n'.join(l[:230] for l in out[:12]))
finally:
    open(p,'w').write(src)
