//go:build verif

package functions

/*@
// The aggregate definitions are folds over the usable inputs (non-NULL, convertible by cast.ToFloat64E):
// New establishes the fold's initial state, Add is exactly one fold step, Result reads the fold's value.
recfunc fsum((a (Array Int Real)) (n Int)) Real := (ite (<= n 0) 0.0 (+ (@fsum a (- n 1)) (select a (- n 1))))
recfunc fsqdev((a (Array Int Real)) (n Int) (m Real)) Real := (ite (<= n 0) 0.0 (+ (@fsqdev a (- n 1) m) (* (- (select a (- n 1)) m) (- (select a (- n 1)) m))))

pred usable(v) := v != nil && second(cast.ToFloat64E(v)) == nil
pred num(v) := cast.ToFloat64E(v)

// ---- sum
func (*SumFunction).New
  props C03
  ensures hasType(result, *SumFunction) && fresh(unbox(result, *SumFunction))
  ensures starts-empty: unbox(result, *SumFunction).value == 0.0 && !unbox(result, *SumFunction).hasValues

func (*SumFunction).Add
  props C03
  modifies f.value, f.hasValues
  ensures usable-input-is-added: usable(value) ==> f.value == old(f.value) + cast.ToFloat64E(value) && f.hasValues
  ensures null-or-unconvertible-is-skipped: !usable(value) ==> f.value == old(f.value) && f.hasValues == old(f.hasValues)

func (*SumFunction).Result
  props C03
  ensures null-over-no-usable-input: !f.hasValues ==> result == nil
  ensures the-sum: f.hasValues ==> result == boxof(f.value, float64)

func (*SumFunction).Reset
  props C03
  modifies f.value, f.hasValues
  ensures no-state-leaks: f.value == 0.0 && !f.hasValues

// ---- avg
func (*AvgFunction).New
  props C03
  ensures hasType(result, *AvgFunction) && fresh(unbox(result, *AvgFunction))
  ensures starts-empty: unbox(result, *AvgFunction).sum == 0.0 && unbox(result, *AvgFunction).count == 0

func (*AvgFunction).Add
  props C03
  modifies f.sum, f.count
  ensures usable-input-is-added: usable(value) ==> f.sum == old(f.sum) + cast.ToFloat64E(value) && f.count == old(f.count) + 1
  ensures null-or-unconvertible-is-skipped: !usable(value) ==> f.sum == old(f.sum) && f.count == old(f.count)

func (*AvgFunction).Result
  props C03
  ensures null-over-no-usable-input: f.count == 0 ==> result == nil
  ensures the-mean: f.count != 0 ==> result == boxof(f.sum / float64(f.count), float64)

func (*AvgFunction).Reset
  props C03
  modifies f.sum, f.count
  ensures no-state-leaks: f.sum == 0.0 && f.count == 0

// ---- min / max
func (*MinFunction).New
  props C03
  ensures hasType(result, *MinFunction) && fresh(unbox(result, *MinFunction))
  ensures starts-empty: unbox(result, *MinFunction).first

func (*MinFunction).Add
  props C03
  modifies f.value, f.first
  ensures first-usable-input: usable(value) && old(f.first) ==> f.value == cast.ToFloat64E(value) && !f.first
  ensures smaller-input-replaces: usable(value) && !old(f.first) ==> !f.first && f.value == ite(cast.ToFloat64E(value) < old(f.value), cast.ToFloat64E(value), old(f.value))
  ensures null-or-unconvertible-is-skipped: !usable(value) ==> f.value == old(f.value) && f.first == old(f.first)

func (*MinFunction).Result
  props C03
  ensures null-over-no-usable-input: f.first ==> result == nil
  ensures the-minimum: !f.first ==> result == boxof(f.value, float64)

func (*MinFunction).Reset
  props C03
  modifies f.value, f.first
  ensures no-state-leaks: f.first

func (*MaxFunction).New
  props C03
  ensures hasType(result, *MaxFunction) && fresh(unbox(result, *MaxFunction))
  ensures starts-empty: unbox(result, *MaxFunction).first

func (*MaxFunction).Add
  props C03
  modifies f.value, f.first
  ensures first-usable-input: usable(value) && old(f.first) ==> f.value == cast.ToFloat64E(value) && !f.first
  ensures larger-input-replaces: usable(value) && !old(f.first) ==> !f.first && f.value == ite(cast.ToFloat64E(value) > old(f.value), cast.ToFloat64E(value), old(f.value))
  ensures null-or-unconvertible-is-skipped: !usable(value) ==> f.value == old(f.value) && f.first == old(f.first)

func (*MaxFunction).Result
  props C03
  ensures null-over-no-usable-input: f.first ==> result == nil
  ensures the-maximum: !f.first ==> result == boxof(f.value, float64)

func (*MaxFunction).Reset
  props C03
  modifies f.value, f.first
  ensures no-state-leaks: f.first

// ---- count
func (*CountFunction).New
  props C03
  ensures hasType(result, *CountFunction) && fresh(unbox(result, *CountFunction))
  ensures starts-empty: unbox(result, *CountFunction).count == 0

func (*CountFunction).Add
  props C03
  modifies f.count
  ensures non-null-counts: value != nil ==> f.count == old(f.count) + 1
  ensures null-is-skipped: value == nil ==> f.count == old(f.count)

func (*CountFunction).Result
  props C03
  ensures count-as-number: result == boxof(float64(f.count), float64)

func (*CountFunction).Reset
  props C03
  modifies f.count
  ensures no-state-leaks: f.count == 0

// ---- stddev (documented: population standard deviation)
func (*StdDevAggregatorFunction).Add
  props C03
  modifies f.values
  ensures usable-input-is-appended: second(cast.ToFloat64E(value)) == nil ==> len(f.values) == len(old(f.values)) + 1 && forall(i, 0, len(old(f.values)), f.values[i] == old(f.values)[i]) && f.values[len(old(f.values))] == cast.ToFloat64E(value)
  ensures null-or-unconvertible-is-skipped: !(second(cast.ToFloat64E(value)) == nil) ==> f.values == old(f.values)

func (*StdDevAggregatorFunction).Reset
  props C03
  modifies f.values
  ensures no-state-leaks: len(f.values) == 0

func (*StdDevAggregatorFunction).Result
  props C03
  ensures fewer-than-two-values: len(f.values) < 2 ==> result == boxof(0.0, float64)
  ensures population-standard-deviation: len(f.values) >= 2 ==> result == boxof(sqrt(fsqdev(arr(f.values), len(f.values), fsum(arr(f.values), len(f.values)) / float64(len(f.values))) / float64(len(f.values))), float64)
  ensures known-finding-pin-divides-by-n-minus-1: len(f.values) >= 2 ==> result == boxof(sqrt(fsqdev(arr(f.values), len(f.values), fsum(arr(f.values), len(f.values)) / float64(len(f.values))) / float64(len(f.values) - 1)), float64)
  loop 1 invariant sum == fsum(arr($s), $i) && $s == f.values
  loop 2 invariant variance == fsqdev(arr($s), $i, mean) && $s == f.values

// ---- stddevs (sample standard deviation)
func (*StdDevSAggregatorFunction).Add
  props C03
  modifies f.values
  ensures usable-input-is-appended: usable(value) ==> len(f.values) == len(old(f.values)) + 1 && forall(i, 0, len(old(f.values)), f.values[i] == old(f.values)[i]) && f.values[len(old(f.values))] == cast.ToFloat64E(value)
  ensures null-or-unconvertible-is-skipped: !(usable(value)) ==> f.values == old(f.values)

func (*StdDevSAggregatorFunction).Reset
  props C03
  modifies f.values
  ensures no-state-leaks: len(f.values) == 0

func (*StdDevSAggregatorFunction).Result
  props C03
  ensures fewer-than-two-values: len(f.values) < 2 ==> result == boxof(0.0, float64)
  ensures sample-standard-deviation: len(f.values) >= 2 ==> result == boxof(sqrt(fsqdev(arr(f.values), len(f.values), fsum(arr(f.values), len(f.values)) / float64(len(f.values))) / float64(len(f.values) - 1)), float64)
  loop 1 invariant sum == fsum(arr($s), $i) && $s == f.values
  loop 2 invariant variance == fsqdev(arr($s), $i, mean) && $s == f.values

// ---- var (population variance)
func (*VarAggregatorFunction).Add
  props C03
  modifies f.values
  ensures usable-input-is-appended: usable(value) ==> len(f.values) == len(old(f.values)) + 1 && forall(i, 0, len(old(f.values)), f.values[i] == old(f.values)[i]) && f.values[len(old(f.values))] == cast.ToFloat64E(value)
  ensures null-or-unconvertible-is-skipped: !(usable(value)) ==> f.values == old(f.values)

func (*VarAggregatorFunction).Reset
  props C03
  modifies f.values
  ensures no-state-leaks: len(f.values) == 0

func (*VarAggregatorFunction).Result
  props C03
  ensures no-values: len(f.values) < 1 ==> result == boxof(0.0, float64)
  ensures population-variance: len(f.values) >= 1 ==> result == boxof(fsqdev(arr(f.values), len(f.values), fsum(arr(f.values), len(f.values)) / float64(len(f.values))) / float64(len(f.values)), float64)
  loop 1 invariant sum == fsum(arr($s), $i) && $s == f.values
  loop 2 invariant variance == fsqdev(arr($s), $i, mean) && $s == f.values

// ---- vars (sample variance)
func (*VarSAggregatorFunction).Add
  props C03
  modifies f.values
  ensures usable-input-is-appended: usable(value) ==> len(f.values) == len(old(f.values)) + 1 && forall(i, 0, len(old(f.values)), f.values[i] == old(f.values)[i]) && f.values[len(old(f.values))] == cast.ToFloat64E(value)
  ensures null-or-unconvertible-is-skipped: !(usable(value)) ==> f.values == old(f.values)

func (*VarSAggregatorFunction).Reset
  props C03
  modifies f.values
  ensures no-state-leaks: len(f.values) == 0

func (*VarSAggregatorFunction).Result
  props C03
  ensures fewer-than-two-values: len(f.values) < 2 ==> result == boxof(0.0, float64)
  ensures sample-variance: len(f.values) >= 2 ==> result == boxof(fsqdev(arr(f.values), len(f.values), fsum(arr(f.values), len(f.values)) / float64(len(f.values))) / float64(len(f.values) - 1), float64)
  loop 1 invariant sum == fsum(arr($s), $i) && $s == f.values
  loop 2 invariant variance == fsqdev(arr($s), $i, mean) && $s == f.values

// ---- median
func (*MedianAggregatorFunction).Add
  props C03
  modifies f.values
  ensures usable-input-is-appended: second(cast.ToFloat64E(value)) == nil ==> len(f.values) == len(old(f.values)) + 1 && forall(i, 0, len(old(f.values)), f.values[i] == old(f.values)[i]) && f.values[len(old(f.values))] == cast.ToFloat64E(value)
  ensures null-or-unconvertible-is-skipped: !(second(cast.ToFloat64E(value)) == nil) ==> f.values == old(f.values)

func (*MedianAggregatorFunction).Reset
  props C03
  modifies f.values
  ensures no-state-leaks: len(f.values) == 0

func (*MedianAggregatorFunction).Result
  props C03
  ensures no-values: len(f.values) == 0 ==> result == boxof(0.0, float64)
  atreturn works-on-ordered-copy: len(f.values) > 0 ==> len(sorted) == len(f.values) && forall(i, 0, len(sorted) - 1, sorted[i] <= sorted[i+1])
  atreturn odd-count-middle-element: len(f.values) > 0 && len(f.values) % 2 == 1 ==> result == boxof(sorted[len(f.values) / 2], float64)
  atreturn even-count-mean-of-two-middles: len(f.values) > 0 && len(f.values) % 2 == 0 ==> result == boxof((sorted[len(f.values) / 2 - 1] + sorted[len(f.values) / 2]) / 2.0, float64)

// ---- percentile (rank floor(p*(n-1)) of the ordered values; rule read from the code)
// percentile(field, p): p is the second argument, a number of [0, 1] with both ends allowed (p = 1 is the maximum);
// anything else is refused, and a refused p is never silently replaced
func (*PercentileAggregatorFunction).Init
  props C03 C01 C04 C07 C09
  modifies f.p
  ensures a-number-within-zero-and-one-both-ends-included-becomes-the-rank: len(args) >= 2 && hasType(args[1], float64) && realval(args[1]) >= 0.0 && realval(args[1]) <= 1.0 ==> result == nil && f.p == realval(args[1])
  ensures a-whole-number-zero-or-one-is-taken-too: len(args) >= 2 && (hasType(args[1], int) || hasType(args[1], int64)) && intval(args[1]) >= 0 && intval(args[1]) <= 1 ==> result == nil && f.p == float64(intval(args[1]))
  ensures a-rank-outside-the-range-is-refused: len(args) >= 2 && hasType(args[1], float64) && (realval(args[1]) < 0.0 || realval(args[1]) > 1.0) ==> result != nil
  ensures without-a-rank-or-with-a-rank-that-is-no-number-it-is-refused: len(args) < 2 || (len(args) >= 2 && !hasType(args[1], float64) && !hasType(args[1], int) && !hasType(args[1], int64)) ==> result != nil

func (*PercentileAggregatorFunction).Add
  props C03
  modifies f.values
  ensures usable-input-is-appended: second(cast.ToFloat64E(value)) == nil ==> len(f.values) == len(old(f.values)) + 1 && forall(i, 0, len(old(f.values)), f.values[i] == old(f.values)[i]) && f.values[len(old(f.values))] == cast.ToFloat64E(value)
  ensures null-or-unconvertible-is-skipped: !(second(cast.ToFloat64E(value)) == nil) ==> f.values == old(f.values)

func (*PercentileAggregatorFunction).Reset
  props C03
  modifies f.values
  ensures no-state-leaks: len(f.values) == 0

func (*PercentileAggregatorFunction).Result
  props C03
  ensures no-values: len(f.values) == 0 ==> result == boxof(0.0, float64)
  atreturn works-on-ordered-copy: len(f.values) > 0 ==> len(sorted) == len(f.values) && forall(i, 0, len(sorted) - 1, sorted[i] <= sorted[i+1])
  atreturn picks-an-element-of-the-ordered-values: len(f.values) > 0 && 0.0 <= f.p && f.p <= 1.0 ==> 0 <= index && index < len(sorted) && result == boxof(sorted[index], float64)
  atreturn rank-rule: len(f.values) > 0 && 0.0 <= f.p && f.p <= 1.0 ==> float64(index) <= f.p * float64(len(f.values) - 1) && f.p * float64(len(f.values) - 1) < float64(index) + 1.0

// ---- collect / first_value / last_value
func (*CollectAggregatorFunction).Add
  props C03
  modifies f.values
  ensures every-input-kept-in-arrival-order: len(f.values) == len(old(f.values)) + 1 && forall(i, 0, len(old(f.values)), f.values[i] == old(f.values)[i]) && f.values[len(old(f.values))] == value

func (*CollectAggregatorFunction).Result
  props C03
  ensures result == boxof(f.values, []any)

func (*CollectAggregatorFunction).Reset
  props C03
  modifies f.values
  ensures no-state-leaks: len(f.values) == 0

func (*FirstValueFunction).Add
  props C03
  modifies f.firstValue, f.hasValue
  ensures first-row-wins-even-if-null: !old(f.hasValue) ==> f.firstValue == value && f.hasValue
  ensures later-rows-ignored: old(f.hasValue) ==> f.firstValue == old(f.firstValue) && f.hasValue

func (*FirstValueFunction).Result
  props C03
  ensures result == f.firstValue

func (*FirstValueFunction).Reset
  props C03
  modifies f.firstValue, f.hasValue
  ensures no-state-leaks: !f.hasValue && f.firstValue == nil

func (*LastValueAggregatorFunction).Add
  props C03
  modifies f.lastValue
  ensures last-row-wins-even-if-null: f.lastValue == value

func (*LastValueAggregatorFunction).Result
  props C03
  ensures result == f.lastValue

func (*LastValueAggregatorFunction).Reset
  props C03
  modifies f.lastValue
  ensures no-state-leaks: f.lastValue == nil

// ---- deduplicate
func (*DeduplicateAggregatorFunction).New
  props C03
  ensures hasType(result, *DeduplicateAggregatorFunction) && fresh(unbox(result, *DeduplicateAggregatorFunction))
  ensures own-empty-state: fresh(unbox(result, *DeduplicateAggregatorFunction).seen) && len(unbox(result, *DeduplicateAggregatorFunction).values) == 0 && forallv(k, "", !dom(unbox(result, *DeduplicateAggregatorFunction).seen, k))

func (*DeduplicateAggregatorFunction).Reset
  props C03
  modifies f.seen, f.values
  ensures no-state-leaks: fresh(f.seen) && len(f.values) == 0 && forallv(k, "", !dom(f.seen, k))

func (*ExprBridge).matchesLikePattern
  props C13 C06 C20
  option safety
  ensures empty-pattern-matches-only-empty-text: len(pattern) == 0 ==> (result <==> len(text) == 0)
  ensures empty-text-needs-all-percent: len(text) == 0 ==> (result <==> forall(i, 0, len(pattern), pattern[i] == 37))
  loop 1 invariant pi <= len(pattern)
  loop 2 invariant pi <= len(pattern)
  loop 1 invariant 0 <= ti && 0 <= pi && -1 <= starIdx && 0 <= matchIdx && matchIdx <= ti && starIdx < pi
  loop 1 invariant len(pattern) == 0 ==> pi == 0 && starIdx == -1 && ti == 0
  loop 1 invariant len(text) == 0 ==> pi == 0
  loop 2 invariant 0 <= pi && (len(text) == 0 ==> forall(i, 0, pi, pattern[i] == 37))

// ---- the per-row environment handed to expr-lang: every registered function is wrapped so that it runs on the row this
// environment was built for, and like_match takes the text first and the pattern second
func (*ExprBridge).CreateEnhancedExprEnvironment$1$1
  props C20 C06 C13
  modifies *
  before Execute a-wrapped-function-runs-on-the-row-its-environment-was-built-for-with-the-arguments-given: $arg1.Data == data && seqeq($arg2, params)

func (*ExprBridge).CreateEnhancedExprEnvironment$2
  props C13 C06 C20
  before matchesLikePattern like-match-takes-the-text-first-and-the-pattern-second: $arg1 == $p0 && $arg2 == $p1
  observe verdict := matchesLikePattern
  atreturn the-matchers-verdict-is-the-answer: result == $verdict

immutable ExprBridge: exprEnv

// the bridge is built with its environment map and never gets another one
func NewExprBridge
  props C20 C06 C13
  ensures a-new-bridge-with-an-environment-of-its-own: fresh(result) && result.exprEnv != nil && fresh(result.exprEnv)

pure github.com/expr-lang/expr.Function

// the registry's listing reads the registry and writes nothing
extern (*FunctionRegistry).ListAll
  props C20 C06 C13

// the maker of one wrapper: it only builds the closure
func (*ExprBridge).RegisterStreamSQLFunctionsToExpr$1
  props C20 C06 C13
  ensures true

// the environment of wrapped functions is one map shared by every query of the process: it is filled only while the
// bridge's lock is held for WRITING (a read lock would let two compilations write it at once)
func (*ExprBridge).RegisterStreamSQLFunctionsToExpr
  props C20 C06 C13
  acquires bridge.mutex
  modifies *
  loop 1 invariant the-shared-environment-is-written-only-while-the-bridges-lock-is-held-for-writing: wheld(bridge.mutex) && held(bridge.mutex)

// the functions offered to compiled conditions: each name, in lower and in upper case, is bound to a wrapper that runs
// that very function with the arguments given
func (*ExprBridge).RegisterStreamSQLFunctionsToExpr$1$1
  props C06 C13 C20
  modifies *
  before Execute a-registered-name-runs-its-own-function-with-the-arguments-given: seqeq($arg2, params)
  observe val := Execute
  observe err := Execute#1
  atreturn the-functions-answer-is-the-answer: result0 == $val && result1 == $err

// ---- what the rewriting steps look for
func (*ExprBridge).ContainsLikeOperator
  props C13 C06 C20
  option pure
  ensures a-like-keyword-between-blanks-in-any-letter-case: result <==> strings.Contains(strings.ToUpper(expression), " LIKE ")

func (*ExprBridge).ContainsIsNullOperator
  props C13 C06 C20
  option pure
  ensures is-null-or-is-not-null-after-a-blank-in-any-letter-case: result <==> strings.Contains(strings.ToUpper(expression), " IS NULL") || strings.Contains(strings.ToUpper(expression), " IS NOT NULL")

func (*ExprBridge).ContainsBacktickIdentifiers
  props C13 C06 C20
  option pure
  ensures any-backtick: result <==> strings.Contains(expression, "`")

extern (*ExprBridge).PreprocessLikeExpression
  props C13 C06 C20
  option pure

extern (*ExprBridge).PreprocessIsNullExpression
  props C13 C06 C20
  option pure

extern (*ExprBridge).PreprocessBacktickIdentifiers
  props C13 C06 C20
  option pure

// ---- expression bridge (expr-lang behind it): assumed contracts
func GetExprBridge
  props C04 C20 C05 C06 C13
  option pure

// the last resort of the bridge: operands are glued together as text only when one of them IS text (a quoted literal or
// a column holding text); NULL + 8 is not "8" -- it is left to the caller's NULL-aware engine
func (*ExprBridge).fallbackToCustomExpr
  props C03 C04 C20 C05 C06 C13
  option assumed_frame
  observe isCat := isStringConcatenationExpression
  count asked := isStringConcatenationExpression
  before isStringConcatenationExpression the-question-is-about-this-expression-and-this-row: $arg1 == expression && $arg2 == data
  before evaluateStringConcatenation operands-none-of-which-is-text-are-never-concatenated: $asked == 1 && $isCat && $arg1 == expression && $arg2 == data
  before evaluateSimpleNumericExpression the-numeric-reading-is-of-this-expression-on-this-row: $arg1 == expression && $arg2 == data

func (*ExprBridge).EvaluateExpression
  props C04 C20 C05 C06 C13
  option assumed_frame
  count evals := Eval
  observe runErr := Run#1
  atreturn [C06] a-cached-program-that-fails-on-this-row-is-not-the-answer-the-row-environment-is-tried: $runErr != nil ==> $evals >= 1

// ---- the process-wide function registry: a registration never takes a name (or alias, in whatever letter case it is
// written) that is already in use, so one instance's custom function cannot replace what other instances resolve
extern iface.Function.GetName
  props C20 C06
extern iface.Function.GetAliases
  props C20 C06
extern iface.Function.GetType
  props C20 C06
extern RegisterAggregatorAdapter
  props C20 C06 C03

// unregistering takes away the function's own name and aliases and nothing another function is registered under ... as long
// as the names are its own: only keys that held this very function may disappear
func (*FunctionRegistry).Unregister
  props C20 C06
  acquires r.mu
  modifies mapof(r.functions), mapof(r.categories), r.snapshot
  ensures an-unknown-name-changes-nothing: !old(dom(r.functions, strings.ToLower(name))) ==> !result && forallv(k, "", (dom(r.functions, k) <==> old(dom(r.functions, k))) && r.functions[k] == old(r.functions[k]))
  ensures nothing-is-added-or-rebound: forallv(k, "", dom(r.functions, k) ==> old(dom(r.functions, k)) && r.functions[k] == old(r.functions[k]))
  loop 1 invariant forallv(k, "", dom(r.functions, k) ==> old(dom(r.functions, k)) && r.functions[k] == old(r.functions[k])) && held(r.mu) && wheld(r.mu)
  loop 2 invariant forallv(k, "", dom(r.functions, k) ==> old(dom(r.functions, k)) && r.functions[k] == old(r.functions[k])) && held(r.mu) && wheld(r.mu)

func (*FunctionRegistry).Register
  props C20 C06
  acquires r.mu
  modifies mapof(r.functions), mapof(r.categories), r.snapshot
  ensures no-name-in-use-is-ever-rebound: forallv(k, "", old(dom(r.functions, k)) ==> dom(r.functions, k) && r.functions[k] == old(r.functions[k]))
  ensures a-refused-registration-changes-nothing: result != nil ==> forallv(k, "", dom(r.functions, k) <==> old(dom(r.functions, k)))
  loop 1 invariant forallv(k, "", (dom(r.functions, k) <==> old(dom(r.functions, k))) && r.functions[k] == old(r.functions[k])) && forall(j, 0, $i, !dom(r.functions, strings.ToLower(aliases[j]))) && !dom(r.functions, name) && held(r.mu) && wheld(r.mu)
  loop 2 invariant forall(j, 0, len(aliases), !old(dom(r.functions, strings.ToLower(aliases[j])))) && !old(dom(r.functions, name)) && held(r.mu) && wheld(r.mu)
  loop 2 invariant forallv(k, "", old(dom(r.functions, k)) ==> dom(r.functions, k) && r.functions[k] == old(r.functions[k]))

// ---- the element set behind array_distinct / union / intersect / except: NULL and every hashable value live in the map,
// the rest (slices, maps) in a list compared structurally; membership asks the same place that insertion fills
pure reflect.TypeOf
pred setHashable(e) := e == nil || reflect.TypeOf(e).Comparable()
pred setHas(s, e) := ite(setHashable(e), s.m[e], exists(j, 0, len(s.extra), reflect.DeepEqual(s.extra[j], e)))

func (*hashSafeSet).has
  props C06
  requires s != nil
  ensures membership-asks-where-insertion-puts: result <==> setHas(s, elem)
  loop 1 invariant forall(j, 0, $i, !reflect.DeepEqual(s.extra[j], elem))

func (*hashSafeSet).add
  props C06
  requires s != nil && s.m != nil
  modifies mapof(s.m), s.extra
  ensures reports-whether-new: result <==> !old(setHas(s, elem))
  ensures a-hashable-element-is-a-member-afterwards: setHashable(elem) ==> s.m[elem]
  ensures an-unhashable-element-is-appended-when-new: !setHashable(elem) && result ==> len(s.extra) == len(old(s.extra)) + 1 && s.extra[len(s.extra) - 1] == elem
  ensures nothing-else-changes: forallv(k, elem, k != elem ==> s.m[k] == old(s.m[k])) && forall(j, 0, len(old(s.extra)), s.extra[j] == old(s.extra)[j])
  loop 1 invariant forall(j, 0, $i, !reflect.DeepEqual(s.extra[j], elem)) && s.extra == old(s.extra)

// ---- accumulators reached through the aggregator interface (frame-only assumed contracts)
extern iface.LegacyAggregatorFunction.Add
  props C17
  modifies pkgheaps(functions)

// analytic state machines reached through their interfaces write their own fields (and maps/slices they allocate) only
extern iface.AnalyticState.Apply
  props C14
  modifies pkgheaps(functions)

extern iface.NamedRowState.ApplyNamed
  props C14
  modifies pkgheaps(functions)

extern iface.LegacyAggregatorFunction.Result
  props C17

extern iface.LegacyAggregatorFunction.New
  props C17

// ---- process-wide caches of the expression bridge: entries are keyed by the exact expression text
func (*ExprBridge).CompileExpressionWithStreamSQLFunctions
  props C20 C06 C13
  modifies *
  before Load program-cache-read-under-the-exact-expression-text: $arg1 == boxof(expression, string)
  before Store program-cache-written-under-the-exact-expression-text: $arg1 == boxof(expression, string)
  before Compile compiles-the-expression-it-was-given: $arg0 == expression

func (*ExprBridge).preprocessCached
  props C20 C06 C13
  modifies *
  before Load preprocess-cache-read-under-the-exact-expression-text: $arg1 == boxof(expression, string)
  before Store preprocess-cache-written-under-the-exact-expression-text: $arg1 == boxof(expression, string)

// ---------------------------------------------------------------- C14: analytic state machines
func analyticToInt
  props C14
  option pure
  ensures ints: hasType(v, int) || hasType(v, int32) || hasType(v, int64) ==> result1 && result0 == intval(v)
  ensures others: !(hasType(v, int) || hasType(v, int32) || hasType(v, int64) || hasType(v, float64)) ==> !result1

func AnalyticToBool
  props C14
  option pure
  ensures bools: hasType(v, bool) ==> result == boolval(v)
  ensures null-is-false: v == nil ==> !result
  ensures the-word-true-in-any-letter-case-is-true-any-other-text-false: hasType(v, string) ==> result == strings.EqualFold(strval(v), "true")
  ensures what-is-neither-a-boolean-nor-text-is-false: !hasType(v, bool) && !hasType(v, string) ==> !result

func toFloat64Generic
  props C14
  option pure
  ensures numbers: hasType(v, int) || hasType(v, int32) || hasType(v, int64) ==> result1 && result0 == float64(intval(v))
  ensures floats: hasType(v, float64) ==> result1 && result0 == realval(v)
  ensures others: !(hasType(v, int) || hasType(v, int32) || hasType(v, int64) || hasType(v, float64)) ==> !result1

pure reflect.DeepEqual

// value equality of the change detectors: NULL equals only NULL, two numbers compare by value whatever their types,
// everything else (a number against a non-number included) is structural equality
func analyticEqual
  props C14
  option pure
  ensures null-equals-only-null: a == nil || b == nil ==> (result <==> a == nil && b == nil)
  ensures two-numbers-compare-by-value-across-types: a != nil && b != nil && second(toFloat64Generic(a)) && second(toFloat64Generic(b)) ==> (result <==> toFloat64Generic(a) == toFloat64Generic(b))
  ensures anything-else-is-structural-equality: a != nil && b != nil && !(second(toFloat64Generic(a)) && second(toFloat64Generic(b))) ==> (result <==> reflect.DeepEqual(a, b))

pred lagOffset(args) := ite(len(args) >= 2 && second(analyticToInt(args[1])) && analyticToInt(args[1]) > 0, analyticToInt(args[1]), 1)
pred lagSkips(args) := ite(len(args) >= 4, AnalyticToBool(args[3]), true) && args[0] == nil

func (*lagState).Apply
  props C14
  modifies s.history
  ensures no-arguments-no-effect: len(args) == 0 ==> result == nil && s.history == old(s.history)
  ensures value-offset-rows-back: len(args) > 0 && len(old(s.history)) >= lagOffset(args) ==> result == old(s.history)[len(old(s.history)) - lagOffset(args)]
  ensures default-before-enough-history: len(args) >= 3 && len(old(s.history)) < lagOffset(args) ==> result == args[2]
  ensures null-without-default: len(args) > 0 && len(args) < 3 && len(old(s.history)) < lagOffset(args) ==> result == nil
  ensures skipped-null-leaves-history: len(args) > 0 && lagSkips(args) ==> s.history == old(s.history)
  ensures history-keeps-the-last-offset-values: len(args) > 0 && !lagSkips(args) ==> len(s.history) == ite(len(old(s.history)) + 1 > lagOffset(args), lagOffset(args), len(old(s.history)) + 1) && s.history[len(s.history) - 1] == args[0] && forall(i, 0, len(s.history) - 1, s.history[i] == old(s.history)[len(old(s.history)) - (len(s.history) - 1) + i])

func (*lagState).Reset
  props C14
  modifies s.history
  ensures len(s.history) == 0

func (*latestState).Apply
  props C14
  modifies s.latest, s.hasVal
  ensures non-null-input-becomes-latest: len(args) > 0 && args[0] != nil ==> s.latest == args[0] && s.hasVal && result == args[0]
  ensures null-input-keeps-latest: !(len(args) > 0 && args[0] != nil) ==> s.latest == old(s.latest) && s.hasVal == old(s.hasVal)
  ensures latest-so-far: !(len(args) > 0 && args[0] != nil) && old(s.hasVal) ==> result == old(s.latest)
  ensures default-before-any-value: !(len(args) > 0 && args[0] != nil) && !old(s.hasVal) ==> result == ite(len(args) >= 2, args[1], nil)

func (*latestState).Reset
  props C14
  modifies s.latest, s.hasVal
  ensures !s.hasVal && s.latest == nil

// had_changed: values are args[1:], args[0] is ignoreNull. hcKeeps(args, j): column j is an ignored NULL on this row.
pred hcIgnore(args) := len(args) > 0 && AnalyticToBool(args[0])
pred hcKeeps(args, j) := hcIgnore(args) && args[j + 1] == nil

func (*hadChangedState).Apply
  props C14
  modifies s.first, s.prev
  ensures first-row-is-reported-and-becomes-the-baseline: !old(s.first) ==> isBool(result) && boolval(result) && s.first && len(s.prev) == ite(len(args) > 0, len(args) - 1, 0) && forall(j, 0, len(s.prev), s.prev[j] == args[j + 1])
  ensures every-column-gets-its-next-baseline: old(s.first) ==> s.first && len(s.prev) == ite(len(args) > 0, len(args) - 1, 0) && forall(j, 0, len(s.prev), s.prev[j] == ite(hcKeeps(args, j), ite(j < len(old(s.prev)), old(s.prev)[j], nil), args[j + 1]))
  ensures changed-iff-some-compared-column-differs-from-its-baseline: old(s.first) ==> isBool(result) && (boolval(result) <==> exists(j, 0, ite(len(args) > 0, len(args) - 1, 0), !hcKeeps(args, j) && (j >= len(old(s.prev)) || !analyticEqual(old(s.prev)[j], args[j + 1]))))
  loop 1 invariant len(newPrev) == len(values) && len(values) == ite(len(args) > 0, len(args) - 1, 0) && s.prev == old(s.prev) && s.first
  loop 1 invariant forall(j, 0, len(values), values[j] == args[j + 1])
  loop 1 invariant forall(j, 0, $i, newPrev[j] == ite(hcKeeps(args, j), ite(j < len(old(s.prev)), old(s.prev)[j], nil), args[j + 1]))
  loop 1 invariant forall(j, $i, len(values), newPrev[j] == nil)
  loop 1 invariant changed <==> exists(j, 0, $i, !hcKeeps(args, j) && (j >= len(old(s.prev)) || !analyticEqual(old(s.prev)[j], args[j + 1])))

// had_changed('*'): columns compared by name; a column that is an ignored NULL on this row keeps its baseline if it has one,
// a column absent from the row loses it; a change is a taken column that is new or differs, or a vanished column whose
// baseline is not an ignored NULL
pred hnChanged(ign, cols, prev, k) := (ccTaken(ign, cols, k) && (!dom(prev, k) || !analyticEqual(prev[k], cols[k]))) || (dom(prev, k) && !dom(cols, k) && !(ign && prev[k] == nil))

func (*hadChangedState).ApplyNamed
  props C14
  modifies s.firstNamed, s.prevNamed
  ensures first-row-is-reported-and-becomes-the-baseline: !old(s.firstNamed) ==> isBool(result) && boolval(result) && s.firstNamed && fresh(s.prevNamed) && forallv(k, "", (dom(s.prevNamed, k) <==> ccTaken(ignoreNull, cols, k)) && (dom(s.prevNamed, k) ==> s.prevNamed[k] == cols[k]))
  ensures every-column-keeps-or-renews-its-own-baseline: old(s.firstNamed) ==> s.firstNamed && fresh(s.prevNamed) && forallv(k, "", (dom(s.prevNamed, k) <==> dom(cols, k) && (ccTaken(ignoreNull, cols, k) || old(dom(s.prevNamed, k)))) && (dom(s.prevNamed, k) ==> s.prevNamed[k] == ite(ccTaken(ignoreNull, cols, k), cols[k], old(s.prevNamed[k]))))
  ensures changed-iff-some-column-differs-appears-or-vanishes: old(s.firstNamed) ==> isBool(result) && (boolval(result) <==> existsv(k, "", hnChanged(ignoreNull, cols, old(s.prevNamed), k)))
  loop 1 invariant s.firstNamed && fresh(s.prevNamed) && forallv(k, "", (dom(s.prevNamed, k) <==> $visited[k] && ccTaken(ignoreNull, cols, k)) && (dom(s.prevNamed, k) ==> s.prevNamed[k] == cols[k]))
  loop 2 invariant s.firstNamed && s.prevNamed == old(s.prevNamed)
  loop 2 invariant changed <==> existsv(k, "", $visited[k] && ccTaken(ignoreNull, cols, k) && (!dom(s.prevNamed, k) || !analyticEqual(s.prevNamed[k], cols[k])))
  loop 3 invariant s.firstNamed && s.prevNamed == old(s.prevNamed)
  loop 3 invariant changed <==> existsv(k, "", ccTaken(ignoreNull, cols, k) && (!dom(s.prevNamed, k) || !analyticEqual(s.prevNamed[k], cols[k]))) || existsv(k, "", $visited[k] && dom(s.prevNamed, k) && !dom(cols, k) && !(ignoreNull && s.prevNamed[k] == nil))
  loop 4 invariant s.firstNamed && s.prevNamed == old(s.prevNamed) && fresh(next)
  loop 4 invariant changed <==> existsv(k, "", hnChanged(ignoreNull, cols, s.prevNamed, k))
  loop 4 invariant forallv(k, "", (dom(next, k) <==> $visited[k] && dom(cols, k) && (ccTaken(ignoreNull, cols, k) || dom(s.prevNamed, k))) && (dom(next, k) ==> next[k] == ite(ccTaken(ignoreNull, cols, k), cols[k], s.prevNamed[k])))

func (*changedColState).Apply
  props C14
  modifies s.prev, s.hasPrev
  ensures ignored-null-changes-nothing: len(args) >= 1 && AnalyticToBool(args[0]) && (len(args) < 2 || args[1] == nil) ==> result == nil && s.prev == old(s.prev) && s.hasPrev == old(s.hasPrev)
  ensures first-or-changed-value-is-reported: !(len(args) >= 1 && AnalyticToBool(args[0]) && (len(args) < 2 || args[1] == nil)) ==> s.hasPrev && s.prev == ite(len(args) >= 2, args[1], nil) && result == ite(!old(s.hasPrev) || !analyticEqual(old(s.prev), ite(len(args) >= 2, args[1], nil)), ite(len(args) >= 2, args[1], nil), nil)

func (*changedColState).Reset
  props C14
  modifies s.prev, s.hasPrev
  ensures !s.hasPrev && s.prev == nil

// changed_cols: per-column baselines; a column that is an ignored NULL on this row keeps its baseline
pred ccTaken(ign, cols, k) := dom(cols, k) && !(ign && cols[k] == nil)

func (*changedColsState).ApplyColumns
  props C14
  modifies s.prev, mapof(s.prev)
  ensures every-column-keeps-or-renews-its-own-baseline: s.prev != nil && forallv(k, "", (dom(s.prev, k) <==> old(dom(s.prev, k)) || ccTaken(ignoreNull, cols, k)) && (dom(s.prev, k) ==> s.prev[k] == ite(ccTaken(ignoreNull, cols, k), cols[k], old(s.prev[k]))))
  loop 1 invariant s.prev != nil && (old(s.prev) != nil ==> s.prev == old(s.prev)) && (old(s.prev) == nil ==> fresh(s.prev))
  loop 1 invariant forallv(k, "", (dom(s.prev, k) <==> old(dom(s.prev, k)) || ($visited[k] && ccTaken(ignoreNull, cols, k))) && (dom(s.prev, k) ==> s.prev[k] == ite($visited[k] && ccTaken(ignoreNull, cols, k), cols[k], old(s.prev[k]))))

func (*accState).resetState
  props C14
  modifies s.sum, s.count, s.num, s.hasNum, s.started
  ensures everything-cleared: s.sum == 0.0 && s.count == 0 && s.num == 0.0 && !s.hasNum && !s.started

func (*accState).result
  props C14
  ensures acc-sum: s.kind == "acc_sum" ==> result == boxof(s.sum, float64)
  ensures acc-count: s.kind == "acc_count" ==> result == boxof(s.count, int64)
  ensures acc-avg: s.kind == "acc_avg" ==> result == ite(s.count == 0, nil, boxof(s.sum / float64(s.count), float64))
  ensures acc-max-min: s.kind == "acc_max" || s.kind == "acc_min" ==> result == ite(s.hasNum, boxof(s.num, float64), nil)

func (*accState).Apply
  props C14
  modifies s.sum, s.count, s.num, s.hasNum, s.started
  ensures reset-argument-clears-the-accumulation: len(args) >= 3 && AnalyticToBool(args[2]) ==> s.sum == 0.0 && s.count == 0 && s.num == 0.0 && !s.hasNum && !s.started
  ensures not-started-rows-are-not-counted: !(len(args) >= 3 && AnalyticToBool(args[2])) && len(args) >= 2 && !AnalyticToBool(args[1]) && !old(s.started) ==> s.sum == old(s.sum) && s.count == old(s.count) && s.num == old(s.num) && s.hasNum == old(s.hasNum) && !s.started
  ensures numeric-input-accumulates: !(len(args) >= 3 && AnalyticToBool(args[2])) && !(len(args) >= 2 && !AnalyticToBool(args[1]) && !old(s.started)) && len(args) > 0 && second(toFloat64Generic(args[0])) ==> s.count == old(s.count) + 1 && s.hasNum && (s.kind == "acc_sum" || s.kind == "acc_avg" ==> s.sum == old(s.sum) + toFloat64Generic(args[0])) && (s.kind == "acc_max" ==> s.num == ite(!old(s.hasNum) || toFloat64Generic(args[0]) > old(s.num), toFloat64Generic(args[0]), old(s.num))) && (s.kind == "acc_min" ==> s.num == ite(!old(s.hasNum) || toFloat64Generic(args[0]) < old(s.num), toFloat64Generic(args[0]), old(s.num)))
  ensures null-input-is-skipped: !(len(args) >= 3 && AnalyticToBool(args[2])) && len(args) > 0 && args[0] == nil ==> s.sum == old(s.sum) && s.count == old(s.count) && s.num == old(s.num) && s.hasNum == old(s.hasNum)
  ensures once-started-the-accumulation-stays-started-until-a-reset: !(len(args) >= 3 && AnalyticToBool(args[2])) ==> (s.started <==> old(s.started) || (len(args) >= 2 && AnalyticToBool(args[1])))

func (*accState).Reset
  props C14
  modifies s.kind, s.sum, s.count, s.num, s.hasNum, s.started
  ensures keeps-only-the-kind: s.kind == old(s.kind) && s.sum == 0.0 && s.count == 0 && !s.hasNum && !s.started
@*/

/*@
// ---------------------------------------------------------------- C06: built-in scalar functions never panic on validated arguments
pred halfAway(x) := ite(x >= 0.0, floor(x + 0.5), 0.0 - floor(0.0 - x + 0.5))

func (*AbsFunction).Execute
  props C06
  option safety
  requires validated-arguments: f != nil && len(args) >= 1 && len(args) <= 1
  ensures absolute-value: second(cast.ToFloat64E(args[0])) == nil ==> result1 == nil && result0 == boxof(ite(cast.ToFloat64E(args[0]) >= 0.0, cast.ToFloat64E(args[0]), 0.0 - cast.ToFloat64E(args[0])), float64)
  ensures non-numeric-argument-is-an-error-not-a-panic: !(second(cast.ToFloat64E(args[0])) == nil) ==> result1 != nil && result0 == nil
  ensures an-argument-that-cannot-be-converted-is-an-error-0: second(cast.ToFloat64E(args[0])) != nil ==> result1 != nil && result0 == nil
  ensures the-absolute-value-of-the-number: second(cast.ToFloat64E(args[0])) == nil ==> result1 == nil && result0 == boxof(ite(cast.ToFloat64E(args[0]) < 0.0, -cast.ToFloat64E(args[0]), cast.ToFloat64E(args[0])), float64)

func (*SqrtFunction).Execute
  props C06
  option safety
  requires validated-arguments: f != nil && len(args) >= 1 && len(args) <= 1
  ensures square-root-of-a-non-negative-number: second(cast.ToFloat64E(args[0])) == nil && cast.ToFloat64E(args[0]) >= 0.0 ==> result1 == nil && result0 == boxof(sqrt(cast.ToFloat64E(args[0])), float64)
  ensures negative-argument-is-an-error-not-a-panic: second(cast.ToFloat64E(args[0])) == nil && cast.ToFloat64E(args[0]) < 0.0 ==> result1 != nil && result0 == nil
  ensures non-numeric-argument-is-an-error-not-a-panic: !(second(cast.ToFloat64E(args[0])) == nil) ==> result1 != nil && result0 == nil
  ensures an-argument-that-cannot-be-converted-is-an-error-0: second(cast.ToFloat64E(args[0])) != nil ==> result1 != nil && result0 == nil
  ensures a-negative-number-has-no-root: second(cast.ToFloat64E(args[0])) == nil && cast.ToFloat64E(args[0]) < 0.0 ==> result1 != nil
  ensures the-root-of-a-number-that-is-not-negative: second(cast.ToFloat64E(args[0])) == nil && cast.ToFloat64E(args[0]) >= 0.0 ==> result1 == nil && result0 == boxof(sqrt(cast.ToFloat64E(args[0])), float64)

func (*AcosFunction).Execute
  props C06
  option safety
  requires validated-arguments: f != nil && len(args) >= 1 && len(args) <= 1
  modifies *
  ensures an-argument-that-cannot-be-converted-is-an-error-0: second(cast.ToFloat64E(args[0])) != nil ==> result1 != nil && result0 == nil

func (*AsinFunction).Execute
  props C06
  option safety
  requires validated-arguments: f != nil && len(args) >= 1 && len(args) <= 1
  modifies *
  ensures an-argument-that-cannot-be-converted-is-an-error-0: second(cast.ToFloat64E(args[0])) != nil ==> result1 != nil && result0 == nil

func (*AtanFunction).Execute
  props C06
  option safety
  requires validated-arguments: f != nil && len(args) >= 1 && len(args) <= 1
  modifies *
  ensures an-argument-that-cannot-be-converted-is-an-error-0: second(cast.ToFloat64E(args[0])) != nil ==> result1 != nil && result0 == nil

func (*Atan2Function).Execute
  props C06
  option safety
  requires validated-arguments: f != nil && len(args) >= 2 && len(args) <= 2
  modifies *
  ensures an-argument-that-cannot-be-converted-is-an-error-0: second(cast.ToFloat64E(args[0])) != nil ==> result1 != nil && result0 == nil
  ensures an-argument-that-cannot-be-converted-is-an-error-1: second(cast.ToFloat64E(args[0])) == nil && second(cast.ToFloat64E(args[1])) != nil ==> result1 != nil && result0 == nil

func (*BitAndFunction).Execute
  props C06
  option safety
  requires validated-arguments: f != nil && len(args) >= 2 && len(args) <= 2
  modifies *
  ensures an-argument-that-cannot-be-converted-is-an-error-0: second(cast.ToInt64E(args[0])) != nil ==> result1 != nil && result0 == nil
  ensures an-argument-that-cannot-be-converted-is-an-error-1: second(cast.ToInt64E(args[0])) == nil && second(cast.ToInt64E(args[1])) != nil ==> result1 != nil && result0 == nil

func (*BitOrFunction).Execute
  props C06
  option safety
  requires validated-arguments: f != nil && len(args) >= 2 && len(args) <= 2
  modifies *
  ensures an-argument-that-cannot-be-converted-is-an-error-0: second(cast.ToInt64E(args[0])) != nil ==> result1 != nil && result0 == nil
  ensures an-argument-that-cannot-be-converted-is-an-error-1: second(cast.ToInt64E(args[0])) == nil && second(cast.ToInt64E(args[1])) != nil ==> result1 != nil && result0 == nil

func (*BitXorFunction).Execute
  props C06
  option safety
  requires validated-arguments: f != nil && len(args) >= 2 && len(args) <= 2
  modifies *
  ensures an-argument-that-cannot-be-converted-is-an-error-0: second(cast.ToInt64E(args[0])) != nil ==> result1 != nil && result0 == nil
  ensures an-argument-that-cannot-be-converted-is-an-error-1: second(cast.ToInt64E(args[0])) == nil && second(cast.ToInt64E(args[1])) != nil ==> result1 != nil && result0 == nil

func (*BitNotFunction).Execute
  props C06
  option safety
  requires validated-arguments: f != nil && len(args) >= 1 && len(args) <= 1
  modifies *
  ensures an-argument-that-cannot-be-converted-is-an-error-0: second(cast.ToInt64E(args[0])) != nil ==> result1 != nil && result0 == nil

func (*CosFunction).Execute
  props C06
  option safety
  requires validated-arguments: f != nil && len(args) >= 1 && len(args) <= 1
  modifies *
  ensures an-argument-that-cannot-be-converted-is-an-error-0: second(cast.ToFloat64E(args[0])) != nil ==> result1 != nil && result0 == nil

func (*CoshFunction).Execute
  props C06
  option safety
  requires validated-arguments: f != nil && len(args) >= 1 && len(args) <= 1
  modifies *
  ensures an-argument-that-cannot-be-converted-is-an-error-0: second(cast.ToFloat64E(args[0])) != nil ==> result1 != nil && result0 == nil

func (*ExpFunction).Execute
  props C06
  option safety
  requires validated-arguments: f != nil && len(args) >= 1 && len(args) <= 1
  modifies *
  ensures an-argument-that-cannot-be-converted-is-an-error-0: second(cast.ToFloat64E(args[0])) != nil ==> result1 != nil && result0 == nil

func (*FloorFunction).Execute
  props C06
  option safety
  requires validated-arguments: f != nil && len(args) >= 1 && len(args) <= 1
  ensures largest-integer-not-above: second(cast.ToFloat64E(args[0])) == nil ==> result1 == nil && result0 == boxof(floor(cast.ToFloat64E(args[0])), float64)
  ensures non-numeric-argument-is-an-error-not-a-panic: !(second(cast.ToFloat64E(args[0])) == nil) ==> result1 != nil && result0 == nil
  ensures an-argument-that-cannot-be-converted-is-an-error-0: second(cast.ToFloat64E(args[0])) != nil ==> result1 != nil && result0 == nil
  ensures the-greatest-integer-not-above: second(cast.ToFloat64E(args[0])) == nil ==> result1 == nil && result0 == boxof(floor(cast.ToFloat64E(args[0])), float64)

func (*LnFunction).Execute
  props C06
  option safety
  requires validated-arguments: f != nil && len(args) >= 1 && len(args) <= 1
  modifies *
  ensures an-argument-that-cannot-be-converted-is-an-error-0: second(cast.ToFloat64E(args[0])) != nil ==> result1 != nil && result0 == nil

func (*LogFunction).Execute
  props C06
  option safety
  requires validated-arguments: f != nil && len(args) >= 1 && len(args) <= 1
  modifies *
  ensures an-argument-that-cannot-be-converted-is-an-error-0: second(cast.ToFloat64E(args[0])) != nil ==> result1 != nil && result0 == nil

func (*Log10Function).Execute
  props C06
  option safety
  requires validated-arguments: f != nil && len(args) >= 1 && len(args) <= 1
  modifies *
  ensures an-argument-that-cannot-be-converted-is-an-error-0: second(cast.ToFloat64E(args[0])) != nil ==> result1 != nil && result0 == nil

func (*Log2Function).Execute
  props C06
  option safety
  requires validated-arguments: f != nil && len(args) >= 1 && len(args) <= 1
  modifies *
  ensures an-argument-that-cannot-be-converted-is-an-error-0: second(cast.ToFloat64E(args[0])) != nil ==> result1 != nil && result0 == nil

func (*ModFunction).Execute
  props C06
  option safety
  requires validated-arguments: f != nil && len(args) >= 2 && len(args) <= 2
  modifies *
  ensures an-argument-that-cannot-be-converted-is-an-error-0: second(cast.ToFloat64E(args[0])) != nil ==> result1 != nil && result0 == nil
  ensures an-argument-that-cannot-be-converted-is-an-error-1: second(cast.ToFloat64E(args[0])) == nil && second(cast.ToFloat64E(args[1])) != nil ==> result1 != nil && result0 == nil
  ensures no-remainder-by-zero: second(cast.ToFloat64E(args[0])) == nil && second(cast.ToFloat64E(args[1])) == nil && cast.ToFloat64E(args[1]) == 0.0 ==> result1 != nil

func (*RandFunction).Execute
  props C06
  option safety
  requires validated-arguments: f != nil && len(args) >= 0 && len(args) <= 0
  modifies *

func (*RoundFunction).Execute
  props C06
  option safety
  requires validated-arguments: f != nil && len(args) >= 1 && len(args) <= 2
  ensures null-in-null-out: args[0] == nil ==> result0 == nil && result1 == nil
  ensures one-argument-rounds-half-away-from-zero: args[0] != nil && len(args) == 1 && second(cast.ToFloat64E(args[0])) == nil ==> result1 == nil && result0 == boxof(halfAway(cast.ToFloat64E(args[0])), float64)
  ensures with-a-precision-it-rounds-half-away-from-zero-at-that-decimal-place: args[0] != nil && len(args) == 2 && args[1] != nil && second(cast.ToFloat64E(args[0])) == nil && second(cast.ToIntE(args[1])) == nil ==> result1 == nil && result0 == boxof(halfAway(cast.ToFloat64E(args[0]) * pow(10.0, float64(cast.ToIntE(args[1])))) / pow(10.0, float64(cast.ToIntE(args[1]))), float64)
  ensures non-numeric-argument-is-an-error-not-a-panic: args[0] != nil && !(second(cast.ToFloat64E(args[0])) == nil) ==> result1 != nil && result0 == nil

func (*SignFunction).Execute
  props C06
  option safety
  requires validated-arguments: f != nil && len(args) >= 1 && len(args) <= 1
  ensures sign-of-the-number: second(cast.ToFloat64E(args[0])) == nil ==> result1 == nil && result0 == boxof(ite(cast.ToFloat64E(args[0]) > 0.0, 1, ite(cast.ToFloat64E(args[0]) < 0.0, -1, 0)), int)
  ensures non-numeric-argument-is-an-error-not-a-panic: !(second(cast.ToFloat64E(args[0])) == nil) ==> result1 != nil && result0 == nil
  ensures an-argument-that-cannot-be-converted-is-an-error-0: second(cast.ToFloat64E(args[0])) != nil ==> result1 != nil && result0 == nil
  ensures minus-one-zero-or-one-by-the-sign: second(cast.ToFloat64E(args[0])) == nil ==> result1 == nil && result0 == boxof(ite(cast.ToFloat64E(args[0]) > 0.0, 1, ite(cast.ToFloat64E(args[0]) < 0.0, -1, 0)), int)

func (*SinFunction).Execute
  props C06
  option safety
  requires validated-arguments: f != nil && len(args) >= 1 && len(args) <= 1
  modifies *
  ensures an-argument-that-cannot-be-converted-is-an-error-0: second(cast.ToFloat64E(args[0])) != nil ==> result1 != nil && result0 == nil

func (*SinhFunction).Execute
  props C06
  option safety
  requires validated-arguments: f != nil && len(args) >= 1 && len(args) <= 1
  modifies *
  ensures an-argument-that-cannot-be-converted-is-an-error-0: second(cast.ToFloat64E(args[0])) != nil ==> result1 != nil && result0 == nil

func (*TanFunction).Execute
  props C06
  option safety
  requires validated-arguments: f != nil && len(args) >= 1 && len(args) <= 1
  modifies *
  ensures an-argument-that-cannot-be-converted-is-an-error-0: second(cast.ToFloat64E(args[0])) != nil ==> result1 != nil && result0 == nil

func (*TanhFunction).Execute
  props C06
  option safety
  requires validated-arguments: f != nil && len(args) >= 1 && len(args) <= 1
  modifies *
  ensures an-argument-that-cannot-be-converted-is-an-error-0: second(cast.ToFloat64E(args[0])) != nil ==> result1 != nil && result0 == nil

func (*ConcatFunction).Execute
  props C06
  option safety
  requires validated-arguments: f != nil && len(args) >= 1
  modifies *

func (*UpperFunction).Execute
  props C06
  option safety
  requires validated-arguments: f != nil && len(args) >= 1 && len(args) <= 1
  modifies *
  ensures an-argument-that-cannot-be-converted-is-an-error-0: second(cast.ToStringE(args[0])) != nil ==> result1 != nil && result0 == nil
  ensures the-text-in-upper-case: second(cast.ToStringE(args[0])) == nil ==> result1 == nil && result0 == boxof(strings.ToUpper(cast.ToStringE(args[0])), string)

func (*LowerFunction).Execute
  props C06
  option safety
  requires validated-arguments: f != nil && len(args) >= 1 && len(args) <= 1
  modifies *
  ensures an-argument-that-cannot-be-converted-is-an-error-0: second(cast.ToStringE(args[0])) != nil ==> result1 != nil && result0 == nil
  ensures the-text-in-lower-case: second(cast.ToStringE(args[0])) == nil ==> result1 == nil && result0 == boxof(strings.ToLower(cast.ToStringE(args[0])), string)

func (*TrimFunction).Execute
  props C06
  option safety
  requires validated-arguments: f != nil && len(args) >= 1 && len(args) <= 1
  modifies *
  ensures an-argument-that-cannot-be-converted-is-an-error-0: second(cast.ToStringE(args[0])) != nil ==> result1 != nil && result0 == nil

func (*FormatFunction).Execute
  props C06
  option safety
  requires validated-arguments: f != nil && len(args) >= 1 && len(args) <= 3
  modifies *

func (*EndswithFunction).Execute
  props C06
  option safety
  requires validated-arguments: f != nil && len(args) >= 2 && len(args) <= 2
  modifies *
  ensures an-argument-that-cannot-be-converted-is-an-error-0: second(cast.ToStringE(args[0])) != nil ==> result1 != nil && result0 == nil
  ensures an-argument-that-cannot-be-converted-is-an-error-1: second(cast.ToStringE(args[0])) == nil && second(cast.ToStringE(args[1])) != nil ==> result1 != nil && result0 == nil
  ensures whether-the-text-ends-with-the-suffix: second(cast.ToStringE(args[0])) == nil && second(cast.ToStringE(args[1])) == nil ==> result1 == nil && result0 == boxof(strings.HasSuffix(cast.ToStringE(args[0]), cast.ToStringE(args[1])), bool)

func (*StartswithFunction).Execute
  props C06
  option safety
  requires validated-arguments: f != nil && len(args) >= 2 && len(args) <= 2
  modifies *
  ensures an-argument-that-cannot-be-converted-is-an-error-0: second(cast.ToStringE(args[0])) != nil ==> result1 != nil && result0 == nil
  ensures an-argument-that-cannot-be-converted-is-an-error-1: second(cast.ToStringE(args[0])) == nil && second(cast.ToStringE(args[1])) != nil ==> result1 != nil && result0 == nil
  ensures whether-the-text-starts-with-the-prefix: second(cast.ToStringE(args[0])) == nil && second(cast.ToStringE(args[1])) == nil ==> result1 == nil && result0 == boxof(strings.HasPrefix(cast.ToStringE(args[0]), cast.ToStringE(args[1])), bool)

func (*IndexofFunction).Execute
  props C06
  option safety
  requires validated-arguments: f != nil && len(args) >= 2 && len(args) <= 2
  modifies *
  ensures an-argument-that-cannot-be-converted-is-an-error-0: second(cast.ToStringE(args[0])) != nil ==> result1 != nil && result0 == nil
  ensures an-argument-that-cannot-be-converted-is-an-error-1: second(cast.ToStringE(args[0])) == nil && second(cast.ToStringE(args[1])) != nil ==> result1 != nil && result0 == nil

func (*SubstringFunction).Execute
  props C06
  option safety
  requires validated-arguments: f != nil && len(args) >= 2 && len(args) <= 3
  modifies *
  ensures an-argument-that-cannot-be-converted-is-an-error-0: second(cast.ToStringE(args[0])) != nil ==> result1 != nil && result0 == nil
  ensures an-argument-that-cannot-be-converted-is-an-error-1: second(cast.ToStringE(args[0])) == nil && second(cast.ToInt64E(args[1])) != nil ==> result1 != nil && result0 == nil

func (*ReplaceFunction).Execute
  props C06
  option safety
  requires validated-arguments: f != nil && len(args) >= 3 && len(args) <= 3
  modifies *
  ensures an-argument-that-cannot-be-converted-is-an-error-0: second(cast.ToStringE(args[0])) != nil ==> result1 != nil && result0 == nil
  ensures an-argument-that-cannot-be-converted-is-an-error-1: second(cast.ToStringE(args[0])) == nil && second(cast.ToStringE(args[1])) != nil ==> result1 != nil && result0 == nil
  ensures an-argument-that-cannot-be-converted-is-an-error-2: second(cast.ToStringE(args[0])) == nil && second(cast.ToStringE(args[1])) == nil && second(cast.ToStringE(args[2])) != nil ==> result1 != nil && result0 == nil

func (*SplitFunction).Execute
  props C06
  option safety
  requires validated-arguments: f != nil && len(args) >= 2 && len(args) <= 2
  modifies *
  ensures an-argument-that-cannot-be-converted-is-an-error-0: second(cast.ToStringE(args[0])) != nil ==> result1 != nil && result0 == nil
  ensures an-argument-that-cannot-be-converted-is-an-error-1: second(cast.ToStringE(args[0])) == nil && second(cast.ToStringE(args[1])) != nil ==> result1 != nil && result0 == nil

func (*LpadFunction).Execute
  props C06
  option safety overflow
  requires validated-arguments: f != nil && len(args) >= 2 && len(args) <= 3
  modifies *
  ensures an-argument-that-cannot-be-converted-is-an-error-0: second(cast.ToStringE(args[0])) != nil ==> result1 != nil && result0 == nil
  ensures an-argument-that-cannot-be-converted-is-an-error-1: second(cast.ToStringE(args[0])) == nil && second(cast.ToInt64E(args[1])) != nil ==> result1 != nil && result0 == nil

func (*RpadFunction).Execute
  props C06
  option safety overflow
  requires validated-arguments: f != nil && len(args) >= 2 && len(args) <= 3
  modifies *
  ensures an-argument-that-cannot-be-converted-is-an-error-0: second(cast.ToStringE(args[0])) != nil ==> result1 != nil && result0 == nil
  ensures an-argument-that-cannot-be-converted-is-an-error-1: second(cast.ToStringE(args[0])) == nil && second(cast.ToInt64E(args[1])) != nil ==> result1 != nil && result0 == nil

func (*LtrimFunction).Execute
  props C06
  option safety
  requires validated-arguments: f != nil && len(args) >= 1 && len(args) <= 1
  modifies *
  ensures an-argument-that-cannot-be-converted-is-an-error-0: second(cast.ToStringE(args[0])) != nil ==> result1 != nil && result0 == nil

func (*RtrimFunction).Execute
  props C06
  option safety
  requires validated-arguments: f != nil && len(args) >= 1 && len(args) <= 1
  modifies *
  ensures an-argument-that-cannot-be-converted-is-an-error-0: second(cast.ToStringE(args[0])) != nil ==> result1 != nil && result0 == nil

func (*RegexpMatchesFunction).Execute
  props C06
  option safety
  requires validated-arguments: f != nil && len(args) >= 2 && len(args) <= 2
  modifies *
  ensures an-argument-that-cannot-be-converted-is-an-error-0: second(cast.ToStringE(args[0])) != nil ==> result1 != nil && result0 == nil
  ensures an-argument-that-cannot-be-converted-is-an-error-1: second(cast.ToStringE(args[0])) == nil && second(cast.ToStringE(args[1])) != nil ==> result1 != nil && result0 == nil

func (*RegexpReplaceFunction).Execute
  props C06
  option safety
  requires validated-arguments: f != nil && len(args) >= 3 && len(args) <= 3
  modifies *
  ensures an-argument-that-cannot-be-converted-is-an-error-0: second(cast.ToStringE(args[0])) != nil ==> result1 != nil && result0 == nil
  ensures an-argument-that-cannot-be-converted-is-an-error-1: second(cast.ToStringE(args[0])) == nil && second(cast.ToStringE(args[1])) != nil ==> result1 != nil && result0 == nil
  ensures an-argument-that-cannot-be-converted-is-an-error-2: second(cast.ToStringE(args[0])) == nil && second(cast.ToStringE(args[1])) == nil && second(cast.ToStringE(args[2])) != nil ==> result1 != nil && result0 == nil

func (*RegexpSubstringFunction).Execute
  props C06
  option safety
  requires validated-arguments: f != nil && len(args) >= 2 && len(args) <= 2
  modifies *
  ensures an-argument-that-cannot-be-converted-is-an-error-0: second(cast.ToStringE(args[0])) != nil ==> result1 != nil && result0 == nil
  ensures an-argument-that-cannot-be-converted-is-an-error-1: second(cast.ToStringE(args[0])) == nil && second(cast.ToStringE(args[1])) != nil ==> result1 != nil && result0 == nil

func (*CastFunction).Execute
  props C06
  option safety
  requires validated-arguments: f != nil && len(args) >= 2 && len(args) <= 2
  modifies *

func (*Hex2DecFunction).Execute
  props C06
  option safety
  requires validated-arguments: f != nil && len(args) >= 1 && len(args) <= 1
  modifies *

func (*Dec2HexFunction).Execute
  props C06
  option safety
  requires validated-arguments: f != nil && len(args) >= 1 && len(args) <= 1
  modifies *
  ensures an-argument-that-cannot-be-converted-is-an-error-0: second(cast.ToInt64E(args[0])) != nil ==> result1 != nil && result0 == nil

func (*EncodeFunction).Execute
  props C06
  option safety
  requires validated-arguments: f != nil && f.BaseFunction != nil && f.BaseFunction.minArgs == 2 && len(args) >= 2 && len(args) <= 2
  modifies *

func (*DecodeFunction).Execute
  props C06
  option safety
  requires validated-arguments: f != nil && f.BaseFunction != nil && f.BaseFunction.minArgs == 2 && len(args) >= 2 && len(args) <= 2
  modifies *

func (*ConvertTzFunction).Execute
  props C06
  option safety
  requires validated-arguments: f != nil && len(args) >= 2 && len(args) <= 2
  modifies *

func (*ToSecondsFunction).Execute
  props C06
  option safety
  requires validated-arguments: f != nil && len(args) >= 1 && len(args) <= 1
  modifies *

func (*ChrFunction).Execute
  props C06
  option safety
  requires validated-arguments: f != nil && len(args) >= 1 && len(args) <= 1
  modifies *
  ensures an-argument-that-cannot-be-converted-is-an-error-0: second(cast.ToInt64E(args[0])) != nil ==> result1 != nil && result0 == nil

func (*UrlEncodeFunction).Execute
  props C06
  option safety
  requires validated-arguments: f != nil && len(args) >= 1 && len(args) <= 1
  requires built-by-its-constructor: f.BaseFunction != nil
  modifies *

func (*UrlDecodeFunction).Execute
  props C06
  option safety
  requires validated-arguments: f != nil && len(args) >= 1 && len(args) <= 1
  requires built-by-its-constructor: f.BaseFunction != nil
  modifies *

func (*TruncFunction).Execute
  props C06
  option safety
  requires validated-arguments: f != nil && len(args) >= 2 && len(args) <= 2
  requires built-by-its-constructor: f.BaseFunction != nil
  modifies *

func (*IfNullFunction).Execute
  props C06 C13
  option safety
  requires validated-arguments: f != nil && len(args) >= 2 && len(args) <= 2
  modifies *
  ensures a-value-that-is-not-null-is-itself: args[0] != nil ==> result0 == args[0] && result1 == nil
  ensures null-is-replaced-by-the-second-argument: args[0] == nil && !(hasType(args[1], int) && intval(args[1]) == 0) && !hasType(args[1], float32) ==> result0 == args[1] && result1 == nil
  ensures an-integer-zero-replacement-comes-out-as-the-float-zero: args[0] == nil && hasType(args[1], int) && intval(args[1]) == 0 ==> result0 == boxof(0.0, float64) && result1 == nil

func (*CoalesceFunction).Execute
  props C06 C13
  option safety
  requires validated-arguments: f != nil && len(args) >= 1
  modifies *
  ensures the-first-argument-that-is-not-null: result1 == nil && (forall(j, 0, len(args), args[j] == nil) ==> result0 == nil) && (exists(j, 0, len(args), args[j] != nil) ==> exists(k, 0, len(args), result0 == args[k] && args[k] != nil && forall(j, 0, k, args[j] == nil)))
  loop 1 invariant forall(j, 0, $i, args[j] == nil)

func (*NullIfFunction).Execute
  props C06 C13
  option safety
  requires validated-arguments: f != nil && len(args) >= 2 && len(args) <= 2
  modifies *
  ensures null-when-both-are-equal-else-the-first: result1 == nil && result0 == ite(reflect.DeepEqual(args[0], args[1]), nil, args[0])

func (*GreatestFunction).Execute
  props C06 C13
  option safety
  requires validated-arguments: f != nil && len(args) >= 1
  ensures never-an-error: result1 == nil
  ensures any-null-argument-gives-null: exists(i, 0, len(args), args[i] == nil) ==> result0 == nil
  ensures the-result-is-one-of-the-arguments: forall(i, 0, len(args), args[i] != nil) ==> exists(i, 0, len(args), result0 == args[i])
  ensures numeric-arguments-give-the-greatest: forall(i, 0, len(args), args[i] != nil && second(cast.ToFloat64E(args[i])) == nil) ==> second(cast.ToFloat64E(result0)) == nil && forall(i, 0, len(args), cast.ToFloat64E(result0) >= cast.ToFloat64E(args[i]))
  loop 1 invariant 1 <= i && i <= len(args) && max != nil && forall(j, 0, i, args[j] != nil) && exists(j, 0, i, max == args[j])
  loop 1 invariant forall(j, 0, len(args), args[j] != nil && second(cast.ToFloat64E(args[j])) == nil) ==> second(cast.ToFloat64E(max)) == nil && forall(j, 0, i, cast.ToFloat64E(max) >= cast.ToFloat64E(args[j]))

func (*LeastFunction).Execute
  props C06 C13
  option safety
  requires validated-arguments: f != nil && len(args) >= 1
  ensures never-an-error: result1 == nil
  ensures any-null-argument-gives-null: exists(i, 0, len(args), args[i] == nil) ==> result0 == nil
  ensures the-result-is-one-of-the-arguments: forall(i, 0, len(args), args[i] != nil) ==> exists(i, 0, len(args), result0 == args[i])
  ensures numeric-arguments-give-the-least: forall(i, 0, len(args), args[i] != nil && second(cast.ToFloat64E(args[i])) == nil) ==> second(cast.ToFloat64E(result0)) == nil && forall(i, 0, len(args), cast.ToFloat64E(result0) <= cast.ToFloat64E(args[i]))
  loop 1 invariant 1 <= i && i <= len(args) && min != nil && forall(j, 0, i, args[j] != nil) && exists(j, 0, i, min == args[j])
  loop 1 invariant forall(j, 0, len(args), args[j] != nil && second(cast.ToFloat64E(args[j])) == nil) ==> second(cast.ToFloat64E(min)) == nil && forall(j, 0, i, cast.ToFloat64E(min) <= cast.ToFloat64E(args[j]))

func (*CaseWhenFunction).Execute
  props C06 C13
  option safety
  requires validated-arguments: f != nil && len(args) >= 2
  modifies *

// NULL test behind is_null / is_not_null (reflection: nil and typed nil; bounded stand-in is_null_values)
extern isNilValue
  props C06 C13 C05
  option pure
  ensures untyped-nil-is-null: v == nil ==> result
  ensures text-numbers-and-booleans-are-values: hasType(v, string) || hasType(v, float64) || hasType(v, int) || hasType(v, int64) || hasType(v, bool) ==> !result

func (*IsNullFunction).Execute
  props C06 C13 C05
  option safety
  requires validated-arguments: f != nil && len(args) >= 1 && len(args) <= 1
  modifies *
  ensures is-null-answers-the-null-test-of-its-argument: result1 == nil && result0 == boxof(isNilValue(args[0]), bool)

func (*IsNotNullFunction).Execute
  props C06 C13 C05
  option safety
  requires validated-arguments: f != nil && len(args) >= 1 && len(args) <= 1
  modifies *
  ensures is-not-null-answers-the-opposite-of-the-null-test: result1 == nil && result0 == boxof(!isNilValue(args[0]), bool)

func (*IsNumericFunction).Execute
  props C06
  option safety
  requires validated-arguments: f != nil && len(args) >= 1 && len(args) <= 1
  modifies *
  ensures null-is-no-number: args[0] == nil ==> result1 == nil && result0 == boxof(false, bool)

func (*IsStringFunction).Execute
  props C06
  option safety
  requires validated-arguments: f != nil && len(args) >= 1 && len(args) <= 1
  modifies *
  ensures text-and-nothing-else: result1 == nil && result0 == boxof(args[0] != nil && hasType(args[0], string), bool)

func (*IsBoolFunction).Execute
  props C06
  option safety
  requires validated-arguments: f != nil && len(args) >= 1 && len(args) <= 1
  modifies *
  ensures booleans-and-nothing-else: result1 == nil && result0 == boxof(args[0] != nil && hasType(args[0], bool), bool)

func (*IsArrayFunction).Execute
  props C06
  option safety
  requires validated-arguments: f != nil && len(args) >= 1 && len(args) <= 1
  modifies *

func (*IsObjectFunction).Execute
  props C06
  option safety
  requires validated-arguments: f != nil && len(args) >= 1 && len(args) <= 1
  modifies *

func (*Md5Function).Execute
  props C06
  option safety
  requires validated-arguments: f != nil && len(args) >= 1 && len(args) <= 1
  modifies *

func (*Sha1Function).Execute
  props C06
  option safety
  requires validated-arguments: f != nil && len(args) >= 1 && len(args) <= 1
  modifies *

func (*Sha256Function).Execute
  props C06
  option safety
  requires validated-arguments: f != nil && len(args) >= 1 && len(args) <= 1
  modifies *

func (*Sha512Function).Execute
  props C06
  option safety
  requires validated-arguments: f != nil && len(args) >= 1 && len(args) <= 1
  modifies *

func (*ArrayLengthFunction).Execute
  props C06
  option safety
  requires validated-arguments: f != nil && len(args) >= 1 && len(args) <= 1
  modifies *

func (*ArrayContainsFunction).Execute
  props C06
  option safety
  requires validated-arguments: f != nil && len(args) >= 2 && len(args) <= 2
  modifies *

func (*ArrayPositionFunction).Execute
  props C06
  option safety
  requires validated-arguments: f != nil && len(args) >= 2 && len(args) <= 2
  modifies *

func (*ArrayRemoveFunction).Execute
  props C06
  option safety
  requires validated-arguments: f != nil && len(args) >= 2 && len(args) <= 2
  modifies *

func (*ArrayDistinctFunction).Execute
  props C06
  option safety
  requires validated-arguments: f != nil && len(args) >= 1 && len(args) <= 1
  modifies *

func (*ArrayIntersectFunction).Execute
  props C06
  option safety
  requires validated-arguments: f != nil && len(args) >= 2 && len(args) <= 2
  modifies *

func (*ArrayUnionFunction).Execute
  props C06
  option safety
  requires validated-arguments: f != nil && len(args) >= 2 && len(args) <= 2
  modifies *

func (*ArrayExceptFunction).Execute
  props C06
  option safety
  requires validated-arguments: f != nil && len(args) >= 2 && len(args) <= 2
  modifies *

func (*ToJsonFunction).Execute
  props C06
  option safety
  requires validated-arguments: f != nil && len(args) >= 1 && len(args) <= 1
  modifies *

func (*FromJsonFunction).Execute
  props C06
  option safety
  requires validated-arguments: f != nil && len(args) >= 1 && len(args) <= 1
  modifies *

func (*JsonExtractFunction).Execute
  props C06
  option safety
  requires validated-arguments: f != nil && len(args) >= 2 && len(args) <= 2
  modifies *

func (*JsonValidFunction).Execute
  props C06
  option safety
  requires validated-arguments: f != nil && len(args) >= 1 && len(args) <= 1
  modifies *

func (*JsonTypeFunction).Execute
  props C06
  option safety
  requires validated-arguments: f != nil && len(args) >= 1 && len(args) <= 1
  modifies *

func (*JsonLengthFunction).Execute
  props C06
  option safety
  requires validated-arguments: f != nil && len(args) >= 1 && len(args) <= 1
  modifies *

@*/

/*@
// arity bookkeeping shared by every built-in: Validate == nil means the argument count is inside [minArgs, maxArgs]
func (*BaseFunction).ValidateArgCount
  props C06
  option safety
  requires bf != nil
  ensures accepted-counts-are-inside-the-declared-arity: result == nil <==> (len(args) >= bf.minArgs && (bf.maxArgs == -1 || len(args) <= bf.maxArgs))

func (*BaseFunction).Validate
  props C06
  option safety
  requires bf != nil
  ensures accepted-counts-are-inside-the-declared-arity: result == nil <==> (len(args) >= bf.minArgs && (bf.maxArgs == -1 || len(args) <= bf.maxArgs))

func (*EncodeFunction).Validate
  props C06
  option safety
  requires f != nil && f.BaseFunction != nil && f.BaseFunction.minArgs == 2
  ensures accepted-arguments-have-a-textual-format: result == nil ==> len(args) >= 2 && hasType(args[1], string)

func (*DecodeFunction).Validate
  props C06
  option safety
  requires f != nil && f.BaseFunction != nil && f.BaseFunction.minArgs == 2
  ensures accepted-arguments-are-textual: result == nil ==> len(args) >= 2 && hasType(args[0], string) && hasType(args[1], string)
@*/

/*@
func (*CeilingFunction).Execute
  props C06
  option safety
  requires validated-arguments: f != nil && len(args) >= 1 && len(args) <= 1
  ensures smallest-integer-not-below: second(cast.ToFloat64E(args[0])) == nil ==> result1 == nil && result0 == boxof(0.0 - floor(0.0 - cast.ToFloat64E(args[0])), float64)
  ensures non-numeric-argument-is-an-error-not-a-panic: !(second(cast.ToFloat64E(args[0])) == nil) ==> result1 != nil && result0 == nil
  ensures an-argument-that-cannot-be-converted-is-an-error-0: second(cast.ToFloat64E(args[0])) != nil ==> result1 != nil && result0 == nil
  ensures the-least-integer-not-below: second(cast.ToFloat64E(args[0])) == nil ==> result1 == nil && hasType(result0, float64) && realval(result0) >= cast.ToFloat64E(args[0]) && realval(result0) < cast.ToFloat64E(args[0]) + 1.0 && realval(result0) == floor(realval(result0))

func (*PowerFunction).Execute
  props C06
  option safety
  requires validated-arguments: f != nil && len(args) >= 2 && len(args) <= 2
  modifies *
  ensures an-argument-that-cannot-be-converted-is-an-error-0: second(cast.ToFloat64E(args[0])) != nil ==> result1 != nil && result0 == nil
  ensures an-argument-that-cannot-be-converted-is-an-error-1: second(cast.ToFloat64E(args[0])) == nil && second(cast.ToFloat64E(args[1])) != nil ==> result1 != nil && result0 == nil

func (*LengthFunction).Execute
  props C06
  option safety
  requires validated-arguments: f != nil && len(args) >= 1 && len(args) <= 1
  modifies *

@*/

/*@
// ---------------------------------------------------------------- C03: nth_value (window accumulator)
func (*NthValueFunction).New
  props C03
  ensures own-empty-state-same-n: hasType(result, *NthValueFunction) && fresh(unbox(result, *NthValueFunction)) && len(unbox(result, *NthValueFunction).values) == 0 && unbox(result, *NthValueFunction).n == f.n

func (*NthValueFunction).Add
  props C03
  modifies f.values
  ensures every-input-is-kept-in-arrival-order: len(f.values) == len(old(f.values)) + 1 && f.values[len(f.values) - 1] == value && forall(i, 0, len(old(f.values)), f.values[i] == old(f.values)[i])

func (*NthValueFunction).Result
  props C03
  ensures the-nth-input-of-the-batch-counting-from-one: f.n > 0 && len(f.values) >= f.n ==> result == f.values[f.n - 1]
  ensures null-when-the-batch-has-fewer-than-n-inputs: !(f.n > 0 && len(f.values) >= f.n) ==> result == nil

func (*NthValueFunction).Reset
  props C03
  modifies f.values
  ensures len(f.values) == 0

func (*NthValueFunction).Clone
  props C03
  ensures independent-copy: hasType(result, *NthValueFunction) && fresh(unbox(result, *NthValueFunction)) && seqeq(unbox(result, *NthValueFunction).values, f.values) && unbox(result, *NthValueFunction).n == f.n
@*/
