//go:build verif

package fieldpath

/*@
extern GetNestedField
  props C16 C05 C20 C14
  option pure

extern IsNestedField
  props C16 C05 C20
  option pure

// Safety only: reflect.Value.Index panics outside 0 <= i < Len (engine library model, obligation safe:reflect-index).
func getArrayElement
  props C05 C16 C20
  option safety

func ParseFieldPath
  props C05 C16 C20
  option safety
  atreturn every-segment-of-the-path-is-parsed: result1 == nil && result0 != nil ==> $done1

func parseComplexPart
  props C05 C16 C20
  option safety
  requires accessor != nil
  modifies accessor.Parts

func parseBracketContent
  props C05 C16 C20
  option safety
  ensures a-quoted-key-is-used-verbatim-blanks-included: len(strings.TrimSpace(content)) >= 2 && ((strings.HasPrefix(strings.TrimSpace(content), "'") && strings.HasSuffix(strings.TrimSpace(content), "'")) || (strings.HasPrefix(strings.TrimSpace(content), "\"") && strings.HasSuffix(strings.TrimSpace(content), "\""))) ==> result1 == nil && result0.Type == "map_key" && result0.KeyType == "string" && result0.Key == strings.TrimSpace(content)[1:len(strings.TrimSpace(content)) - 1]

func accessFieldPart
  props C05 C16 C20
  option safety
  modifies *

func getMapValue
  props C05 C16 C20
  option safety

func getNestedFieldSimple
  props C05 C16 C20
  option safety
  modifies *
  observe val := getFieldValue
  observe found := getFieldValue#1
  atreturn an-empty-path-names-nothing: fieldPath == "" ==> !result1 && result0 == nil
  loop 1 step each-segment-is-looked-up-in-the-value-the-previous-segment-gave: $found ==> current == $val
  before getFieldValue each-segment-is-looked-up-in-the-value-reached-so-far: $arg0 == current && $arg1 == field
  atreturn a-segment-that-is-absent-makes-the-whole-path-absent: !result1 ==> result0 == nil

pred firstSep(p) := ite(strings.Index(p, ".") >= 0 && (strings.Index(p, "[") < 0 || strings.Index(p, ".") < strings.Index(p, "[")), strings.Index(p, "."), strings.Index(p, "["))

func ExtractTopLevelField
  props C05 C16 C20
  option safety
  ensures the-top-level-column-is-the-text-before-the-first-dot-or-bracket-the-whole-path-when-there-is-none-or-it-comes-first: result == ite(fieldPath != "" && firstSep(fieldPath) > 0, fieldPath[:firstSep(fieldPath)], fieldPath)
@*/
