//go:build verif

package expr

/*@
func matchLikePattern
  props C13 C06
  option safety
  option pure
  ensures empty-pattern-matches-only-empty-text: len(pattern) == 0 ==> (result <==> len(text) == 0)
  ensures empty-text-needs-all-percent: len(text) == 0 ==> (result <==> forall(i, 0, len(pattern), pattern[i] == 37))
  loop 1 invariant pi <= len(pattern)
  loop 2 invariant pi <= len(pattern)
  loop 1 invariant 0 <= ti && 0 <= pi && -1 <= starIdx && 0 <= matchIdx && matchIdx <= ti && starIdx < pi
  loop 1 invariant len(pattern) == 0 ==> pi == 0 && starIdx == -1 && ti == 0
  loop 1 invariant len(text) == 0 ==> pi == 0
  loop 2 invariant 0 <= pi && (len(text) == 0 ==> forall(i, 0, pi, pattern[i] == 37))
@*/

/*@
// ---------------------------------------------------------------- C06: evaluator kernels
pred cmpKnown(u) := u == "==" || u == "=" || u == "!=" || u == "<>" || u == ">" || u == "<" || u == ">=" || u == "<="
pred cmpNum(u, a, b) := ((u == "==" || u == "=") && a == b) || ((u == "!=" || u == "<>") && a != b) || (u == ">" && a > b) || (u == "<" && a < b) || (u == ">=" && a >= b) || (u == "<=" && a <= b)

extern convertToFloatSafe
  props C06
  option pure

extern convertToFloat
  props C06
  option pure

extern convertToBool
  props C06
  option pure

func isComparisonOperator
  props C06
  option pure
  ensures the-comparison-operators-in-any-letter-case-and-nothing-else: result <==> (strings.EqualFold(op, "==") || strings.EqualFold(op, "=") || strings.EqualFold(op, "!=") || strings.EqualFold(op, "<>") || strings.EqualFold(op, ">") || strings.EqualFold(op, "<") || strings.EqualFold(op, ">=") || strings.EqualFold(op, "<=") || strings.EqualFold(op, "LIKE") || strings.EqualFold(op, "IS"))
  loop 1 invariant forall(j, 0, $i, !strings.EqualFold(op, $s[j])) && len($s) == 10 && $s[0] == "==" && $s[1] == "=" && $s[2] == "!=" && $s[3] == "<>" && $s[4] == ">" && $s[5] == "<" && $s[6] == ">=" && $s[7] == "<=" && $s[8] == "LIKE" && $s[9] == "IS"

extern isLogicalOperator
  props C06
  option pure

// SQL precedence, lowest to highest: OR < AND < NOT < comparison < additive < multiplicative < power
func getOperatorPrecedence
  props C06
  option pure
  ensures or-binds-loosest: op == "OR" ==> result == 1
  ensures and-binds-tighter-than-or: op == "AND" ==> result == 2
  ensures not-binds-tighter-than-and: op == "NOT" ==> result == 3
  ensures comparisons-bind-tighter-than-logic: op == "=" || op == "==" || op == "!=" || op == "<>" || op == ">" || op == "<" || op == ">=" || op == "<=" || op == "LIKE" || op == "NOT LIKE" || op == "IS" || op == "IS NOT" ==> result == 4
  ensures additive-binds-tighter-than-comparison: op == "+" || op == "-" ==> result == 5
  ensures multiplicative-binds-tighter-than-additive: op == "*" || op == "/" || op == "%" ==> result == 6
  ensures power-binds-tightest: op == "^" ==> result == 7

func compareFloats
  props C06 C13
  option safety
  ensures known-operators-decide-by-the-numeric-order: cmpKnown(strings.ToUpper(operator)) ==> result1 == nil && (result0 <==> cmpNum(strings.ToUpper(operator), left, right))
  ensures anything-else-is-an-error: !cmpKnown(strings.ToUpper(operator)) ==> result1 != nil

func compareStrings
  props C06 C13
  option safety
  ensures equality-is-text-equality: strings.ToUpper(operator) == "==" || strings.ToUpper(operator) == "=" ==> result1 == nil && (result0 <==> left == right)
  ensures inequality-is-text-inequality: strings.ToUpper(operator) == "!=" || strings.ToUpper(operator) == "<>" ==> result1 == nil && (result0 <==> left != right)
  ensures like-uses-the-matcher: strings.ToUpper(operator) == "LIKE" ==> result1 == nil && (result0 <==> matchLikePattern(left, right))
  ensures texts-are-ordered-as-texts: (strings.ToUpper(operator) == ">" ==> result1 == nil && (result0 <==> left > right)) && (strings.ToUpper(operator) == "<" ==> result1 == nil && (result0 <==> left < right)) && (strings.ToUpper(operator) == ">=" ==> result1 == nil && (result0 <==> left >= right)) && (strings.ToUpper(operator) == "<=" ==> result1 == nil && (result0 <==> left <= right))
  ensures anything-else-is-an-error: !cmpKnown(strings.ToUpper(operator)) && strings.ToUpper(operator) != "LIKE" ==> result1 != nil

func compareValues
  props C06 C13
  option safety
  ensures a-null-operand-makes-a-comparison-not-true: (left == nil || right == nil) && strings.ToUpper(operator) != "IS" && strings.ToUpper(operator) != "IS NOT" ==> !result0 && result1 == nil
  ensures is-compares-nullness: (left == nil || right == nil) && strings.ToUpper(operator) == "IS" ==> result1 == nil && (result0 <==> (left == nil && right == nil))
  ensures numbers-compare-numerically-whatever-their-go-type: left != nil && right != nil && second(convertToFloatSafe(left)) && second(convertToFloatSafe(right)) && cmpKnown(strings.ToUpper(operator)) ==> result1 == nil && (result0 <==> cmpNum(strings.ToUpper(operator), convertToFloatSafe(left), convertToFloatSafe(right)))
  ensures number-against-text-cannot-be-ordered: left != nil && right != nil && second(convertToFloatSafe(left)) != second(convertToFloatSafe(right)) && (strings.ToUpper(operator) == ">" || strings.ToUpper(operator) == "<" || strings.ToUpper(operator) == ">=" || strings.ToUpper(operator) == "<=") ==> result1 != nil

func compareValuesForEquality
  props C06 C13
  option safety
  ensures null-equals-only-null: (left == nil || right == nil) ==> (result <==> (left == nil && right == nil))
  ensures numbers-compare-numerically: left != nil && right != nil && second(convertToFloatSafe(left)) && second(convertToFloatSafe(right)) ==> (result <==> convertToFloatSafe(left) == convertToFloatSafe(right))

func compareValuesWithNullForEquality
  props C06 C13
  option safety
  ensures null-equals-only-null: (leftIsNull || rightIsNull) ==> (result <==> (leftIsNull && rightIsNull))
@*/

/*@
// ---------------------------------------------------------------- C06: arithmetic with NULL propagation
// The recursive evaluators are specified per node: what a node returns in terms of what its operands returned.
// Frame: evaluation reads the expression tree and the row and writes neither (assumed for the extern evaluators,
// proved for the functions under contract).
extern evaluateNode
  props C06 C13

// the value of a node: a text literal is its text without the enclosing quotes (the empty literal included), a number literal
// is what ParseFloat makes of it, everything else goes to the evaluator of its own kind with this node and this row
func evaluateNodeValue
  props C06 C13
  option assumed_frame
  before evaluateFieldValue a-column-node-is-looked-up-in-this-row: $arg0 == node && $arg1 == data
  before evaluateOperatorValue an-operator-node-is-evaluated-on-this-row: $arg0 == node && $arg1 == data
  before evaluateFunctionValue a-call-node-is-evaluated-on-this-row: $arg0 == node && $arg1 == data
  before evaluateCaseExpression a-case-node-is-evaluated-on-this-row: $arg0 == node && $arg1 == data
  before evaluateNodeValue a-parenthesis-evaluates-what-it-encloses-on-this-row: $arg0 == node.Left && $arg1 == data
  atreturn a-text-literal-is-its-text-without-the-quotes-the-empty-literal-included: node != nil && old(node.Type) == TypeString ==> result1 == nil && result0 == boxof(ite(len(old(node.Value)) >= 2 && (old(node.Value)[0] == 39 || old(node.Value)[0] == 34), old(node.Value)[1:len(old(node.Value)) - 1], old(node.Value)), string)
  atreturn no-node-is-an-error: node == nil ==> result1 != nil

extern evaluateBoolNode
  props C06 C13

func evaluateOperatorNode
  props C06 C13
  option safety
  requires node != nil
  atreturn sum: result1 == nil && !isComparisonOperator(node.Value) && node.Value == "+" ==> result0 == left + right
  atreturn difference: result1 == nil && !isComparisonOperator(node.Value) && node.Value == "-" ==> result0 == left - right
  atreturn product: result1 == nil && !isComparisonOperator(node.Value) && node.Value == "*" ==> result0 == left * right
  atreturn quotient: result1 == nil && !isComparisonOperator(node.Value) && node.Value == "/" ==> right != 0.0 && result0 == left / right
  atreturn comparison-yields-one-or-zero: result1 == nil && isComparisonOperator(node.Value) ==> result0 == 1.0 || result0 == 0.0

func evaluateOperatorValue
  props C06 C13
  option safety
  requires node != nil
  atreturn a-null-operand-makes-the-arithmetic-result-null: (leftIsNull || rightIsNull) && result1 == nil && strings.ToUpper(node.Value) != "IS" && strings.ToUpper(node.Value) != "IS NOT" && !isLogicalOperator(node.Value) && !isComparisonOperator(node.Value) ==> result0 == nil
  atreturn sum: result1 == nil && result0 != nil && !leftIsNull && !rightIsNull && leftOk && rightOk && node.Value == "+" ==> result0 == boxof(leftFloat + rightFloat, float64)
  atreturn difference: result1 == nil && result0 != nil && !leftIsNull && !rightIsNull && leftOk && rightOk && node.Value == "-" ==> result0 == boxof(leftFloat - rightFloat, float64)
  atreturn product: result1 == nil && result0 != nil && !leftIsNull && !rightIsNull && leftOk && rightOk && node.Value == "*" ==> result0 == boxof(leftFloat * rightFloat, float64)
  atreturn quotient: result1 == nil && result0 != nil && !leftIsNull && !rightIsNull && leftOk && rightOk && node.Value == "/" ==> rightFloat != 0.0 && result0 == boxof(leftFloat / rightFloat, float64)
  atreturn a-remainder-is-never-taken-by-zero: result1 == nil && result0 != nil && !leftIsNull && !rightIsNull && leftOk && rightOk && node.Value == "%" ==> rightFloat != 0.0
  atreturn dividing-or-taking-a-remainder-by-zero-is-an-error: !leftIsNull && !rightIsNull && leftOk && rightOk && (node.Value == "/" || node.Value == "%") && rightFloat == 0.0 && !isLogicalOperator(node.Value) && !isComparisonOperator(node.Value) ==> result1 != nil
  atreturn operands-are-converted-by-the-shared-rule: leftOk ==> leftFloat == convertToFloatSafe(left)

// an expression the hand-written engine cannot take is evaluated by the bridge from its expr-lang text on this row; the
// numeric answer is the bridge's value as a number (a numeric text is read at 64 bits), anything else is an error
func (*Expression).evaluateWithExprLang
  props C05 C06 C13 C03 C07 C14 C20
  option assumed_frame
  observe v := EvaluateExpression
  observe verr := EvaluateExpression#1
  before EvaluateExpression the-bridge-is-asked-with-the-expressions-own-text-and-this-row: $arg1 == e.exprLangExpression && $arg2 == data
  before ParseFloat a-numeric-text-is-read-at-full-precision: $arg1 == 64 && $arg0 == strval($v)
  atreturn the-bridges-error-is-the-error: $verr != nil ==> result1 != nil && result0 == 0.0
  atreturn a-float-is-its-own-value: $verr == nil && hasType($v, float64) ==> result1 == nil && result0 == realval($v)
  atreturn an-integer-is-its-own-value: $verr == nil && (hasType($v, int) || hasType($v, int32) || hasType($v, int64)) ==> result1 == nil && result0 == float64(intval($v))
  atreturn what-is-no-number-is-an-error: $verr == nil && !hasType($v, float64) && !hasType($v, float32) && !hasType($v, int) && !hasType($v, int32) && !hasType($v, int64) && !hasType($v, string) ==> result1 != nil && result0 == 0.0

func evaluateNodeValueWithNull
  props C06 C13
  option assumed_frame
  atreturn a-column-is-null-exactly-when-it-is-absent-or-holds-null-flat-or-nested: node != nil && node.Type == TypeField && result2 == nil ==> (result1 <==> result0 == nil)

func evaluateNodeWithNull
  props C06 C13
  option safety
  ensures the-null-node-is-null: node == nil ==> result1 && result2 == nil
  atreturn a-null-operand-makes-the-arithmetic-result-null: node != nil && node.Type == TypeOperator && !isComparisonOperator(node.Value) && result2 == nil && (leftIsNull__2 || rightIsNull__2) ==> result1
  atreturn sum: node != nil && node.Type == TypeOperator && !isComparisonOperator(node.Value) && result2 == nil && !result1 && node.Value == "+" ==> result0 == leftVal + rightVal
  atreturn difference: node != nil && node.Type == TypeOperator && !isComparisonOperator(node.Value) && result2 == nil && !result1 && node.Value == "-" ==> result0 == leftVal - rightVal
  atreturn product: node != nil && node.Type == TypeOperator && !isComparisonOperator(node.Value) && result2 == nil && !result1 && node.Value == "*" ==> result0 == leftVal * rightVal
  atreturn quotient: node != nil && node.Type == TypeOperator && !isComparisonOperator(node.Value) && result2 == nil && !result1 && node.Value == "/" ==> rightVal != 0.0 && result0 == leftVal / rightVal
  atreturn a-null-operand-makes-a-comparison-null-not-true: node != nil && node.Type == TypeOperator && isComparisonOperator(node.Value) && result2 == nil && (leftIsNull || rightIsNull) && strings.ToUpper(node.Value) != "IS" && strings.ToUpper(node.Value) != "IS NOT" ==> result1 && result0 == 0.0
  atreturn a-missing-or-null-column-is-null: node != nil && node.Type == TypeField && result2 == nil && (!found || val__2 == nil) ==> result1
@*/

/*@
// ---------------------------------------------------------------- C06: CASE returns the first branch whose condition is true
extern evaluateSimpleCaseExpression
  props C06

func evaluateSearchCaseExpression
  props C06
  option safety
  requires node != nil
  observe c := evaluateBoolNode
  before evaluateBoolNode conditions-are-tested-in-order-until-one-is-true: !$c && $arg0 == whenClause.Condition
  before evaluateNode a-then-branch-is-taken-only-for-its-own-true-condition: ($c && $arg0 == whenClause.Result) || (!$c && $arg0 == caseExpr.ElseResult && caseExpr.ElseResult != nil)
  atreturn no-true-branch-and-no-else-gives-zero-for-null: result1 == nil && !$c && node.CaseExpr != nil && node.CaseExpr.ElseResult == nil ==> result0 == 0.0
  loop 1 invariant !$c && caseExpr != nil && caseExpr == node.CaseExpr

func evaluateCaseExpressionWithNull
  props C06
  option safety
  requires node != nil
  observe c := evaluateBoolNode
  before evaluateBoolNode conditions-are-tested-in-order-until-one-is-true: !$c && $arg0 == whenClause.Condition
  before evaluateNodeValueWithNull a-then-branch-is-taken-only-for-its-own-true-condition: ($c && $arg0 == whenClause.Result) || (!$c && $arg0 == caseExpr.ElseResult && caseExpr.ElseResult != nil)
  atreturn no-true-branch-and-no-else-is-null: result2 == nil && !$c && node.Type == TypeCase && node.CaseExpr != nil && node.CaseExpr.Value == nil && node.CaseExpr.ElseResult == nil ==> result1 && result0 == nil
  loop 1 invariant !$c && caseExpr != nil && caseExpr == node.CaseExpr

func evaluateCaseExpressionValueWithNull
  props C06
  option safety
  requires node != nil
  observe eq := compareValuesWithNullForEquality
  before compareValuesWithNullForEquality values-are-compared-in-order-until-one-matches: !$eq
  before evaluateNodeValueWithNull only-the-case-value-a-when-value-the-matching-then-or-the-else-are-evaluated: $arg0 == caseExpr.Value || (!$eq && $arg0 == whenClause.Condition) || ($eq && $arg0 == whenClause.Result) || (!$eq && $arg0 == caseExpr.ElseResult && caseExpr.ElseResult != nil)
  atreturn no-match-and-no-else-is-null: result2 == nil && !$eq && node.CaseExpr != nil && node.CaseExpr.ElseResult == nil ==> result1 && result0 == nil
  loop 1 invariant !$eq && caseExpr != nil && caseExpr == node.CaseExpr
@*/

/*@
// ---------------------------------------------------------------- C06: a built-in is executed only on arguments its Validate accepted
func evaluateFunctionNode
  props C06 C13
  option safety
  requires node != nil
  modifies *
  observe verr := Validate
  before Execute arguments-were-validated-first: $verr == nil
  loop 1 invariant len(args) == len(node.Args) && node != nil

func evaluateFunctionValue
  props C06 C13
  option safety
  requires node != nil
  modifies *
  observe verr := Validate
  before Execute arguments-were-validated-first: $verr == nil
  loop 1 invariant len(args) == len(node.Args) && node != nil
@*/

/*@
// ---------------------------------------------------------------- C06/C13: logic and IS [NOT] NULL
func evaluateBoolOperator
  props C06 C13
  option safety
  requires node != nil
  observe b := evaluateBoolNode
  atreturn and-is-true-only-when-both-sides-are: result1 == nil && (strings.ToUpper(node.Value) == "AND" || strings.ToUpper(node.Value) == "&&") ==> (result0 <==> (left && $b))
  atreturn or-is-true-when-either-side-is: result1 == nil && (strings.ToUpper(node.Value) == "OR" || strings.ToUpper(node.Value) == "||") ==> (result0 <==> (left__2 || $b))
  atreturn not-negates-its-operand: result1 == nil && (strings.ToUpper(node.Value) == "NOT" || strings.ToUpper(node.Value) == "!") ==> (result0 <==> !$b)
  count evals := evaluateBoolNode
  observe berr := evaluateBoolNode#1
  atreturn or-with-a-true-left-side-is-true-at-once-the-right-side-is-not-evaluated: (strings.ToUpper(node.Value) == "OR" || strings.ToUpper(node.Value) == "||") && $evals == 1 && $berr == nil && $b ==> result0 && result1 == nil
  atreturn or-evaluates-its-right-side-only-when-the-left-side-is-false: (strings.ToUpper(node.Value) == "OR" || strings.ToUpper(node.Value) == "||") && $evals == 2 ==> !left__2
  atreturn and-with-a-false-left-side-is-false-at-once-the-right-side-is-not-evaluated: (strings.ToUpper(node.Value) == "AND" || strings.ToUpper(node.Value) == "&&") && $evals == 1 && $berr == nil && !$b ==> !result0 && result1 == nil
  atreturn and-evaluates-its-right-side-only-when-the-left-side-is-true: (strings.ToUpper(node.Value) == "AND" || strings.ToUpper(node.Value) == "&&") && $evals == 2 ==> left

func evaluateIsOperator
  props C06 C13
  option safety
  requires node != nil
  atreturn is-null-tests-nullness-of-the-left-operand: result1 == nil && node.Right != nil && node.Right.Type == TypeField && strings.ToUpper(node.Right.Value) == "NULL" && strings.ToUpper(node.Value) == "IS" ==> result0 == boxof(leftIsNull, bool)
  atreturn a-null-test-is-answered-whatever-the-case-of-the-keyword: node.Right != nil && node.Right.Type == TypeField && strings.ToUpper(node.Right.Value) == "NULL" && (strings.ToUpper(node.Value) == "IS" || strings.ToUpper(node.Value) == "IS NOT") ==> result1 == nil
  atreturn is-not-null-is-its-negation: result1 == nil && node.Right != nil && node.Right.Type == TypeField && strings.ToUpper(node.Right.Value) == "NULL" && strings.ToUpper(node.Value) == "IS NOT" ==> result0 == boxof(!leftIsNull, bool)
@*/

/*@
// ---------------------------------------------------------------- C06: the expression parser (precedence climbing by recursive descent)
// Every level parses its operands one level tighter, consumes every operator of its own level, never panics and
// terminates (measure 16*len(tokens) + rank of the nonterminal).
extern isNumber
  props C06
  option pure

func isStringLiteral
  props C06
  option safety
  option pure
  ensures text-between-a-pair-of-quotes-of-one-kind: result <==> (len(s) >= 2 && ((s[0] == 39 && s[len(s) - 1] == 39) || (s[0] == 34 && s[len(s) - 1] == 34)))

func isIdentifier
  props C06
  option pure
  ensures a-name-starts-with-a-letter-or-an-underscore-and-goes-on-with-letters-digits-and-the-path-characters: result <==> (len(s) > 0 && (isLetter(s[0]) || s[0] == 95) && forall(j, 1, len(s), isLetter(s[j]) || isDigit(s[j]) || s[j] == 95 || s[j] == 46 || s[j] == 91 || s[j] == 93 || s[j] == 39 || s[j] == 34 || s[j] == 36))
  loop 1 invariant 1 <= i && i <= len(s) && forall(j, 1, i, isLetter(s[j]) || isDigit(s[j]) || s[j] == 95 || s[j] == 46 || s[j] == 91 || s[j] == 93 || s[j] == 39 || s[j] == 34 || s[j] == 36)
  loop 1 decreases len(s) - i

func isOperator
  props C06
  option pure
  ensures the-arithmetic-comparison-and-word-operators-in-any-letter-case-and-nothing-else: result <==> (strings.EqualFold(s, "+") || strings.EqualFold(s, "-") || strings.EqualFold(s, "*") || strings.EqualFold(s, "/") || strings.EqualFold(s, "%") || strings.EqualFold(s, "^") || strings.EqualFold(s, "=") || strings.EqualFold(s, "==") || strings.EqualFold(s, "!=") || strings.EqualFold(s, "<>") || strings.EqualFold(s, ">") || strings.EqualFold(s, "<") || strings.EqualFold(s, ">=") || strings.EqualFold(s, "<=") || strings.EqualFold(s, "AND") || strings.EqualFold(s, "OR") || strings.EqualFold(s, "NOT") || strings.EqualFold(s, "LIKE") || strings.EqualFold(s, "IS"))
  loop 1 invariant forall(j, 0, $i, !strings.EqualFold(s, $s[j])) && len($s) == 19 && $s[0] == "+" && $s[1] == "-" && $s[2] == "*" && $s[3] == "/" && $s[4] == "%" && $s[5] == "^" && $s[6] == "=" && $s[7] == "==" && $s[8] == "!=" && $s[9] == "<>" && $s[10] == ">" && $s[11] == "<" && $s[12] == ">=" && $s[13] == "<=" && $s[14] == "AND" && $s[15] == "OR" && $s[16] == "NOT" && $s[17] == "LIKE" && $s[18] == "IS"

// a column's own value: backticks dropped, a path read by the shared path reader, a plain name from the row itself,
// the value as it is; a missing column is an error
func evaluateFieldValue
  props C06 C05 C13
  option assumed_frame
  requires node != nil
  observe nested := IsNestedField
  observe pv := GetNestedField
  observe pfound := GetNestedField#1
  before IsNestedField the-name-asked-about-is-the-columns-name-without-backticks: $arg0 == ite(len(node.Value) >= 2 && node.Value[0] == 96 && node.Value[len(node.Value) - 1] == 96, node.Value[1:len(node.Value) - 1], node.Value)
  before GetNestedField a-path-is-read-from-this-row: $arg0 == boxof(data, map[string]any) && $arg1 == fieldName
  atreturn the-columns-own-value-as-it-is: result1 == nil ==> result0 == ite($nested, $pv, data[fieldName]) && ($nested ==> $pfound) && (!$nested ==> dom(data, fieldName))
  atreturn a-missing-column-is-an-error: (($nested && !$pfound) || (!$nested && !dom(data, fieldName))) ==> result1 != nil && result0 == nil

// a CASE expression is evaluated as the kind it is: with an operand by the simple evaluator, without one by the searched
// one; anything else is an error
func evaluateCaseExpression
  props C06 C13
  option assumed_frame
  requires node != nil
  observe sv := evaluateSimpleCaseExpression
  observe serr := evaluateSimpleCaseExpression#1
  observe wv := evaluateSearchCaseExpression
  observe werr := evaluateSearchCaseExpression#1
  before evaluateSimpleCaseExpression this-node-on-this-row: $arg0 == node && $arg1 == data
  before evaluateSearchCaseExpression this-node-on-this-row: $arg0 == node && $arg1 == data
  atreturn a-case-with-an-operand-is-a-simple-case-one-without-a-searched-case: node.Type == TypeCase && node.CaseExpr != nil ==> ite(node.CaseExpr.Value != nil, result0 == $sv && result1 == $serr, result0 == $wv && result1 == $werr)
  atreturn what-is-no-case-expression-is-an-error: node.Type != TypeCase || node.CaseExpr == nil ==> result1 != nil && result0 == 0.0

// a column in a numeric expression: backticks dropped, a path read by the shared path reader and a plain name from the
// row itself; the value must convert to a number that is not NaN, and a missing column is an error, never a silent zero
func evaluateFieldNode
  props C06 C05 C13
  option assumed_frame
  requires node != nil
  observe nested := IsNestedField
  observe pv := GetNestedField
  observe pfound := GetNestedField#1
  observe num := convertToFloat
  observe nerr := convertToFloat#1
  count conv := convertToFloat
  before IsNestedField the-name-asked-about-is-the-columns-name-without-backticks: $arg0 == ite(len(node.Value) >= 2 && node.Value[0] == 96 && node.Value[len(node.Value) - 1] == 96, node.Value[1:len(node.Value) - 1], node.Value)
  before GetNestedField a-path-is-read-from-this-row: $arg0 == boxof(data, map[string]any) && $arg1 == fieldName
  before convertToFloat the-value-converted-is-the-columns-own: $arg0 == ite($nested, $pv, data[fieldName]) && ($nested ==> $pfound) && (!$nested ==> dom(data, fieldName))
  atreturn a-value-is-returned-only-for-a-column-that-is-there-and-converts-to-a-number-that-is-no-nan: result1 == nil ==> $conv == 1 && $nerr == nil && result0 == $num
  atreturn a-missing-column-is-an-error-not-a-zero: (($nested && !$pfound) || (!$nested && !dom(data, fieldName))) ==> result1 != nil && result0 == 0.0

func parseFunctionCall
  props C06
  option safety
  recgroup exprparse
  decreases 16 * len(tokens)
  ensures success-gives-a-node-and-consumes-input: result2 == nil ==> result0 != nil && len(result1) < len(tokens)
  loop 1 invariant len(remaining) < len(tokens) && len(remaining) >= 0
  loop 1 decreases len(remaining)

func parsePrimaryExpression
  props C06
  option safety
  recgroup exprparse
  decreases 16 * len(tokens) + 1
  ensures success-gives-a-node-and-consumes-input: result2 == nil ==> result0 != nil && len(result1) < len(tokens)
  before parseCaseExpression a-case-expression-is-an-operand-like-any-other-it-is-parsed-from-its-own-keyword-on: strings.ToUpper(tokens[0]) == "CASE" && $arg0 == tokens

func parseUnaryExpression
  props C06
  option safety
  recgroup exprparse
  decreases 16 * len(tokens) + 2
  before parseUnaryExpression the-operand-of-a-unary-minus-is-itself-a-unary-expression-on-the-rest: tokens[0] == "-" && len($arg0) == len(tokens) - 1
  before parsePrimaryExpression anything-else-is-a-primary-expression-on-the-same-tokens: tokens[0] != "-" && len($arg0) == len(tokens)
  ensures success-gives-a-node-and-consumes-input: result2 == nil ==> result0 != nil && len(result1) < len(tokens)

func parsePowerExpression
  props C06
  option safety
  recgroup exprparse
  decreases 16 * len(tokens) + 3
  before parseUnaryExpression the-base-of-a-power-is-a-unary-expression: true
  ensures success-gives-a-node-and-consumes-input: result2 == nil ==> result0 != nil && len(result1) < len(tokens)

func parseTermExpression
  props C06
  option safety
  recgroup exprparse
  decreases 16 * len(tokens) + 4
  before parsePowerExpression factors-bind-tighter-than-multiplication: true
  ensures success-gives-a-node-and-consumes-input: result2 == nil ==> result0 != nil && len(result1) < len(tokens)
  ensures every-multiplicative-operator-at-this-level-is-consumed: result2 == nil && len(result1) > 0 ==> result1[0] != "*" && result1[0] != "/" && result1[0] != "%"
  loop 1 invariant left != nil && len(remaining) < len(tokens)
  loop 1 decreases len(remaining)

func parseArithmeticExpression
  props C06
  option safety
  recgroup exprparse
  decreases 16 * len(tokens) + 5
  before parseTermExpression terms-bind-tighter-than-addition: true
  ensures success-gives-a-node-and-consumes-input: result2 == nil ==> result0 != nil && len(result1) < len(tokens)
  ensures every-additive-operator-at-this-level-is-consumed: result2 == nil && len(result1) > 0 ==> result1[0] != "+" && result1[0] != "-"
  loop 1 invariant left != nil && len(remaining) < len(tokens)
  loop 1 decreases len(remaining)

func parseComparisonExpression
  props C06 C13 C05
  option safety
  recgroup exprparse
  decreases 16 * len(tokens) + 6
  before parseArithmeticExpression arithmetic-binds-tighter-than-comparison: true
  ensures success-gives-a-node-and-consumes-input: result2 == nil ==> result0 != nil && len(result1) < len(tokens)
  atreturn is-not-in-any-letter-case-is-the-two-word-operator: result2 == nil && len(remaining) >= 2 && strings.ToUpper(remaining[0]) == "IS" && strings.ToUpper(remaining[1]) == "NOT" ==> result0.Type == TypeOperator && result0.Value == "IS NOT" && result0.Left == left
  atreturn a-comparison-operator-makes-an-operator-node-over-the-two-sides: result2 == nil && !(len(remaining) >= 2 && strings.ToUpper(remaining[0]) == "IS" && strings.ToUpper(remaining[1]) == "NOT") && len(remaining) > 0 && isComparisonOperator(remaining[0]) ==> result0.Type == TypeOperator && result0.Value == remaining[0] && result0.Left == left

func parseAndExpression
  props C06
  option safety
  recgroup exprparse
  decreases 16 * len(tokens) + 7
  before parseComparisonExpression comparisons-bind-tighter-than-and: true
  ensures success-gives-a-node-and-consumes-input: result2 == nil ==> result0 != nil && len(result1) < len(tokens)
  ensures every-and-at-this-level-is-consumed: result2 == nil && len(result1) > 0 ==> strings.ToUpper(result1[0]) != "AND"
  loop 1 invariant left != nil && len(remaining) < len(tokens)
  loop 1 decreases len(remaining)

func parseOrExpression
  props C06
  option safety
  recgroup exprparse
  decreases 16 * len(tokens) + 8
  before parseAndExpression and-binds-tighter-than-or: true
  ensures success-gives-a-node-and-consumes-input: result2 == nil ==> result0 != nil && len(result1) < len(tokens)
  ensures every-or-at-this-level-is-consumed: result2 == nil && len(result1) > 0 ==> strings.ToUpper(result1[0]) != "OR"
  loop 1 invariant left != nil && len(remaining) < len(tokens)
  loop 1 decreases len(remaining)

func parseCaseExpression
  props C06
  option safety
  ensures success-gives-a-case-node: result2 == nil ==> result0 != nil && fresh(result0) && result0.Type == TypeCase && result0.CaseExpr != nil && len(result1) < len(tokens)
  ensures every-when-has-its-condition-and-its-result: result2 == nil ==> forall(i, 0, len(result0.CaseExpr.WhenClauses), result0.CaseExpr.WhenClauses[i].Condition != nil && result0.CaseExpr.WhenClauses[i].Result != nil)
  loop 1 invariant caseExpr != nil && fresh(caseExpr) && len(remaining) < len(tokens) && forall(i, 0, len(caseExpr.WhenClauses), caseExpr.WhenClauses[i].Condition != nil && caseExpr.WhenClauses[i].Result != nil)
  loop 1 decreases len(remaining)

func parseExpression
  props C06
  option safety
  ensures a-tree-or-an-error: result1 == nil ==> result0 != nil
@*/

/*@
// ---------------------------------------------------------------- C06: the expression tokenizer never panics and terminates
func isDigit
  props C06
  option pure
  ensures result <==> (48 <= ch && ch <= 57)

func isLetter
  props C06
  option pure
  ensures result <==> ((97 <= ch && ch <= 122) || (65 <= ch && ch <= 90))

func valueEnding
  props C06
  option safety
  option pure
  ensures a-digit-a-letter-a-closing-bracket-a-backtick-or-a-dot-ends-a-value-nothing-else-does: result <==> ((ch >= 48 && ch <= 57) || (ch >= 97 && ch <= 122) || (ch >= 65 && ch <= 90) || ch == 41 || ch == 93 || ch == 96 || ch == 46)

func precededByValue
  props C06
  option safety
  requires 0 <= i && i <= len(expr)
  loop 1 invariant -1 <= j && j < i && forall(k, j + 1, i, expr[k] == 32 || expr[k] == 9 || expr[k] == 10 || expr[k] == 13)
  loop 1 decreases j + 1
  ensures a-minus-is-a-subtraction-exactly-when-the-nearest-character-before-it-that-is-no-blank-ends-a-value: result <==> exists(j, 0, i, valueEnding(expr[j]) && forall(k, j + 1, i, expr[k] == 32 || expr[k] == 9 || expr[k] == 10 || expr[k] == 13))

func tokenize
  props C06
  option safety
  ensures tokens-or-an-error: result1 == nil ==> len(result0) >= 0
  loop 1 invariant 0 <= i && i <= len(expr)
  loop 1 decreases len(expr) - i
  loop 2 invariant 0 <= i && i <= len(expr) && i > atloop(1, i) && start == atloop(1, i)
  loop 2 decreases len(expr) - i
  loop 3 invariant 0 <= i && i <= len(expr) && i > atloop(1, i) && start__2 == atloop(1, i)
  loop 3 decreases len(expr) - i
  loop 4 invariant 0 <= i && i <= len(expr) && i >= atloop(1, i) && start__3 == atloop(1, i)
  loop 4 decreases len(expr) - i
  loop 5 invariant 0 <= i && i <= len(expr) && i > atloop(1, i) && start__3 == atloop(1, i)
  loop 5 decreases len(expr) - i
  loop 6 invariant 0 <= i && i <= len(expr) && i > atloop(1, i) && start__3 == atloop(1, i)
  loop 6 decreases len(expr) - i
  loop 7 invariant 0 <= i && i <= len(expr) && i >= atloop(1, i) && start__4 == atloop(1, i)
  loop 7 decreases len(expr) - i
  loop 8 invariant 0 <= i && i <= len(expr) && i > atloop(1, i) && i > atloop(7, i) && start__4 == atloop(1, i)
  loop 8 decreases len(expr) - i
@*/

/*@
// ---- construction of an expression: the text given is what is validated, tokenised and parsed; when the hand-written
// parser cannot take it, the very same text is handed to expr-lang
extern validateBasicSyntax
  props C06 C13
  option pure

func NewExpression
  props C06 C13
  option assumed_frame
  observe toks := tokenize
  observe tokErr := tokenize#1
  observe tree := parseExpression
  observe treeErr := parseExpression#1
  observe bad := validateBasicSyntax
  before validateBasicSyntax the-text-validated-is-the-text-given: $arg0 == exprStr
  before tokenize the-text-tokenised-is-the-text-given: $arg0 == exprStr
  before parseExpression what-was-just-tokenised-is-parsed: seqeq($arg0, $toks)
  ensures an-expression-or-an-error: result1 == nil ==> result0 != nil
  atreturn an-invalid-text-is-an-error: $bad != nil ==> result0 == nil && result1 != nil
  atreturn a-parsed-tree-is-used-as-it-is: $bad == nil && $tokErr == nil && $treeErr == nil ==> result1 == nil && fresh(result0) && result0.Root == $tree && !result0.useExprLang
  atreturn what-the-parser-cannot-take-goes-to-expr-lang-as-the-same-text: $bad == nil && ($tokErr != nil || $treeErr != nil) ==> result1 == nil && fresh(result0) && result0.Root == nil && result0.useExprLang && result0.exprLangExpression == exprStr
@*/

