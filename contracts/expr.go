//go:build verif

package expr

/*@
func matchLikePattern
  props C13
  option safety
  ensures empty-pattern-matches-only-empty-text: len(pattern) == 0 ==> (result <==> len(text) == 0)
  ensures empty-text-needs-all-percent: len(text) == 0 ==> (result <==> forall(i, 0, len(pattern), pattern[i] == 37))
  loop 1 invariant pi <= len(pattern)
  loop 2 invariant pi <= len(pattern)
  loop 1 invariant 0 <= ti && 0 <= pi && -1 <= starIdx && 0 <= matchIdx && matchIdx <= ti && starIdx < pi
  loop 1 invariant len(pattern) == 0 ==> pi == 0 && starIdx == -1 && ti == 0
  loop 1 invariant len(text) == 0 ==> pi == 0
  loop 2 invariant 0 <= pi && (len(text) == 0 ==> forall(i, 0, pi, pattern[i] == 37))
@*/
