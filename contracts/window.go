//go:build verif

package window

/*@
pred slotOK(s, size) := s != nil && s.Start != nil && s.End != nil && *s.End == *s.Start + size

func alignWindowStart
  props C01 C08
  option pure
  ensures nonpositive-size: windowSize <= 0 ==> result == timestamp
  ensures below: windowSize > 0 ==> result <= timestamp
  ensures within: windowSize > 0 ==> timestamp < result + windowSize
  ensures aligned: windowSize > 0 ==> result % windowSize == 0

func (*TumblingWindow).createSlot
  props C01
  requires tw.size > 0
  ensures fresh: fresh(result)
  ensures shape: slotOK(result, tw.size)
  ensures covers: *result.Start <= t && t < *result.End
  ensures aligned: *result.Start % tw.size == 0

func (*TumblingWindow).createSlotFromStart
  props C01
  ensures fresh: fresh(result)
  ensures shape: slotOK(result, tw.size)
  ensures start: *result.Start == start

func (*TumblingWindow).NextSlot
  props C01
  requires tw.currentSlot != nil ==> tw.currentSlot.End != nil
  ensures nil: tw.currentSlot == nil ==> result == nil
  ensures fresh: tw.currentSlot != nil ==> fresh(result)
  ensures chain: tw.currentSlot != nil ==> slotOK(result, tw.size) && *result.Start == *tw.currentSlot.End

func (*TumblingWindow).dropLastRow
  props C01 C02
  held tw.mu
  modifies tw.data
  ensures nonempty: len(old(tw.data)) > 0 ==> len(tw.data) == len(old(tw.data)) - 1
  ensures prefix: forall(i, 0, len(tw.data), tw.data[i] == old(tw.data)[i])
  ensures empty: len(old(tw.data)) == 0 ==> len(tw.data) == 0
@*/
