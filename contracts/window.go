//go:build verif

package window

/*@
pred slotOK(s, size) := s != nil && s.Start != nil && s.End != nil && *s.End == *s.Start + size

func alignWindowStart
  props C01 C08 C02 C10
  option pure
  ensures nonpositive-size: windowSize <= 0 ==> result == timestamp
  ensures below: windowSize > 0 ==> result <= timestamp
  ensures within: windowSize > 0 ==> timestamp < result + windowSize
  ensures aligned: windowSize > 0 ==> divides(windowSize, result)

func (*TumblingWindow).createSlot
  props C01 C02
  requires tw.size > 0
  ensures fresh: fresh(result)
  ensures shape: slotOK(result, tw.size)
  ensures covers: *result.Start <= t && t < *result.End
  ensures aligned: divides(tw.size, *result.Start)

func (*TumblingWindow).createSlotFromStart
  props C01 C02
  ensures fresh: fresh(result)
  ensures shape: slotOK(result, tw.size)
  ensures start: *result.Start == start

func (*TumblingWindow).NextSlot
  props C01 C02
  held tw.mu
  requires tw.currentSlot != nil ==> tw.currentSlot.End != nil
  ensures nil: tw.currentSlot == nil ==> result == nil
  ensures fresh: tw.currentSlot != nil ==> fresh(result)
  ensures chain: tw.currentSlot != nil ==> slotOK(result, tw.size) && *result.Start == *tw.currentSlot.End
  ensures alignment-preserved: tw.currentSlot != nil && tw.size > 0 && slotOK(tw.currentSlot, tw.size) && divides(tw.size, *tw.currentSlot.Start) ==> divides(tw.size, *result.Start)

func (*TumblingWindow).dropLastRow
  props C01 C02
  held tw.mu
  modifies tw.data
  ensures nonempty: len(old(tw.data)) > 0 ==> len(tw.data) == len(old(tw.data)) - 1
  ensures prefix: forall(i, 0, len(tw.data), tw.data[i] == old(tw.data)[i])
  ensures empty: len(old(tw.data)) == 0 ==> len(tw.data) == 0
@*/

/*@
recfunc rowsIn((a (Array Int S_types.Row)) (n Int) (lo Int) (hi Int) (slot Int)) Slice_S_types.Row := (ite (<= n 0) (mkSlice_S_types.Row ((as const (Array Int S_types.Row)) (mkS_types.Row (- 62135596800000000000) VNil 0)) 0 false) (let ((r (@rowsIn a (- n 1) lo hi slot)) (x (select a (- n 1)))) (ite (and (<= lo (S_types.Row.Timestamp x)) (< (S_types.Row.Timestamp x) hi)) (mkSlice_S_types.Row (store (Slice_S_types.Row.arr r) (Slice_S_types.Row.len r) (mkS_types.Row (S_types.Row.Timestamp x) (S_types.Row.Data x) slot)) (+ (Slice_S_types.Row.len r) 1) false) r)))

recfunc rowsOut((a (Array Int S_types.Row)) (n Int) (lo Int) (hi Int)) Slice_S_types.Row := (ite (<= n 0) (mkSlice_S_types.Row ((as const (Array Int S_types.Row)) (mkS_types.Row (- 62135596800000000000) VNil 0)) 0 false) (let ((r (@rowsOut a (- n 1) lo hi)) (x (select a (- n 1)))) (ite (and (<= lo (S_types.Row.Timestamp x)) (< (S_types.Row.Timestamp x) hi)) r (mkSlice_S_types.Row (store (Slice_S_types.Row.arr r) (Slice_S_types.Row.len r) x) (+ (Slice_S_types.Row.len r) 1) false))))

func (*TumblingWindow).extractWindowDataLocked
  props C01 C02
  held tw.mu
  requires tw.currentSlot != nil ==> tw.currentSlot.Start != nil && tw.currentSlot.End != nil
  modifies tw.data
  ensures no-slot: tw.currentSlot == nil ==> len(result) == 0 && tw.data == old(tw.data)
  ensures batch: tw.currentSlot != nil && len(rowsIn(arr(old(tw.data)), len(old(tw.data)), *tw.currentSlot.Start, *tw.currentSlot.End, tw.currentSlot)) > 0 ==> result == rowsIn(arr(old(tw.data)), len(old(tw.data)), *tw.currentSlot.Start, *tw.currentSlot.End, tw.currentSlot)
  ensures kept: tw.currentSlot != nil && len(rowsIn(arr(old(tw.data)), len(old(tw.data)), *tw.currentSlot.Start, *tw.currentSlot.End, tw.currentSlot)) > 0 ==> tw.data == rowsOut(arr(old(tw.data)), len(old(tw.data)), *tw.currentSlot.Start, *tw.currentSlot.End)
  ensures empty: tw.currentSlot != nil && len(rowsIn(arr(old(tw.data)), len(old(tw.data)), *tw.currentSlot.Start, *tw.currentSlot.End, tw.currentSlot)) == 0 ==> len(result) == 0 && tw.data == old(tw.data)
  ensures nothing-left-behind: tw.currentSlot != nil && rowsNotBefore(old(tw.data), *tw.currentSlot.Start) ==> rowsNotBefore(tw.data, *tw.currentSlot.End)
  ensures never-grows: len(tw.data) <= len(old(tw.data))
  loop 2 invariant len(newData) <= $i
  loop 1 invariant resultData == rowsIn(arr($s), $i, *tw.currentSlot.Start, *tw.currentSlot.End, tw.currentSlot)
  loop 2 invariant newData == rowsOut(arr($s), $i, *tw.currentSlot.Start, *tw.currentSlot.End)
  loop 1 invariant len(resultData) == 0 ==> forall(k, 0, $i, !(*tw.currentSlot.Start <= $s[k].Timestamp && $s[k].Timestamp < *tw.currentSlot.End))
  loop 2 invariant rowsNotBefore(tw.data, *tw.currentSlot.Start) ==> rowsNotBefore(newData, *tw.currentSlot.End)
@*/

/*@
guarded_by Watermark.mu: currentWatermark, lastSentWatermark, maxEventTime, lastEventTime
immutable Watermark: maxOutOfOrderness, idleTimeout
monitor Watermark.mu inv wmInv
monitor Watermark.mu rely wmRely

pred wmRely(wm) := wm.currentWatermark >= old(wm.currentWatermark)

pred wmInv(wm) := wm.lastSentWatermark <= wm.currentWatermark && wm.maxEventTime >= ZERO_T && wm.currentWatermark >= ZERO_T
  && (wm.maxOutOfOrderness >= 0 && zero(wm.maxEventTime) ==> zero(wm.currentWatermark))
  && (wm.maxOutOfOrderness >= 0 && !zero(wm.maxEventTime) && wm.idleTimeout <= 0 ==> zero(wm.currentWatermark) || wm.currentWatermark <= wm.maxEventTime - wm.maxOutOfOrderness)

func (*Watermark).sendWatermarkLocked
  props C02 C08 C10 C01
  held wm.mu
  option channel_events
  requires wm.lastSentWatermark <= wm.currentWatermark
  modifies wm.lastSentWatermark, ghost(sends)
  ensures [C02 C08 C10 C01] recorded-only-when-delivered: wm.lastSentWatermark != old(wm.lastSentWatermark) ==> ghost(sends) == old(ghost(sends)) + 1
  ensures [C02 C08 C10 C01] nothing-pending-means-no-send: wm.currentWatermark <= old(wm.lastSentWatermark) ==> ghost(sends) == old(ghost(sends))
  ensures sent-is-current: wm.lastSentWatermark == old(wm.lastSentWatermark) || wm.lastSentWatermark == wm.currentWatermark
  ensures bounded: wm.lastSentWatermark <= wm.currentWatermark
  ensures monotone: wm.lastSentWatermark >= old(wm.lastSentWatermark)

func (*Watermark).UpdateEventTime
  props C01 C02 C08 C10
  acquires wm.mu
  modifies wm.lastEventTime, wm.maxEventTime, wm.currentWatermark, wm.lastSentWatermark, ghost(sends)
  ensures monotone: wm.currentWatermark >= old(wm.currentWatermark)
  ensures max-monotone: zero(old(wm.maxEventTime)) || wm.maxEventTime >= old(wm.maxEventTime)
  ensures every-arriving-event-counts-as-source-activity-whether-or-not-it-raises-the-maximum: wm.lastEventTime >= old(now()) && wm.lastEventTime <= now()
  ensures future-ignored: eventTime > now() + wm.maxOutOfOrderness + 86400000000000 ==> wm.maxEventTime == old(wm.maxEventTime) && wm.currentWatermark == old(wm.currentWatermark)
  ensures accepted: eventTime <= now() + wm.maxOutOfOrderness + 86400000000000 && (zero(old(wm.maxEventTime)) || eventTime > old(wm.maxEventTime)) ==> wm.maxEventTime == eventTime && wm.currentWatermark == ite(eventTime - wm.maxOutOfOrderness > old(wm.currentWatermark), eventTime - wm.maxOutOfOrderness, old(wm.currentWatermark))
  ensures not-newer: !zero(old(wm.maxEventTime)) && eventTime <= old(wm.maxEventTime) ==> wm.maxEventTime == old(wm.maxEventTime) && wm.currentWatermark == old(wm.currentWatermark)
  ensures inv: wmInv(wm)

func (*Watermark).update
  props C02 C01 C08 C10
  acquires wm.mu
  modifies wm.currentWatermark, wm.lastSentWatermark, ghost(sends)
  ensures monotone: wm.currentWatermark >= old(wm.currentWatermark)
  ensures no-idle: wm.idleTimeout <= 0 ==> wm.currentWatermark == old(wm.currentWatermark) || wm.currentWatermark == wm.maxEventTime - wm.maxOutOfOrderness
  ensures untouched-before-first-event: zero(wm.maxEventTime) ==> wm.currentWatermark == old(wm.currentWatermark)
  ensures inv: wmInv(wm)
  observe now := Now
  atreturn the-watermark-trails-the-newest-event-by-the-tolerance-and-the-clock-only-when-the-source-is-idle: wm.currentWatermark == old(wm.currentWatermark) || wm.currentWatermark == wm.maxEventTime - wm.maxOutOfOrderness || (wm.idleTimeout > 0 && !zero(wm.lastEventTime) && $now - wm.lastEventTime > wm.idleTimeout && wm.currentWatermark == $now - wm.maxOutOfOrderness)

func (*Watermark).GetCurrentWatermark
  props C02 C01 C08 C10
  acquires wm.mu
  ensures result == wm.currentWatermark

func (*Watermark).IsEventTimeLate
  props C01 C02 C08 C10
  acquires wm.mu
  ensures late-iff-below-watermark: result == (!zero(wm.currentWatermark) && eventTime < wm.currentWatermark)
@*/

/*@
recfunc stampAll((a (Array Int S_types.Row)) (n Int) (slot Int)) Slice_S_types.Row := (ite (<= n 0) (mkSlice_S_types.Row ((as const (Array Int S_types.Row)) (mkS_types.Row (- 62135596800000000000) VNil 0)) 0 false) (let ((r (@stampAll a (- n 1) slot)) (x (select a (- n 1)))) (mkSlice_S_types.Row (store (Slice_S_types.Row.arr r) (Slice_S_types.Row.len r) (mkS_types.Row (S_types.Row.Timestamp x) (S_types.Row.Data x) slot)) (+ (Slice_S_types.Row.len r) 1) false)))

recfunc rowsInFrom((init Slice_S_types.Row) (a (Array Int S_types.Row)) (n Int) (lo Int) (hi Int) (slot Int)) Slice_S_types.Row := (ite (<= n 0) init (let ((r (@rowsInFrom init a (- n 1) lo hi slot)) (x (select a (- n 1)))) (ite (and (<= lo (S_types.Row.Timestamp x)) (< (S_types.Row.Timestamp x) hi)) (mkSlice_S_types.Row (store (Slice_S_types.Row.arr r) (Slice_S_types.Row.len r) (mkS_types.Row (S_types.Row.Timestamp x) (S_types.Row.Data x) slot)) (+ (Slice_S_types.Row.len r) 1) false) r)))

recfunc rowsFrom((a (Array Int S_types.Row)) (n Int) (lo Int)) Slice_S_types.Row := (ite (<= n 0) (mkSlice_S_types.Row ((as const (Array Int S_types.Row)) (mkS_types.Row (- 62135596800000000000) VNil 0)) 0 false) (let ((r (@rowsFrom a (- n 1) lo)) (x (select a (- n 1)))) (ite (<= lo (S_types.Row.Timestamp x)) (mkSlice_S_types.Row (store (Slice_S_types.Row.arr r) (Slice_S_types.Row.len r) x) (+ (Slice_S_types.Row.len r) 1) false) r)))

guarded_by TumblingWindow.mu: data, currentSlot, initialized, triggeredWindows, callback
immutable TumblingWindow: config, size
monitor TumblingWindow.mu inv twInv
monitor TumblingWindow.mu inv twNoStranded

pred twInv(tw) := tw.size > 0 && twOpenOK(tw)
// a fired window kept for late rows stays open until its own end plus the allowance
pred twOpenOK(tw) := forallv(k, "", dom(tw.triggeredWindows, k) ==> tw.triggeredWindows[k] != nil && tw.triggeredWindows[k].slot != nil && tw.triggeredWindows[k].slot.End != nil && tw.triggeredWindows[k].closeTime == *tw.triggeredWindows[k].slot.End + tw.config.AllowedLateness)
  && (tw.initialized ==> tw.currentSlot != nil)
  && (!tw.initialized ==> len(tw.data) == 0)
  && (tw.currentSlot != nil ==> slotOK(tw.currentSlot, tw.size))
  && (tw.currentSlot != nil ==> divides(tw.size, *tw.currentSlot.Start))
  && tw.triggeredWindows != nil
  && forallv(k, "", dom(tw.triggeredWindows, k) ==> tw.triggeredWindows[k] != nil && slotOK(tw.triggeredWindows[k].slot, tw.size))

pred twNoStranded(tw) := tw.config.TimeCharacteristic == "EventTime" && tw.config.AllowedLateness <= 0 && tw.initialized && tw.currentSlot != nil ==> forall(i, 0, len(tw.data), tw.data[i].Timestamp >= *tw.currentSlot.Start)
pred rowsNotBefore(d, b) := forall(i, 0, len(d), d[i].Timestamp >= b)

// the reflective lookup of the timestamp column is outside the model; what is checked here is what happens to the value
// found: a numeric epoch is placed only when a unit is configured, and then scaled by exactly that unit
func extractTimestamp
  props C02 C01 C08 C10
  option pure
  option assumed_frame
  observe epoch := ToInt64E
  observe epochErr := ToInt64E#1
  observe placed := ConvertIntToTime
  before ConvertIntToTime a-numeric-epoch-is-scaled-by-the-configured-unit-which-must-be-set: timeUnit != 0 && $arg1 == timeUnit && $arg0 == $epoch && $epochErr == nil
  before warnUnplaceableTimestamp only-an-epoch-without-a-unit-is-warned-about: timeUnit == 0

func (*TumblingWindow).getWindowKey
  props C02 C01
  option pure
  ensures windows-that-end-at-different-instants-have-different-keys-the-key-spells-the-end-to-the-nanosecond: result == fmt.Sprintf("%d", endTime.UnixNano())

// every watermark the window receives is acted on: the intervals are checked against it, none is skipped
// processing time: every expiry of the window's timer fires the window once, and nothing else does; the loop ends
// only when the window is stopped
func (*TumblingWindow).startProcessingTime$1
  props C01 C02
  modifies *
  count expired := select@3#0
  count fired := Trigger
  before Trigger the-window-fires-because-its-timer-expired: $selected == 0
  loop 1 invariant every-expiry-of-the-timer-so-far-fired-the-window-once: $fired == $expired

// the same for the sliding window's step timer: once the first window has been fired, every expiry of the step timer
// fires the window once and nothing else does
func (*SlidingWindow).startProcessingTime$1
  props C08 C02
  modifies *
  count expired := select@4#0
  count fired := Trigger
  loop 1 step every-expiry-of-the-step-timer-fires-the-window-once-and-nothing-else-does: $fired - prev($fired) == $expired - prev($expired)

func (*TumblingWindow).startEventTime$1
  props C01 C02
  modifies *
  count taken := select@2#0
  count scans := checkAndTriggerWindows
  before checkAndTriggerWindows the-check-runs-against-the-watermark-just-received: $selected == 0 && $arg1 == watermarkTime
  loop 1 invariant every-watermark-received-so-far-was-followed-by-a-check: $scans == $taken

func (*TumblingWindow).sendResult
  props C01 C02
  option channel_events
  modifies tw.sentCount, tw.droppedCount, ghost(sends), ghost(recvs), ghost(dones), ghost(timeouts), ghost(drained)
  before After under-the-blocking-policy-a-batch-waits-the-configured-time-for-room-five-seconds-when-none-is-configured: $arg0 == ite(tw.config.PerformanceConfig.OverflowConfig.BlockTimeout <= 0, 5000000000, tw.config.PerformanceConfig.OverflowConfig.BlockTimeout)
  ensures a-batch-is-booked-once-as-sent-or-as-dropped-unless-the-window-is-stopping: (tw.sentCount - old(tw.sentCount)) + (tw.droppedCount - old(tw.droppedCount)) + (ghost(dones) - old(ghost(dones))) == 1
  ensures it-is-booked-as-sent-exactly-when-it-was-put-on-the-output-channel: tw.sentCount - old(tw.sentCount) == ghost(sends) - old(ghost(sends)) && tw.sentCount >= old(tw.sentCount) && tw.droppedCount >= old(tw.droppedCount)

func (*TumblingWindow).extractLateUpdateDataLocked
  props C02 C01
  held tw.mu
  requires slot != nil && slot.Start != nil && slot.End != nil
  requires forallv(k, "", dom(tw.triggeredWindows, k) ==> tw.triggeredWindows[k] != nil)
  modifies tw.data, heap(triggeredWindowInfo.snapshotData)
  ensures late-batch: len(result) > 0 ==> result == rowsInFrom(stampAll(arr(old(tw.triggeredWindows[getWindowKey(tw, *slot.End)].snapshotData)), ite(dom(tw.triggeredWindows, getWindowKey(tw, *slot.End)), len(old(tw.triggeredWindows[getWindowKey(tw, *slot.End)].snapshotData)), 0), slot), arr(old(tw.data)), len(old(tw.data)), *slot.Start, *slot.End, slot)
  ensures evicted: tw.data == rowsOut(arr(old(tw.data)), len(old(tw.data)), *slot.Start, *slot.End)
  ensures bound-preserved: tw.currentSlot != nil && rowsNotBefore(old(tw.data), *tw.currentSlot.Start) ==> rowsNotBefore(tw.data, *tw.currentSlot.Start)
  ensures never-grows: len(tw.data) <= len(old(tw.data))
  loop 2 invariant len(kept) <= $i
  ensures snapshot-updated: len(result) > 0 && dom(tw.triggeredWindows, getWindowKey(tw, *slot.End)) ==> len(tw.triggeredWindows[getWindowKey(tw, *slot.End)].snapshotData) == len(result) && forall(k, 0, len(result), tw.triggeredWindows[getWindowKey(tw, *slot.End)].snapshotData[k].Data == result[k].Data && tw.triggeredWindows[getWindowKey(tw, *slot.End)].snapshotData[k].Timestamp == result[k].Timestamp && tw.triggeredWindows[getWindowKey(tw, *slot.End)].snapshotData[k].Slot == slot)
  loop 1 invariant resultData == stampAll(arr($s), $i, slot)
  loop 2 invariant resultData == rowsInFrom(stampAll(arr(old(tw.triggeredWindows[getWindowKey(tw, *slot.End)].snapshotData)), ite(dom(tw.triggeredWindows, getWindowKey(tw, *slot.End)), len(old(tw.triggeredWindows[getWindowKey(tw, *slot.End)].snapshotData)), 0), slot), arr($s), $i, *slot.Start, *slot.End, slot)
  loop 2 invariant kept == rowsOut(arr($s), $i, *slot.Start, *slot.End)
  loop 2 invariant tw.currentSlot != nil && rowsNotBefore(tw.data, *tw.currentSlot.Start) ==> rowsNotBefore(kept, *tw.currentSlot.Start)
  loop 3 invariant len(windowInfo.snapshotData) == len(resultData) && windowInfo != nil
  loop 3 invariant forall(k, 0, $i, windowInfo.snapshotData[k].Data == resultData[k].Data && windowInfo.snapshotData[k].Timestamp == resultData[k].Timestamp && windowInfo.snapshotData[k].Slot == slot)

func (*TumblingWindow).handleLateData
  props C02 C01
  held tw.mu
  requires twInv(tw) && twNoStranded(tw)
  modifies *
  ensures still-locked: held(tw.mu) && wheld(tw.mu)
  ensures inv: twInv(tw) && twNoStranded(tw)
  loop 1 invariant held(tw.mu) && wheld(tw.mu) && twInv(tw) && twNoStranded(tw)

func (*TumblingWindow).closeExpiredWindows
  props C02 C01
  held tw.mu
  requires twInv(tw)
  modifies tw.data, mapof(tw.triggeredWindows)
  ensures expiry-rule: forallv(k, "", dom(tw.triggeredWindows, k) <==> old(dom(tw.triggeredWindows, k)) && watermarkTime < old(tw.triggeredWindows[k].closeTime))
  ensures survivors-unchanged: forallv(k, "", dom(tw.triggeredWindows, k) ==> tw.triggeredWindows[k] == old(tw.triggeredWindows[k]))
  ensures inv: twInv(tw)
  ensures bound-preserved: tw.currentSlot != nil && rowsNotBefore(old(tw.data), *tw.currentSlot.Start) ==> rowsNotBefore(tw.data, *tw.currentSlot.Start)
  ensures never-grows: len(tw.data) <= len(old(tw.data))
  loop 2 invariant tw.currentSlot != nil && rowsNotBefore(tw.data, *tw.currentSlot.Start) ==> rowsNotBefore(newData, *tw.currentSlot.Start)
  loop 2 invariant len(newData) <= $i
  loop 1 invariant forallv(k, "", dom(tw.triggeredWindows, k) <==> old(dom(tw.triggeredWindows, k)) && !($visited[k] && watermarkTime >= old(tw.triggeredWindows[k].closeTime)))
  loop 1 invariant forallv(k, "", dom(tw.triggeredWindows, k) ==> tw.triggeredWindows[k] == old(tw.triggeredWindows[k]))
  loop 1 invariant forall(j, 0, len(expiredWindows), expiredWindows[j] != nil && slotOK(expiredWindows[j], tw.size))

func (*TumblingWindow).checkAndTriggerWindows
  props C01 C02
  acquires tw.mu
  modifies *
  before extractWindowDataLocked fire-only-closed-windows: *tw.currentSlot.End <= watermarkTime
  ensures caught-up: tw.initialized && tw.currentSlot != nil ==> *tw.currentSlot.End > watermarkTime
  ensures allowance-expired-windows-closed: old(tw.initialized) && old(tw.currentSlot) != nil ==> forallv(k, "", dom(tw.triggeredWindows, k) ==> watermarkTime < tw.triggeredWindows[k].closeTime)
  loop 1 invariant held(tw.mu) && wheld(tw.mu) && twInv(tw) && twNoStranded(tw)
  loop 2 invariant !hasData ==> forall(k, 0, $i, !(*tw.currentSlot.Start <= $s[k].Timestamp && $s[k].Timestamp < *tw.currentSlot.End))
@*/

/*@
pred appended(nw, od, ts, data) := len(nw) == len(od) + 1 && forall(i, 0, len(od), nw[i] == od[i]) && nw[len(od)].Timestamp == ts && nw[len(od)].Data == data && nw[len(od)].Slot == nil
pred isLate(wm, ts) := !zero(wm.currentWatermark) && ts < wm.currentWatermark
pred inSlot(s, ts) := s != nil && *s.Start <= ts && ts < *s.End

func (*TumblingWindow).Add
  props C01 C02
  acquires tw.mu
  modifies *
  observe late := IsEventTimeLate
  before Now the-arrival-stamp-is-taken-under-the-lock-that-orders-the-buffer: wheld(tw.mu)
  ensures unplaceable-dropped: tw.config.TimeCharacteristic == "EventTime" && !second(extractTimestamp(data, tw.config.TsProp, tw.config.TimeUnit)) ==> tw.data == old(tw.data) && tw.currentSlot == old(tw.currentSlot) && tw.initialized == old(tw.initialized)
  ensures on-time-buffered: tw.config.TimeCharacteristic == "EventTime" && second(extractTimestamp(data, tw.config.TsProp, tw.config.TimeUnit)) && !$late ==> appended(tw.data, old(tw.data), extractTimestamp(data, tw.config.TsProp, tw.config.TimeUnit), data)
  ensures late-in-current-kept: tw.config.TimeCharacteristic == "EventTime" && second(extractTimestamp(data, tw.config.TsProp, tw.config.TimeUnit)) && $late && old(tw.initialized) && old(inSlot(tw.currentSlot, extractTimestamp(data, tw.config.TsProp, tw.config.TimeUnit))) ==> appended(tw.data, old(tw.data), extractTimestamp(data, tw.config.TsProp, tw.config.TimeUnit), data)
  ensures late-dropped: tw.config.TimeCharacteristic == "EventTime" && second(extractTimestamp(data, tw.config.TsProp, tw.config.TimeUnit)) && $late && !inSlot(tw.currentSlot, extractTimestamp(data, tw.config.TsProp, tw.config.TimeUnit)) && tw.config.AllowedLateness <= 0 ==> seqeq(tw.data, old(tw.data))
  ensures dropped-only-if-late: tw.config.TimeCharacteristic == "EventTime" && second(extractTimestamp(data, tw.config.TsProp, tw.config.TimeUnit)) && tw.config.AllowedLateness <= 0 && len(tw.data) == len(old(tw.data)) ==> $late
  ensures first-event-seats-aligned-slot: tw.config.TimeCharacteristic == "EventTime" && second(extractTimestamp(data, tw.config.TsProp, tw.config.TimeUnit)) && !old(tw.initialized) && tw.config.AllowedLateness <= 0 ==> tw.initialized && tw.currentSlot != nil && *tw.currentSlot.Start == alignWindowStart(extractTimestamp(data, tw.config.TsProp, tw.config.TimeUnit), tw.size)
  ensures accepted-row-never-before-current-interval: tw.config.TimeCharacteristic == "EventTime" && second(extractTimestamp(data, tw.config.TsProp, tw.config.TimeUnit)) && !$late && tw.config.AllowedLateness <= 0 ==> tw.currentSlot != nil && extractTimestamp(data, tw.config.TsProp, tw.config.TimeUnit) >= *tw.currentSlot.Start
  ensures slot-moves-only-back-for-on-time-earlier-event: old(tw.initialized) && tw.config.AllowedLateness <= 0 ==> tw.initialized && (tw.currentSlot == old(tw.currentSlot) || (tw.config.TimeCharacteristic == "EventTime" && extractTimestamp(data, tw.config.TsProp, tw.config.TimeUnit) < *old(tw.currentSlot).Start && *tw.currentSlot.Start == alignWindowStart(extractTimestamp(data, tw.config.TsProp, tw.config.TimeUnit), tw.size)))
  ensures processing-time-always-buffered: tw.config.TimeCharacteristic != "EventTime" && second(extractTimestamp(data, tw.config.TsProp, tw.config.TimeUnit)) ==> appended(tw.data, old(tw.data), extractTimestamp(data, tw.config.TsProp, tw.config.TimeUnit), data)
  loop 1 invariant held(tw.mu) && wheld(tw.mu) && twInv(tw) && twNoStranded(tw)
@*/

/*@
func NewWatermark
  props C01 C02 C08 C10
  ensures fresh: fresh(result)
  ensures inv: wmInv(result)
  ensures config: result.maxOutOfOrderness == maxOutOfOrderness && result.idleTimeout == idleTimeout
  ensures starts-at-zero: zero(result.currentWatermark) && zero(result.maxEventTime) && zero(result.lastSentWatermark)

func NewTumblingWindow
  props C01 C02
  modifies *
  before NewWatermark the-watermark-trails-by-the-configured-tolerance: $arg0 == config.MaxOutOfOrderness && $arg2 == config.IdleTimeout
  ensures inv: result1 == nil ==> result0 != nil && twInv(result0) && !result0.initialized && len(result0.data) == 0
  ensures size-positive: result1 == nil ==> result0.size > 0

func (*TumblingWindow).SetCallback
  props C01 C02
  acquires tw.mu
  modifies tw.callback
  ensures tw.callback == callback

func (*TumblingWindow).Reset
  props C01 C02
  modifies *
  before NewWatermark a-reset-window-keeps-the-configured-tolerance: $arg0 == tw.config.MaxOutOfOrderness && $arg2 == tw.config.IdleTimeout
  ensures cleared: !tw.initialized && tw.currentSlot == nil && len(tw.data) == 0

func (*TumblingWindow).Trigger
  props C01 C02
  acquires tw.mu
  modifies *
  loop 1 invariant newData == rowsFrom(arr($s), $i, nextStart)
  loop 1 invariant rowsNotBefore(newData, nextStart)
  loop 2 invariant resultData == rowsIn(arr($s), $i, *tw.currentSlot.Start, *tw.currentSlot.End, tw.currentSlot)
  before Unlock batch-is-current-interval: len(resultData) > 0 ==> resultData == rowsIn(arr(old(tw.data)), len(old(tw.data)), *old(tw.currentSlot).Start, *old(tw.currentSlot).End, old(tw.currentSlot))
  before Unlock later-rows-kept: len(resultData) > 0 ==> tw.data == rowsFrom(arr(old(tw.data)), len(old(tw.data)), *old(tw.currentSlot).End)
  before Unlock advances-one-interval: len(resultData) > 0 ==> tw.currentSlot != nil && *tw.currentSlot.Start == *old(tw.currentSlot).End && *tw.currentSlot.End == *old(tw.currentSlot).End + tw.size
  before Unlock event-time-noop: tw.config.TimeCharacteristic == "EventTime" ==> tw.data == old(tw.data) && tw.currentSlot == old(tw.currentSlot)
@*/

/*@
// ---------------------------------------------------------------- sliding window (C08, C02)
guarded_by SlidingWindow.mu: data, currentSlot, initialized, triggeredWindows, callback
immutable SlidingWindow: config, size, slide
monitor SlidingWindow.mu inv swInv

pred swInv(sw) := sw.size > 0 && sw.slide > 0 && swOpenOK(sw)
// a fired window kept for late rows stays open until its own end plus the allowance
pred swOpenOK(sw) := forallv(k, "", dom(sw.triggeredWindows, k) ==> sw.triggeredWindows[k] != nil && sw.triggeredWindows[k].slot != nil && sw.triggeredWindows[k].slot.End != nil && sw.triggeredWindows[k].closeTime == *sw.triggeredWindows[k].slot.End + sw.config.AllowedLateness)
  && (sw.initialized ==> sw.currentSlot != nil)
  && (sw.currentSlot != nil ==> slotOK(sw.currentSlot, sw.size))
  && (sw.currentSlot != nil ==> divides(sw.slide, *sw.currentSlot.Start))
  && sw.triggeredWindows != nil
  && forallv(k, "", dom(sw.triggeredWindows, k) ==> sw.triggeredWindows[k] != nil && slotOK(sw.triggeredWindows[k].slot, sw.size))

func (*SlidingWindow).createSlot
  props C08 C02
  requires sw.slide > 0
  ensures fresh: fresh(result)
  ensures shape: slotOK(result, sw.size)
  ensures slide-aligned: divides(sw.slide, *result.Start)
  ensures not-after-event: *result.Start <= t && t < *result.Start + sw.slide

func (*SlidingWindow).createSlotFromStart
  props C08 C02
  ensures fresh: fresh(result)
  ensures shape: slotOK(result, sw.size)
  ensures start: *result.Start == start

func (*SlidingWindow).NextSlot
  props C08 C02
  held sw.mu
  requires sw.currentSlot != nil ==> sw.currentSlot.Start != nil && sw.currentSlot.End != nil
  ensures nil: sw.currentSlot == nil ==> result == nil
  ensures fresh: sw.currentSlot != nil ==> fresh(result)
  ensures advances-by-slide: sw.currentSlot != nil ==> result.Start != nil && result.End != nil && *result.Start == *sw.currentSlot.Start + sw.slide && *result.End == *sw.currentSlot.End + sw.slide
  ensures alignment-preserved: sw.currentSlot != nil && sw.slide > 0 && divides(sw.slide, *sw.currentSlot.Start) ==> divides(sw.slide, *result.Start)

func (*SlidingWindow).dropLastRow
  props C08 C02
  held sw.mu
  modifies sw.data
  ensures nonempty: len(old(sw.data)) > 0 ==> len(sw.data) == len(old(sw.data)) - 1
  ensures prefix: forall(i, 0, len(sw.data), sw.data[i] == old(sw.data)[i])
  ensures empty: len(old(sw.data)) == 0 ==> len(sw.data) == 0

func (*SlidingWindow).getWindowKey
  props C02 C08
  option pure
  ensures the-key-spells-the-end-to-the-nanosecond: result == fmt.Sprintf("%d", endTime.UnixNano())

func (*SlidingWindow).startEventTime$1
  props C08 C02
  modifies *
  count taken := select@2#0
  count scans := checkAndTriggerWindows
  before checkAndTriggerWindows the-check-runs-against-the-watermark-just-received: $selected == 0 && $arg1 == watermarkTime
  loop 1 invariant every-watermark-received-so-far-was-followed-by-a-check: $scans == $taken

func (*SlidingWindow).sendResult
  props C08 C02
  option channel_events
  modifies sw.sentCount, sw.droppedCount, ghost(sends), ghost(recvs), ghost(dones), ghost(timeouts), ghost(drained)
  before After under-the-blocking-policy-a-batch-waits-the-configured-time-for-room-five-seconds-when-none-is-configured: $arg0 == ite(sw.config.PerformanceConfig.OverflowConfig.BlockTimeout <= 0, 5000000000, sw.config.PerformanceConfig.OverflowConfig.BlockTimeout)
  ensures a-batch-is-booked-once-as-sent-or-as-dropped-unless-the-window-is-stopping: (sw.sentCount - old(sw.sentCount)) + (sw.droppedCount - old(sw.droppedCount)) + (ghost(dones) - old(ghost(dones))) == 1
  ensures it-is-booked-as-sent-exactly-when-it-was-put-on-the-output-channel: sw.sentCount - old(sw.sentCount) == ghost(sends) - old(ghost(sends)) && sw.sentCount >= old(sw.sentCount) && sw.droppedCount >= old(sw.droppedCount)

func (*SlidingWindow).extractWindowDataLocked
  props C08 C02
  held sw.mu
  requires slot != nil ==> slot.Start != nil && slot.End != nil
  modifies sw.data
  ensures no-slot: slot == nil ==> len(result) == 0 && sw.data == old(sw.data)
  ensures batch-is-interval: slot != nil && len(rowsIn(arr(old(sw.data)), len(old(sw.data)), *slot.Start, *slot.End, slot)) > 0 ==> result == rowsIn(arr(old(sw.data)), len(old(sw.data)), *slot.Start, *slot.End, slot)
  ensures evict-only-below-next-start: slot != nil && len(rowsIn(arr(old(sw.data)), len(old(sw.data)), *slot.Start, *slot.End, slot)) > 0 ==> sw.data == rowsFrom(arr(old(sw.data)), len(old(sw.data)), *slot.Start + sw.slide)
  ensures empty-interval-keeps-all: slot != nil && len(rowsIn(arr(old(sw.data)), len(old(sw.data)), *slot.Start, *slot.End, slot)) == 0 ==> len(result) == 0 && sw.data == old(sw.data)
  loop 1 invariant resultData == rowsIn(arr($s), $i, *slot.Start, *slot.End, slot)
  loop 2 invariant newData == rowsFrom(arr($s), $i, nextWindowStart)

func (*SlidingWindow).triggerSpecificWindowLocked
  props C08 C02
  held sw.mu
  requires swInv(sw)
  requires slot != nil && slot.Start != nil && slot.End != nil
  modifies *
  ensures still-locked: held(sw.mu) && wheld(sw.mu)
  ensures inv: swInv(sw)

func (*SlidingWindow).triggerLateUpdateLocked
  props C02 C08
  atreturn every-buffered-row-is-looked-at-for-the-late-update: $done3
  held sw.mu
  requires swInv(sw) && slot != nil && slot.Start != nil && slot.End != nil
  modifies *
  ensures held(sw.mu) && wheld(sw.mu)
  ensures swInv(sw)
  before Unlock the-re-delivered-batch-becomes-the-windows-new-snapshot: windowInfo != nil ==> len(windowInfo.snapshotData) == len(resultData) && forall(k, 0, len(resultData), windowInfo.snapshotData[k].Data == resultData[k].Data && windowInfo.snapshotData[k].Timestamp == resultData[k].Timestamp && windowInfo.snapshotData[k].Slot == slot)
  before Unlock every-re-delivered-row-carries-the-same-interval: forall(k, 0, len(resultData), resultData[k].Slot == slot)
  before Unlock late-rows-lie-in-the-interval: forall(k, 0, len(resultData), resultData[k].Slot == slot) && lateDataCount >= 0 && lateDataCount <= len(resultData)
  loop 1 invariant forall(k, 0, len(resultData), resultData[k].Slot == slot) && len(resultData) == $i
  loop 2 invariant forall(k, 0, len(resultData), resultData[k].Slot == slot)
  loop 3 invariant forall(k, 0, len(resultData), resultData[k].Slot == slot) && 0 <= lateDataCount && lateDataCount <= len(resultData)
  loop 4 invariant windowInfo != nil && len(windowInfo.snapshotData) == len(resultData) && forall(k, 0, $i, windowInfo.snapshotData[k].Data == resultData[k].Data && windowInfo.snapshotData[k].Timestamp == resultData[k].Timestamp && windowInfo.snapshotData[k].Slot == slot) && $s == resultData

func (*SlidingWindow).handleLateData
  props C02 C08
  held sw.mu
  requires swInv(sw)
  modifies *
  ensures still-locked: held(sw.mu) && wheld(sw.mu)
  ensures inv: swInv(sw)
  loop 1 invariant held(sw.mu) && wheld(sw.mu) && swInv(sw)

func (*SlidingWindow).closeExpiredWindows
  props C02 C08
  held sw.mu
  requires swInv(sw)
  modifies mapof(sw.triggeredWindows)
  ensures expiry-rule: forallv(k, "", dom(sw.triggeredWindows, k) <==> old(dom(sw.triggeredWindows, k)) && watermarkTime < old(sw.triggeredWindows[k].closeTime))
  ensures survivors-unchanged: forallv(k, "", dom(sw.triggeredWindows, k) ==> sw.triggeredWindows[k] == old(sw.triggeredWindows[k]))
  ensures inv: swInv(sw)
  loop 1 invariant forallv(k, "", dom(sw.triggeredWindows, k) <==> old(dom(sw.triggeredWindows, k)) && !($visited[k] && watermarkTime >= old(sw.triggeredWindows[k].closeTime)))
  loop 1 invariant forallv(k, "", dom(sw.triggeredWindows, k) ==> sw.triggeredWindows[k] == old(sw.triggeredWindows[k]))

func (*SlidingWindow).checkAndTriggerWindows
  props C08 C02
  acquires sw.mu
  modifies *
  before triggerSpecificWindowLocked fire-only-closed-windows: *slotToTrigger.End <= watermarkTime
  ensures caught-up: sw.initialized && sw.currentSlot != nil ==> *sw.currentSlot.End > watermarkTime
  ensures allowance-expired-windows-closed: old(sw.initialized) && old(sw.currentSlot) != nil ==> forallv(k, "", dom(sw.triggeredWindows, k) ==> watermarkTime < sw.triggeredWindows[k].closeTime)
  before triggerSpecificWindowLocked advanced-before-firing: sw.currentSlot != nil && *sw.currentSlot.Start == *slotToTrigger.Start + sw.slide
  loop 1 invariant held(sw.mu) && wheld(sw.mu) && swInv(sw)

func (*SlidingWindow).Add
  props C08 C02
  acquires sw.mu
  modifies *
  before Now the-arrival-stamp-is-taken-under-the-lock-that-orders-the-buffer: wheld(sw.mu)
  observe late := IsEventTimeLate
  ensures unplaceable-dropped: sw.config.TimeCharacteristic == "EventTime" && !second(extractTimestamp(data, sw.config.TsProp, sw.config.TimeUnit)) ==> sw.data == old(sw.data) && sw.currentSlot == old(sw.currentSlot) && sw.initialized == old(sw.initialized)
  ensures on-time-buffered: sw.config.TimeCharacteristic == "EventTime" && second(extractTimestamp(data, sw.config.TsProp, sw.config.TimeUnit)) && !$late ==> appended(sw.data, old(sw.data), extractTimestamp(data, sw.config.TsProp, sw.config.TimeUnit), data)
  ensures late-in-current-kept: sw.config.TimeCharacteristic == "EventTime" && second(extractTimestamp(data, sw.config.TsProp, sw.config.TimeUnit)) && $late && old(sw.initialized) && old(inSlot(sw.currentSlot, extractTimestamp(data, sw.config.TsProp, sw.config.TimeUnit))) ==> appended(sw.data, old(sw.data), extractTimestamp(data, sw.config.TsProp, sw.config.TimeUnit), data)
  ensures late-dropped: sw.config.TimeCharacteristic == "EventTime" && second(extractTimestamp(data, sw.config.TsProp, sw.config.TimeUnit)) && $late && !inSlot(sw.currentSlot, extractTimestamp(data, sw.config.TsProp, sw.config.TimeUnit)) && sw.config.AllowedLateness <= 0 ==> seqeq(sw.data, old(sw.data))
  ensures dropped-only-if-late: sw.config.TimeCharacteristic == "EventTime" && second(extractTimestamp(data, sw.config.TsProp, sw.config.TimeUnit)) && sw.config.AllowedLateness <= 0 && len(sw.data) == len(old(sw.data)) ==> $late
  ensures first-event-seats-slide-aligned-slot: sw.config.TimeCharacteristic == "EventTime" && second(extractTimestamp(data, sw.config.TsProp, sw.config.TimeUnit)) && !old(sw.initialized) && sw.config.AllowedLateness <= 0 ==> sw.initialized && sw.currentSlot != nil && *sw.currentSlot.Start == alignWindowStart(extractTimestamp(data, sw.config.TsProp, sw.config.TimeUnit), sw.slide)
  ensures accepted-row-never-before-current-interval: sw.config.TimeCharacteristic == "EventTime" && second(extractTimestamp(data, sw.config.TsProp, sw.config.TimeUnit)) && !$late && sw.config.AllowedLateness <= 0 && sw.slide <= sw.size ==> sw.currentSlot != nil && extractTimestamp(data, sw.config.TsProp, sw.config.TimeUnit) >= *sw.currentSlot.Start
  ensures slot-moves-only-back-for-on-time-earlier-event: old(sw.initialized) && sw.config.AllowedLateness <= 0 ==> sw.initialized && (sw.currentSlot == old(sw.currentSlot) || (sw.config.TimeCharacteristic == "EventTime" && extractTimestamp(data, sw.config.TsProp, sw.config.TimeUnit) < *old(sw.currentSlot).Start && *sw.currentSlot.Start == alignWindowStart(extractTimestamp(data, sw.config.TsProp, sw.config.TimeUnit), sw.slide) && extractTimestamp(data, sw.config.TsProp, sw.config.TimeUnit) < *sw.currentSlot.End))
  loop 1 invariant held(sw.mu) && wheld(sw.mu) && swInv(sw)

func (*SlidingWindow).SetCallback
  props C08 C02
  acquires sw.mu
  modifies sw.callback
  ensures sw.callback == callback

lemma C08-eviction-safe
  props C08
  var ts Int
  var start Int
  var slide Int
  var size Int
  var k Int
  assume (> slide 0)
  assume (> size 0)
  assume (>= k 1)
  assume (< ts (+ start slide))
  goal (not (and (<= (+ start (* k slide)) ts) (< ts (+ (+ start (* k slide)) size))))

lemma C08-membership-needs-only-later-rows
  props C08
  var ts Int
  var start Int
  var slide Int
  var size Int
  var k Int
  assume (> slide 0)
  assume (> size 0)
  assume (>= k 1)
  assume (and (<= (+ start (* k slide)) ts) (< ts (+ (+ start (* k slide)) size)))
  goal (>= ts (+ start slide))
@*/

/*@
func (*SlidingWindow).Trigger
  props C08 C02
  acquires sw.mu
  modifies *
  before Unlock event-time-noop: sw.config.TimeCharacteristic == "EventTime" ==> sw.data == old(sw.data) && sw.currentSlot == old(sw.currentSlot)
  before Unlock advances-by-one-slide: sw.currentSlot != old(sw.currentSlot) ==> sw.currentSlot != nil && *sw.currentSlot.Start == *old(sw.currentSlot).Start + sw.slide && *sw.currentSlot.End == *old(sw.currentSlot).End + sw.slide

func (*SlidingWindow).Reset
  props C08 C02
  modifies *
  before NewWatermark a-reset-window-keeps-the-configured-tolerance: $arg0 == sw.config.MaxOutOfOrderness && $arg2 == sw.config.IdleTimeout
  ensures cleared: !sw.initialized && sw.currentSlot == nil && len(sw.data) == 0

func NewSlidingWindow
  props C08 C02
  modifies *
  before NewWatermark the-watermark-trails-by-the-configured-tolerance: $arg0 == config.MaxOutOfOrderness && $arg2 == config.IdleTimeout
  ensures inv: result1 == nil ==> result0 != nil && swInv(result0) && !result0.initialized && len(result0.data) == 0
@*/

/*@
// ---------------------------------------------------------------- counting window (C09)
guarded_by CountingWindow.mu: keyedBuffer, keyedCount, lastActive
immutable CountingWindow: threshold, config
monitor CountingWindow.mu inv cwInv

pred cwInv(cw) := cw.threshold >= 1 && cw.keyedBuffer != nil && cw.keyedCount != nil && cw.lastActive != nil
  && forallv(k, "", dom(cw.keyedBuffer, k) ==> len(cw.keyedBuffer[k]) < cw.threshold)
  && forallv(k, "", dom(cw.keyedCount, k) ==> dom(cw.keyedBuffer, k) && cw.keyedCount[k] == len(cw.keyedBuffer[k]))

extern (*CountingWindow).getKey
  props C09 C04
  option pure

func (*CountingWindow).sendResult
  props C09 C04
  option channel_events
  modifies cw.sentCount, cw.droppedCount, ghost(sends), ghost(recvs), ghost(dones), ghost(timeouts), ghost(drained)
  before After under-the-blocking-policy-a-batch-waits-the-configured-time-for-room-five-seconds-when-none-is-configured: $arg0 == ite(cw.config.PerformanceConfig.OverflowConfig.BlockTimeout <= 0, 5000000000, cw.config.PerformanceConfig.OverflowConfig.BlockTimeout)
  ensures a-batch-is-booked-once-as-sent-or-as-dropped-unless-the-window-is-stopping: (cw.sentCount - old(cw.sentCount)) + (cw.droppedCount - old(cw.droppedCount)) + (ghost(dones) - old(ghost(dones))) == 1
  ensures it-is-booked-as-sent-exactly-when-it-was-put-on-the-output-channel: cw.sentCount - old(cw.sentCount) == ghost(sends) - old(ghost(sends)) && cw.sentCount >= old(cw.sentCount) && cw.droppedCount >= old(cw.droppedCount)

// a counting window is cut by its count alone: the manual trigger of the Window interface does nothing to it (a key with
// fewer than N rows never produces a result), and neither does the global window's
func (*CountingWindow).Trigger
  props C09 C04
  ensures the-manual-trigger-is-a-no-op-no-buffer-is-touched-no-batch-cut: true

func (*GlobalWindow).Trigger
  props C17 C04 C12
  ensures the-manual-trigger-is-a-no-op-no-group-is-touched-no-result-produced: true

func (*CountingWindow).createSlot
  props C09 C04
  ensures result == nil || fresh(result)

func (*CountingWindow).SetCallback
  props C09 C02
  modifies cw.callback
  ensures cw.callback == callback

// ingest side: every row offered to a running window is handed to the window goroutine (or the window is shutting down);
// no row is dropped for what it contains
func (*CountingWindow).Add
  props C09 C04
  option channel_events
  acquires cw.mu
  modifies ghost(sends), ghost(dones)
  ensures a-row-offered-to-a-running-window-is-queued-or-the-window-is-stopping: !old(cw.stopped) ==> ghost(sends) + ghost(dones) == old(ghost(sends)) + old(ghost(dones)) + 1
  ensures a-stopped-window-takes-nothing: old(cw.stopped) ==> ghost(sends) == old(ghost(sends))

func (*CountingWindow).Start$1
  props C09 C04
  modifies *
  observe seen := Now
  before Unlock a-key-with-pending-rows-was-active-just-now: len(buf) < cw.threshold ==> dom(cw.lastActive, key) && cw.lastActive[key] == $seen
  before Unlock a-fired-key-is-not-tracked-as-idle: len(buf) >= cw.threshold ==> !dom(cw.lastActive, key)
  before createSlot the-whole-buffer-of-the-key-fires: len(buf) == cw.threshold && buf[len(buf) - 1] == row
  before createSlot count-mirrors-buffer: cw.keyedCount[key] == len(buf)
  before sendResult batch-is-exactly-n-rows: len(data) == cw.threshold
  before sendResult batch-is-the-buffer-in-arrival-order: forall(i, 0, cw.threshold, data[i].Data == buf[i].Data && data[i].Timestamp == buf[i].Timestamp && data[i].Slot == slot)
  loop 2 invariant len(data) == cw.threshold && forall(j, 0, $i, data[j].Data == buf[j].Data && data[j].Timestamp == buf[j].Timestamp && data[j].Slot == slot) && forall(j, $i, cw.threshold, data[j].Data == buf[j].Data && data[j].Timestamp == buf[j].Timestamp)

func (*CountingWindow).reapIdleKeys
  props C09 C04
  acquires cw.mu
  modifies mapof(cw.keyedBuffer), mapof(cw.keyedCount), mapof(cw.lastActive)
  ensures only-idle-keys-reaped: forallv(k, "", old(dom(cw.keyedBuffer, k)) && !dom(cw.keyedBuffer, k) ==> old(dom(cw.lastActive, k)) && now - old(cw.lastActive[k]) > cw.countStateTTL)
  loop 1 invariant cwInv(cw) && held(cw.mu) && wheld(cw.mu)
  loop 1 invariant forallv(k, "", old(dom(cw.keyedBuffer, k)) && !dom(cw.keyedBuffer, k) ==> old(dom(cw.lastActive, k)) && now - old(cw.lastActive[k]) > cw.countStateTTL)
  loop 1 invariant forallv(k, "", dom(cw.keyedBuffer, k) ==> old(dom(cw.keyedBuffer, k)) && cw.keyedBuffer[k] == old(cw.keyedBuffer[k]))
  loop 1 invariant forallv(k, "", dom(cw.keyedCount, k) ==> old(dom(cw.keyedCount, k)) && cw.keyedCount[k] == old(cw.keyedCount[k]))
  loop 1 invariant forallv(k, "", dom(cw.lastActive, k) ==> old(dom(cw.lastActive, k)) && cw.lastActive[k] == old(cw.lastActive[k]))

func (*CountingWindow).Reset
  props C09 C04
  acquires cw.mu
  modifies cw.dataBuffer, cw.keyedBuffer, cw.keyedCount, cw.sentCount, cw.droppedCount
  ensures no-buffered-rows-survive: forallv(k, "", !dom(cw.keyedBuffer, k) && !dom(cw.keyedCount, k))

func NewCountingWindow
  props C09 C04
  modifies *
  ensures inv: result1 == nil ==> result0 != nil && cwInv(result0)
  ensures positive-threshold: result1 == nil ==> result0.threshold >= 1
@*/

/*@
// ---------------------------------------------------------------- global window (C17)
guarded_by GlobalWindow.mu: groups, callback, stopped
monitor GlobalWindow.mu inv gwInv
immutable GlobalWindow: countStateTTL

pred specMatches(gw, j, t, f) := gw.outputSpecs[j].aggType == t && normalizeField(gw.outputSpecs[j].inputField) == normalizeField(f)
pred trigSpecNamed(sp, ref, j) := sp.placeholder == fmt.Sprintf("__trig_%d__", j) && strings.ToLower(sp.aggType) == strings.ToLower(ref.triggerAggRef.funcName) && sp.inputField == ref.triggerAggRef.inputField
pred trigSpecBound(gw, sp) := sp.prototype == nil && exists(idx, 0, len(gw.outputSpecs), specMatches(gw, idx, sp.aggType, sp.inputField) && forall(m, 0, idx, !specMatches(gw, m, sp.aggType, sp.inputField)) && sp.outputAlias == gw.outputSpecs[idx].alias)
pred trigSpecOwn(gw, sp) := sp.outputAlias == "" && sp.prototype != nil && sp.prototype == aggregator.CreateBuiltinAggregator(sp.aggType) && forall(m, 0, len(gw.outputSpecs), !specMatches(gw, m, sp.aggType, sp.inputField))

pred gwInv(gw) := gw.groups != nil && forallv(k, "", dom(gw.groups, k) ==> gw.groups[k] != nil && gw.groups[k].keyValues != nil && gw.groups[k].outputAggs != nil && gw.groups[k].triggerAggs != nil)

// ---- TRIGGER WHEN text: AND / OR / = are lowered only as whole words outside quotes and identifiers
func isWordChar
  props C17 C04 C12
  option pure
  ensures result <==> (c >= 97 && c <= 122) || (c >= 65 && c <= 90) || (c >= 48 && c <= 57) || c == 95

func isOpChar
  props C17 C04 C12
  option pure
  ensures result <==> c == 61 || c == 62 || c == 60 || c == 33

func toLower
  props C17 C04 C12
  option pure
  ensures result == ite(c >= 65 && c <= 90, c + 32, c)

func hasWordAt
  props C17 C04 C12
  option safety
  option pure
  requires i >= 0
  ensures a-word-fits: result ==> i + len(word) <= len(s)
  ensures case-insensitive-match-at-i: result <==> i + len(word) <= len(s) && forall(k, 0, len(word), toLower(s[i + k]) == word[k])
  loop 1 invariant 0 <= j && j <= len(word) && i + len(word) <= len(s) && forall(k, 0, j, toLower(s[i + k]) == word[k])
  loop 1 decreases len(word) - j

func normalizeTriggerPredicate
  props C17 C04 C12
  option safety
  option pure
  before WriteString logical-words-are-lowered-only-as-whole-words-outside-quotes-and-identifiers: ($arg1 == "&&" ==> inQuote == 0 && !isWordChar(prev) && hasWordAt(s, i, "and") && (i + 3 >= n || !isWordChar(s[i + 3]))) && ($arg1 == "||" ==> inQuote == 0 && !isWordChar(prev) && hasWordAt(s, i, "or") && (i + 2 >= n || !isWordChar(s[i + 2]))) && ($arg1 == "==" ==> inQuote == 0 && !isOpChar(prev))
  loop 1 invariant 0 <= i && i <= n && n == len(s)
  loop 1 decreases n - i

func normalizeField
  props C17 C04 C12
  option pure
  ensures the-comparison-key-is-the-field-lower-cased-and-trimmed-whole-an-empty-field-means-star: result == ite(strings.TrimSpace(strings.ToLower(f)) == "", "*", strings.TrimSpace(strings.ToLower(f)))

func (*GlobalWindow).findOutputSpec
  props C17 C04 C12
  ensures found-spec-has-the-same-aggregate-and-column: result != -1 ==> 0 <= result && result < len(gw.outputSpecs) && gw.outputSpecs[result].aggType == aggType && normalizeField(gw.outputSpecs[result].inputField) == normalizeField(inputField)
  ensures first-match: result != -1 ==> forall(j, 0, result, !(gw.outputSpecs[j].aggType == aggType && normalizeField(gw.outputSpecs[j].inputField) == normalizeField(inputField)))
  ensures minus-one-means-no-match: result == -1 ==> forall(j, 0, len(gw.outputSpecs), !(gw.outputSpecs[j].aggType == aggType && normalizeField(gw.outputSpecs[j].inputField) == normalizeField(inputField)))
  loop 1 invariant forall(j, 0, $i, !(gw.outputSpecs[j].aggType == aggType && normalizeField(gw.outputSpecs[j].inputField) == normalizeField(inputField)))

extern (*GlobalWindow).getKeyAndValues
  props C17 C04 C12
  option pure

func lookupFieldValue
  props C17 C04 C12
  option pure
  ensures a-plain-column-is-read-from-the-row-itself-absent-stays-absent: !fieldpath.IsNestedField(field) ==> result1 == dom(data, field) && (dom(data, field) ==> result0 == data[field])
  ensures a-path-is-resolved-by-the-shared-path-reader: fieldpath.IsNestedField(field) ==> result0 == fieldpath.GetNestedField(boxof(data, map[string]any), field) && result1 == second(fieldpath.GetNestedField(boxof(data, map[string]any), field))

func toAggregateValue
  props C17 C04 C12
  option pure
  ensures non-null-stays-non-null: v != nil ==> result != nil
  ensures what-reads-as-a-number-is-fed-as-that-number-anything-else-unchanged: result == ite(second(cast.ToFloat64E(v)) == nil, boxof(cast.ToFloat64E(v), float64), v)

// howMany(m, n): the number of indices below n at which m holds
recfunc howMany((m (Array Int Bool)) (n Int)) Int := (ite (<= n 0) 0 (+ (@howMany m (- n 1)) (ite (select m (- n 1)) 1 0)))
pred hasInput(data, f) := f == "*" || (second(lookupFieldValue(data, f)) && lookupFieldValue(data, f) != nil)

func feedAggs
  props C17 C04 C12
  modifies pkgheaps(functions)
  count fed := Add
  atreturn every-aggregate-with-an-input-on-this-row-is-fed-once-whatever-the-others-see: $fed == howMany(arrayof(j, 0, target[specs[j].alias] != nil && hasInput(data, specs[j].inputField)), len(specs))
  loop 1 invariant $fed == howMany(arrayof(j, 0, target[specs[j].alias] != nil && hasInput(data, specs[j].inputField)), $i)
  before Add null-or-missing-input-is-never-fed: $arg1 != nil
  before Add only-count-star-counts-rows-every-other-aggregate-is-fed-the-rows-own-value: (spec.inputField == "*" ==> $arg1 == boxof(1, int)) && (spec.inputField != "*" ==> second(lookupFieldValue(data, spec.inputField)) && lookupFieldValue(data, spec.inputField) != nil && $arg1 == toAggregateValue(lookupFieldValue(data, spec.inputField)))

func feedTriggerAggs
  props C17 C04 C12
  modifies pkgheaps(functions)
  count fed := Add
  atreturn every-trigger-only-aggregate-with-an-input-on-this-row-is-fed-once-whatever-the-others-see: $fed == howMany(arrayof(j, 0, specs[j].prototype != nil && target[specs[j].placeholder] != nil && hasInput(data, specs[j].inputField)), len(specs))
  loop 1 invariant $fed == howMany(arrayof(j, 0, specs[j].prototype != nil && target[specs[j].placeholder] != nil && hasInput(data, specs[j].inputField)), $i)
  before Add null-or-missing-input-is-never-fed: $arg1 != nil
  before Add only-count-star-counts-rows-every-other-aggregate-is-fed-the-rows-own-value: (spec.inputField == "*" ==> $arg1 == boxof(1, int)) && (spec.inputField != "*" ==> second(lookupFieldValue(data, spec.inputField)) && lookupFieldValue(data, spec.inputField) != nil && $arg1 == toAggregateValue(lookupFieldValue(data, spec.inputField)))

func newGroupState
  props C17 C04 C12
  atreturn every-output-and-trigger-aggregate-gets-its-accumulator: $done2 && $done3
  modifies pkgheaps(functions)
  count news := New
  observe acc := New
  atreturn every-alias-gets-an-accumulator-of-its-own-none-is-shared: $news == len(outputSpecs) + howMany(arrayof(j, 0, triggerSpecs[j].prototype != nil), len(triggerSpecs))
  loop 1 invariant $news == 0
  loop 2 invariant $news == $i
  loop 2 invariant the-accumulator-stored-for-an-alias-is-the-one-just-made-for-it: $i > 0 ==> gs.outputAggs[$s[$i - 1].alias] == $acc
  loop 3 invariant $news == len(outputSpecs) + howMany(arrayof(j, 0, triggerSpecs[j].prototype != nil), $i)
  ensures starts-from-empty: fresh(result) && !result.hasData && fresh(result.keyValues) && fresh(result.outputAggs) && fresh(result.triggerAggs) && result.key == key
  loop 1 invariant fresh(gs) && fresh(gs.keyValues) && fresh(gs.outputAggs) && fresh(gs.triggerAggs) && !gs.hasData && gs.key == key
  loop 2 invariant fresh(gs) && fresh(gs.keyValues) && fresh(gs.outputAggs) && fresh(gs.triggerAggs) && !gs.hasData && gs.key == key
  loop 3 invariant fresh(gs) && fresh(gs.keyValues) && fresh(gs.outputAggs) && fresh(gs.triggerAggs) && !gs.hasData && gs.key == key

// the decision of a row is the compiled predicate's, asked once over every aggregate the group has (a NULL aggregate
// value is handed over as NULL; it is the predicate that decides what NULL means)
pred trigAggLive(gw, gs, j) := ite(gw.triggerSpecs[j].outputAlias != "", gs.outputAggs[gw.triggerSpecs[j].outputAlias] != nil, gs.triggerAggs[gw.triggerSpecs[j].placeholder] != nil)

func (*GlobalWindow).shouldFire
  props C17 C04 C12
  held gw.mu
  count asked := Evaluate
  observe verdict := Evaluate
  before Evaluate every-aggregate-the-group-has-is-bound-to-its-placeholder-null-or-not: forall(j, 0, len(gw.triggerSpecs), trigAggLive(gw, gs, j) ==> dom(env, gw.triggerSpecs[j].placeholder))
  atreturn the-compiled-predicate-is-asked-once-and-its-answer-is-the-decision: $asked == 1 && result == $verdict
  loop 1 invariant $asked == 0 && forall(j, 0, $i, trigAggLive(gw, gs, j) ==> dom(env, gw.triggerSpecs[j].placeholder))

// the fired row carries the group's key columns as they are, every SELECT aggregate's own value exactly as the aggregate
// reports it, and the window bounds
func (*GlobalWindow).buildResult
  props C17 C04 C12
  held gw.mu
  ensures result-is-a-new-row: fresh(result)
  observe val := Result
  ensures the-key-columns-are-the-groups-own: forallv(k, "", dom(gs.keyValues, k) && forall(j, 0, len(gw.outputSpecs), gw.outputSpecs[j].alias != k) && k != "window_start" && k != "window_end" ==> dom(result, k) && result[k] == gs.keyValues[k])
  ensures the-window-bounds-are-the-groups-own: result["window_start"] == boxof(gs.windowStart, time.Time) && result["window_end"] == boxof(gs.windowEnd, time.Time)
  loop 1 invariant fresh(result) && forallv(k, "", $visited[k] && dom(gs.keyValues, k) ==> dom(result, k) && result[k] == gs.keyValues[k])
  loop 2 invariant fresh(result) && forallv(k, "", dom(gs.keyValues, k) && forall(j, 0, len(gw.outputSpecs), gw.outputSpecs[j].alias != k) ==> dom(result, k) && result[k] == gs.keyValues[k])
  loop 2 invariant the-value-stored-for-an-aggregate-is-what-it-just-reported: $i > 0 && gs.outputAggs[$s[$i - 1].alias] != nil ==> result[$s[$i - 1].alias] == $val

extern (*GlobalWindow).deliver
  props C17 C04 C12
  modifies *

func (*GlobalWindow).processRow
  props C17 C04 C12
  acquires gw.mu
  modifies *
  observe fire := shouldFire
  observe built := buildResult
  count delivered := deliver
  count fedOut := feedAggs
  count fedTrig := feedTriggerAggs
  before shouldFire row-is-fed-exactly-once-before-the-predicate-is-tested: $fedOut == 1 && $fedTrig == 1
  atreturn fires-whenever-the-predicate-holds: $fire ==> $delivered == 1
  atreturn at-most-one-result-per-row: $delivered <= 1
  before deliver fires-only-when-the-predicate-holds: $fire
  before deliver delivers-the-result-built-for-this-group: $arg1 == $built
  before deliver group-is-purged-before-delivery: !dom(gw.groups, key)
  before deliver other-groups-neither-trigger-nor-change: forallv(k, "", k != key ==> (dom(gw.groups, k) <==> old(dom(gw.groups, k))) && gw.groups[k] == old(gw.groups[k]))
  before buildResult result-is-built-from-the-rows-group: $arg1 == gs
  before shouldFire predicate-is-tested-on-the-rows-group: $arg1 == gs
  before Unlock group-kept-while-predicate-is-false: wheld(gw.mu) && !$fire && gs != nil ==> dom(gw.groups, key) && gw.groups[key] == gs
  loop 1 invariant held(gw.mu) && wheld(gw.mu) && gs != nil && gs.keyValues != nil && dom(gw.groups, key) && gw.groups[key] == gs && gwInv(gw)
  loop 1 invariant forallv(k, "", k != key ==> (dom(gw.groups, k) <==> old(dom(gw.groups, k))) && gw.groups[k] == old(gw.groups[k]))

// group state lives until its group fires; it is reaped on a timer only when a state TTL is configured
func (*GlobalWindow).Start$1
  props C17 C04 C12
  modifies *
  before reapIdleKeys idle-state-is-reaped-only-under-a-configured-ttl: gw.countStateTTL > 0
  before NewTicker the-reaper-ticks-at-half-the-ttl-but-not-faster-than-once-a-second: gw.countStateTTL > 0 && $arg0 == ite(gw.countStateTTL / 2 < 1000000000, 1000000000, gw.countStateTTL / 2)
  loop 1 invariant gw.countStateTTL == old(gw.countStateTTL) && (tickChan != nil ==> gw.countStateTTL > 0)

func (*GlobalWindow).sendResult
  props C17 C04 C12
  option channel_events
  modifies gw.sentCount, gw.droppedCount, ghost(sends), ghost(recvs), ghost(dones), ghost(timeouts), ghost(drained)
  before After under-the-blocking-policy-a-result-waits-the-configured-time-for-room-five-seconds-when-none-is-configured: $arg0 == ite(gw.config.PerformanceConfig.OverflowConfig.BlockTimeout <= 0, 5000000000, gw.config.PerformanceConfig.OverflowConfig.BlockTimeout)
  ensures a-batch-is-booked-once-as-sent-or-as-dropped-unless-the-window-is-stopping: (gw.sentCount - old(gw.sentCount)) + (gw.droppedCount - old(gw.droppedCount)) + (ghost(dones) - old(ghost(dones))) == 1
  ensures it-is-booked-as-sent-exactly-when-it-was-put-on-the-output-channel: gw.sentCount - old(gw.sentCount) == ghost(sends) - old(ghost(sends)) && gw.sentCount >= old(gw.sentCount) && gw.droppedCount >= old(gw.droppedCount)

func (*GlobalWindow).reapIdleKeys
  props C17 C04 C12
  acquires gw.mu
  modifies mapof(gw.groups)
  ensures only-idle-groups-reaped: forallv(k, "", old(dom(gw.groups, k)) && !dom(gw.groups, k) ==> now - old(gw.groups[k]).lastActive > gw.countStateTTL)
  loop 1 invariant gwInv(gw) && held(gw.mu) && wheld(gw.mu)
  loop 1 invariant forallv(k, "", old(dom(gw.groups, k)) && !dom(gw.groups, k) ==> now - old(gw.groups[k]).lastActive > gw.countStateTTL)
  loop 1 invariant forallv(k, "", dom(gw.groups, k) ==> old(dom(gw.groups, k)) && gw.groups[k] == old(gw.groups[k]))

func (*GlobalWindow).Reset
  props C17 C04 C12
  acquires gw.mu
  modifies gw.groups, gw.sentCount, gw.droppedCount
  ensures every-group-restarts-from-empty: forallv(k, "", !dom(gw.groups, k))

func (*GlobalWindow).SetCallback
  props C17 C04 C12
  acquires gw.mu
  modifies gw.callback
  ensures gw.callback == callback

func (*GlobalWindow).Stop
  props C17 C04 C12
  modifies *
  ensures true

// a row offered to a running window is either handed to the worker or the window is being shut down: it is never
// put aside because the worker is busy
func (*GlobalWindow).Add
  props C17 C04 C12
  modifies *
  atreturn a-row-offered-to-a-running-window-reaches-the-worker-unless-the-window-is-shutting-down: ($selected == -2 && stopped) || $selected == 0 || $selected == 1


func (*GlobalWindow).buildOutputSpecs
  props C17 C04 C12
  requires gw != nil
  modifies gw.outputSpecs
  ensures every-output-aggregate-is-a-select-item-with-its-own-type-and-input-column: forall(j, len(old(gw.outputSpecs)), len(gw.outputSpecs), dom(gw.config.SelectFields, gw.outputSpecs[j].alias) && gw.outputSpecs[j].aggType == gw.config.SelectFields[gw.outputSpecs[j].alias] && gw.outputSpecs[j].inputField == ite(gw.config.FieldAlias[gw.outputSpecs[j].alias] == "", gw.outputSpecs[j].alias, gw.config.FieldAlias[gw.outputSpecs[j].alias]) && gw.outputSpecs[j].prototype != nil && gw.outputSpecs[j].prototype == aggregator.CreateBuiltinAggregator(gw.outputSpecs[j].aggType))
  ensures no-runnable-select-aggregate-is-left-without-a-spec: forallv(a, "", dom(gw.config.SelectFields, a) && gw.config.SelectFields[a] != "post_aggregation" && gw.config.SelectFields[a] != "expression" && aggregator.CreateBuiltinAggregator(gw.config.SelectFields[a]) != nil ==> exists(j, 0, len(gw.outputSpecs), gw.outputSpecs[j].alias == a))
  loop 1 invariant forallv(a, "", $visited[a] && dom(gw.config.SelectFields, a) && gw.config.SelectFields[a] != "post_aggregation" && gw.config.SelectFields[a] != "expression" && aggregator.CreateBuiltinAggregator(gw.config.SelectFields[a]) != nil ==> exists(j, 0, len(gw.outputSpecs), gw.outputSpecs[j].alias == a))
  ensures earlier-specs-kept: len(gw.outputSpecs) >= len(old(gw.outputSpecs)) && forall(j, 0, len(old(gw.outputSpecs)), gw.outputSpecs[j] == old(gw.outputSpecs)[j])
  ensures no-error: result == nil
  loop 1 invariant len(gw.outputSpecs) >= len(old(gw.outputSpecs)) && forall(j, 0, len(old(gw.outputSpecs)), gw.outputSpecs[j] == old(gw.outputSpecs)[j])
  loop 1 invariant forall(j, len(old(gw.outputSpecs)), len(gw.outputSpecs), dom(gw.config.SelectFields, gw.outputSpecs[j].alias) && gw.outputSpecs[j].aggType == gw.config.SelectFields[gw.outputSpecs[j].alias] && gw.outputSpecs[j].inputField == ite(gw.config.FieldAlias[gw.outputSpecs[j].alias] == "", gw.outputSpecs[j].alias, gw.config.FieldAlias[gw.outputSpecs[j].alias]) && gw.outputSpecs[j].prototype != nil && gw.outputSpecs[j].prototype == aggregator.CreateBuiltinAggregator(gw.outputSpecs[j].aggType))

extern (*GlobalWindow).findAggCalls
  props C17 C04 C12
  option pure

// the i-th aggregate call of the predicate becomes the i-th trigger spec, under its own placeholder, type and input column;
// it is bound to a SELECT output aggregate exactly when findOutputSpec finds one, and gets a prototype of its own type otherwise
func (*GlobalWindow).buildTrigger
  props C17 C04 C12
  requires gw != nil
  modifies gw.triggerSpecs, gw.rewrittenPredicate, gw.triggerCond
  before findAggCalls the-predicate-is-normalised-before-the-aggregate-calls-are-looked-for: $arg1 == normalizeTriggerPredicate(old(predicate))
  atreturn one-spec-per-aggregate-call-in-document-order: result == nil ==> len(gw.triggerSpecs) == len(refs) && forall(j, 0, len(gw.triggerSpecs), trigSpecNamed(gw.triggerSpecs[j], refs[j], j) && (trigSpecBound(gw, gw.triggerSpecs[j]) || trigSpecOwn(gw, gw.triggerSpecs[j])))
  atreturn a-compiled-predicate-is-installed: result == nil ==> gw.triggerCond != nil
  loop 1 invariant len(gw.triggerSpecs) == $i && gw.outputSpecs == old(gw.outputSpecs)
  loop 1 invariant forall(j, 0, $i, trigSpecNamed(gw.triggerSpecs[j], refs[j], j))
  loop 1 invariant forall(j, 0, $i, trigSpecBound(gw, gw.triggerSpecs[j]) || trigSpecOwn(gw, gw.triggerSpecs[j]))

func NewGlobalWindow
  props C17 C04 C12
  modifies *
  ensures inv: result1 == nil ==> result0 != nil && gwInv(result0)
@*/

/*@
// ---------------------------------------------------------------- session window (C10, C02)
guarded_by SessionWindow.mu: sessionMap, initialized, triggeredSessions, callback
immutable SessionWindow: config, timeout
monitor SessionWindow.mu inv ssInv

pred sessOK(s, timeout) := s != nil && allocated(s) && s.slot != nil && allocated(s.slot) && allocated(s.slot.Start) && allocated(s.slot.End)
  && *s.slot.End == s.lastActive + timeout && *s.slot.Start <= s.lastActive
  && forall(i, 0, len(s.data), s.data[i].Timestamp >= *s.slot.Start && s.data[i].Timestamp <= s.lastActive && s.data[i].Slot == s.slot)
pred ssInv(sw) := sw.timeout > 0 && sw.sessionMap != nil && sw.triggeredSessions != nil
  && forallv(k, "", dom(sw.sessionMap, k) ==> sessOK(sw.sessionMap[k], sw.timeout))
  && forallv(a, "", forallv(b, "", a != b && dom(sw.sessionMap, a) && dom(sw.sessionMap, b) ==> sw.sessionMap[a].slot != sw.sessionMap[b].slot))
  && forallv(k, "", dom(sw.triggeredSessions, k) ==> sw.triggeredSessions[k] != nil && sw.triggeredSessions[k].session != nil && sw.triggeredSessions[k].session.slot != nil && sw.triggeredSessions[k].session.slot.Start != nil && sw.triggeredSessions[k].session.slot.End != nil && allocated(sw.triggeredSessions[k].session))
  && forallv(a, "", forallv(b, "", dom(sw.sessionMap, a) && dom(sw.triggeredSessions, b) ==> sw.sessionMap[a] != sw.triggeredSessions[b].session))

extern extractSessionCompositeKey
  props C10 C02 C04
  option pure

func (*SessionWindow).handleLateData
  props C10 C02 C04
  held sw.mu
  requires ssInv(sw)
  modifies *
  ensures still-locked: held(sw.mu) && wheld(sw.mu)
  ensures inv: ssInv(sw)
  before triggerLateUpdateLocked late-row-joins-only-a-delivered-session-containing-it: *$arg1.slot.Start <= row.Timestamp && row.Timestamp < *$arg1.slot.End && existsv(k, "", dom(sw.triggeredSessions, k) && sw.triggeredSessions[k].session == $arg1)
  before triggerLateUpdateLocked the-late-row-is-kept-in-the-session-before-the-session-is-delivered-again: len($arg1.data) >= 1 && $arg1.data[len($arg1.data) - 1] == row && len($arg1.data) == old(len($arg1.data)) + 1 && forall(j, 0, len($arg1.data) - 1, $arg1.data[j] == old($arg1.data[j]))
  before triggerLateUpdateLocked open-sessions-are-not-touched-by-late-data: forallv(k, "", dom(sw.sessionMap, k) <==> old(dom(sw.sessionMap, k))) && forallv(k, "", dom(sw.sessionMap, k) ==> sw.sessionMap[k] == old(sw.sessionMap[k]))
  loop 1 invariant held(sw.mu) && wheld(sw.mu) && ssInv(sw)
  loop 1 invariant forallv(k, "", dom(sw.sessionMap, k) <==> old(dom(sw.sessionMap, k))) && forallv(k, "", dom(sw.sessionMap, k) ==> sw.sessionMap[k] == old(sw.sessionMap[k]))

func (*SessionWindow).triggerLateUpdateLocked
  props C10 C02 C04
  held sw.mu
  requires ssInv(sw)
  modifies *
  before sendResult the-batch-delivered-again-is-the-sessions-rows-late-ones-included: seqeq($arg1, old(s.data))
  count sent := sendResult
  atreturn a-session-with-rows-is-delivered-again-once: $sent == ite(old(len(s.data)) == 0, 0, 1)
  ensures still-locked: held(sw.mu) && wheld(sw.mu)
  ensures inv: ssInv(sw)

func (*SessionWindow).closeExpiredSessions
  props C10 C02 C04
  held sw.mu
  requires ssInv(sw)
  modifies mapof(sw.triggeredSessions)
  ensures expiry-rule: forallv(k, "", dom(sw.triggeredSessions, k) <==> old(dom(sw.triggeredSessions, k)) && watermarkTime < old(sw.triggeredSessions[k].closeTime))
  ensures survivors-unchanged: forallv(k, "", dom(sw.triggeredSessions, k) ==> sw.triggeredSessions[k] == old(sw.triggeredSessions[k]))
  ensures inv: ssInv(sw)
  loop 1 invariant forallv(k, "", dom(sw.triggeredSessions, k) <==> old(dom(sw.triggeredSessions, k)) && !($visited[k] && watermarkTime >= old(sw.triggeredSessions[k].closeTime)))
  loop 1 invariant forallv(k, "", dom(sw.triggeredSessions, k) ==> sw.triggeredSessions[k] == old(sw.triggeredSessions[k]))

func (*SessionWindow).sendResult
  props C10 C02 C04
  option channel_events
  modifies sw.sentCount, sw.droppedCount, ghost(sends), ghost(recvs), ghost(dones), ghost(timeouts), ghost(drained)
  before After under-the-blocking-policy-a-batch-waits-the-configured-time-for-room-five-seconds-when-none-is-configured: $arg0 == ite(sw.config.PerformanceConfig.OverflowConfig.BlockTimeout <= 0, 5000000000, sw.config.PerformanceConfig.OverflowConfig.BlockTimeout)
  ensures a-batch-is-booked-once-as-sent-or-as-dropped-unless-the-window-is-stopping: (sw.sentCount - old(sw.sentCount)) + (sw.droppedCount - old(sw.droppedCount)) + (ghost(dones) - old(ghost(dones))) == 1
  ensures it-is-booked-as-sent-exactly-when-it-was-put-on-the-output-channel: sw.sentCount - old(sw.sentCount) == ghost(sends) - old(ghost(sends)) && sw.sentCount >= old(sw.sentCount) && sw.droppedCount >= old(sw.droppedCount)

// processing time: sessions are looked over at every tick of a timer that runs twice per timeout, and only then
func (*SessionWindow).startProcessingTime$1
  props C10 C02 C04
  modifies *
  count ticks := select@2#0
  count scans := checkExpiredSessions
  before NewTicker expiry-is-looked-for-twice-per-timeout: $arg0 == sw.timeout / 2
  before checkExpiredSessions sessions-are-looked-over-because-the-timer-ticked: $selected == 0
  loop 1 invariant every-tick-so-far-was-followed-by-one-look-over-the-sessions: $scans == $ticks

// every watermark the session window receives is acted on: the open sessions are scanned against it, none is skipped
func (*SessionWindow).startEventTime$1
  props C10 C02 C04
  modifies *
  count taken := select@2#0
  count scans := checkAndTriggerSessions
  before checkAndTriggerSessions the-scan-runs-against-the-watermark-just-received: $selected == 0 && $arg1 == watermarkTime
  loop 1 invariant every-watermark-received-so-far-was-followed-by-a-scan: $scans == $taken

func (*SessionWindow).checkAndTriggerSessions
  props C10 C02 C04
  acquires sw.mu
  modifies *
  observe batch := collectExpiredSessions
  before collectExpiredSessions sessions-end-against-the-watermark-itself-not-a-later-time: $arg1 == watermarkTime
  before closeExpiredSessions the-lateness-allowance-runs-against-the-watermark-itself: $arg1 == watermarkTime
  before sendResults sends-exactly-what-expired-under-the-lock: resultsToSend == $batch

func (*SessionWindow).checkExpiredSessions
  props C10 C02 C04
  acquires sw.mu
  modifies *
  observe batch := collectExpiredSessions
  before sendResults sends-exactly-what-expired-under-the-lock: resultsToSend == $batch

func (*SessionWindow).SetCallback
  props C10 C02 C04
  acquires sw.mu
  modifies sw.callback
  ensures sw.callback == callback

func (*SessionWindow).Reset
  props C10 C02 C04
  modifies *
  before NewWatermark a-reset-window-keeps-the-configured-tolerance: $arg0 == sw.config.MaxOutOfOrderness && $arg2 == sw.config.IdleTimeout

func (*SessionWindow).Trigger
  props C10 C02 C04
  acquires sw.mu
  modifies *

func (*SessionWindow).Stop
  props C10 C02 C04
  modifies *

func NewSessionWindow
  props C10 C02 C04
  modifies *
  before NewWatermark the-watermark-trails-by-the-configured-tolerance-whatever-the-timeout: $arg0 == config.MaxOutOfOrderness && $arg2 == config.IdleTimeout
  ensures inv: result1 == nil ==> result0 != nil && ssInv(result0) && !result0.initialized
  ensures no-open-session: result1 == nil ==> forallv(k, "", !dom(result0.sessionMap, k))

func (*SessionWindow).Add
  props C10 C02 C04
  acquires sw.mu
  modifies *
  before Now the-arrival-stamp-is-taken-under-the-lock-that-orders-the-buffer: wheld(sw.mu)
  owns TimeSlot.End TimeSlot.Start
  observe late := IsEventTimeLate
  before extractSessionCompositeKey late-event-never-reaches-ingest: !$late
  before extractSessionCompositeKey unplaceable-event-never-reaches-ingest: sw.config.TimeCharacteristic == "EventTime" ==> second(extractTimestamp(data, sw.config.TsProp, sw.config.TimeUnit))
  ensures unplaceable-dropped: sw.config.TimeCharacteristic == "EventTime" && !second(extractTimestamp(data, sw.config.TsProp, sw.config.TimeUnit)) ==> sw.sessionMap == old(sw.sessionMap) && mapUnchangedS(sw)
  ensures late-event-opens-no-session: sw.config.TimeCharacteristic == "EventTime" && second(extractTimestamp(data, sw.config.TsProp, sw.config.TimeUnit)) && $late && sw.config.AllowedLateness <= 0 ==> sw.sessionMap == old(sw.sessionMap) && mapUnchangedS(sw)
  ensures first-event-of-a-key-opens-its-session: sw.config.TimeCharacteristic == "EventTime" && second(extractTimestamp(data, sw.config.TsProp, sw.config.TimeUnit)) && !$late && !old(dom(sw.sessionMap, extractSessionCompositeKey(data, sw.config.GroupByKeys))) ==> dom(sw.sessionMap, extractSessionCompositeKey(data, sw.config.GroupByKeys)) && *sw.sessionMap[extractSessionCompositeKey(data, sw.config.GroupByKeys)].slot.Start == extractTimestamp(data, sw.config.TsProp, sw.config.TimeUnit) && *sw.sessionMap[extractSessionCompositeKey(data, sw.config.GroupByKeys)].slot.End == extractTimestamp(data, sw.config.TsProp, sw.config.TimeUnit) + sw.timeout && len(sw.sessionMap[extractSessionCompositeKey(data, sw.config.GroupByKeys)].data) == 1
  ensures accepted-event-joins-the-keys-session-once: sw.config.TimeCharacteristic == "EventTime" && second(extractTimestamp(data, sw.config.TsProp, sw.config.TimeUnit)) && !$late && old(dom(sw.sessionMap, extractSessionCompositeKey(data, sw.config.GroupByKeys))) ==> sw.sessionMap[extractSessionCompositeKey(data, sw.config.GroupByKeys)] == old(sw.sessionMap[extractSessionCompositeKey(data, sw.config.GroupByKeys)]) && len(sw.sessionMap[extractSessionCompositeKey(data, sw.config.GroupByKeys)].data) == len(old(sw.sessionMap[extractSessionCompositeKey(data, sw.config.GroupByKeys)].data)) + 1
  ensures window-start-is-the-earliest-and-end-the-latest-plus-timeout: sw.config.TimeCharacteristic == "EventTime" && second(extractTimestamp(data, sw.config.TsProp, sw.config.TimeUnit)) && !$late && old(dom(sw.sessionMap, extractSessionCompositeKey(data, sw.config.GroupByKeys))) ==> *sw.sessionMap[extractSessionCompositeKey(data, sw.config.GroupByKeys)].slot.Start == ite(extractTimestamp(data, sw.config.TsProp, sw.config.TimeUnit) < old(*sw.sessionMap[extractSessionCompositeKey(data, sw.config.GroupByKeys)].slot.Start), extractTimestamp(data, sw.config.TsProp, sw.config.TimeUnit), old(*sw.sessionMap[extractSessionCompositeKey(data, sw.config.GroupByKeys)].slot.Start)) && sw.sessionMap[extractSessionCompositeKey(data, sw.config.GroupByKeys)].lastActive == ite(extractTimestamp(data, sw.config.TsProp, sw.config.TimeUnit) > old(sw.sessionMap[extractSessionCompositeKey(data, sw.config.GroupByKeys)].lastActive), extractTimestamp(data, sw.config.TsProp, sw.config.TimeUnit), old(sw.sessionMap[extractSessionCompositeKey(data, sw.config.GroupByKeys)].lastActive))
  ensures [C10] gap-above-the-timeout-starts-a-new-session: sw.config.TimeCharacteristic == "EventTime" && second(extractTimestamp(data, sw.config.TsProp, sw.config.TimeUnit)) && !$late && old(dom(sw.sessionMap, extractSessionCompositeKey(data, sw.config.GroupByKeys))) && extractTimestamp(data, sw.config.TsProp, sw.config.TimeUnit) > old(*sw.sessionMap[extractSessionCompositeKey(data, sw.config.GroupByKeys)].slot.End) ==> sw.sessionMap[extractSessionCompositeKey(data, sw.config.GroupByKeys)] != old(sw.sessionMap[extractSessionCompositeKey(data, sw.config.GroupByKeys)])

func (*SessionWindow).collectExpiredSessions
  props C10 C02 C04
  held sw.mu
  requires ssInv(sw)
  modifies mapof(sw.sessionMap), mapof(sw.triggeredSessions)
  ensures ssInv(sw)
  ensures delivered-only-after-the-watermark-passed-its-end: forallv(k, "", old(dom(sw.sessionMap, k)) && !dom(sw.sessionMap, k) ==> currentTime >= old(*sw.sessionMap[k].slot.End))
  ensures every-ended-session-leaves-the-open-set: forallv(k, "", old(dom(sw.sessionMap, k)) && currentTime >= old(*sw.sessionMap[k].slot.End) ==> !dom(sw.sessionMap, k))
  ensures sessions-still-open-are-untouched: forallv(k, "", dom(sw.sessionMap, k) ==> old(dom(sw.sessionMap, k)) && sw.sessionMap[k] == old(sw.sessionMap[k]))
  ensures a-delivered-session-stays-open-for-late-rows-until-its-end-plus-the-allowance: sw.config.AllowedLateness > 0 ==> forallv(k, "", old(dom(sw.sessionMap, k)) && !dom(sw.sessionMap, k) && len(old(sw.sessionMap[k]).data) > 0 ==> dom(sw.triggeredSessions, k) && sw.triggeredSessions[k].session == old(sw.sessionMap[k]) && sw.triggeredSessions[k].closeTime == old(*sw.sessionMap[k].slot.End) + sw.config.AllowedLateness)
  ensures every-result-is-the-rows-of-one-ended-session: forall(j, 0, len(result), len(result[j]) > 0 && existsv(k, "", old(dom(sw.sessionMap, k)) && !dom(sw.sessionMap, k) && seqeq(result[j], old(sw.sessionMap[k].data))))
  loop 1 invariant forall(j, 0, len(expiredKeys), dom(sw.sessionMap, expiredKeys[j]) && currentTime >= *sw.sessionMap[expiredKeys[j]].slot.End)
  loop 1 invariant forallv(k, "", $visited[k] && currentTime >= *sw.sessionMap[k].slot.End ==> exists(j, 0, len(expiredKeys), expiredKeys[j] == k))
  loop 1 invariant forall(a, 0, len(expiredKeys), forall(b, 0, len(expiredKeys), a != b ==> expiredKeys[a] != expiredKeys[b]))
  loop 1 invariant forall(j, 0, len(expiredKeys), $visited[expiredKeys[j]])
  loop 2 invariant ssInv(sw) && $s == expiredKeys
  loop 2 invariant forall(j, 0, len($s), old(dom(sw.sessionMap, $s[j])) && currentTime >= old(*sw.sessionMap[$s[j]].slot.End))
  loop 2 invariant forallv(k, "", old(dom(sw.sessionMap, k)) && currentTime >= old(*sw.sessionMap[k].slot.End) ==> exists(j, 0, len($s), $s[j] == k))
  loop 2 invariant forall(a, 0, len($s), forall(b, 0, len($s), a != b ==> $s[a] != $s[b]))
  loop 2 invariant forallv(k, "", dom(sw.sessionMap, k) <==> old(dom(sw.sessionMap, k)) && !exists(j, 0, $i, $s[j] == k))
  loop 2 invariant forallv(k, "", dom(sw.sessionMap, k) ==> sw.sessionMap[k] == old(sw.sessionMap[k]))
  loop 2 invariant sw.config.AllowedLateness > 0 ==> forall(j, 0, $i, len(old(sw.sessionMap[$s[j]]).data) > 0 ==> dom(sw.triggeredSessions, $s[j]) && allocated(sw.triggeredSessions[$s[j]]) && sw.triggeredSessions[$s[j]].session == old(sw.sessionMap[$s[j]]) && sw.triggeredSessions[$s[j]].closeTime == old(*sw.sessionMap[$s[j]].slot.End) + sw.config.AllowedLateness)
  loop 2 invariant forall(r, 0, len(resultsToSend), len(resultsToSend[r]) > 0 && exists(j, 0, $i, seqeq(resultsToSend[r], old(sw.sessionMap[$s[j]].data))))

pred mapUnchangedS(sw) := forallv(k, "", (dom(sw.sessionMap, k) <==> old(dom(sw.sessionMap, k))) && sw.sessionMap[k] == old(sw.sessionMap[k]))
@*/
