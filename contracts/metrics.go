//go:build verif

package metrics

/*@
func (*Counter).Inc
  props C19
  modifies c.val
  ensures counts-one: c.val == old(c.val) + 1
@*/
