//go:build verif

package types

/*@
immutable TimeSlot: Start, End
immutable_cells time.Time
immutable Quantifier: Min, Max

func (TimeSlot).Contains
  props C01 C02 C08
  requires ts.Start != nil && ts.End != nil
  ensures half-open: result == (*ts.Start <= t && t < *ts.End)

// window_start / window_end of a result: the slot's own bounds in nanoseconds, to the nanosecond (0 without a bound)
func (*TimeSlot).WindowStart
  props C01 C02 C08
  ensures the-start-reported-is-the-slots-own-start-to-the-nanosecond: result == ite(ts == nil || ts.Start == nil, 0, *ts.Start)

func (*TimeSlot).WindowEnd
  props C01 C02 C08
  ensures the-end-reported-is-the-slots-own-end-to-the-nanosecond: result == ite(ts == nil || ts.End == nil, 0, *ts.End)

func NewTimeSlot
  props C01 C08
  ensures fresh: fresh(result)
  ensures fields: result.Start == start && result.End == end
@*/
