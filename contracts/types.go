//go:build verif

package types

/*@
immutable TimeSlot: Start, End
immutable_cells time.Time
immutable Quantifier: Min, Max

func (TimeSlot).Contains
  props C01 C02 C08
  requires ts.Start != nil && ts.End != nil
  ensures half-open: result == (*ts.Start <= t && t < *ts.End)

func NewTimeSlot
  props C01 C08
  ensures fresh: fresh(result)
  ensures fields: result.Start == start && result.End == end
@*/
