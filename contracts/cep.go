//go:build verif

package cep

/*@
recfunc keepFrom((a (Array Int Int)) (n Int) (h (Array Int Int)) (lo Int)) Slice_Int := (ite (<= n 0) (mkSlice_Int ((as const (Array Int Int)) 0) 0 false) (let ((r (@keepFrom a (- n 1) h lo)) (x (select a (- n 1)))) (ite (>= (select h x) lo) (mkSlice_Int (store (Slice_Int.arr r) (Slice_Int.len r) x) (+ (Slice_Int.len r) 1) false) r)))

func normalizeTs
  props C15
  ensures non-positive-is-zero: v <= 0 ==> result == 0
  ensures nanoseconds-as-is: v >= 1000000000000000000 ==> result == v
  ensures microseconds: 1000000000000000 <= v && v < 1000000000000000000 ==> result == ite(v > 9223372036854775, 9223372036854775807, v * 1000)
  ensures milliseconds: 1000000000000 <= v && v < 1000000000000000 ==> result == ite(v > 9223372036854, 9223372036854775807, v * 1000000)
  ensures seconds: 1000000000 <= v && v < 1000000000000 ==> result == ite(v > 9223372036, 9223372036854775807, v * 1000000000)
  ensures small-values-as-is: 0 < v && v < 1000000000 ==> result == v
  ensures never-wraps: 0 <= result && result <= 9223372036854775807

func toInt64
  props C15
  ensures ints: hasType(v, int) || hasType(v, int64) || hasType(v, int32) ==> result == intval(v)
  ensures others-zero: !(hasType(v, int) || hasType(v, int64) || hasType(v, int32) || hasType(v, float64) || hasType(v, float32)) ==> result == 0

func (*Engine).withinOk
  props C15
  ensures no-window-always-ok: e.within <= 0 ==> result
  ensures window: e.within > 0 ==> (result <==> curTs - r.startTs <= e.within)

func hasAccept
  props C15
  ensures result <==> exists(i, 0, len(states), states[i].kind == 2)
  loop 1 invariant forall(k, 0, $i, states[k].kind != 2)

// A run's rows are a cons list (head = newest row, prev = the row before). chainHas / chainFirstIdx / chainLastIdx walk it
// exactly as far as it goes: m marks the frames whose label matches, i is the row number of frame f.
recfunc chainHas((f Int) (prev (Array Int Int)) (m (Array Int Bool))) Bool := (ite (= f 0) false (or (select m f) (@chainHas (select prev f) prev m)))
recfunc chainFirstIdx((f Int) (i Int) (prev (Array Int Int)) (m (Array Int Bool))) Int := (ite (= f 0) (- 1) (ite (@chainHas (select prev f) prev m) (@chainFirstIdx (select prev f) (- i 1) prev m) i))
recfunc chainLastIdx((f Int) (i Int) (prev (Array Int Int)) (m (Array Int Bool))) Int := (ite (= f 0) (- 1) (ite (select m f) i (@chainLastIdx (select prev f) (- i 1) prev m)))

func labelMatches
  props C15
  option pure
  ensures same-symbol: lbl == symbol ==> result
  ensures no-symbol-matches-every-row: symbol == "" ==> result
  ensures without-subsets-a-different-symbol-does-not-match: symbol != "" && lbl != symbol && subsets == nil ==> !result

func seqOfLabel
  props C15
  ensures no-label: label == "" ==> result == -1
  ensures skip-to-first-names-the-oldest-row-with-that-label: label != "" && first ==> result == ite(chainHas(c.head, heapof(frame.prev), arrayof(g, c.head, labelMatches(g.label, label, subsets))) && chainFirstIdx(c.head, c.nrows - 1, heapof(frame.prev), arrayof(g, c.head, labelMatches(g.label, label, subsets))) >= 0, c.startSeq + chainFirstIdx(c.head, c.nrows - 1, heapof(frame.prev), arrayof(g, c.head, labelMatches(g.label, label, subsets))), -1)
  ensures skip-to-last-names-the-newest-row-with-that-label: label != "" && !first ==> result == ite(chainHas(c.head, heapof(frame.prev), arrayof(g, c.head, labelMatches(g.label, label, subsets))), c.startSeq + chainLastIdx(c.head, c.nrows - 1, heapof(frame.prev), arrayof(g, c.head, labelMatches(g.label, label, subsets))), -1)
  loop 1 invariant first ==> ite(chainHas(f, heapof(frame.prev), arrayof(g, c.head, labelMatches(g.label, label, subsets))), chainFirstIdx(f, i, heapof(frame.prev), arrayof(g, c.head, labelMatches(g.label, label, subsets))), idx) == ite(chainHas(c.head, heapof(frame.prev), arrayof(g, c.head, labelMatches(g.label, label, subsets))), chainFirstIdx(c.head, c.nrows - 1, heapof(frame.prev), arrayof(g, c.head, labelMatches(g.label, label, subsets))), -1)
  loop 1 invariant !first ==> idx == -1 && (chainHas(c.head, heapof(frame.prev), arrayof(g, c.head, labelMatches(g.label, label, subsets))) <==> chainHas(f, heapof(frame.prev), arrayof(g, c.head, labelMatches(g.label, label, subsets)))) && (chainHas(f, heapof(frame.prev), arrayof(g, c.head, labelMatches(g.label, label, subsets))) ==> chainLastIdx(f, i, heapof(frame.prev), arrayof(g, c.head, labelMatches(g.label, label, subsets))) == chainLastIdx(c.head, c.nrows - 1, heapof(frame.prev), arrayof(g, c.head, labelMatches(g.label, label, subsets))))

func (*Engine).skipTo
  props C15
  ensures past-last-row-shares-no-row: e.spec.Skip == 0 ==> result == c.startSeq + c.nrows
  ensures next-row: e.spec.Skip == 1 ==> result == c.startSeq + 1
  observe at := seqOfLabel
  before seqOfLabel the-label-is-searched-in-this-match-first-only-for-skip-to-first: $arg0 == c && $arg1 == e.spec.SkipSymbol && ($arg2 <==> e.spec.Skip == 2) && $arg3 == e.subsets
  ensures to-symbol-resumes-after-the-labelled-row-else-past-last: e.spec.Skip >= 2 && e.spec.Skip <= 4 ==> result == ite($at >= 0, $at + 1, c.startSeq + c.nrows)
  ensures unknown-mode-past-last: e.spec.Skip > 4 || e.spec.Skip < 0 ==> result == c.startSeq + c.nrows

func (*Engine).pruneSurvivors
  props C15
  modifies *survivors
  ensures only-runs-from-next-start: forall(i, 0, len(*survivors), (*survivors)[i].startSeq >= nextStart)
  ensures exactly-the-runs-not-skipped: seqeq(*survivors, keepFrom(arr(old(*survivors)), len(old(*survivors)), heapof(run.startSeq), nextStart))
  loop 1 invariant seqeq(kept, keepFrom(arr($s), $i, heapof(run.startSeq), nextStart))
  loop 1 invariant forall(i, 0, len(kept), kept[i].startSeq >= nextStart)

func copyRow
  props C15
  ensures a-fresh-map-with-exactly-the-columns-and-values-of-the-row: fresh(result) && forallv(k, "", (dom(result, k) <==> dom(r, k)) && (dom(r, k) ==> result[k] == r[k]))
  loop 1 invariant fresh(out) && forallv(k, "", (dom(out, k) <==> $visited[k] && dom(r, k)) && (dom(out, k) ==> out[k] == r[k]))

// the output row of a match at row cur: without MEASURES a copy of that row; with ALL ROWS PER MATCH that row's columns
// plus the measures; with ONE ROW PER MATCH the measures only
func (*Engine).evalMeasures
  props C15
  option assumed_frame
  requires 0 <= cur && cur < len(rows)
  before copyRow the-row-copied-is-the-current-row-of-the-match: $arg0 == rows[cur]
  count copies := copyRow
  atreturn one-row-per-match-exposes-the-measures-only: len(e.measures) > 0 && e.spec.RowsPerMatch != types.RowsPerMatchAll ==> $copies == 0 && fresh(result)
  atreturn otherwise-the-current-rows-columns-are-there: len(e.measures) == 0 || e.spec.RowsPerMatch == types.RowsPerMatchAll ==> $copies == 1

extern (*Engine).evalMeasure
  props C15

// every measure is evaluated with its own prepared expression over this match at the current row and lands under its own alias
func (*Engine).evalMeasures$1
  props C15
  requires out != nil
  modifies mapof(out)
  before evalMeasure each-measure-uses-its-own-prepared-expression-at-the-current-row: $arg1 == e.measurePrep[i] && $arg2 == rows && $arg3 == labels && $arg4 == cur && $arg5 == c.matchNo
  observe val := evalMeasure
  loop 1 invariant forall(j, 0, $i, dom(out, e.measures[j].Alias))
  ensures every-measure-alias-is-present: forall(j, 0, len(e.measures), dom(out, e.measures[j].Alias))

// ONE ROW PER MATCH projects the measures once, at the last row of the match; ALL ROWS PER MATCH once per row, in row
// order, each at its own row (running semantics)
func (*Engine).project
  props C15
  before evalMeasures measures-are-evaluated-over-this-match-at-the-right-row: $arg1 == c && $arg2 == rows && $arg3 == labels && $arg4 == ite(e.spec.RowsPerMatch == types.RowsPerMatchAll, i, len(rows) - 1)
  atreturn one-row-per-match-gives-one-row: e.spec.RowsPerMatch != types.RowsPerMatchAll ==> len(result) == ite(len(rows) == 0, 0, 1)
  atreturn all-rows-per-match-gives-a-row-per-matched-row: e.spec.RowsPerMatch == types.RowsPerMatchAll ==> len(result) == len(rows)
  loop 1 invariant len(out) == $i && e.spec.RowsPerMatch == types.RowsPerMatchAll

func (*Engine).emitOne
  props C15
  modifies p.matchNo, c.matchNo, p.nextStart, *survivors
  ensures match-number-counts-up: p.matchNo == old(p.matchNo) + 1 && c.matchNo == p.matchNo
  ensures survivors-respect-skip: forall(i, 0, len(*survivors), (*survivors)[i].startSeq >= p.nextStart)
  ensures past-last-row: e.spec.Skip == 0 ==> p.nextStart == c.startSeq + c.nrows

func (*Engine).prunePending
  props C15
  modifies mapof(p.pending)
  ensures skipped-starts-removed: forallv(s, 0, dom(p.pending, s) <==> old(dom(p.pending, s)) && s >= nextStart)
  loop 1 invariant forallv(s, 0, dom(p.pending, s) <==> old(dom(p.pending, s)) && !($visited[s] && s < nextStart))

func (*Engine).ingestPending
  props C15
  modifies mapof(p.pending)
  ensures keeps-longest-per-start: p.pending != nil ==> forall(j, 0, len(completions), completions[j].startSeq >= p.nextStart ==> len(p.pending[completions[j].startSeq]) > 0 && p.pending[completions[j].startSeq][0].nrows >= completions[j].nrows)
  ensures skipped-starts-not-stored: forallv(s, 0, s < p.nextStart ==> (dom(p.pending, s) <==> old(dom(p.pending, s))))
  loop 1 invariant p.pending != nil ==> forall(j, 0, $i, completions[j].startSeq >= p.nextStart ==> len(p.pending[completions[j].startSeq]) > 0 && p.pending[completions[j].startSeq][0].nrows >= completions[j].nrows)
  loop 1 invariant forallv(s, 0, s < p.nextStart ==> (dom(p.pending, s) <==> old(dom(p.pending, s))))

func compileRepeat
  props C15
  modifies *
  count copies := compileNode
  ensures min-mandatory-then-optional-copies: result1 == nil && q.Max >= 0 ==> $copies == q.Max && q.Max >= q.Min
  ensures unbounded-is-min-copies-plus-star: result1 == nil && q.Max < 0 ==> $copies == q.Min + 1
  ensures negative-min-rejected: q.Min < 0 ==> result1 != nil
  loop 1 invariant $copies == i && 0 <= i && (i <= q.Min || q.Min < 0)
  loop 2 invariant $copies == q.Min + i && 0 <= i && i <= q.Max - q.Min && q.Min >= 0

func (*Engine).Flush
  props C15
  modifies *
  before ingestPending every-run-of-the-partition-was-looked-at-for-completion: $done2
  before emitLazy every-run-of-the-partition-was-looked-at-for-completion: $done2
  before ingestPending only-this-partitions-runs: forall(j, 0, len(completions), exists(k, 0, len(p.runs), completions[j] == p.runs[k]))
  before emitLazy only-this-partitions-runs: forall(j, 0, len(completions), exists(k, 0, len(p.runs), completions[j] == p.runs[k]))
  loop 2 invariant forall(j, 0, len(completions), exists(k, 0, $i, completions[j] == $s[k]))
  loop 2 invariant $s == p.runs
@*/

/*@
// ---------------------------------------------------------------- C15: partitions, per-partition numbering, one step
extern closure
  props C15
  option pure

extern matchStates
  props C15
  option pure

extern isComplete
  props C15
  option pure

extern (*Engine).evalDefine
  props C15
  option pure

extern (*run).materialize
  props C15

extern (*Engine).emitLazy
  props C15
  modifies *

func (*Engine).emitGreedy
  props C15
  modifies *
  before emitOne no-live-run-began-at-or-before-the-start-being-emitted: forall(i, 0, len(*survivors), (*survivors)[i].startSeq > s__2) && s__2 >= p.nextStart
  loop 3 invariant !blocked ==> forall(j, 0, $i, (*survivors)[j].startSeq > s__2)

extern (*Engine).capPending
  props C15
  modifies *

// a partition is evicted only while there are more partitions than the cap allows, never at the cap itself
func (*Engine).evictIfNeeded
  props C15
  modifies *
  observe n := Len
  before Remove eviction-only-above-the-cap: e.maxPart > 0 && $n > e.maxPart
  before Back the-oldest-partition-is-looked-for-only-above-the-cap: e.maxPart > 0 && $n > e.maxPart
  loop 1 invariant true

pred partOf(e, k) := unbox(e.partMap[k].Value, *partition)
pred mapUnchanged(m) := forallv(k, "", (dom(m, k) <==> old(dom(m, k))) && m[k] == old(m[k]))

func (*Engine).getPartition
  props C15
  requires e != nil && e.partMap != nil
  modifies mapof(e.partMap), heap(list.Element.Value)
  ensures a-known-key-returns-its-own-partition: old(dom(e.partMap, key)) ==> result == old(partOf(e, key)) && mapUnchanged(e.partMap)
  ensures a-new-key-gets-a-fresh-partition: !old(dom(e.partMap, key)) ==> fresh(result) && result.key == key
  ensures a-new-partition-starts-empty-and-unnumbered: !old(dom(e.partMap, key)) ==> result.seq == 0 && result.nextStart == 0 && result.matchNo == 0 && len(result.runs) == 0
  ensures a-new-partition-is-registered-under-its-key: !old(dom(e.partMap, key)) ==> dom(e.partMap, key) && partOf(e, key) == result
  ensures other-partitions-are-untouched: forallv(k, "", k != key ==> (dom(e.partMap, k) <==> old(dom(e.partMap, k))) && e.partMap[k] == old(e.partMap[k]))

func (*Engine).advance
  props C15
  atreturn every-state-the-run-could-move-on-from-is-tried: $done1
  ensures every-successor-extends-this-run-by-this-row: forall(i, 0, len(result), result[i] != nil && fresh(result[i]) && result[i].nrows == r.nrows + 1 && result[i].startSeq == r.startSeq && result[i].startTs == r.startTs && result[i].head != nil && result[i].head.row == row && result[i].head.prev == r.head)
  before evalDefine a-row-is-tested-against-the-define-of-the-symbol-it-would-be-labelled-with: $arg4 == row && $arg5 == m.symbol
  loop 1 invariant forall(i, 0, len(out), out[i] != nil && fresh(out[i]) && out[i].nrows == r.nrows + 1 && out[i].startSeq == r.startSeq && out[i].startTs == r.startTs && out[i].head != nil && out[i].head.row == row && out[i].head.prev == r.head)

func (*Engine).step
  props C15
  modifies *
  count seeds := closure
  atreturn a-new-match-is-tried-at-this-row-exactly-when-the-row-is-at-or-after-the-skip-point: $seeds == ite(seq >= old(p.nextStart), 1, 0)
  before emitLazy every-run-and-every-successor-and-the-seed-were-looked-at-before-matches-are-emitted: $done1
  before ingestPending every-run-and-every-successor-and-the-seed-were-looked-at-before-matches-are-queued: $done1
  before closure a-new-match-may-start-only-at-or-after-the-skip-point: seq >= p.nextStart
  before advance only-runs-inside-within-and-the-row-cap-are-advanced: $arg2 == row
  before ingestPending completed-runs-of-this-partition-are-queued-in-this-partition: $arg1 == p
  before emitGreedy results-are-emitted-for-this-partition: $arg1 == p
  before emitLazy results-are-emitted-for-this-partition: $arg1 == p

func (*Engine).Process
  props C15
  modifies *
  observe part := getPartition
  observe raw := toInt64
  observe ts := normalizeTs
  before toInt64 the-event-time-is-read-from-the-order-by-column-of-this-row: $arg0 == row[e.tsField]
  before normalizeTs the-raw-event-time-is-normalised: $arg0 == $raw
  before getPartition the-partition-is-looked-up-under-the-rows-own-key: $arg1 == partitionKey
  before step the-row-is-stepped-in-its-own-partition-under-that-partitions-own-next-number: $arg1 == $part && $arg2 == row && $arg4 == $arg1.seq && $arg3 == $ts
@*/

/*@
// ---------------------------------------------------------------- C15: aggregates inside DEFINE / MEASURES
// over the numeric values collected from the matching rows: COUNT counts, SUM and AVG add them all up, MIN and MAX are one of
// the values and bound all of them (whatever their sign), and MIN / MAX / AVG of no value is NULL
recfunc csum((a (Array Int Real)) (n Int)) Real := (ite (<= n 0) 0.0 (+ (@csum a (- n 1)) (select a (- n 1))))

func aggregate
  props C15
  requires ctx != nil && len(ctx.labels) == len(ctx.rows)
  atreturn every-row-in-scope-is-looked-at: $done1
  option assumed_frame
  atreturn count: name == "COUNT" ==> result == ite(star, boxof(float64(cntRows), float64), boxof(float64(cntNonNull), float64))
  atreturn sum-adds-every-value: name == "SUM" ==> result == boxof(csum(arr(vals), len(vals)), float64)
  atreturn avg-is-the-sum-over-the-number-of-values: name == "AVG" ==> result == ite(len(vals) == 0, nil, boxof(csum(arr(vals), len(vals)) / float64(len(vals)), float64))
  atreturn min-is-a-value-no-other-value-is-below: name == "MIN" && len(vals) > 0 ==> hasType(result, float64) && forall(j, 0, len(vals), realval(result) <= vals[j]) && exists(j, 0, len(vals), realval(result) == vals[j])
  atreturn max-is-a-value-no-other-value-is-above: name == "MAX" && len(vals) > 0 ==> hasType(result, float64) && forall(j, 0, len(vals), realval(result) >= vals[j]) && exists(j, 0, len(vals), realval(result) == vals[j])
  atreturn min-and-max-of-nothing-are-null: (name == "MIN" || name == "MAX") && len(vals) == 0 ==> result == nil
  loop 1 invariant cntRows >= 0 && cntNonNull >= 0
  loop 2 invariant s == csum(arr(vals), $i)
  loop 3 invariant s == csum(arr(vals), $i)
  loop 4 invariant forall(j, 0, $i + 1, m <= vals[j]) && exists(j, 0, $i + 1, m == vals[j]) && len(vals) > 0
  loop 5 invariant forall(j, 0, $i + 1, m >= vals[j]) && exists(j, 0, $i + 1, m == vals[j]) && len(vals) > 0

// ---- construction of the pattern engine: every DEFINE condition and MEASURES expression is prepared from its own text and
// lands under its own symbol / position; the automaton is compiled from the resolved pattern; the engine starts with an
// empty partition table and the limits and times configured
immutable Engine: partMap!

func NewEngine
  props C15
  atreturn every-define-and-every-measure-is-prepared: result1 == nil ==> $done1 && $done2
  modifies *
  observe pat := resolveSymbols#2
  observe syms := resolveSymbols
  observe nfa := Compile
  observe lazy := hasReluctant
  before Compile the-automaton-is-compiled-from-the-resolved-pattern: $arg0 == $pat
  before prepare@1 each-define-condition-is-prepared-from-its-own-text: $arg0 == d.Cond
  before prepare@2 each-measure-is-prepared-from-its-own-text: $arg0 == m.Expr
  before hasReluctant laziness-is-decided-by-the-pattern-written: $arg0 == spec.Pattern
  ensures no-pattern-or-no-order-by-is-an-error: spec == nil || old(spec.Pattern) == nil || len(old(spec.OrderBy)) == 0 ==> result1 != nil
  ensures an-engine-or-an-error: result1 == nil ==> result0 != nil && fresh(result0) && result0.partMap != nil && fresh(result0.partMap)
  atreturn the-engine-carries-what-was-configured: result1 == nil ==> result0.spec == spec && result0.nfa == $nfa && result0.lazy == $lazy && seqeq(result0.measures, spec.Measures) && result0.tsField == spec.OrderBy[0].Expression && result0.within == ite(spec.Within <= 0, types.DefaultMatchWithin, spec.Within) && result0.sweepInterval == ite(result0.within / 2 < 50000000, 50000000, result0.within / 2)
  loop 2 invariant len(measurePrep) == len($s)

// ---- row navigation inside a match (MEASURES / DEFINE): PREV and NEXT look at the whole match from the current position
// (NEXT sees the rows after the current one also when measures are computed row by row), FIRST and LAST count from the
// ends of the rows in scope, out of range is NULL
func posIndex
  props C15
  option pure
  ensures while-a-candidate-row-is-tested-the-position-is-just-past-the-matched-rows-otherwise-the-current-row: result == ite(ctx.candidate != nil, len(ctx.rows), ctx.cur)

func optInt
  props C15
  option pure
  ensures a-missing-argument-takes-the-default: idx >= len(args) ==> result == def
  before Atoi the-number-read-is-the-argument-at-that-position-blanks-aside: $arg0 == strings.TrimSpace(args[idx])
  observe n := Atoi
  observe nerr := Atoi#1
  atreturn an-argument-that-is-a-number-is-that-number-anything-else-the-default: idx < len(args) ==> result == ite($nerr == nil, $n, def)

pred sqBare(a) := strings.Trim(strings.TrimSpace(a), "`")
pred sqQuoted(t) := len(t) >= 2 && ((t[0] == 39 && t[len(t) - 1] == 39) || (t[0] == 34 && t[len(t) - 1] == 34))

// an argument written in a DEFINE / MEASURES expression: blanks, backticks and one pair of quotes dropped
func stripQuotes
  props C15
  option safety
  option pure
  ensures blanks-backticks-and-one-pair-of-quotes-are-dropped: result == ite(sqQuoted(sqBare(a)), sqBare(a)[1:len(sqBare(a)) - 1], sqBare(a))

// what counts as true for a DEFINE condition: a boolean is itself, a number is true unless zero, text unless empty,
// anything else unless NULL
func truthy
  props C15
  option pure
  ensures a-boolean-is-itself: hasType(v, bool) ==> (result <==> boolval(v))
  ensures a-number-is-true-unless-zero: (hasType(v, float64) ==> (result <==> realval(v) != 0.0)) && (hasType(v, int) || hasType(v, int64) ==> (result <==> intval(v) != 0))
  ensures text-is-true-unless-empty: hasType(v, string) ==> (result <==> strval(v) != "")
  ensures null-is-false: v == nil ==> !result

// A.price names the column price of the rows labelled A; a bare name has no symbol
func fieldAndSymbol
  props C15
  option safety
  option pure
  ensures a-qualified-argument-splits-at-its-first-dot: strings.IndexByte(strings.TrimSpace(arg), 46) >= 0 ==> field == stripQuotes(strings.TrimSpace(arg)[strings.IndexByte(strings.TrimSpace(arg), 46) + 1:]) && symbol == stripQuotes(strings.TrimSpace(arg)[:strings.IndexByte(strings.TrimSpace(arg), 46)])
  ensures a-bare-argument-has-no-symbol: strings.IndexByte(strings.TrimSpace(arg), 46) < 0 ==> field == stripQuotes(strings.TrimSpace(arg)) && symbol == ""

// navigation and aggregate calls of DEFINE / MEASURES: each name is answered by its own reader with these arguments on
// this match context (PREV looks one row back, NEXT one ahead; FIRST from the head, LAST from the tail); CLASSIFIER is
// the candidate's label while a candidate is tested, else the label at the cursor; an unknown name is an error
func evalNav
  props C15
  option assumed_frame
  requires ctx != nil && len(ctx.labels) == len(ctx.rows)
  observe pos := positionalField
  observe fe := fromEndField
  observe agg := aggregate
  before positionalField prev-looks-one-row-back-next-one-ahead: $arg0 == ctx && $arg1 == args && $arg2 == ite(name == "PREV", -1, 1)
  before fromEndField first-reads-from-the-head-last-from-the-tail-over-the-running-or-final-range-asked-for: $arg0 == ctx && $arg1 == args && $arg2 == (name == "FIRST") && $arg3 == final
  before aggregate an-aggregate-is-computed-under-its-own-name-over-the-range-asked-for: $arg0 == name && $arg1 == args && $arg2 == ctx && $arg3 == final
  atreturn classifier-is-the-candidates-label-while-one-is-tested-else-the-label-at-the-cursor: name == "CLASSIFIER" ==> result1 == nil && result0 == ite(ctx.candidate != nil, boxof(ctx.candLabel, string), ite(ctx.cur >= 0 && ctx.cur < len(ctx.labels), boxof(ctx.labels[ctx.cur], string), nil))
  atreturn match-number-is-the-contexts: name == "MATCH_NUMBER" ==> result1 == nil && result0 == boxof(ctx.matchNumber, int)
  atreturn a-navigation-call-returns-what-its-reader-found: (name == "PREV" || name == "NEXT" ==> result1 == nil && result0 == $pos) && (name == "FIRST" || name == "LAST" ==> result1 == nil && result0 == $fe) && (name == "SUM" || name == "AVG" || name == "COUNT" || name == "MIN" || name == "MAX" ==> result1 == nil && result0 == $agg)
  atreturn an-unknown-name-is-an-error: name != "CLASSIFIER" && name != "MATCH_NUMBER" && name != "PREV" && name != "NEXT" && name != "FIRST" && name != "LAST" && name != "SUM" && name != "AVG" && name != "COUNT" && name != "MIN" && name != "MAX" ==> result1 != nil && result0 == nil

// the rows a navigation or aggregate call ranges over: while a candidate is tested, the rows matched so far followed by
// the candidate; in MEASURES the running range (up to the cursor) unless FINAL is asked for, then the whole match
func rowsLabels
  props C15
  requires ctx != nil && len(ctx.labels) == len(ctx.rows)
  ensures while-a-candidate-is-tested-the-range-is-the-matched-rows-followed-by-the-candidate: ctx.candidate != nil ==> len(result0) == len(ctx.rows) + 1 && len(result1) == len(ctx.rows) + 1 && forall(j, 0, len(ctx.rows), result0[j] == ctx.rows[j] && result1[j] == ctx.labels[j]) && result0[len(ctx.rows)] == ctx.candidate && result1[len(ctx.rows)] == ctx.candLabel
  ensures the-running-range-ends-at-the-cursor: ctx.candidate == nil && !final && ctx.cur >= 0 && ctx.cur < len(ctx.rows) ==> len(result0) == ctx.cur + 1 && len(result1) == ctx.cur + 1 && forall(j, 0, ctx.cur + 1, result0[j] == ctx.rows[j] && result1[j] == ctx.labels[j])
  ensures the-final-range-is-the-whole-match: ctx.candidate == nil && (final || ctx.cur < 0 || ctx.cur >= len(ctx.rows)) ==> seqeq(result0, ctx.rows) && seqeq(result1, ctx.labels)

// FIRST(x, n) / LAST(x, n): the n-th row from the head / from the tail of the range (n below 1 counts as 1, n beyond the
// range stops at its far end); an empty range or no argument gives NULL
func fromEndField
  props C15
  option assumed_frame
  requires ctx != nil && len(ctx.labels) == len(ctx.rows)
  observe range := rowsLabels
  observe nth := optInt
  observe col := fieldName
  before rowsLabels the-range-is-the-running-or-final-one-asked-for: $arg0 == ctx && $arg1 == final
  before optInt the-count-is-the-second-argument-one-by-default: $arg0 == args && $arg1 == 1 && $arg2 == 1
  before fieldName the-column-is-named-by-the-first-argument: $arg0 == args[0]
  atreturn no-argument-null: len(args) == 0 ==> result == nil
  atreturn first-counts-from-the-head-clamped-to-the-range: len(args) > 0 && len(rows) > 0 && fromHead ==> n == ite($nth < 1, 1, $nth) && f == $col && seqeq(rows, $range) && result == rows[ite(n - 1 >= len(rows), len(rows) - 1, n - 1)][f]
  atreturn last-counts-from-the-tail-clamped-to-the-range: len(args) > 0 && len(rows) > 0 && !fromHead ==> n == ite($nth < 1, 1, $nth) && f == $col && seqeq(rows, $range) && result == rows[ite(len(rows) - n < 0, 0, len(rows) - n)][f]
  atreturn an-empty-range-null: len(args) > 0 && len(rows) == 0 ==> result == nil

// a placeholder of a prepared DEFINE / MEASURES expression: a navigation or aggregate call is answered by evalNav with the
// call's own name, arguments and FINAL flag on this context; a qualified column by the symbol resolver
func evalDesc
  props C15
  option assumed_frame
  requires ctx != nil && len(ctx.labels) == len(ctx.rows)
  observe nav := evalNav
  observe sym := resolveSymbolField
  before evalNav a-call-is-answered-under-its-own-name-with-its-own-arguments-and-range: $arg0 == d.name && $arg1 == d.args && $arg2 == ctx && $arg3 == d.final
  before resolveSymbolField a-qualified-column-is-resolved-for-its-own-symbol-and-column: $arg0 == ctx && $arg1 == d.name && $arg2 == d.field
  atreturn the-readers-answer-is-the-placeholders-value: (d.kind == phNav ==> result == $nav) && (d.kind == phSym ==> result == $sym) && (d.kind != phNav && d.kind != phSym ==> result == nil)

// a prepared expression is evaluated on a map built for this call: every placeholder bound to its own value on this
// context, every bare column of the current row that no placeholder shadows; an empty expression is NULL; the compiled
// expression's answer is the answer
func evalPrepared
  props C15
  option assumed_frame
  modifies allmaps
  requires ctx != nil && len(ctx.labels) == len(ctx.rows)
  observe v := EvaluateValueWithNull
  observe isNull := EvaluateValueWithNull#1
  observe err := EvaluateValueWithNull#2
  count asked := EvaluateValueWithNull
  before evalDesc each-placeholder-is-evaluated-on-this-context: $arg1 == ctx && $arg0 == d
  before EvaluateValueWithNull the-compiled-expression-sees-the-map-built-for-this-call: $arg1 == base
  atreturn an-empty-expression-is-null: old(p == nil || p.compiled == nil) ==> result0 == nil && result1 && result2 == nil && $asked == 0
  atreturn the-compiled-expressions-answer-is-the-answer: old(p != nil && p.compiled != nil) ==> $asked == 1 && result0 == $v && result1 == $isNull && result2 == $err
  loop 1 invariant ctx != nil && len(ctx.labels) == len(ctx.rows) && $asked == 0
  loop 2 invariant ctx != nil && len(ctx.labels) == len(ctx.rows) && $asked == 0
  loop 3 invariant ctx != nil && len(ctx.labels) == len(ctx.rows) && $asked == 0

// starting the sweeper touches only the engine's own start-up state
extern (*Engine).Start
  props C15 C19
  modifies e.ctx, e.cancel, e.started, e.wg

pred candCarries(ctx, symbol) := ctx.candidate != nil && labelMatches(ctx.candLabel, symbol, ctx.subsets)

// A.price in a DEFINE / MEASURES expression: the candidate row answers when it carries the symbol, otherwise the LATEST
// row matched so far that carries it; no such row gives NULL
func resolveSymbolField
  props C15
  option safety
  requires ctx != nil && len(ctx.labels) <= len(ctx.rows)
  ensures the-candidate-row-answers-when-it-carries-the-symbol: candCarries(ctx, symbol) ==> result == ctx.candidate[field]
  ensures otherwise-the-latest-matched-row-that-carries-the-symbol-answers: !candCarries(ctx, symbol) ==> forall(j, 0, len(ctx.labels), labelMatches(ctx.labels[j], symbol, ctx.subsets) && forall(k, j + 1, len(ctx.labels), !labelMatches(ctx.labels[k], symbol, ctx.subsets)) ==> result == ctx.rows[j][field])
  ensures no-row-carries-the-symbol-null: !candCarries(ctx, symbol) && forall(k, 0, len(ctx.labels), !labelMatches(ctx.labels[k], symbol, ctx.subsets)) ==> result == nil
  loop 1 invariant -1 <= i && i < len(ctx.labels) && !candCarries(ctx, symbol) && forall(k, i + 1, len(ctx.labels), !labelMatches(ctx.labels[k], symbol, ctx.subsets))
  loop 1 decreases i + 1

// the row a DEFINE condition is about: the candidate row while one is being tested, else the row at the cursor
func currentRow
  props C15
  option safety
  requires ctx != nil
  ensures the-candidate-row-while-one-is-tested-else-the-row-at-the-cursor: result == ite(ctx.candidate != nil, ctx.candidate, ite(ctx.cur >= 0 && ctx.cur < len(ctx.rows), ctx.rows[ctx.cur], nil))

func fieldName
  props C15
  option pure
  ensures the-column-is-the-last-segment-of-the-unquoted-argument: result == ite(strings.LastIndex(stripQuotes(arg), ".") >= 0, stripQuotes(arg)[strings.LastIndex(stripQuotes(arg), ".") + 1:], stripQuotes(arg))

func positionalField
  props C15
  option safety
  requires ctx != nil
  ensures prev-and-next-look-at-the-whole-match-from-the-current-position: len(args) > 0 ==> result == ite(posIndex(ctx) + sign * optInt(args, 1, 1) < 0 || posIndex(ctx) + sign * optInt(args, 1, 1) >= len(ctx.rows), nil, ctx.rows[posIndex(ctx) + sign * optInt(args, 1, 1)][fieldName(args[0])])
  ensures no-argument-no-value: len(args) == 0 ==> result == nil
@*/

