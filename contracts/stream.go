//go:build verif

package stream

/*@
// ---------------------------------------------------------------- C07: ORDER BY comparator, LIMIT, clause order
pred isNumeric(v) := hasType(v, float64) || hasType(v, float32) || hasType(v, int) || hasType(v, int8) || hasType(v, int16) || hasType(v, int32) || hasType(v, int64) || hasType(v, uint) || hasType(v, uint8) || hasType(v, uint16) || hasType(v, uint32) || hasType(v, uint64)
pred isFloatKind(v) := hasType(v, float64) || hasType(v, float32)

func numericFloat
  props C07
  option pure
  ensures numeric-kinds-convert: isNumeric(v) ==> result1
  ensures floats-exact: isFloatKind(v) ==> result0 == realval(v)
  ensures ints-numerically: isNumeric(v) && !isFloatKind(v) ==> result0 == float64(intval(v))
  ensures others-are-not-numbers: !isNumeric(v) ==> !result1

func orderString
  props C07
  option pure
  ensures strings-as-is: hasType(v, string) ==> result == strval(v)

func compareOrderValues
  props C07
  option pure
  ensures three-way: result == -1 || result == 0 || result == 1
  ensures both-missing-equal: !aok && !bok ==> result == 0
  ensures missing-sorts-first: !aok && bok ==> result == -1
  ensures present-after-missing: aok && !bok ==> result == 1
  ensures numbers-numerically: aok && bok && isNumeric(a) && isNumeric(b) ==> (result == -1 <==> numericFloat(a) < numericFloat(b)) && (result == 1 <==> numericFloat(a) > numericFloat(b))
  ensures times-by-instant: aok && bok && hasType(a, time.Time) && hasType(b, time.Time) ==> (result == -1 <==> intval(a) < intval(b)) && (result == 1 <==> intval(a) > intval(b))
  ensures bools-false-first: aok && bok && hasType(a, bool) && hasType(b, bool) ==> (result == -1 <==> (!boolval(a) && boolval(b))) && (result == 1 <==> (boolval(a) && !boolval(b)))
  ensures strings-lexicographic: aok && bok && hasType(a, string) && hasType(b, string) ==> (result == -1 <==> strval(a) < strval(b)) && (result == 1 <==> strval(a) > strval(b))

pred keyCmp(s, a, b, j) := compareOrderValues(a[s.keys[j].Expression], dom(a, s.keys[j].Expression), b[s.keys[j].Expression], dom(b, s.keys[j].Expression))

func (*Sorter).less
  props C07
  ensures lexicographic-with-direction: result <==> exists(k, 0, len(s.keys), forall(j, 0, k, keyCmp(s, a, b, j) == 0) && ((s.keys[k].Direction == "DESC" && keyCmp(s, a, b, k) > 0) || (s.keys[k].Direction != "DESC" && keyCmp(s, a, b, k) < 0)))
  loop 1 invariant forall(j, 0, $i, keyCmp(s, a, b, j) == 0)

immutable DataProcessor: stream

// the comparator handed to the sort routine answers for the two rows it is asked about, in that order, with what less says
func (*Sorter).Sort$1
  props C07
  modifies *
  observe verdict := less
  before less the-comparator-compares-the-two-rows-asked-about-in-that-order: $arg1 == rows[i] && $arg2 == rows[j]
  atreturn the-comparators-answer-is-less: result == $verdict

func (*Sorter).Sort
  props C07
  option assumed_frame
  modifies allmaps
  count sorted := SliceStable
  atreturn batches-of-two-or-more-rows-are-sorted-once-when-there-are-keys: $sorted == ite(old(len(s.keys) == 0 || len(rows) < 2), 0, 1)

// a delivered batch goes to every registered sink, asynchronous ones first, each with this very batch
extern (*Stream).submitSinkTask
  props C05 C19
  modifies *

func (*Stream).callSinksAsync
  props C05 C19
  modifies *
  count submits := submitSinkTask
  before submitSinkTask each-asynchronous-sink-is-handed-this-very-batch: $arg1 == sink && $arg2 == results
  atreturn no-sink-is-skipped: old(len(s.sinks)) > 0 || old(len(s.syncSinks)) > 0 ==> $done1 && $done2
  loop 1 invariant $submits == $i

func (*Stream).invokeSinksInline
  props C05 C19 C15 C06 C12 C13 C14 C16 C20
  modifies *
  atreturn no-sink-is-skipped-at-the-final-flush: $done1 && $done2
  loop 1 invariant len(sinks) == old(len(s.sinks)) && len(syncSinks) == old(len(s.syncSinks))
  loop 2 invariant len(sinks) == old(len(s.sinks)) && len(syncSinks) == old(len(s.syncSinks))

// what is compiled for a SELECT expression item is compiled from that item's own text; the hand-written engine's direct path
// is enabled only for a non-call expression that parsed and holds no quote or backtick
pred exprInfoOK(info, text) := info != nil && fresh(info) && info.originalExpr == text && (info.isFunctionCall <==> strings.Contains(text, "(") && strings.Contains(text, ")")) && (info.hasNestedFields <==> !info.isFunctionCall && strings.Contains(text, ".")) && (info.compiledExprFastPath ==> info.compiledExpr != nil && !info.isFunctionCall && !strings.ContainsAny(text, "'\"`")) && (info.isFunctionCall ==> info.compiledExpr == nil)

func (*Stream).compileExpressionInfo
  props C06 C05 C04 C07 C16 C20
  option assumed_frame
  requires s.compiledExprInfo != nil
  modifies s.hasUnnestFunction, mapof(s.compiledExprInfo)
  observe hasNull := ContainsIsNullOperator
  observe isnull := PreprocessIsNullExpression
  observe nullErr := PreprocessIsNullExpression#1
  observe hasLike := ContainsLikeOperator
  observe like := PreprocessLikeExpression
  observe likeErr := PreprocessLikeExpression#1
  before ContainsIsNullOperator the-rewriting-starts-from-the-items-own-text: $arg1 == fieldExpr.Expression
  before ContainsLikeOperator like-rewriting-continues-from-the-is-null-rewriting: $arg1 == ite($hasNull && $nullErr == nil, $isnull, fieldExpr.Expression)
  observe hasTick := ContainsBacktickIdentifiers
  observe tick := PreprocessBacktickIdentifiers
  observe tickErr := PreprocessBacktickIdentifiers#1
  before ContainsBacktickIdentifiers backticks-are-looked-for-in-the-items-own-text: $arg1 == fieldExpr.Expression
  before NewExpression the-text-compiled-is-the-items-own-text-without-backticks: $arg0 == ite($hasTick && $tickErr == nil, $tick, fieldExpr.Expression)
  loop 1 invariant forallv(k, "", $visited[k] ==> dom(s.compiledExprInfo, k) && s.compiledExprInfo[k] != nil && fresh(s.compiledExprInfo[k]) && allocated(s.compiledExprInfo[k]))
  loop 1 invariant forallv(k, "", $visited[k] ==> s.compiledExprInfo[k].originalExpr == s.config.FieldExpressions[k].Expression)
  loop 1 invariant forallv(k, "", $visited[k] ==> (s.compiledExprInfo[k].isFunctionCall <==> strings.Contains(s.config.FieldExpressions[k].Expression, "(") && strings.Contains(s.config.FieldExpressions[k].Expression, ")")))
  loop 1 invariant forallv(k, "", $visited[k] ==> (s.compiledExprInfo[k].hasNestedFields <==> !s.compiledExprInfo[k].isFunctionCall && strings.Contains(s.config.FieldExpressions[k].Expression, ".")))
  loop 1 invariant forallv(k, "", $visited[k] ==> (s.compiledExprInfo[k].compiledExprFastPath ==> s.compiledExprInfo[k].compiledExpr != nil && !s.compiledExprInfo[k].isFunctionCall && !strings.ContainsAny(s.config.FieldExpressions[k].Expression, "'\"`")))
  loop 1 invariant forallv(k, "", $visited[k] ==> (s.compiledExprInfo[k].isFunctionCall ==> s.compiledExprInfo[k].compiledExpr == nil))
  ensures every-expression-item-has-its-own-compiled-info: forallv(k, "", dom(s.config.FieldExpressions, k) ==> dom(s.compiledExprInfo, k) && exprInfoOK(s.compiledExprInfo[k], s.config.FieldExpressions[k].Expression))

// a row reaches the pattern engine enriched by the JOIN and only when WHERE accepts the enriched row, under its own partition
// key; whatever the engine reports goes through the SELECT projection to the sinks
extern (*cepRunner).partitionKey
  props C15 C05
  option pure

func (*DataProcessor).processCEP
  props C15 C05 C01 C03 C07 C08 C09 C10 C12 C17 C20
  option recovers
  modifies *
  observe enriched := enrichData
  observe keep := enrichData#1
  observe jerr := enrichData#2
  observe pass := Evaluate
  observe key := partitionKey
  observe raw := Process
  observe projected := projectCep
  count fed := Process
  before enrichData the-row-given-is-enriched: $arg1 == data
  before Evaluate where-is-asked-about-the-enriched-row: $arg1 == boxof($enriched, map[string]any) && $keep && $jerr == nil
  before partitionKey the-key-is-derived-from-the-enriched-row: $arg1 == $enriched
  before Process the-engine-gets-the-enriched-row-under-its-own-key: $arg1 == $enriched && $arg2 == $key && $keep && $jerr == nil && (old(dp.stream.filter) == nil || $pass)
  before projectCep what-the-engine-reported-is-projected: seqeq($arg1, $raw)
  before emitCepResults what-was-projected-is-emitted: seqeq($arg1, $projected)
  atreturn a-row-reaches-the-engine-at-most-once: $fed <= 1
  atreturn a-row-that-is-kept-and-passes-where-reaches-the-engine: $jerr == nil && $keep && (old(dp.stream.filter) == nil || $pass) && old(dp.stream.cep) != nil ==> $fed == 1

// the consumer of window batches ends only when stopped or when the window's output is closed; every batch it takes is processed
func (*DataProcessor).startWindowProcessing$1
  props C01 C08 C09 C10 C03 C05 C07 C12 C15 C17 C20
  option recovers
  modifies *
  before processWindowBatch a-batch-taken-from-the-window-is-processed-as-it-is: $selected == 0 && $recvok && seqeq($arg1, batch)
  atreturn the-consumer-ends-only-when-stopped-or-the-output-is-closed: $selected == 1 || ($selected == 0 && !$recvok)

func rewriteQualifiedRefs
  props C07 C04 C05 C06 C16 C20
  option pure

// HAVING and every ORDER BY key, whatever its position in the list, are rewritten with the same table of output names
func (*Stream).rewriteGroupColumnRefs
  props C07 C04 C05 C06 C16 C20
  option assumed_frame
  modifies s.config
  count rewritten := rewriteQualifiedRefs
  before rewriteQualifiedRefs the-same-table-of-output-names-is-used-throughout: $arg1 == refs
  atreturn having-and-every-order-by-key-are-rewritten: $rewritten == ite(len(refs) == 0, 0, 1 + len(old(s.config.OrderBy)))
  loop 3 invariant $rewritten == 1 + $i && len($s) == len(old(s.config.OrderBy)) && len(refs) != 0

// starting the consumer touches none of the four books: rows emitted before Start stay accounted for
func (*Stream).Start
  props C19 C09 C05 C06 C12 C13 C14 C15 C16 C20
  modifies s.lifecycle, heap(cep.Engine.ctx), heap(cep.Engine.cancel), heap(cep.Engine.started), heap(cep.Engine.wg)
  ensures the-books-are-as-they-were: s.mInput.val == old(s.mInput.val) && s.mOutput.val == old(s.mOutput.val) && s.mInputDropped.val == old(s.mInputDropped.val) && s.mOutputDropped.val == old(s.mOutputDropped.val)

// resetting the statistics resets the four books and nothing else: no window, buffer or pending row is touched
func (*Stream).ResetStats
  props C19 C09
  modifies s.mInput.val, s.mOutput.val, s.mInputDropped.val, s.mOutputDropped.val
  ensures all-four-books-start-again-from-zero: s.mInput.val == 0 && s.mOutput.val == 0 && s.mInputDropped.val == 0 && s.mOutputDropped.val == 0

// the per-row evaluator of an aggregate's argument expression evaluates this aggregate's own expression on the row it is
// given, answers with that value, and only reads the row (which may be the caller's own map)
func (*DataProcessor).registerExpressionCalculator$1
  props C03 C20 C01 C05 C07 C08 C09 C10 C12 C15 C17
  option assumed_frame
  observe val := evaluateExpressionForAggregation
  observe verr := evaluateExpressionForAggregation#1
  count evals := evaluateExpressionForAggregation
  before evaluateExpressionForAggregation this-aggregates-own-expression-on-the-row-given: $arg1 == currentFieldExpr && hasType(data, map[string]any) && $arg2 == unbox(data, map[string]any)
  atreturn a-row-is-evaluated-afresh-and-its-value-is-the-answer: hasType(data, map[string]any) ==> $evals == 1 && result0 == $val && result1 == $verr
  atreturn anything-that-is-no-row-is-an-error: !hasType(data, map[string]any) ==> result1 != nil

func NewDataProcessor
  props C05 C19 C01 C03 C07 C08 C09 C10 C12 C15 C17 C20
  ensures the-processor-serves-the-stream-it-was-built-for: fresh(result) && result.stream == stream

// the consumer loop: a buffer swap (expansion) or Stop replaces s.dataChan, so the channel must be read again, under the
// read lock, in every iteration before a row is taken from it
func (*DataProcessor).Process
  props C05 C19 C01 C03 C07 C08 C09 C10 C12 C15 C17 C20
  modifies *
  count reads := RLock
  before processItem the-channel-is-read-again-under-the-lock-before-every-receive: $reads > atloop(1, $reads)
  before processItem a-row-taken-from-the-input-is-processed-as-it-is: $selected == 0 && $recvok && $arg1 == data
  atreturn the-consumer-ends-only-when-stopped-or-the-input-is-closed-never-because-of-a-row: currentDataChan == nil || $selected == 1 || ($selected == 0 && !$recvok)

// a result batch is booked exactly once, and on the output side: sent, or dropped as output; the input-side books (rows
// emitted, rows dropped before processing) are not touched by what happens to a result
func (*Stream).logDroppedDataWithThrottling
  props C19 C05
  modifies s.lastDropLogTime, s.dropLogCount

func (*Stream).handleResultChannelBackpressure
  props C19 C05
  modifies s.mOutput.val, s.mOutputDropped.val, s.lastDropLogTime, s.dropLogCount
  ensures booked-once-as-sent-or-as-dropped-output: s.mOutput != s.mOutputDropped ==> (s.mOutput.val - old(s.mOutput.val)) + (s.mOutputDropped.val - old(s.mOutputDropped.val)) == 1 && s.mOutput.val >= old(s.mOutput.val) && s.mOutputDropped.val >= old(s.mOutputDropped.val)

func (*Stream).sendResultNonBlocking
  props C19 C05
  modifies s.mOutput.val, s.mOutputDropped.val, s.lastDropLogTime, s.dropLogCount
  ensures booked-once-as-sent-or-as-dropped-output: s.mOutput != s.mOutputDropped ==> (s.mOutput.val - old(s.mOutput.val)) + (s.mOutputDropped.val - old(s.mOutputDropped.val)) == 1 && s.mOutput.val >= old(s.mOutput.val) && s.mOutputDropped.val >= old(s.mOutputDropped.val)

// the WHERE text goes through the three rewritings in a chain: each step starts from what the previous step produced (or
// from the text it was given when that step did not apply or failed)
func (*Stream).preprocessFilterCondition
  props C13 C06 C05 C12 C14 C15 C16 C19 C20
  modifies *
  observe hasTick := ContainsBacktickIdentifiers
  observe tick := PreprocessBacktickIdentifiers
  observe tickErr := PreprocessBacktickIdentifiers#1
  observe hasLike := ContainsLikeOperator
  observe like := PreprocessLikeExpression
  observe likeErr := PreprocessLikeExpression#1
  observe hasNull := ContainsIsNullOperator
  observe isnull := PreprocessIsNullExpression
  observe nullErr := PreprocessIsNullExpression#1
  before PreprocessBacktickIdentifiers identifier-rewriting-starts-from-the-condition-given: $arg1 == conditionStr
  before ContainsLikeOperator like-rewriting-continues-from-the-identifier-rewriting: $arg1 == ite($hasTick && $tickErr == nil, $tick, conditionStr)
  before PreprocessLikeExpression like-rewriting-continues-from-the-identifier-rewriting: $arg1 == ite($hasTick && $tickErr == nil, $tick, conditionStr)
  before ContainsIsNullOperator is-null-rewriting-continues-from-the-like-rewriting: $arg1 == ite($hasLike && $likeErr == nil, $like, ite($hasTick && $tickErr == nil, $tick, conditionStr))
  before PreprocessIsNullExpression is-null-rewriting-continues-from-the-like-rewriting: $arg1 == ite($hasLike && $likeErr == nil, $like, ite($hasTick && $tickErr == nil, $tick, conditionStr))
  atreturn the-result-is-the-text-after-all-three-rewritings: result == ite($hasNull && $nullErr == nil, $isnull, ite($hasLike && $likeErr == nil, $like, ite($hasTick && $tickErr == nil, $tick, conditionStr)))

// the argument of an aggregate is evaluated per row from that aggregate's own expression text on that very row, whichever
// engine takes it (nested paths and CASE: the custom engine; the rest: the bridge after IS NULL / LIKE rewriting, the custom
// engine when the bridge fails); nothing evaluated for another aggregate or another row is reused
func (*DataProcessor).evaluateExpressionForAggregation
  props C03 C07 C01 C05 C08 C09 C10 C12 C15 C17 C20
  modifies *
  observe nested := evaluateNestedFieldExpression
  observe nestedErr := evaluateNestedFieldExpression#1
  observe cased := evaluateCaseExpression
  observe casedErr := evaluateCaseExpression#1
  observe hasNull := ContainsIsNullOperator
  observe isnull := PreprocessIsNullExpression
  observe nullErr := PreprocessIsNullExpression#1
  observe hasLike := ContainsLikeOperator
  observe like := PreprocessLikeExpression
  observe likeErr := PreprocessLikeExpression#1
  observe bval := EvaluateExpression
  observe berr := EvaluateExpression#1
  observe fval := fallbackExpressionEvaluation
  observe ferr := fallbackExpressionEvaluation#1
  before evaluateNestedFieldExpression this-aggregates-own-expression-on-this-row: $arg1 == fieldExpr.Expression && $arg2 == data
  before evaluateCaseExpression this-aggregates-own-expression-on-this-row: $arg1 == fieldExpr.Expression && $arg2 == data
  before fallbackExpressionEvaluation this-aggregates-own-expression-on-this-row: $arg1 == fieldExpr.Expression && $arg2 == data
  before ContainsLikeOperator like-rewriting-continues-from-the-is-null-rewriting: $arg1 == ite($hasNull && $nullErr == nil, $isnull, fieldExpr.Expression)
  before EvaluateExpression the-bridge-gets-this-aggregates-own-rewritten-expression-and-this-row: $arg2 == data && $arg1 == ite($hasLike && $likeErr == nil, $like, ite($hasNull && $nullErr == nil, $isnull, fieldExpr.Expression))
  atreturn a-nested-path-argument-is-the-custom-engines-answer: strings.Contains(fieldExpr.Expression, ".") ==> result0 == $nested && result1 == $nestedErr
  atreturn a-case-argument-is-the-custom-engines-answer: !strings.Contains(fieldExpr.Expression, ".") && strings.HasPrefix(upperExpr, SQLKeywordCase) ==> result0 == $cased && result1 == $casedErr
  atreturn otherwise-the-bridges-answer-or-the-fallbacks: !strings.Contains(fieldExpr.Expression, ".") && !strings.HasPrefix(upperExpr, SQLKeywordCase) ==> ite($berr == nil, result0 == $bval && result1 == nil, result0 == $fval && result1 == $ferr)

func (*DataProcessor).evaluateNestedFieldExpression
  props C03 C07 C01 C05 C08 C09 C10 C12 C15 C17 C20
  modifies *
  observe hasTick := ContainsBacktickIdentifiers
  observe tick := PreprocessBacktickIdentifiers
  observe tickErr := PreprocessBacktickIdentifiers#1
  observe parsed := NewExpression
  observe perr := NewExpression#1
  observe cval := EvaluateValueWithNull
  observe cnull := EvaluateValueWithNull#1
  observe cerr := EvaluateValueWithNull#2
  before NewExpression the-text-parsed-is-the-expression-given: $arg0 == ite($hasTick && $tickErr == nil, $tick, expression)
  before EvaluateValueWithNull what-was-just-parsed-is-evaluated-on-the-row-given: $arg0 == $parsed && $arg1 == dataMap
  atreturn the-engines-answer-stands-null-included: $perr == nil && $cerr == nil ==> result1 == nil && result0 == ite($cnull, nil, $cval)
  atreturn a-failure-is-an-error: $perr != nil || $cerr != nil ==> result1 != nil

func (*DataProcessor).evaluateCaseExpression
  props C03 C07 C01 C05 C08 C09 C10 C12 C15 C17 C20
  modifies *
  observe hasTick := ContainsBacktickIdentifiers
  observe tick := PreprocessBacktickIdentifiers
  observe tickErr := PreprocessBacktickIdentifiers#1
  observe parsed := NewExpression
  observe perr := NewExpression#1
  observe cval := EvaluateValueWithNull
  observe cnull := EvaluateValueWithNull#1
  observe cerr := EvaluateValueWithNull#2
  before NewExpression the-text-parsed-is-the-expression-given: $arg0 == ite($hasTick && $tickErr == nil, $tick, expression)
  before EvaluateValueWithNull what-was-just-parsed-is-evaluated-on-the-row-given: $arg0 == $parsed && $arg1 == dataMap
  atreturn the-engines-answer-stands-null-included: $perr == nil && $cerr == nil ==> result1 == nil && result0 == ite($cnull, nil, $cval)
  atreturn a-failure-is-an-error: $perr != nil || $cerr != nil ==> result1 != nil

// an aggregate argument the bridge cannot evaluate goes to the custom engine; what that engine answers without an error is
// the answer, a NULL (flagged or as a nil value) included: a NULL row is fed as NULL, not skipped as a failure
func (*DataProcessor).fallbackExpressionEvaluation
  props C03 C01 C05 C07 C08 C09 C10 C12 C15 C17 C20
  modifies *
  observe bval := EvaluateExpression
  observe berr := EvaluateExpression#1
  observe perr := NewExpression#1
  observe cval := EvaluateValueWithNull
  observe cnull := EvaluateValueWithNull#1
  observe cerr := EvaluateValueWithNull#2
  observe hasTick := ContainsBacktickIdentifiers
  observe tick := PreprocessBacktickIdentifiers
  observe tickErr := PreprocessBacktickIdentifiers#1
  observe parsed := NewExpression
  before EvaluateExpression the-bridge-gets-the-expression-given-and-the-row-given: $arg1 == ite($hasTick && $tickErr == nil, $tick, expression) && $arg2 == dataMap
  before NewExpression the-text-parsed-is-the-expression-given: $arg0 == ite($hasTick && $tickErr == nil, $tick, expression)
  before EvaluateValueWithNull what-was-just-parsed-is-evaluated-on-the-row-given: $arg0 == $parsed && $arg1 == dataMap
  atreturn the-bridges-answer-stands: $berr == nil ==> result0 == $bval && result1 == nil
  atreturn the-custom-engines-answer-stands-null-included: $berr != nil && $perr == nil && $cerr == nil ==> result1 == nil && result0 == ite($cnull, nil, $cval)
  atreturn only-a-failure-of-both-engines-is-an-error: $berr != nil && ($perr != nil || $cerr != nil) ==> result1 != nil

func (*DataProcessor).applyHavingWithCondition
  props C07 C01 C03 C05 C08 C09 C10 C12 C15 C17 C20 C13
  modifies *
  count tested := Evaluate
  observe cerr := NewExprCondition#1
  observe hasLike := ContainsLikeOperator
  observe like := PreprocessLikeExpression
  observe likeErr := PreprocessLikeExpression#1
  observe hasNull := ContainsIsNullOperator
  observe isnull := PreprocessIsNullExpression
  observe nullErr := PreprocessIsNullExpression#1
  before PreprocessLikeExpression [C13] the-like-rewriting-starts-from-the-having-text: $arg1 == dp.stream.config.Having
  before ContainsIsNullOperator [C13] the-is-null-rewriting-continues-from-the-like-rewriting: $arg1 == ite($hasLike && $likeErr == nil, $like, old(dp.stream.config.Having))
  before PreprocessIsNullExpression [C13] the-is-null-rewriting-continues-from-the-like-rewriting: $arg1 == ite($hasLike && $likeErr == nil, $like, old(dp.stream.config.Having))
  before NewExprCondition [C13] the-text-compiled-is-the-having-text-after-both-rewritings: $arg0 == ite($hasNull && $nullErr == nil, $isnull, ite($hasLike && $likeErr == nil, $like, old(dp.stream.config.Having)))
  atreturn every-group-of-the-batch-is-tested-against-having: $cerr == nil ==> $tested == len(results)
  atreturn an-unusable-having-filters-nothing: $cerr != nil ==> seqeq(result, results)
  observe verdict := Evaluate
  before Evaluate each-group-is-tested-on-its-own-row-by-the-compiled-having: $arg1 == boxof(result, map[string]any)
  loop 1 step a-group-is-kept-exactly-when-having-is-true-for-it: len(filteredResults) == prev(len(filteredResults)) + ite($verdict, 1, 0)
  loop 1 step the-group-kept-is-this-one-and-earlier-ones-stay: ($verdict ==> filteredResults[len(filteredResults) - 1] == $s[$i - 1]) && forall(j, 0, prev(len(filteredResults)), filteredResults[j] == prev(filteredResults)[j])
  loop 1 invariant $tested == $i && $cerr == nil
  loop 1 invariant len(filteredResults) <= $i && forall(j, 0, len(filteredResults), exists(k, 0, $i, filteredResults[j] == $s[k]))

extern (*Stream).projectGroupColumns
  props C07 C04 C05 C06 C16 C20
  modifies allmaps

// analytic functions over window results: every analytic field's value lands in the result row under its own alias (a
// multi-column one fans out), the hidden inline-aggregate keys are stripped, and the row is suppressed only when a
// change-detecting query saw no change
func (*Stream).applyWindowAnalytic
  props C07 C05 C06 C12 C13 C14 C15 C16 C19 C20
  modifies allmaps
  option assumed_frame
  observe results := Evaluate
  before Evaluate the-analytic-functions-see-this-result-row: $arg1 == row
  atreturn every-analytic-field-is-looked-at: $results != nil ==> $done1

pure encoding/json.Marshal

// DISTINCT keeps, in batch order, the first row of every distinct content; a row whose content cannot be compared is kept
func (*DataProcessor).applyDistinct
  props C07 C01 C03 C05 C08 C09 C10 C12 C15 C17 C20
  atreturn every-row-of-the-batch-is-looked-at: $done1
  option assumed_frame
  modifies allmaps
  observe ser := Marshal
  observe serErr := Marshal#1
  before Marshal the-row-compared-is-this-row: $arg0 == boxof(result, map[string]any)
  ensures only-rows-of-the-batch-in-batch-order: forall(j, 0, len(result), exists(k, 0, len(results), result[j] == results[k]))
  loop 1 invariant forall(j, 0, len(finalResults), exists(k, 0, $i, finalResults[j] == $s[k])) && $s == results
  loop 1 invariant a-row-that-cannot-be-compared-is-kept: $i > 0 && $serErr != nil ==> len(finalResults) > 0 && finalResults[len(finalResults) - 1] == $s[$i - 1]

// HAVING with a CASE expression, in whatever letter case the keyword is written, goes to the evaluator that understands
// CASE; every other HAVING to the condition engine; the batch handed on is the one given
func (*DataProcessor).applyHavingFilter
  props C07 C01 C03 C05 C08 C09 C10 C12 C15 C17 C20
  modifies allmaps
  option assumed_frame
  count viaCase := applyHavingWithCaseExpression
  count viaCond := applyHavingWithCondition
  before applyHavingWithCaseExpression the-batch-given-is-filtered: seqeq($arg1, results)
  before applyHavingWithCondition the-batch-given-is-filtered: seqeq($arg1, results)
  atreturn case-in-any-letter-case-selects-the-case-evaluator: ite(strings.Contains(strings.ToUpper(old(dp.stream.config.Having)), "CASE"), $viaCase == 1 && $viaCond == 0, $viaCase == 0 && $viaCond == 1)

// HAVING with a CASE expression: the expression is built from the HAVING text (backticks rewritten), every group is
// evaluated on its own row, and a group is kept exactly when the value is a positive number, a non-empty text, the
// boolean true (a comparison over the CASE value) or any other non-NULL value; an evaluation error or NULL drops the group
pred caseKeeps(err, isNull, v) := err == nil && !isNull && v != nil && (hasType(v, float64) ==> realval(v) > 0.0) && (hasType(v, string) ==> strval(v) != "") && (hasType(v, bool) ==> boolval(v))

func (*DataProcessor).applyHavingWithCaseExpression
  props C07 C01 C03 C05 C08 C09 C10 C12 C15 C17 C20 C13
  modifies *
  count tested := EvaluateValueWithNull
  observe xerr := NewExpression#1
  observe bt := ContainsBacktickIdentifiers
  observe pre := PreprocessBacktickIdentifiers
  observe preErr := PreprocessBacktickIdentifiers#1
  observe val := EvaluateValueWithNull
  observe isNull := EvaluateValueWithNull#1
  observe everr := EvaluateValueWithNull#2
  before NewExpression the-text-compiled-is-the-having-text-backticks-rewritten: $arg0 == ite($bt && $preErr == nil, $pre, old(dp.stream.config.Having))
  before EvaluateValueWithNull each-group-is-evaluated-on-its-own-row: $arg1 == result
  atreturn every-group-of-the-batch-is-tested-against-having: $xerr == nil ==> $tested == len(results) && $done1
  atreturn an-unusable-having-filters-nothing: $xerr != nil ==> seqeq(result0, results)
  loop 1 invariant $tested == $i && $s == results && len(filteredResults) <= $i
  loop 1 step a-group-is-kept-exactly-when-its-case-value-is-true: len(filteredResults) == prev(len(filteredResults)) + ite(caseKeeps($everr, $isNull, $val), 1, 0)
  loop 1 step the-group-kept-is-this-one-and-earlier-ones-stay: (caseKeeps($everr, $isNull, $val) ==> filteredResults[len(filteredResults) - 1] == $s[$i - 1]) && forall(j, 0, prev(len(filteredResults)), filteredResults[j] == prev(filteredResults)[j])

func (*Stream).applyOrderBy
  props C07 C05
  option assumed_frame
  modifies allmaps
  count sorted := Sort
  observe sorter := NewSorter
  before NewSorter the-sort-keys-are-the-configured-order-by-list: $arg0 == s.config.OrderBy
  before Sort this-batch-is-sorted-by-that-sorter: $arg0 == $sorter && $arg1 == results
  atreturn a-batch-is-sorted-whenever-order-by-is-configured-and-it-has-two-rows: $sorted == ite(len(s.config.OrderBy) == 0 || len(results) < 2, 0, 1)

func NewSorter
  props C07 C05
  ensures a-sorter-of-exactly-the-keys-given: fresh(result) && result.keys == keys

func (*Stream).hasAnalyticFields
  props C07 C05 C06 C12 C13 C14 C15 C16 C19 C20
  ensures result == (len(s.config.AnalyticFields) > 0)

func (*DataProcessor).processAggregationResults
  props C07 C01 C03 C05 C08 C09 C10 C12 C15 C17 C20
  modifies *
  observe having := applyHavingFilter
  observe distinct := applyDistinct
  count sorted := applyOrderBy
  atreturn every-batch-goes-through-order-by-whatever-the-limit: $sorted == 1
  before applyHavingFilter having-after-distinct: dp.stream.config.Distinct ==> finalResults == $distinct
  before applyOrderBy order-by-sees-having-output: dp.stream.config.Having != "" ==> finalResults == $having
  before applyOrderBy order-by-sees-all-rows: dp.stream.config.Having == "" && !dp.stream.config.Distinct ==> len(finalResults) == len(results)
  before sendResultNonBlocking limit-respected: dp.stream.config.Limit > 0 ==> len(finalResults) <= dp.stream.config.Limit
  before sendResultNonBlocking limit-keeps-a-prefix: dp.stream.config.Having != "" ==> len(finalResults) <= len($having) && forall(i, 0, len(finalResults), finalResults[i] == $having[i])
  before sendResultNonBlocking nothing-dropped-below-limit: dp.stream.config.Having != "" && (dp.stream.config.Limit <= 0 || len($having) <= dp.stream.config.Limit) ==> len(finalResults) == len($having)

// ---------------------------------------------------------------- C04: function-expression group keys, output naming
// an output name loses only its LEADING alias segment (the source alias or a JOIN alias): the rest of a nested path
// stays whole; a name without a dot, with an empty first segment or with an unknown first segment is kept as it is
func (*Stream).stripJoinAlias
  props C04 C05 C06 C07 C16 C20
  option pure
  before SplitN the-name-is-split-once-at-its-first-dot-so-the-rest-of-a-path-stays-whole: $arg0 == name && $arg1 == "." && $arg2 == 2
  ensures a-name-without-a-dot-is-kept: !strings.Contains(name, ".") ==> result == name

func (*Stream).groupFieldOutputName
  props C04 C05 C06 C07 C16 C20
  ensures alias-wins: dom(s.config.SelectAlias, gf) && s.config.SelectAlias[gf] != "" ==> result == s.config.SelectAlias[gf]

func (*Stream).injectGroupKeyExprs
  props C04 C20 C05 C06 C07 C16 C09 C10 C17
  modifies mapof(data)
  ensures no-function-key-nothing-written: forall(i, 0, len(s.config.GroupFields), !strings.Contains(s.config.GroupFields[i], "(")) ==> mapUnchanged(data)
  atreturn every-function-key-is-attempted: $done1
  loop 1 invariant forall(i, 0, len(s.config.GroupFields), !strings.Contains(s.config.GroupFields[i], "(")) ==> mapUnchanged(data)

// ---------------------------------------------------------------- C16: stream-table JOIN
guarded_by MemoryTableSource.mu: index
immutable MemoryTableSource: keyFields, name
monitor MemoryTableSource.mu inv tableInv

pred tableInv(m) := m.index != nil

extern encodeKey
  props C16
  option pure

pred isSignedKey(v) := hasType(v, int) || hasType(v, int64) || hasType(v, int32)
pred isUnsignedKey(v) := hasType(v, uint) || hasType(v, uint64) || hasType(v, uint32)
pred isFloatKey(v) := hasType(v, float64) || hasType(v, float32)

// floats of either width have one float form, so that one number is one key whatever type carries it (integers are
// written exactly by encodeOne before this is asked)
func numericKeyFloat
  props C16
  ensures floats-of-either-width-are-numbers: isFloatKey(v) ==> result1 && result0 == realval(v)
  ensures an-integer-it-accepts-keeps-its-value: (isSignedKey(v) || isUnsignedKey(v)) && result1 ==> result0 == float64(intval(v))
  ensures nothing-else-is-a-number: !(isFloatKey(v) || isSignedKey(v) || isUnsignedKey(v)) ==> !result1

// key encoding of one value: NULL, numbers (integers exactly, floats of either width through one float form), strings
// (escaped) and booleans each under their own tag
func encodeOne
  props C16
  option assumed_frame
  ensures null-has-its-own-key: v == nil ==> result == "<nil>"
  ensures signed-integers-are-written-exactly: isSignedKey(v) ==> result == "n:" + strconv.FormatInt(intval(v), 10)
  ensures unsigned-integers-are-written-exactly: isUnsignedKey(v) ==> result == "n:" + strconv.FormatUint(intval(v), 10)
  ensures floats-of-either-width-share-the-number-tag-and-one-spelling: isFloatKey(v) ==> result == "n:" + strconv.FormatFloat(realval(v), 102, -1, 64)

func (*MemoryTableSource).encodeRow
  props C16
  ensures key-values-in-indexed-order: len(result) == len(m.keyFields) && forall(i, 0, len(m.keyFields), result[i] == row[m.keyFields[i]])
  loop 1 invariant len(vals) == len(m.keyFields) && forall(j, 0, $i, vals[j] == row[m.keyFields[j]])

func (*MemoryTableSource).Lookup
  props C16
  acquires m.mu
  ensures reads-the-entry-of-the-key: result1 == dom(m.index, encodeKey(key)) && (result1 ==> result0 == m.index[encodeKey(key)])

func (*MemoryTableSource).Upsert
  props C16
  acquires m.mu
  modifies mapof(m.index)
  observe key := encodeKey
  observe keyvals := encodeRow
  atreturn row-visible-under-its-key: dom(m.index, $key) && m.index[$key] == row
  atreturn other-rows-untouched: forallv(k, "", k != $key ==> (dom(m.index, k) <==> old(dom(m.index, k))) && m.index[k] == old(m.index[k]))
  atreturn key-values-are-the-rows-key-fields: len($keyvals) == len(m.keyFields) && forall(i, 0, len(m.keyFields), $keyvals[i] == row[m.keyFields[i]])

func (*MemoryTableSource).Delete
  props C16
  acquires m.mu
  modifies mapof(m.index)
  ensures row-gone: !dom(m.index, encodeKey(key))
  ensures other-rows-untouched: forallv(k, "", k != encodeKey(key) ==> (dom(m.index, k) <==> old(dom(m.index, k))) && m.index[k] == old(m.index[k]))

func NewMemoryTableSource
  props C16
  ensures fresh(result) && tableInv(result)
  ensures the-index-is-keyed-by-the-fields-given-in-the-order-given: result.name == name && seqeq(result.keyFields, keyFields)
  loop 1 invariant fresh(src) && src.index != nil && fresh(src.index) && src.name == name && seqeq(src.keyFields, keyFields)

// registering a table indexes it on the fields of the ON clause, in the order written (the lookup tuple is built in
// that order)
func (*Stream).RegisterMemoryTable
  props C16 C05 C06 C12 C13 C14 C15 C19 C20
  modifies *
  before NewMemoryTableSource the-index-is-built-on-the-key-fields-given-in-the-order-given: $arg0 == name && seqeq($arg1, keyFields) && seqeq($arg2, rows)
  observe src := NewMemoryTableSource
  before register the-table-registered-is-the-one-just-built: $arg1 == boxof($src, *MemoryTableSource)
  atreturn the-table-handed-back-is-the-one-registered: result1 == nil ==> result0 == $src

// a memory table is shared by every stream it was registered with: closing it for one of them (a stopped stream closes
// its sources) leaves the rows where they are
func (*MemoryTableSource).Close
  props C16 C20
  ensures closing-is-a-no-op: result == nil

func (*MemoryTableSource).Init
  props C16 C20
  ensures init-is-a-no-op: result == nil

func (*tableStore).get
  props C16
  acquires ts.mu
  ensures the-source-served-under-a-name-is-the-one-stored-under-it: result1 == dom(ts.sources, name) && (result1 ==> result0 == ts.sources[name])

// registering a source under a name makes THAT source the one served under the name from then on (a second registration
// replaces the first), after it was initialised; a source that cannot be initialised is not stored
// a table source's own Init / Name do not write the stream's state (assumed for every implementation; the in-memory
// source's are no-ops under contract)
extern iface.TableSource.Init
  props C16 C20

extern iface.TableSource.Name
  props C16 C20
  option pure

func (*tableStore).register
  props C16 C20
  acquires ts.mu
  modifies mapof(ts.sources)
  observe name := Name
  observe ierr := Init
  count inits := Init
  atreturn the-source-is-initialised-once-before-it-is-served: $inits == 1
  atreturn a-source-that-initialises-is-the-one-served-under-its-name-from-now-on: $ierr == nil ==> result == nil && (ts.sources != nil ==> dom(ts.sources, $name) && ts.sources[$name] == src)
  count named := Name
  atreturn a-source-that-cannot-be-initialised-is-refused-with-its-own-error-and-not-stored: $ierr != nil ==> result == $ierr && $named == 0

// an upsert replaces the stored row by the row given, whole: columns the new row lacks do not survive
func (*Stream).UpsertTableRow
  props C16 C05 C06 C12 C13 C14 C15 C19 C20
  modifies *
  count stored := Upsert
  before Upsert what-gets-stored-has-exactly-the-columns-and-values-of-the-row-given: forallv(k, "", (dom($arg1, k) <==> dom(row, k)) && (dom(row, k) ==> $arg1[k] == row[k]))
  atreturn exactly-one-store-on-success: result == nil ==> $stored == 1

func (*Stream).JoinKeyFields
  props C16 C05 C06 C12 C13 C14 C15 C19 C20
  ensures the-index-key-is-the-table-side-of-the-on-pairs: forall(k, 0, len(s.config.JoinConfigs), s.config.JoinConfigs[k].Table == table && forall(j, 0, k, s.config.JoinConfigs[j].Table != table) ==> result1 == nil && len(result0) == len(s.config.JoinConfigs[k].OnPairs) && forall(i, 0, len(result0), result0[i] == s.config.JoinConfigs[k].OnPairs[i].TableField))
  ensures a-table-no-join-mentions-is-an-error: forall(k, 0, len(s.config.JoinConfigs), s.config.JoinConfigs[k].Table != table) ==> result1 != nil
  loop 1 invariant forall(j, 0, $i, s.config.JoinConfigs[j].Table != table)
  loop 2 invariant len(fields) == len(jc.OnPairs) && forall(j, 0, $i, fields[j] == jc.OnPairs[j].TableField)

extern iface.TableSource.Lookup
  props C16

func streamFieldValue
  props C16 C20
  ensures bare-name-direct-lookup: true

func (*Stream).enrichJoin
  props C16 C20
  ensures no-join-passes-the-row-through: len(s.config.JoinConfigs) == 0 ==> working == data && keep && err == nil
  ensures join-works-on-a-copy: len(s.config.JoinConfigs) > 0 && working != nil ==> fresh(working)
  ensures dropped-rows-return-nothing: !keep ==> working == nil
  ensures kept-rows-have-no-error: keep ==> err == nil
  ensures kept-joined-rows-exist: keep && len(s.config.JoinConfigs) > 0 ==> working != nil
  observe registered := get
  before streamFieldValue on-key-is-read-from-the-callers-row: $arg0 == data
  loop 1 invariant fresh(working) && working != nil
  loop 2 invariant fresh(working) && working != nil
  loop 3 invariant fresh(working) && working != nil

// ---------------------------------------------------------------- C19: every emitted row is enqueued once or counted as dropped
// ghost(sends) / ghost(recvs) count channel sends and receives on data channels, ghost(dones) receives from a
// done channel, ghost(timeouts_<var>) receives from the timer held in local <var> (option channel_events).
guarded_by Stream.dataChanMux: dataChan

func (*Stream).safeGetDataChan
  props C19
  acquires s.dataChanMux
  ensures result == s.dataChan

// every emitted row is counted as input and handed to the overflow strategy exactly once, whatever it contains
func (*Stream).Emit
  props C19 C05 C06 C12 C13 C14 C15 C16 C20
  modifies *
  count counted := Inc
  count handed := ProcessData
  before ProcessData the-strategy-gets-this-row: $arg1 == data
  atreturn counted-once-and-handed-to-the-strategy-once: $counted == 1 && $handed == 1

func (*Stream).safeSendToDataChan
  props C19
  option channel_events
  acquires s.dataChanMux
  modifies ghost(sends)
  before chansend the-row-is-offered-while-the-read-lock-pins-the-current-buffer: held(s.dataChanMux) && $arg0 == data
  ensures true-means-enqueued-once: result <==> ghost(sends) == old(ghost(sends)) + 1
  ensures refusal-enqueues-nothing: !result ==> ghost(sends) == old(ghost(sends))
  ensures stopped-or-closed-refuses: old(s.stopped) == 1 || s.dataChan == nil ==> !result

// the input buffer is swapped only on behalf of the expansion strategy: the senders of the other strategies hold the
// channel outside the lock and would strand their rows on a buffer swapped behind their back
func (*Stream).expandDataChannel
  props C19
  option channel_events
  only_called_by (*ExpansionStrategy).ProcessData
  modifies s.expanding, s.dataChan, ghost(sends), ghost(recvs), ghost(timeouts_migrationTimeout), ghost(drained)
  before Unlock old-buffer-observed-empty-before-the-swap: wheld(s.dataChanMux) ==> ghost(drained) == 1 || ghost(timeouts_migrationTimeout) > old(ghost(timeouts_migrationTimeout))
  ensures migration-moves-every-row-it-takes: ghost(timeouts_migrationTimeout) == old(ghost(timeouts_migrationTimeout)) ==> ghost(sends) - old(ghost(sends)) == ghost(recvs) - old(ghost(recvs))
  before Unlock swapped-only-to-a-larger-buffer-within-the-ceiling: wheld(s.dataChanMux) ==> s.dataChan == newChan && newCap > oldCap && (buf.MaxBufferSize > 0 ==> newCap <= buf.MaxBufferSize)
  loop 1 invariant held(s.dataChanMux) && wheld(s.dataChanMux) && held(s.expansionMux) && s.expanding == 1
  loop 1 invariant ghost(timeouts_migrationTimeout) == old(ghost(timeouts_migrationTimeout)) && ghost(sends) - old(ghost(sends)) == ghost(recvs) - old(ghost(recvs))
  loop 1 invariant newCap > oldCap && (buf.MaxBufferSize > 0 ==> newCap <= buf.MaxBufferSize)

// a strategy is bound to its stream and takes the configuration as it is: initialising it changes no setting of the stream
// (the expansion ceiling in particular stays what was configured)
func (*ExpansionStrategy).Init
  props C19
  modifies es.stream
  ensures bound-to-this-stream-and-nothing-else-changed: es.stream == stream && result == nil

func (*BlockingStrategy).Init
  props C19
  modifies bs.stream
  ensures bound-to-this-stream-and-nothing-else-changed: bs.stream == stream && result == nil

func (*DropStrategy).Init
  props C19
  modifies ds.stream
  ensures bound-to-this-stream-and-nothing-else-changed: ds.stream == stream && result == nil

func (*ExpansionStrategy).ProcessData
  props C19 C01 C03 C05 C08 C09 C10 C14 C15 C17 C20
  option channel_events
  modifies es.stream.expanding, es.stream.dataChan, es.stream.mInputDropped.val, ghost(sends), ghost(recvs), ghost(dones), ghost(timeouts_migrationTimeout), ghost(timeouts_timer), ghost(drained)
  ensures enqueued-once-or-counted-as-dropped-or-stopping: ghost(timeouts_migrationTimeout) == old(ghost(timeouts_migrationTimeout)) ==> ((ghost(sends) - ghost(recvs)) - (old(ghost(sends)) - old(ghost(recvs))) + (es.stream.mInputDropped.val - old(es.stream.mInputDropped.val)) == 1 || (old(es.stream.stopped) == 1 || ghost(dones) > old(ghost(dones))) && (ghost(sends) - ghost(recvs)) == (old(ghost(sends)) - old(ghost(recvs))) && es.stream.mInputDropped.val == old(es.stream.mInputDropped.val))
  ensures never-both: es.stream.mInputDropped.val - old(es.stream.mInputDropped.val) <= 1 && es.stream.mInputDropped.val >= old(es.stream.mInputDropped.val)
  loop 1 invariant ghost(timeouts_migrationTimeout) == old(ghost(timeouts_migrationTimeout)) ==> (ghost(sends) - ghost(recvs)) == (old(ghost(sends)) - old(ghost(recvs)))
  loop 1 invariant es.stream.mInputDropped.val == old(es.stream.mInputDropped.val) && ghost(dones) == old(ghost(dones)) && 0 <= i

func (*DropStrategy).ProcessData
  props C19 C01 C03 C05 C08 C09 C10 C14 C15 C17 C20
  option channel_events
  modifies ds.stream.mInputDropped.val, ghost(sends), ghost(dones), ghost(timeouts_timer)
  ensures enqueued-once-or-counted-as-dropped-or-stopping: (ghost(sends) - old(ghost(sends))) + (ds.stream.mInputDropped.val - old(ds.stream.mInputDropped.val)) == 1 || (old(ds.stream.stopped) == 1 || ds.stream.dataChan == nil || ghost(dones) > old(ghost(dones))) && ghost(sends) == old(ghost(sends)) && ds.stream.mInputDropped.val == old(ds.stream.mInputDropped.val)
  loop 1 invariant ghost(sends) == old(ghost(sends)) && ds.stream.mInputDropped.val == old(ds.stream.mInputDropped.val) && ghost(dones) == old(ghost(dones))

func (*BlockingStrategy).ProcessData
  props C19 C01 C03 C05 C08 C09 C10 C14 C15 C17 C20
  option channel_events
  modifies bs.stream.mInputDropped.val, ghost(sends), ghost(dones), ghost(timeouts_timer)
  ensures enqueued-once-or-counted-as-dropped-or-stopping: (ghost(sends) - old(ghost(sends))) + (bs.stream.mInputDropped.val - old(bs.stream.mInputDropped.val)) == 1 || (old(bs.stream.stopped) == 1 || bs.stream.dataChan == nil || ghost(dones) > old(ghost(dones))) && ghost(sends) == old(ghost(sends)) && bs.stream.mInputDropped.val == old(bs.stream.mInputDropped.val)
  ensures block-without-timeout-never-drops: bs.stream.blockingTimeout <= 0 ==> bs.stream.mInputDropped.val == old(bs.stream.mInputDropped.val)

func (*Stream).Stop
  props C19 C05 C06 C12 C13 C14 C15 C16 C20
  modifies *
  before Unlock producers-see-nil-after-stop: wheld(s.dataChanMux) ==> s.dataChan == nil

func (*StreamFactory).createStreamInstance
  props C19
  modifies *
  ensures fresh(result)

// ---------------------------------------------------------------- C20: the caller's row is never written
pred mapUnchanged(m) := forallv(k, "", (dom(m, k) <==> old(dom(m, k))) && m[k] == old(m[k]))
pred hasFuncGroupKey(s) := exists(i, 0, len(s.config.GroupFields), strings.Contains(s.config.GroupFields[i], "("))
pred injects(s) := len(s.config.AnalyticFields) > 0 || len(s.config.WhereAnalyticCalls) > 0 || hasFuncGroupKey(s)

func (*Stream).hasJoin
  props C20 C16
  ensures result == (len(s.config.JoinConfigs) > 0)

func (*Stream).injectsIntoRow
  props C20 C05 C06 C12 C13 C14 C15 C16 C19
  ensures result <==> injects(s)
  loop 1 invariant forall(j, 0, $i, !strings.Contains(s.config.GroupFields[j], "("))

func (*Stream).enrichData
  props C20 C05 C06 C12 C13 C14 C15 C16 C19
  ensures row-is-private-whenever-something-will-be-written-into-it: err == nil && keep && injects(s) ==> fresh(dataMap)
  ensures joined-row-is-a-copy: err == nil && keep && len(s.config.JoinConfigs) > 0 ==> fresh(dataMap)
  ensures errors-drop-the-row: err != nil ==> !keep
  ensures no-join-no-injection-passes-the-row-through: len(s.config.JoinConfigs) == 0 && !injects(s) ==> dataMap == data && keep && err == nil
  ensures callers-row-untouched: mapUnchanged(data)
  loop 1 invariant fresh(dataMap) && mapUnchanged(data)

func (*Stream).ensureAnalytic
  props C20 C14 C05 C06 C12 C13 C15 C16 C19
  modifies s.analytic

extern (*AnalyticEngine).HasFields
  props C20 C14 C12
  option pure

immutable analyticFieldEngine: lastResults!

// one row through every analytic field of the query (assumed: its frame only; the per-field engine is under contract)
extern (*AnalyticEngine).Evaluate
  props C20 C14 C12

func (*Stream).evalAnalytic
  props C20 C14 C05 C06 C12 C13 C15 C16 C19
  modifies mapof(dataMap), s.analytic
  observe results := Evaluate
  before Evaluate the-analytic-functions-see-this-row: $arg1 == dataMap
  atreturn every-analytic-field-and-every-where-placeholder-is-looked-at: $results != nil ==> $done1 && $done3
  atreturn the-results-of-this-row-are-handed-back: $results != nil ==> result == $results
  ensures nothing-to-inject-nothing-written: len(s.config.AnalyticFields) == 0 && len(s.config.WhereAnalyticCalls) == 0 ==> mapUnchanged(dataMap)
  loop 1 invariant len(s.config.AnalyticFields) == 0 && len(s.config.WhereAnalyticCalls) == 0 ==> mapUnchanged(dataMap)
  loop 2 invariant len(s.config.AnalyticFields) == 0 && len(s.config.WhereAnalyticCalls) == 0 ==> mapUnchanged(dataMap)
  loop 3 invariant len(s.config.AnalyticFields) == 0 && len(s.config.WhereAnalyticCalls) == 0 ==> mapUnchanged(dataMap)

func (*Stream).applyWhereAndAnalytic
  props C20 C05 C14 C06 C12 C13 C15 C16 C19
  modifies mapof(dataMap), s.analytic
  observe w := Evaluate
  before Evaluate where-sees-this-row: $arg1 == boxof(dataMap, map[string]any)
  ensures a-row-passes-exactly-when-where-is-true-for-it: keep <==> (s.filter == nil || $w)
  ensures nothing-to-inject-nothing-written: len(s.config.AnalyticFields) == 0 && len(s.config.WhereAnalyticCalls) == 0 ==> mapUnchanged(dataMap)
  ensures where-false-yields-nothing: !keep ==> analyticResults == nil
  count evals := evalAnalytic
  observe ares := evalAnalytic
  before evalAnalytic the-analytic-state-advances-on-this-row: $arg1 == dataMap
  atreturn [C14] the-analytic-state-advances-at-most-once-per-row: $evals <= 1
  atreturn [C14] before-where-exactly-when-where-refers-to-an-analytic-call-otherwise-only-for-rows-that-pass: $evals == ite(len(s.config.WhereAnalyticCalls) > 0 || keep, 1, 0)
  atreturn [C14] the-values-handed-on-are-those-of-that-one-evaluation: keep ==> analyticResults == $ares

// ---------------------------------------------------------------- C05: stateless row-wise filter and projection
pred finfo(s, spec) := s.compiledFieldInfo[spec]
pred otherKeysKept(result, key) := forallv(k, "", k != key ==> (dom(result, k) <==> old(dom(result, k))) && result[k] == old(result[k]))

// the name of the function a call text begins with: the text before the first parenthesis, blanks trimmed; no name when
// there is no parenthesis or when that text holds a blank or an operator (the call is then part of a larger expression)
func extractFunctionName
  props C05 C04 C06 C07 C16 C20
  option pure
  ensures no-parenthesis-no-name: strings.Index(expr, "(") == -1 ==> result == ""
  ensures the-name-is-the-text-before-the-first-parenthesis-unless-it-holds-a-blank-or-an-operator: strings.Index(expr, "(") != -1 ==> result == ite(strings.ContainsAny(strings.TrimSpace(expr[:strings.Index(expr, "(")]), " +-\x2a/=<>!&|"), "", strings.TrimSpace(expr[:strings.Index(expr, "(")]))

// a function column: a registered function is executed with the arguments worked out from this expression on this
// row, and its answer is the answer; anything else goes to the bridge as the same text on this row
func (*Stream).executeFunction
  props C05 C04 C06 C07 C16 C20
  option assumed_frame
  observe fn := Get
  observe known := Get#1
  observe args := parseFunctionArgs
  observe argErr := parseFunctionArgs#1
  observe val := Execute
  observe valErr := Execute#1
  observe bval := EvaluateExpression
  observe berr := EvaluateExpression#1
  count ran := Execute
  count bridged := EvaluateExpression
  before parseFunctionArgs the-arguments-are-those-of-this-expression-on-this-row: $arg1 == funcExpr && $arg2 == data
  before Execute the-function-runs-on-the-arguments-just-worked-out-with-this-row-as-context: $arg2 == $args && $arg1 != nil && $arg1.Data == data
  before EvaluateExpression the-bridge-sees-the-same-text-and-this-row: $arg1 == funcExpr && $arg2 == data
  atreturn a-registered-functions-answer-is-the-answer: $ran == 1 ==> result0 == $val && result1 == $valErr && $bridged == 0
  atreturn arguments-that-cannot-be-worked-out-are-an-error-not-a-call: extractFunctionName(funcExpr) != "" && $known && $argErr != nil ==> $ran == 0 && $bridged == 0 && result1 != nil && result0 == nil
  atreturn an-unregistered-call-goes-to-the-bridge-whose-value-is-the-answer: $bridged == 1 ==> $ran == 0 && ($berr == nil ==> result0 == $bval && result1 == nil) && ($berr != nil ==> result0 == nil && result1 != nil)

// a simple SELECT item without compiled info: `*` copies every column of the row that no expression item computes; a
// call item is executed on this row; a plain (or nested) column is copied under its output name, NULL when absent
func (*Stream).processSingleFieldFallback
  props C05 C04 C06 C07 C16 C20
  requires result != nil
  modifies mapof(result)
  observe fval := executeFunction
  observe ferr := executeFunction#1
  count called := executeFunction
  before executeFunction a-call-item-is-executed-on-this-row: $arg2 == dataMap
  atreturn select-star-copies-every-column-of-the-row-that-no-expression-item-computes: fieldSpec == "*" ==> $called == 0 && forallv(k, "", dom(dataMap, k) && !dom(s.config.FieldExpressions, k) ==> dom(result, k) && result[k] == dataMap[k])
  atreturn the-value-of-a-call-item-is-the-functions-answer-an-error-gives-null: $called == 1 ==> dom(result, outputName) && result[outputName] == ite($ferr == nil, $fval, nil)
  loop 1 invariant result != nil && forallv(k, "", $visited[k] && dom(dataMap, k) && !dom(s.config.FieldExpressions, k) ==> dom(result, k) && result[k] == dataMap[k])

// argument splitting of a function call text: commas separate arguments only outside quotes and outside nested parentheses,
// and parentheses inside a quoted literal are text. qst2 / pdepth: quote state and parenthesis depth after n bytes.
recfunc qst2((s Str) (n Int)) Int := (ite (<= n 0) 0 (let ((q (@qst2 s (- n 1))) (c (gs.at s (- n 1)))) (ite (not (= q 0)) (ite (= c q) 0 q) (ite (or (= c 39) (= c 34)) c 0))))
recfunc pdepth((s Str) (n Int)) Int := (ite (<= n 0) 0 (let ((d (@pdepth s (- n 1))) (q (@qst2 s (- n 1))) (c (gs.at s (- n 1)))) (ite (not (= q 0)) d (ite (= c 40) (+ d 1) (ite (= c 41) (- d 1) d)))))

func (*Stream).smartSplitArgs
  props C06 C05 C04 C07 C16 C20
  option safety
  modifies heap(strings.Builder)
  loop 1 invariant 0 <= i && i <= len(argsStr) && (inQuotes <==> quoteChar != 0) && (quoteChar == 0 || quoteChar == 39 || quoteChar == 34)
  loop 1 invariant quoteChar == qst2(argsStr, i)
  loop 1 invariant parenDepth == pdepth(argsStr, i)
  loop 1 decreases len(argsStr) - i

func (*Stream).processExpressionField
  props C05 C20 C06 C04 C07 C16
  option assumed_frame
  requires result != nil
  modifies mapof(result)
  count asked := EvaluateExpression
  observe ferr := EvaluateValueWithNull#2
  atreturn [C05 C06] on-the-fast-path-a-failure-of-the-numeric-engine-is-not-the-answer-the-bridge-is-asked: old(s.compiledExprInfo != nil && dom(s.compiledExprInfo, fieldName) && s.compiledExprInfo[fieldName] != nil && !s.compiledExprInfo[fieldName].isFunctionCall && !s.compiledExprInfo[fieldName].hasNestedFields && s.compiledExprInfo[fieldName].compiledExprFastPath) && $ferr != nil ==> $asked >= 1

// the arguments of a function column are worked out from the expression text and THIS row on every row: a quoted
// argument is its text, a nested call is executed on this row, a word that is a column of this row is that column's
// value on this row (asked anew for every row), a number is its value
func (*Stream).parseFunctionArgs
  props C05 C20 C06 C04 C07 C16
  option assumed_frame
  observe fld := lookupRowField
  observe known := lookupRowField#1
  observe nested := executeFunction
  observe nestedErr := executeFunction#1
  before lookupRowField a-bare-word-is-looked-up-in-this-row: $arg0 == data && $arg1 == arg
  before executeFunction a-nested-call-is-executed-on-this-row: $arg1 == arg && $arg2 == data
  before EvaluateExpression an-operator-expression-is-evaluated-on-this-row: $arg1 == arg && $arg2 == data
  before ParseFloat a-numeric-argument-is-read-at-full-precision: $arg1 == 64 && $arg0 == arg
  loop 1 invariant len(args) == len(argParts) && $s == argParts
  loop 1 step a-quoted-argument-is-its-text: (strings.HasPrefix(strings.TrimSpace($s[$i - 1]), "'") && strings.HasSuffix(strings.TrimSpace($s[$i - 1]), "'") ==> args[$i - 1] == boxof(strings.Trim(strings.TrimSpace($s[$i - 1]), "'"), string))
  loop 1 step a-word-that-is-a-column-of-this-row-is-that-columns-value-on-this-row: !(strings.HasPrefix(strings.TrimSpace($s[$i - 1]), "'") && strings.HasSuffix(strings.TrimSpace($s[$i - 1]), "'")) && !(strings.HasPrefix(strings.TrimSpace($s[$i - 1]), "\"") && strings.HasSuffix(strings.TrimSpace($s[$i - 1]), "\"")) && !strings.Contains(strings.TrimSpace($s[$i - 1]), "(") && $known ==> args[$i - 1] == $fld
  loop 1 step the-arguments-already-worked-out-stay: forall(j, 0, $i - 1, args[j] == prev(args)[j])

// the aggregator of a query is built on the query's own GROUP BY fields and aggregate items; every compound item is
// added from its own text and inputs, none skipped; every aggregate whose argument is an expression gets its evaluator
func (*DataProcessor).initializeAggregator
  props C03 C01 C04 C07 C09 C20 C05 C08 C10 C12 C15 C17
  modifies *
  observe fields := convertToAggregationFields
  count compound := AddPostAggregationExpression
  count plain := NewGroupAggregator
  count enhanced := NewEnhancedGroupAggregator
  count calculators := registerExpressionCalculator
  before convertToAggregationFields the-aggregate-items-are-the-querys-own: $arg1 == dp.stream.config.FieldAlias
  before NewGroupAggregator the-aggregator-groups-by-the-querys-group-by-fields-and-aggregates-its-items: $arg0 == dp.stream.config.GroupFields && $arg1 == $fields
  before NewEnhancedGroupAggregator the-aggregator-groups-by-the-querys-group-by-fields-and-aggregates-its-items: $arg0 == dp.stream.config.GroupFields && $arg1 == $fields
  before AddPostAggregationExpression each-compound-item-is-added-under-its-own-output-name-from-its-own-text: $arg1 == postExpr.OutputField && $arg2 == postExpr.OriginalExpr
  before registerExpressionCalculator each-expression-argument-gets-the-evaluator-of-its-own-expression: $arg1 == field && $arg2 == fieldExpr
  atreturn exactly-one-aggregator-is-built-the-enhanced-one-wraps-a-plain-one: $plain == 1 && $enhanced <= 1
  loop 1 invariant $enhanced == 1 && $plain == 1
  loop 1 step every-compound-item-is-added-once: $compound == prev($compound) + 1
  loop 2 invariant $plain == 1 && $enhanced <= 1
  loop 2 step every-expression-argument-gets-one-evaluator: $calculators == prev($calculators) + 1

// output columns are checked for collisions before a query runs: on the aggregation path no two GROUP BY fields may
// resolve to one output name and no aggregate alias may repeat an output name; a query that passes has pairwise distinct
// group output names, each the one groupFieldOutputName gives for its field
func (*Stream).compileOutputNames
  props C04 C05 C06 C07 C16 C20
  option assumed_frame
  modifies s.groupOutputNames, s.config
  observe outName := groupFieldOutputName
  before groupFieldOutputName each-group-field-is-named-by-the-shared-rule: $arg1 == gf
  atreturn on-the-aggregation-path-an-accepted-query-has-pairwise-distinct-group-output-names: result == nil && old(s.config.Mode) != types.ExecCEP && old(s.config.NeedWindow) ==> forall(a, 0, len(s.groupOutputNames), forall(b, 0, len(s.groupOutputNames), a != b ==> s.groupOutputNames[a] != s.groupOutputNames[b]))
  loop 2 invariant len(s.groupOutputNames) == len($s) && forall(a, 0, $i, seen[s.groupOutputNames[a]]) && forall(a, 0, $i, forall(b, 0, $i, a != b ==> s.groupOutputNames[a] != s.groupOutputNames[b]))
  loop 2 step the-name-recorded-for-a-field-is-the-one-the-shared-rule-gives: s.groupOutputNames[$i - 1] == $outName
  loop 3 invariant forall(a, 0, len(s.groupOutputNames), forall(b, 0, len(s.groupOutputNames), a != b ==> s.groupOutputNames[a] != s.groupOutputNames[b]))

// the state constructors of a field are worked out from the field; nothing under contract is written
func buildStateCtors
  props C14 C12 C20 C05
  option assumed_frame
  observe fn := Get
  observe known := Get#1
  loop 1 invariant len(names) == $i && forall(j, 0, $i, names[j] == af.Calls[j].FuncName)
  loop 2 invariant len(ctors) == $i && ($s == names) && (len(af.Calls) > 0 ==> len(names) == len(af.Calls) && forall(j, 0, len(names), names[j] == af.Calls[j].FuncName)) && (len(af.Calls) == 0 ==> len(names) == 1 && names[0] == af.FuncName)
  atreturn one-state-constructor-per-analytic-call-of-the-field-or-one-for-the-field-itself: result1 == nil ==> len(result0) == ite(len(af.Calls) > 0, len(af.Calls), 1)
  atreturn an-unknown-or-stateless-function-is-refused: result1 != nil ==> result0 == nil

// every analytic field of a query gets an engine of its own: its own partitions, its own recency list and its own memory
// of the last result per partition (two fields never share any of them), built for that field, in the order written
func NewAnalyticEngine
  props C14 C12 C20 C05
  ensures no-analytic-field-no-engine: len(fields) == 0 ==> result0 == nil && result1 == nil
  loop 1 invariant forall(a, 0, len(engines), engines[a] != nil && allocated(engines[a]) && allocated(engines[a].lastResults) && allocated(engines[a].partitions))
  loop 1 step each-field-gets-an-engine-built-for-it: len(engines) == prev(len(engines)) + 1 && engines[len(engines) - 1].af == $s[$i - 1] && forall(a, 0, len(engines) - 1, engines[a] == prev(engines)[a])
  loop 1 step the-new-engines-memory-of-last-results-and-its-partitions-are-shared-with-no-earlier-field: forall(a, 0, len(engines) - 1, engines[a].lastResults != engines[len(engines) - 1].lastResults && engines[a].partitions != engines[len(engines) - 1].partitions && engines[a] != engines[len(engines) - 1])

// the fallback of a SELECT expression (no compiled info): the column is always written, and only it; a call goes to the
// bridge with the IS NULL / LIKE rewriting of the expression's own text and this row; a dotted non-call expression
// goes to the hand-written engine on this row; anything else tries the bridge first and the engine only when the
// bridge fails; an error or NULL gives NULL, otherwise the value computed is the value stored
func (*Stream).processExpressionFieldFallback
  props C05 C20 C06 C04 C07 C16 C13
  option assumed_frame
  requires result != nil
  modifies mapof(result)
  observe hasNull := ContainsIsNullOperator
  observe isnull := PreprocessIsNullExpression
  observe nullErr := PreprocessIsNullExpression#1
  observe hasLike := ContainsLikeOperator
  observe like := PreprocessLikeExpression
  observe likeErr := PreprocessLikeExpression#1
  observe bt := ContainsBacktickIdentifiers
  observe pre := PreprocessBacktickIdentifiers
  observe preErr := PreprocessBacktickIdentifiers#1
  observe bval := EvaluateExpression
  observe berr := EvaluateExpression#1
  observe xerr := NewExpression#1
  observe xval := EvaluateValueWithNull
  observe xnull := EvaluateValueWithNull#1
  observe xeverr := EvaluateValueWithNull#2
  count bridged := EvaluateExpression
  count engined := EvaluateValueWithNull
  before ContainsIsNullOperator the-rewriting-starts-from-the-expressions-own-text: $arg1 == old(s.config.FieldExpressions[fieldName].Expression)
  before ContainsLikeOperator the-like-rewriting-continues-from-the-is-null-rewriting: $arg1 == ite($hasNull && $nullErr == nil, $isnull, old(s.config.FieldExpressions[fieldName].Expression))
  before EvaluateExpression the-bridge-sees-the-rewritten-text-and-this-row: $arg2 == dataMap && $arg1 == ite($hasLike && $likeErr == nil, $like, ite($hasNull && $nullErr == nil, $isnull, old(s.config.FieldExpressions[fieldName].Expression)))
  before NewExpression the-engine-parses-the-expressions-own-text-backticks-rewritten: $arg0 == ite($bt && $preErr == nil, $pre, old(s.config.FieldExpressions[fieldName].Expression))
  before EvaluateValueWithNull the-engine-sees-this-row: $arg1 == dataMap
  atreturn the-column-is-always-written-and-only-it: dom(result, fieldName) && otherKeysKept(result, fieldName)
  atreturn an-unknown-expression-gives-null: !old(dom(s.config.FieldExpressions, fieldName)) ==> result[fieldName] == nil && $bridged == 0 && $engined == 0
  atreturn the-bridges-answer-is-the-value-stored: $bridged == 1 && $berr == nil ==> result[fieldName] == $bval && $engined == 0
  atreturn the-engines-answer-is-the-value-stored-null-as-null: $engined == 1 ==> result[fieldName] == ite($xeverr != nil || $xnull, nil, $xval)
  atreturn a-call-never-falls-back-to-the-engine: old(dom(s.config.FieldExpressions, fieldName)) && strings.Contains(old(s.config.FieldExpressions[fieldName].Expression), "(") && strings.Contains(old(s.config.FieldExpressions[fieldName].Expression), ")") ==> $bridged == 1 && $engined == 0 && ($berr != nil ==> result[fieldName] == nil)
  atreturn a-dotted-non-call-goes-to-the-engine-only: old(dom(s.config.FieldExpressions, fieldName)) && !(strings.Contains(old(s.config.FieldExpressions[fieldName].Expression), "(") && strings.Contains(old(s.config.FieldExpressions[fieldName].Expression), ")")) && strings.Contains(old(s.config.FieldExpressions[fieldName].Expression), ".") ==> $bridged == 0 && ($xerr == nil ==> $engined == 1) && ($xerr != nil ==> result[fieldName] == nil)
  atreturn anything-else-tries-the-bridge-first-and-the-engine-only-when-it-fails: old(dom(s.config.FieldExpressions, fieldName)) && !strings.Contains(old(s.config.FieldExpressions[fieldName].Expression), ".") && !(strings.Contains(old(s.config.FieldExpressions[fieldName].Expression), "(") && strings.Contains(old(s.config.FieldExpressions[fieldName].Expression), ")")) ==> $bridged == 1 && ($berr != nil && $xerr == nil ==> $engined == 1) && ($berr != nil && $xerr != nil ==> result[fieldName] == nil)

// qst(s, n): quote state after the first n bytes of a "field:alias" spec: 0 outside quotes, else the byte that
// opened the quote (', " or `). A colon is the field/alias separator only where the state before it is 0.
recfunc qst((s Str) (n Int)) Int := (ite (<= n 0) 0 (let ((q (@qst s (- n 1))) (c (gs.at s (- n 1)))) (ite (not (= q 0)) (ite (= c q) 0 q) (ite (or (= c 39) (= c 34) (= c 96)) c 0))))
pred sepAt(s, i) := qst(s, i) == 0 && s[i] == 58
pred firstSep(s, i) := 0 <= i && i < len(s) && sepAt(s, i) && forall(j, 0, i, !sepAt(s, j))
pred unq(s) := ite(len(s) >= 2 && s[0] == 96 && s[len(s) - 1] == 96, s[1:len(s) - 1], s)

func (*Stream).compileSimpleFieldInfo$1
  props C05 C04 C06 C07 C16 C20
  option safety
  ensures one-or-two-parts: len(result) == 1 || len(result) == 2
  ensures split-at-the-first-colon-outside-quotes: len(result) == 2 ==> exists(i, 0, len(spec), firstSep(spec, i) && result[0] == spec[:i] && result[1] == spec[i + 1:])
  ensures unsplit-when-every-colon-is-quoted: len(result) == 1 ==> result[0] == spec && forall(j, 0, len(spec), !sepAt(spec, j))
  loop 1 invariant 0 <= i && (inQuote ==> quoteChar == qst(spec, i) && quoteChar != 0) && (!inQuote ==> qst(spec, i) == 0) && forall(j, 0, i, !sepAt(spec, j))
  loop 1 decreases len(spec) - i

func (*Stream).compileSimpleFieldInfo
  props C05 C04 C06 C07 C16 C20
  option safety
  ensures result != nil && fresh(result)
  ensures star-selects-every-column: fieldSpec == "*" ==> result.isSelectAll
  ensures only-star-selects-every-column: fieldSpec != "*" ==> !result.isSelectAll
  ensures column-and-alias-are-the-two-sides-of-the-first-unquoted-colon: fieldSpec != "*" ==> forall(i, 0, len(fieldSpec), firstSep(fieldSpec, i) ==> result.fieldName == unq(fieldSpec[:i]) && result.outputName == unq(fieldSpec[i + 1:]))
  ensures without-an-unquoted-colon-the-column-is-its-own-name: fieldSpec != "*" && forall(j, 0, len(fieldSpec), !sepAt(fieldSpec, j)) ==> result.fieldName == unq(fieldSpec) && result.outputName == unq(fieldSpec)
  ensures alias-is-the-output-name: fieldSpec != "*" ==> result.alias == result.outputName
  ensures quoted-text-is-a-literal-without-its-quotes: fieldSpec != "*" && result.isStringLiteral ==> len(result.fieldName) >= 2 && result.stringValue == result.fieldName[1:len(result.fieldName) - 1]

func (*Stream).processSimpleField
  props C05 C04 C06 C07 C16 C20
  requires result != nil && result != dataMap
  modifies mapof(result)
  ensures the-row-is-only-read: mapUnchanged(dataMap)
  ensures plain-column-is-copied-or-null: dom(s.compiledFieldInfo, fieldSpec) && finfo(s, fieldSpec) != nil && !finfo(s, fieldSpec).isSelectAll && !dom(s.config.FieldExpressions, finfo(s, fieldSpec).outputName) && !finfo(s, fieldSpec).isStringLiteral && !finfo(s, fieldSpec).isFunctionCall && !finfo(s, fieldSpec).hasNestedField ==> dom(result, finfo(s, fieldSpec).outputName) && result[finfo(s, fieldSpec).outputName] == ite(dom(dataMap, finfo(s, fieldSpec).fieldName), dataMap[finfo(s, fieldSpec).fieldName], nil) && otherKeysKept(result, finfo(s, fieldSpec).outputName)
  ensures nested-path-is-looked-up-or-null: dom(s.compiledFieldInfo, fieldSpec) && finfo(s, fieldSpec) != nil && !finfo(s, fieldSpec).isSelectAll && !dom(s.config.FieldExpressions, finfo(s, fieldSpec).outputName) && !finfo(s, fieldSpec).isStringLiteral && !finfo(s, fieldSpec).isFunctionCall && finfo(s, fieldSpec).hasNestedField ==> dom(result, finfo(s, fieldSpec).outputName) && result[finfo(s, fieldSpec).outputName] == ite(second(fieldpath.GetNestedField(data, finfo(s, fieldSpec).fieldName)), fieldpath.GetNestedField(data, finfo(s, fieldSpec).fieldName), nil) && otherKeysKept(result, finfo(s, fieldSpec).outputName)
  ensures string-literal-under-its-alias: dom(s.compiledFieldInfo, fieldSpec) && finfo(s, fieldSpec) != nil && !finfo(s, fieldSpec).isSelectAll && !dom(s.config.FieldExpressions, finfo(s, fieldSpec).outputName) && finfo(s, fieldSpec).isStringLiteral ==> dom(result, finfo(s, fieldSpec).alias) && result[finfo(s, fieldSpec).alias] == boxof(finfo(s, fieldSpec).stringValue, string) && otherKeysKept(result, finfo(s, fieldSpec).alias)
  ensures expression-columns-keep-their-computed-value: dom(s.compiledFieldInfo, fieldSpec) && finfo(s, fieldSpec) != nil && !finfo(s, fieldSpec).isSelectAll && dom(s.config.FieldExpressions, finfo(s, fieldSpec).outputName) ==> mapUnchanged(result)
  ensures star-copies-every-column-not-owned-by-an-expression: dom(s.compiledFieldInfo, fieldSpec) && finfo(s, fieldSpec) != nil && finfo(s, fieldSpec).isSelectAll ==> forallv(k, "", (dom(dataMap, k) && !dom(s.config.FieldExpressions, k) ==> dom(result, k) && result[k] == dataMap[k]) && (!(dom(dataMap, k) && !dom(s.config.FieldExpressions, k)) ==> (dom(result, k) <==> old(dom(result, k))) && result[k] == old(result[k])))
  loop 1 invariant mapUnchanged(dataMap) && forallv(k, "", ($visited[k] ==> dom(dataMap, k)) && ($visited[k] && !dom(s.config.FieldExpressions, k) ==> dom(result, k) && result[k] == dataMap[k]) && (!($visited[k] && !dom(s.config.FieldExpressions, k)) ==> (dom(result, k) <==> old(dom(result, k))) && result[k] == old(result[k])))

func (*Stream).projectAnalytic
  props C05 C20 C06 C12 C13 C14 C15 C16 C19
  requires result != nil
  modifies mapof(result)
  ensures nothing-analytic-nothing-added: analyticResults == nil ==> mapUnchanged(result)
  loop 1 step a-single-column-analytic-value-lands-under-its-own-alias-an-unchanged-changed-col-is-left-out: !$s[$i - 1].MultiColumn && dom(analyticResults, $s[$i - 1].Alias) && !($s[$i - 1].FuncName == "changed_col" && analyticResults[$s[$i - 1].Alias] == nil) ==> dom(result, $s[$i - 1].Alias) && result[$s[$i - 1].Alias] == analyticResults[$s[$i - 1].Alias]
  loop 1 step a-single-column-field-writes-no-other-column: !$s[$i - 1].MultiColumn ==> forallv(k, "", k != $s[$i - 1].Alias ==> (dom(result, k) <==> prev(dom(result, k))) && result[k] == prev(result[k]))
  loop 1 step a-field-without-a-value-or-an-unchanged-changed-col-writes-nothing: !$s[$i - 1].MultiColumn && (!dom(analyticResults, $s[$i - 1].Alias) || ($s[$i - 1].FuncName == "changed_col" && analyticResults[$s[$i - 1].Alias] == nil)) ==> forallv(k, "", (dom(result, k) <==> prev(dom(result, k))) && result[k] == prev(result[k]))
  atreturn every-analytic-field-is-projected: analyticResults != nil ==> $done1

func (*Stream).hasOmitEmptyAnalytic
  props C05 C06 C12 C13 C14 C15 C16 C19 C20
  ensures only-analytic-queries-suppress-rows: len(s.config.AnalyticFields) == 0 ==> !result

pred emptyMap(m) := forallv(k, "", !dom(m, k))

func (*Stream).projectDirectRow
  props C20 C05 C06 C12 C13 C14 C15 C16 C19
  ensures emit ==> result != nil && fresh(result)
  ensures the-row-is-only-read: mapUnchanged(dataMap)
  ensures non-analytic-rows-always-yield-a-result: len(s.config.AnalyticFields) == 0 ==> emit
  ensures star-without-expressions-is-the-row-itself: len(s.config.SimpleFields) == 0 && len(s.config.FieldExpressions) == 0 && len(s.config.AnalyticFields) == 0 && analyticResults == nil ==> forallv(k, "", (dom(result, k) <==> dom(dataMap, k)) && (dom(dataMap, k) ==> result[k] == dataMap[k]))
  before processSimpleField each-selected-column-is-read-from-this-row-into-this-result: $arg2 == dataMap && $arg3 == boxof(dataMap, map[string]any) && $arg4 == result && result != nil && fresh(result)
  before processExpressionField each-expression-is-evaluated-on-this-row-into-this-result: $arg2 == dataMap && $arg3 == result
  before projectAnalytic analytic-columns-go-into-this-result: $arg1 == result && $arg2 == analyticResults
  loop 1 invariant result != nil && fresh(result) && mapUnchanged(dataMap) && (len(s.config.FieldExpressions) == 0 ==> emptyMap(result))
  loop 2 invariant result != nil && fresh(result) && mapUnchanged(dataMap)
  loop 3 invariant result != nil && fresh(result) && mapUnchanged(dataMap) && forallv(k, "", (dom(result, k) <==> $visited[k]) && ($visited[k] ==> result[k] == dataMap[k] && dom(dataMap, k)))

func (*DataProcessor).expandUnnestResults
  props C05 C01 C03 C07 C08 C09 C10 C12 C15 C17 C20
  modifies *
  ensures without-unnest-the-batch-is-exactly-the-row: !old(dp.stream.hasUnnestFunction) ==> len(result0) == 1 && result0[0] == result
  atreturn [C20 C05] an-expanded-batch-consists-of-maps-built-here-never-of-the-callers-nested-rows: len(result0) > 0 && result0[0] != result ==> forall(j, 0, len(result0), fresh(result0[j]))
  loop 2 invariant len(results) == len(expandedRows) && len(expandedRows) > 0 && forall(j, 0, $i, fresh(results[j]) && results[j] != result)
  loop 3 invariant fresh(newRow) && newRow != result && len(results) == len(expandedRows) && forall(j, 0, i, fresh(results[j]) && results[j] != result) && 0 <= i && i < len(expandedRows)
  loop 4 invariant fresh(newRow) && newRow != result && len(results) == len(expandedRows) && forall(j, 0, i, fresh(results[j]) && results[j] != result) && 0 <= i && i < len(expandedRows)

func (*Stream).processDirectDataSync
  props C20 C05 C06 C12 C13 C14 C15 C16 C19
  modifies *
  observe enriched := enrichData
  observe analytic := applyWhereAndAnalytic
  observe pass := applyWhereAndAnalytic#1
  observe proj := projectDirectRow
  observe emit := projectDirectRow#1
  before applyWhereAndAnalytic where-is-tested-on-the-enriched-row: $arg1 == $enriched
  before projectDirectRow projection-reads-the-same-row-and-the-analytic-values-of-this-row: $arg1 == $enriched && $arg2 == $analytic && $pass
  before callSinksAsync callers-row-untouched: mapUnchanged(data)
  before callSinksAsync sinks-get-a-fresh-row: fresh(result)
  before callSinksAsync sinks-get-exactly-the-projection: len($arg1) == 1 && $arg1[0] == $proj && $emit && $pass
  ensures the-returned-row-is-the-one-handed-to-the-sinks: result0 != nil ==> result0 == $proj && $pass && $emit && result1 == nil
  ensures filtered-rows-yield-nothing: !$pass ==> result0 == nil

func (*DataProcessor).processDirectData
  props C05 C01 C03 C07 C08 C09 C10 C12 C15 C17 C20
  modifies *
  observe enriched := enrichData
  observe analytic := applyWhereAndAnalytic
  observe pass := applyWhereAndAnalytic#1
  observe proj := projectDirectRow
  observe emit := projectDirectRow#1
  observe batch := expandUnnestResults
  before applyWhereAndAnalytic where-is-tested-on-the-enriched-row: $arg1 == $enriched
  before projectDirectRow projection-reads-the-same-row-and-the-analytic-values-of-this-row: $arg1 == $enriched && $arg2 == $analytic && $pass
  before expandUnnestResults the-projection-is-what-gets-delivered: $arg1 == $proj && $emit && $pass
  before sendResultNonBlocking the-channel-gets-the-batch: $arg1 == $batch
  before callSinksAsync the-sinks-get-the-same-batch-as-the-channel: $arg1 == $batch

func (*DataProcessor).processItem
  props C20 C01 C03 C05 C07 C08 C09 C10 C12 C15 C17
  option recovers
  modifies *
  observe enriched := enrichData
  observe keep := enrichData#1
  observe pass := Evaluate
  count added := Add
  count cep := processCEP
  count direct := processDirectData
  before Evaluate [C05 C01 C08 C09 C10] where-is-asked-about-the-enriched-row: $arg1 == boxof($enriched, map[string]any) && $keep
  before Add [C05 C01 C08 C09 C10] the-window-gets-the-enriched-row-and-only-a-row-that-passes-where: $arg1 == boxof($enriched, map[string]any) && $keep && (old(dp.stream.filter) == nil || $pass)
  atreturn [C05 C01 C08 C09 C10] in-window-mode-a-row-that-is-kept-and-passes-where-reaches-the-window-once-and-no-other-row-does: old(dp.stream.config.Mode) != types.ExecCEP && old(dp.stream.config.NeedWindow) ==> $added == ite($keep && (old(dp.stream.filter) == nil || $pass), 1, 0) && $cep == 0 && $direct == 0
  atreturn the-row-goes-down-exactly-one-path: old(dp.stream.config.Mode) == types.ExecCEP ==> $cep == 1 && $added == 0 && $direct == 0
  atreturn direct-mode-rows-go-to-the-direct-path: old(dp.stream.config.Mode) != types.ExecCEP && !old(dp.stream.config.NeedWindow) ==> $direct == 1 && $added == 0 && $cep == 0
  before Add callers-row-untouched: mapUnchanged(data)
  before injectGroupKeyExprs computed-keys-go-into-a-private-row: hasFuncGroupKey(dp.stream) ==> fresh($arg1)

// ---------------------------------------------------------------- C14: partition keys are typed and use full precision
func typeKey
  props C14 C12
  ensures null: v == nil ==> result == "nil|"
  ensures strings-verbatim: hasType(v, string) ==> result == "string|" + strval(v)
  ensures ints: hasType(v, int) ==> result == "int|" + strconv.Itoa(intval(v))
  ensures int64s: hasType(v, int64) ==> result == "int64|" + strconv.FormatInt(intval(v), 10)
  ensures float64-at-full-precision: hasType(v, float64) ==> result == "float64|" + strconv.FormatFloat(realval(v), 103, -1, 64)
  ensures bools: hasType(v, bool) ==> result == ite(boolval(v), "bool|true", "bool|false")
@*/

/*@
// ---------------------------------------------------------------- C01/C08: per-batch aggregation and window_id stamping
func stampWindowID
  props C01 C08 C02 C03 C05 C07 C09 C10 C12 C15 C17 C20
  option safety
  requires forall(i, 0, len(results), results[i] != nil)
  modifies allmaps
  observe id := Sprintf
  before Sprintf the-id-is-made-of-the-bounds-of-the-batch-interval: len($arg1) == 2 && $arg1[0] == boxof(*batch[0].Slot.Start, int64) && $arg1[1] == boxof(*batch[0].Slot.End, int64)
  ensures every-result-carries-the-id-of-the-batch-interval: len(batch) > 0 && batch[0].Slot != nil && batch[0].Slot.Start != nil && batch[0].Slot.End != nil ==> forall(i, 0, len(results), results[i] != nil ==> dom(results[i], "window_id") && results[i]["window_id"] == boxof($id, string))
  loop 1 invariant forall(j, 0, $i, $s[j] != nil ==> dom($s[j], "window_id") && $s[j]["window_id"] == boxof(id, string)) && $s == results

func (*DataProcessor).processWindowBatch
  props C01 C08 C03 C09 C05 C07 C10 C12 C15 C17 C20
  modifies *
  count adds := Add
  count resets := Reset
  count puts := Put
  before Add each-row-is-aggregated-under-its-own-window-bounds-published-just-before: $puts == 2 * ($adds + 1)
  observe res := GetResults
  observe resErr := GetResults#1
  atreturn [C01 C08 C03 C09] every-aggregated-batch-ends-with-one-reset-whatever-was-delivered: old(dp.stream.config.WindowConfig.Type) != "global" && $resErr == nil ==> $resets == 1
  before Add rows-are-aggregated-in-batch-order-each-once: $arg1 == batch[$adds].Data && $adds < len(batch)
  before stampWindowID results-of-this-batch-get-this-batchs-interval: $arg0 == $res && $arg1 == batch && $adds == len(batch)
  before Reset accumulators-restart-only-after-the-results-were-taken: $adds == len(batch)
  loop 1 invariant true
  loop 2 invariant $adds == $i && $s == batch && $puts == 2 * $i
@*/

/*@
// ---------------------------------------------------------------- C14: per-partition state lookup and WHEN gating
// entryOf(fe, k): the partition entry stored under key k (the LRU list element's value)
pred entryOf(fe, k) := unbox(fe.partitions[k].Value, *partitionEntry)

func (*analyticFieldEngine).getStateLocked
  props C14 C12
  option callbacks_pure
  modifies fe.noPart, mapof(fe.partitions), mapof(fe.lastResults), heap(list.Element.Value)
  ensures without-partition-by-there-is-one-shared-state: fe.af.Over == nil || len(fe.af.Over.PartitionBy) == 0 ==> seqeq(result, fe.noPart) && (old(fe.noPart) != nil ==> seqeq(fe.noPart, old(fe.noPart)))
  ensures a-known-partition-gets-its-own-state-back: fe.af.Over != nil && len(fe.af.Over.PartitionBy) > 0 && old(dom(fe.partitions, partKey)) ==> seqeq(result, old(entryOf(fe, partKey).states))
  ensures a-hit-leaves-the-partition-table-alone: fe.af.Over != nil && len(fe.af.Over.PartitionBy) > 0 && old(dom(fe.partitions, partKey)) ==> mapUnchanged(fe.partitions)
  ensures a-new-partition-is-registered-under-its-own-key-with-the-states-it-returns: fe.af.Over != nil && len(fe.af.Over.PartitionBy) > 0 && !old(dom(fe.partitions, partKey)) && dom(fe.partitions, partKey) ==> fresh(fe.partitions[partKey]) && entryOf(fe, partKey).key == partKey && seqeq(result, entryOf(fe, partKey).states)
  ensures a-last-result-is-dropped-only-together-with-its-partition: forallv(k, "", old(dom(fe.lastResults, k)) && !dom(fe.lastResults, k) ==> !dom(fe.partitions, k))
  ensures an-evicted-partition-leaves-no-last-result-behind: forallv(k, "", old(dom(fe.partitions, k)) && !dom(fe.partitions, k) ==> !dom(fe.lastResults, k))
  ensures no-last-result-is-added-or-changed-here: forallv(k, "", dom(fe.lastResults, k) ==> old(dom(fe.lastResults, k)) && fe.lastResults[k] == old(fe.lastResults[k]))
  ensures other-partitions-keep-their-entry-or-are-evicted-whole: fe.af.Over != nil && len(fe.af.Over.PartitionBy) > 0 ==> forallv(k, "", k != partKey && dom(fe.partitions, k) ==> old(dom(fe.partitions, k)) && fe.partitions[k] == old(fe.partitions[k]))
@*/

/*@
extern (*analyticFieldEngine).partitionKey
  props C14 C12
  option pure

pure github.com/rulego/streamsql/types.AnalyticSelfTokenN

func lookupRowField
  props C14 C04 C05 C06 C07 C16 C20
  option pure
  ensures a-column-of-that-very-name-wins: dom(data, key) ==> result1 && result0 == data[key]
  ensures a-qualified-name-falls-back-to-its-last-segment: !dom(data, key) && strings.LastIndex(key, ".") >= 0 && strings.LastIndex(key, ".") < len(key) - 1 && dom(data, key[strings.LastIndex(key, ".") + 1:]) ==> result1 && result0 == data[key[strings.LastIndex(key, ".") + 1:]]
  ensures otherwise-absent: !dom(data, key) && !(strings.LastIndex(key, ".") >= 0 && strings.LastIndex(key, ".") < len(key) - 1 && dom(data, key[strings.LastIndex(key, ".") + 1:])) ==> !result1 && result0 == nil

func resolvePartitionField
  props C14 C12
  ensures the-exact-column-wins: dom(row, key) ==> result == row[key]
  ensures then-the-nested-path: !dom(row, key) && second(fieldpath.GetNestedField(row, key)) ==> result == fieldpath.GetNestedField(row, key)
  ensures then-the-suffix-fallback: !dom(row, key) && !second(fieldpath.GetNestedField(row, key)) && second(lookupRowField(row, key)) ==> result == lookupRowField(row, key)
  ensures otherwise-null: !dom(row, key) && !second(fieldpath.GetNestedField(row, key)) && !second(lookupRowField(row, key)) ==> result == nil

func hasStarArg
  props C14 C12
  option pure
  ensures a-star-among-the-arguments-blanks-aside: result <==> exists(j, 0, len(args), strings.TrimSpace(args[j]) == "*")
  loop 1 invariant forall(j, 0, $i, strings.TrimSpace(args[j]) != "*")

func literalValue
  props C14 C12
  option pure
  ensures the-two-truth-words-are-booleans: strings.TrimSpace(s) == "true" ==> result == boxof(true, bool)
  ensures false-is-false: strings.TrimSpace(s) == "false" ==> result == boxof(false, bool)
  before ParseFloat a-number-is-read-at-full-precision-from-the-trimmed-text: $arg1 == 64 && $arg0 == strings.TrimSpace(old(s))
  before Atoi an-integer-is-read-from-the-trimmed-text: $arg0 == strings.TrimSpace(old(s))

extern (*analyticFieldEngine).applyCall
  props C14 C12
  modifies *
  ensures the-engines-own-bookkeeping-is-not-touched: fe.lastResults == old(fe.lastResults) && mapUnchanged(fe.lastResults) && fe.whenCond == old(fe.whenCond) && fe.af == old(fe.af)

pred acnBare(e) := strings.Trim(strings.TrimSpace(e), "`")
pred acnQuoted(t) := len(t) >= 2 && ((t[0] == 34 && t[len(t) - 1] == 34) || (t[0] == 39 && t[len(t) - 1] == 39))
pred acnUnq(t) := ite(acnQuoted(t), t[1:len(t) - 1], t)
pred acnLast(t) := ite(strings.LastIndex(t, ".") >= 0, t[strings.LastIndex(t, ".") + 1:], t)

// the column an analytic argument names: blanks, backticks and one pair of quotes dropped, then the last segment of a
// qualified name
func analyticColName
  props C14 C12
  option safety
  option pure
  ensures the-column-is-the-last-segment-of-the-unquoted-name: result == acnLast(acnUnq(acnBare(expr)))

// changed_cols and its kin: the partition and the WHEN gate are decided by the incoming row itself (not by the columns
// being watched), the state consulted is the one of the row's own partition, and a row that fails WHEN repeats the
// partition's last result
func (*analyticFieldEngine).evaluateMultiColumn
  props C14 C12
  before partitionKey every-watched-column-was-looked-at-before-the-state-is-consulted: $done1
  requires fe != nil && fe.lastResults != nil
  modifies *
  observe pk := partitionKey
  observe w := Evaluate
  observe applied := ApplyColumns
  before partitionKey the-partition-is-that-of-the-incoming-row: $arg1 == row
  before Evaluate when-is-tested-on-the-incoming-row: $arg1 == boxof(row, map[string]any)
  before getStateLocked state-is-looked-up-under-this-rows-own-partition-key: $arg1 == $pk
  before getStateLocked rows-failing-when-do-not-advance-the-state: fe.whenCond == nil || $w
  before ApplyColumns the-watched-columns-of-this-row-are-compared: $arg3 == cols
  loop 1 invariant true
  loop 2 invariant true

// a wrapper expression is evaluated the same way for every row: the bridge first, on this field's own expression and this
// row; only when the bridge fails on this row is the expr-package fallback used (parsed once, from the same expression)
func (*analyticFieldEngine).evalWrapper
  props C14 C12
  option assumed_frame
  modifies fe.wrapperParsed
  count tried := EvaluateExpression
  observe bval := EvaluateExpression
  observe berr := EvaluateExpression#1
  observe fval := EvaluateValueWithNull
  observe fnull := EvaluateValueWithNull#1
  observe ferr := EvaluateValueWithNull#2
  before EvaluateExpression the-bridge-gets-this-fields-own-wrapper-expression-and-this-row: $arg1 == fe.af.WrapperExpr && $arg2 == data
  before NewExpression the-fallback-is-parsed-from-the-same-expression: $arg0 == fe.af.WrapperExpr
  before EvaluateValueWithNull the-fallback-evaluates-this-row: $arg1 == data
  atreturn the-bridge-is-tried-for-every-row-whatever-earlier-rows-did: $tried == 1
  atreturn the-bridges-answer-stands-when-it-has-one: $berr == nil ==> result0 == $bval && !result1 && result2 == nil

func (*analyticFieldEngine).evaluate
  props C14 C12
  option recovers
  requires fe != nil && fe.lastResults != nil
  modifies *
  observe pk := partitionKey
  observe w := Evaluate
  before Evaluate when-is-tested-on-this-row: $arg1 == boxof(row, map[string]any)
  before getStateLocked state-is-looked-up-under-this-rows-own-partition-key: $arg1 == $pk
  before getStateLocked rows-failing-when-do-not-advance-the-state: fe.whenCond == nil || $w
  before applyCall the-function-is-applied-to-this-row-on-a-state-of-this-partition: $arg2 == row && exists(j, 0, len(calls), $arg4 == states[j] && $arg3 == calls[j])
  ensures rows-passing-when-leave-their-result-as-the-partitions-last-result: !old(fe.af.MultiColumn) && (old(fe.whenCond) == nil || $w) ==> dom(fe.lastResults, $pk) && fe.lastResults[$pk] == result
  loop 2 invariant fe.lastResults == old(fe.lastResults) && fe.lastResults != nil && fe.af == old(fe.af) && fe.whenCond == old(fe.whenCond)
  ensures rows-failing-when-repeat-the-partitions-last-result-or-null: !old(fe.af.MultiColumn) && old(fe.whenCond) != nil && !$w ==> result == ite(old(dom(fe.lastResults, $pk)), old(fe.lastResults[$pk]), nil)
@*/
