//go:build verif

package aggregator

/*@
func (*GroupAggregator).shouldAllowNullValues
  props C03
  ensures explicit-null-reaches-first-and-last-value-only: result <==> (aggType == "first_value" || aggType == "last_value")
@*/
