//go:build verif

package rsql

// Contracts for the SQL lexer and the total (never panicking) parts of the parser (C11).
// Comment-only file; read by /verif/govc, ignored by every ordinary build.

/*@
// ---------------------------------------------------------------- lexer (C11)
// lexOK: the cursor is inside the input (or exactly at its end), readPos is one ahead, and ch mirrors the byte
// under the cursor (0 at the end). Every slice l.input[a:l.pos] taken by the lexer is in range because of it.
// quiet(s, i): from byte i on the input holds nothing the lexer turns into a token: only blanks and bytes it
// reports and skips (unknown characters, a '!' not followed by '=') up to the end or a zero byte.
recfunc quiet((s Str) (i Int)) Bool := (ite (or (< i 0) (>= i (gs.len s))) true (let ((c (gs.at s i)) (nx (ite (< (+ i 1) (gs.len s)) (gs.at s (+ i 1)) 0))) (ite (= c 0) true (ite (or (= c 32) (= c 9) (= c 10) (= c 13)) (@quiet s (+ i 1)) (ite (ite (= c 33) (not (= nx 61)) (not (or (and (<= 97 c) (<= c 122)) (and (<= 65 c) (<= c 90)) (= c 95) (and (<= 48 c) (<= c 57)) (= c 44) (= c 40) (= c 41) (= c 91) (= c 93) (= c 46) (= c 63) (= c 124) (= c 123) (= c 125) (= c 43) (= c 45) (= c 42) (= c 47) (= c 61) (= c 62) (= c 60) (= c 39) (= c 34) (= c 96)))) (@quiet s (+ i 1)) false)))))

pred lexOK(l) := l != nil && 0 <= l.pos && l.pos <= len(l.input) && l.readPos == l.pos + 1
  && (l.pos < len(l.input) ==> l.ch == l.input[l.pos]) && (l.pos == len(l.input) ==> l.ch == 0)
pred isWs(c) := c == ' ' || c == '\t' || c == '\n' || c == '\r'
pred letter(c) := ('a' <= c && c <= 'z') || ('A' <= c && c <= 'Z') || c == '_'
pred digit(c) := '0' <= c && c <= '9'

func isLetter
  props C11
  option pure
  ensures result <==> letter(ch)

func isDigit
  props C11
  option pure
  ensures result <==> digit(ch)

func (*Lexer).readChar
  props C11
  option safety
  requires l != nil && 0 <= l.readPos && l.readPos <= len(l.input)
  modifies l.ch, l.pos, l.readPos, l.line, l.column
  ensures advances-one-byte: l.pos == old(l.readPos) && l.readPos == old(l.readPos) + 1
  ensures mirrors-the-byte: (l.pos < len(l.input) ==> l.ch == l.input[l.pos]) && (l.pos >= len(l.input) ==> l.ch == 0)

func (*Lexer).peekChar
  props C11
  option safety
  requires l != nil && 0 <= l.readPos
  ensures (l.readPos < len(l.input) ==> result == l.input[l.readPos]) && (l.readPos >= len(l.input) ==> result == 0)

func NewLexer
  props C11
  option safety
  ensures fresh(result) && lexOK(result) && result.pos == 0 && result.input == input && result.errorRecovery == nil

func (*Lexer).skipWhitespace
  props C11
  option safety
  requires lexOK(l)
  modifies l.ch, l.pos, l.readPos, l.line, l.column
  ensures lexOK(l) && l.pos >= old(l.pos)
  ensures skips-exactly-the-blank-run: forall(i, old(l.pos), l.pos, isWs(l.input[i])) && !isWs(l.ch)
  ensures blanks-do-not-hide-a-token: quiet(l.input, old(l.pos)) == quiet(l.input, l.pos)
  loop 1 invariant lexOK(l) && l.pos >= old(l.pos) && forall(i, old(l.pos), l.pos, isWs(l.input[i]))
  loop 1 invariant quiet(l.input, old(l.pos)) == quiet(l.input, l.pos)
  loop 1 decreases len(l.input) - l.pos

func (*Lexer).readIdentifier
  props C11
  option safety
  requires lexOK(l)
  modifies l.ch, l.pos, l.readPos, l.line, l.column
  ensures lexOK(l) && l.pos >= old(l.pos)
  ensures identifier-text-is-ascii: ascii(result)
  ensures is-the-maximal-identifier-run: result == l.input[old(l.pos):l.pos] && forall(i, old(l.pos), l.pos, letter(l.input[i]) || digit(l.input[i]) || l.input[i] == '.') && !(letter(l.ch) || digit(l.ch) || l.ch == '.')
  loop 1 invariant lexOK(l) && l.pos >= old(l.pos) && forall(i, old(l.pos), l.pos, letter(l.input[i]) || digit(l.input[i]) || l.input[i] == '.')
  loop 1 decreases len(l.input) - l.pos

func (*Lexer).readNumber
  props C11
  option safety
  requires lexOK(l)
  modifies l.ch, l.pos, l.readPos, l.line, l.column
  ensures lexOK(l) && l.pos >= old(l.pos)
  ensures is-the-maximal-digit-run: result == l.input[old(l.pos):l.pos] && forall(i, old(l.pos), l.pos, digit(l.input[i]) || l.input[i] == '.') && !(digit(l.ch) || l.ch == '.')
  loop 1 invariant lexOK(l) && l.pos >= old(l.pos) && forall(i, old(l.pos), l.pos, digit(l.input[i]) || l.input[i] == '.')
  loop 1 decreases len(l.input) - l.pos

func (*Lexer).readPreviousIdentifier
  props C11
  option safety
  requires lexOK(l)
  loop 1 invariant -1 <= startPos && startPos < l.pos
  loop 1 decreases startPos + 1

func (*Lexer).readString
  props C11
  option safety
  requires lexOK(l) && l.ch != 0
  modifies l.ch, l.pos, l.readPos, l.line, l.column
  ensures lexOK(l) && l.pos > old(l.pos)
  loop 1 invariant lexOK(l) && l.pos > old(l.pos)
  loop 1 decreases len(l.input) - l.pos

func (*ErrorRecovery).AddError
  props C11
  option safety
  requires er != nil
  modifies er.errors
  ensures no-nil-entry-appears: err != nil && old(errsOK(er)) ==> errsOK(er)
  ensures recorded-last: len(er.errors) == len(old(er.errors)) + 1 && er.errors[len(er.errors) - 1] == err && forall(i, 0, len(old(er.errors)), er.errors[i] == old(er.errors)[i])

func (*Lexer).readStringToken
  props C11
  option safety
  requires lexOK(l) && (l.ch == '\'' || l.ch == '"')
  modifies l.ch, l.pos, l.readPos, l.line, l.column, l.errorRecovery.errors
  ensures recorded-errors-stay-non-nil: old(errsOK(l.errorRecovery)) ==> errsOK(l.errorRecovery)
  ensures lexOK(l) && l.pos > old(l.pos) && l.input == old(l.input)
  ensures one-string-token-whatever-it-contains: result.Type == TokenString && result.Value == l.input[old(l.pos):l.pos] && result.Pos == pos
  ensures nothing-inside-is-a-quote: forall(i, old(l.pos) + 1, l.pos - 1, l.input[i] != old(l.ch))
  ensures the-literal-ends-at-the-first-quote-of-its-own-kind-or-runs-to-the-end-of-input: (l.pos - old(l.pos) >= 2 && l.input[l.pos - 1] == old(l.ch)) || l.ch == 0
  loop 1 invariant lexOK(l) && l.pos > old(l.pos) && l.input == old(l.input) && quoteChar == old(l.ch) && startPos == old(l.pos) && forall(i, old(l.pos) + 1, l.pos, l.input[i] != old(l.ch))
  loop 1 decreases len(l.input) - l.pos

func (*Lexer).readQuotedIdentToken
  props C11
  option safety
  requires lexOK(l) && l.ch == '`'
  modifies l.ch, l.pos, l.readPos, l.line, l.column, l.errorRecovery.errors
  ensures recorded-errors-stay-non-nil: old(errsOK(l.errorRecovery)) ==> errsOK(l.errorRecovery)
  ensures lexOK(l) && l.pos > old(l.pos) && l.input == old(l.input)
  ensures one-identifier-token-whatever-it-contains: result.Type == TokenQuotedIdent && result.Value == l.input[old(l.pos):l.pos] && result.Pos == pos
  ensures no-backtick-inside: forall(i, old(l.pos) + 1, l.pos - 1, l.input[i] != 96)
  ensures the-identifier-ends-at-the-next-backtick-or-runs-to-the-end-of-input: (l.pos - old(l.pos) >= 2 && l.input[l.pos - 1] == 96) || l.ch == 0
  loop 1 invariant lexOK(l) && l.pos > old(l.pos) && l.input == old(l.input) && startPos == old(l.pos) && forall(i, old(l.pos) + 1, l.pos, l.input[i] != 96)
  loop 1 decreases len(l.input) - l.pos

func (*Lexer).isValidNumber
  props C11
  option safety
  loop 1 invariant startIndex <= i && 0 <= startIndex && startIndex < len(number)
  loop 1 decreases len(number) - i

pred snapOK(s, l) := 0 <= s.pos && s.pos <= len(l.input) && s.readPos == s.pos + 1 && (s.pos < len(l.input) ==> s.ch == l.input[s.pos]) && (s.pos == len(l.input) ==> s.ch == 0)

func (*Lexer).save
  props C11
  option safety
  requires l != nil
  ensures result.pos == l.pos && result.readPos == l.readPos && result.ch == l.ch && result.line == l.line && result.column == l.column
  ensures snapshot-of-a-consistent-lexer-is-consistent: lexOK(l) ==> snapOK(result, l)

func (*Lexer).restore
  props C11
  option safety
  requires l != nil
  modifies l.ch, l.pos, l.readPos, l.line, l.column
  ensures l.pos == s.pos && l.readPos == s.readPos && l.ch == s.ch && l.line == s.line && l.column == s.column
  ensures restoring-a-consistent-snapshot-keeps-the-lexer-consistent: snapOK(s, l) ==> lexOK(l)
@*/

/*@
// The documented keyword table: a word is a keyword exactly when its upper-cased spelling is in the table,
// whatever the case it was written in; every other word is an identifier.
pred kwType(u) := ite(u == "SELECT", TokenSELECT, ite(u == "FROM", TokenFROM, ite(u == "WHERE", TokenWHERE, ite(u == "GROUP", TokenGROUP, ite(u == "BY", TokenBY, ite(u == "AS", TokenAS, ite(u == "OR", TokenOR, ite(u == "AND", TokenAND, ite(u == "TUMBLINGWINDOW", TokenTumbling, ite(u == "SLIDINGWINDOW", TokenSliding, ite(u == "COUNTINGWINDOW", TokenCounting, ite(u == "SESSIONWINDOW", TokenSession, ite(u == "GLOBAL", TokenGlobal, ite(u == "WINDOW", TokenWindow, ite(u == "TRIGGER", TokenTrigger, ite(u == "WITH", TokenWITH, ite(u == "TIMESTAMP", TokenTimestamp, ite(u == "TIMEUNIT", TokenTimeUnit, ite(u == "MAXOUTOFORDERNESS", TokenMaxOutOfOrderness, ite(u == "ALLOWEDLATENESS", TokenAllowedLateness, ite(u == "IDLETIMEOUT", TokenIdleTimeout, ite(u == "STATETTL", TokenStateTTL, ite(u == "ORDER", TokenOrder, ite(u == "DISTINCT", TokenDISTINCT, ite(u == "LIMIT", TokenLIMIT, ite(u == "HAVING", TokenHAVING, ite(u == "LIKE", TokenLIKE, ite(u == "IS", TokenIS, ite(u == "NULL", TokenNULL, ite(u == "NOT", TokenNOT, ite(u == "CASE", TokenCASE, ite(u == "WHEN", TokenWHEN, ite(u == "THEN", TokenTHEN, ite(u == "ELSE", TokenELSE, ite(u == "END", TokenEND, ite(u == "OVER", TokenOVER, ite(u == "PARTITION", TokenPARTITION, TokenIdent)))))))))))))))))))))))))))))))))))))

func (*Lexer).checkForTypos
  props C11
  option safety
  requires l != nil && l.errorRecovery != nil
  modifies l.errorRecovery.errors
  ensures recorded-errors-stay-non-nil: old(errsOK(l.errorRecovery)) ==> errsOK(l.errorRecovery)

func (*Lexer).lookupIdent
  props C11
  option safety
  requires l != nil
  modifies l.errorRecovery.errors
  ensures recorded-errors-stay-non-nil: old(errsOK(l.errorRecovery)) ==> errsOK(l.errorRecovery)
  ensures keyword-decided-by-the-upper-cased-spelling-only: result.Type == kwType(strings.ToUpper(ident))
  ensures token-text-is-the-word-as-written: result.Value == ident

func (*Lexer).NextToken
  props C11
  option safety
  requires lexOK(l)
  decreases len(l.input) - l.pos
  modifies l.ch, l.pos, l.readPos, l.line, l.column, l.errorRecovery.errors
  ensures recorded-errors-stay-non-nil: old(errsOK(l.errorRecovery)) ==> errsOK(l.errorRecovery)
  ensures lexOK(l) && l.pos >= old(l.pos) && l.input == old(l.input)
  ensures progress-unless-at-the-end: result.Type != TokenEOF ==> l.pos > old(l.pos)
  ensures end-only-at-a-zero-byte: result.Type == TokenEOF ==> l.ch == 0
  ensures the-end-token-has-no-text: result.Type == TokenEOF ==> result.Value == ""
  ensures end-of-input-exactly-when-nothing-tokenizable-remains: (result.Type == TokenEOF) <==> quiet(l.input, old(l.pos))
  ensures token-lies-inside-the-input: old(l.pos) <= result.Pos && result.Pos <= l.pos
  ensures quoted-text-is-one-token: result.Type == TokenString ==> result.Value == l.input[result.Pos:l.pos]
  ensures a-word-is-classified-by-its-upper-cased-spelling: result.Pos < len(l.input) && letter(l.input[result.Pos]) ==> result.Type == kwType(strings.ToUpper(result.Value)) && result.Value == l.input[result.Pos:l.pos] && ascii(result.Value)
  ensures keywords-come-only-from-words: result.Type == TokenOrder || result.Type == TokenLIMIT || result.Type == TokenBY ==> result.Pos < len(l.input) && letter(l.input[result.Pos])
@*/

/*@
// ---------------------------------------------------------------- error construction and formatting (C11: never panics)
func calculateLineColumn
  props C11
  option safety
  option pure

func generateSuggestions
  props C11
  option safety
  ensures true

func generateFunctionSuggestions
  props C11
  option safety
  ensures true

func CreateSyntaxError
  props C11
  option safety
  ensures fresh(result) && result.Position == position

func CreateLexicalError
  props C11
  option safety
  ensures fresh(result) && result.Position == position

func CreateLexicalErrorWithPosition
  props C11
  option safety
  ensures fresh(result) && result.Position == position

func CreateUnexpectedTokenError
  props C11
  option safety
  ensures fresh(result) && result.Position == position

func CreateMissingTokenError
  props C11
  option safety
  ensures fresh(result) && result.Position == position

func CreateUnknownFunctionError
  props C11
  option safety
  ensures fresh(result) && result.Position == position

func CreateSemanticError
  props C11
  option safety
  ensures fresh(result) && result.Position == position

func FormatErrorContext
  props C11
  option safety
  requires contextLength >= 0
  ensures out-of-range-position-gives-no-context: position < 0 || position >= len(input) ==> result == ""

func (*ParseError).Error
  props C11
  option safety
  requires e != nil

func (*ParseError).getErrorTypeName
  props C11
  option safety
  requires e != nil

func (*ErrorRecovery).GetErrors
  props C11
  option safety
  requires er != nil
  ensures result == er.errors

func (*ErrorRecovery).HasErrors
  props C11
  option safety
  requires er != nil
  ensures result <==> len(er.errors) > 0
@*/

/*@
// ---------------------------------------------------------------- parser state (C11)
pred errsOK(er) := forall(i, 0, len(er.errors), er.errors[i] != nil)
pred parOK(p) := p != nil && allocated(p) && allocated(p.lexer) && allocated(p.errorRecovery) && p.lexer != nil && lexOK(p.lexer) && p.errorRecovery != nil && p.lexer.errorRecovery == p.errorRecovery && p.errorRecovery.parser == p && p.input == p.lexer.input && errsOK(p.errorRecovery)
@*/

/*@
pred errOK(e) := hasType(e, *ParseError) ==> unbox(e, *ParseError) != nil

func NewErrorRecovery
  props C11
  option safety
  ensures fresh(result) && result.parser == parser && len(result.errors) == 0

func (*Lexer).SetErrorRecovery
  props C11
  option safety
  requires l != nil
  modifies l.errorRecovery
  ensures l.errorRecovery == er

func NewParser
  props C11 C06 C16 C17
  option safety
  modifies *
  ensures parOK(result) && result.input == input && result.lexer.pos == 0

func (*ErrorRecovery).skipToNextDelimiter
  props C11
  option safety
  requires er != nil && parOK(er.parser)
  modifies heap(Lexer.ch), heap(Lexer.pos), heap(Lexer.readPos), heap(Lexer.line), heap(Lexer.column), heap(ErrorRecovery.errors)
  ensures parOK(er.parser) && er.parser.lexer.pos >= old(er.parser.lexer.pos)
  loop 1 invariant parOK(er.parser) && er.parser.lexer.pos >= old(er.parser.lexer.pos) && skipped >= 0
  loop 1 decreases maxSkip - skipped

func (*ErrorRecovery).RecoverFromError
  props C11
  option safety
  requires er != nil && parOK(er.parser)
  modifies heap(Lexer.ch), heap(Lexer.pos), heap(Lexer.readPos), heap(Lexer.line), heap(Lexer.column), heap(ErrorRecovery.errors)
  ensures parOK(er.parser) && er.parser.lexer.pos >= old(er.parser.lexer.pos)

func (*ParseError).IsRecoverable
  props C11
  option safety
  requires e != nil
  ensures result == e.Recoverable

func (*Parser).GetErrors
  props C11 C06 C16 C17
  option safety
  requires parOK(p)
  ensures result == p.errorRecovery.errors

func (*Parser).HasErrors
  props C11 C06 C16 C17
  option safety
  requires parOK(p)

func (*Parser).getTokenTypeName
  props C11 C06 C16 C17
  option safety
  requires p != nil

func (*Parser).createTokenError
  props C11 C06 C16 C17
  option safety
  requires p != nil
  modifies heap(ParseError.Context), heap(ParseError.Message)
  ensures fresh(result)

func (*Parser).shouldAttemptRecovery
  props C11 C06 C16 C17
  option safety
  requires parOK(p) && err != nil
  modifies heap(Lexer.ch), heap(Lexer.pos), heap(Lexer.readPos), heap(Lexer.line), heap(Lexer.column), heap(ErrorRecovery.errors)
  ensures parOK(p) && p.lexer.pos >= old(p.lexer.pos)

func (*Parser).expectTokenWithDepth
  props C11 C06 C16 C17
  option safety
  requires parOK(p) && depth >= 0
  decreases 32 - depth
  modifies *
  ensures parOK(p) && p.lexer.pos >= old(p.lexer.pos) && errOK(result1)
  ensures success-means-the-expected-kind: result1 == nil ==> result0.Type == expected

func (*Parser).expectToken
  props C11 C06 C16 C17
  option safety
  requires parOK(p)
  modifies *
  ensures parOK(p) && p.lexer.pos >= old(p.lexer.pos) && errOK(result1)
  ensures success-means-the-expected-kind: result1 == nil ==> result0.Type == expected

func (*Parser).createDetailedError
  props C11 C06 C16 C17
  option safety
  requires p != nil && errOK(err)
  modifies heap(ParseError.Context)
  ensures errOK(result) && (err != nil ==> result != nil)

func (*Parser).createCombinedError
  props C11 C06 C16 C17
  option safety
  requires parOK(p)
  modifies heap(ParseError.Context)
  ensures parOK(p)
  ensures errOK(result)

func (*Parser).peekToken
  props C11 C15
  option safety
  requires parOK(p)
  modifies p.errorRecovery.errors
  ensures parOK(p) && p.lexer.pos == old(p.lexer.pos) && p.lexer.ch == old(p.lexer.ch)
  ensures the-end-token-has-no-text: result.Type == TokenEOF ==> result.Value == ""
  ensures peek-tells-whether-a-token-remains: (result.Type == TokenEOF) <==> quiet(p.lexer.input, p.lexer.pos)
@*/

/*@
// ---------------------------------------------------------------- clause parsers (C11)
func (*Parser).parseOrderBy
  props C11 C06 C16 C17
  option safety
  requires parOK(p) && stmt != nil
  modifies stmt.OrderBy, p.errorRecovery.errors
  ensures parOK(p) && errOK(result)
  before TrimSpace direction-is-decided-by-the-upper-cased-word-only: tok__3.Type == TokenIdent ==> (dir == types.SortDesc <==> strings.ToUpper(tok__3.Value) == "DESC")
  before TrimSpace without-a-direction-word-the-key-ascends: tok__3.Type != TokenIdent ==> dir == types.SortAsc
  loop 1 invariant parOK(p) && orderLexer != nil && fresh(orderLexer) && lexOK(orderLexer) && orderLexer.input == p.input && orderLexer.errorRecovery != nil && fresh(orderLexer.errorRecovery) && orderPos == -1
  loop 1 decreases len(orderLexer.input) - orderLexer.pos
  loop 2 invariant parOK(p) && fieldLexer != nil && fresh(fieldLexer) && lexOK(fieldLexer) && fieldLexer.errorRecovery != nil && fresh(fieldLexer.errorRecovery)
  loop 2 decreases len(fieldLexer.input) - fieldLexer.pos
  loop 3 invariant parOK(p) && fieldLexer != nil && fresh(fieldLexer) && lexOK(fieldLexer) && fieldLexer.errorRecovery != nil && fresh(fieldLexer.errorRecovery) && dir == types.SortAsc && !done && !advance && fieldLexer.pos >= atloop(2, fieldLexer.pos)
  loop 3 decreases len(fieldLexer.input) - fieldLexer.pos
@*/

/*@
func (*Parser).handleLimitToken
  props C11 C06 C16 C17
  option safety
  requires parOK(p) && stmt != nil
  modifies stmt.Limit, heap(Lexer.ch), heap(Lexer.pos), heap(Lexer.readPos), heap(Lexer.line), heap(Lexer.column), p.errorRecovery.errors
  ensures parOK(p) && errOK(result) && p.lexer.pos >= old(p.lexer.pos)
  ensures limit-is-never-negative: stmt.Limit == old(stmt.Limit) || stmt.Limit >= 0

func (*Parser).parseLimit
  props C11 C06 C16 C17
  option safety
  requires parOK(p) && stmt != nil
  modifies stmt.Limit, p.errorRecovery.errors
  ensures parOK(p) && errOK(result)
  ensures limit-is-never-negative: stmt.Limit == old(stmt.Limit) || stmt.Limit >= 0
  loop 1 invariant parOK(p) && limitLexer != nil && fresh(limitLexer) && lexOK(limitLexer) && limitLexer.input == p.input && limitLexer.errorRecovery != nil && fresh(limitLexer.errorRecovery) && limitIndex == -1
  loop 1 decreases len(limitLexer.input) - limitLexer.pos
@*/

/*@
// registry lookups: read-only for the parser (GetExprBridge creates the bridge lazily on first use; that write is
// inventoried under C20 and does not touch parser state)
pure github.com/rulego/streamsql/functions.Get
pure github.com/rulego/streamsql/utils/cast.ToDurationE
pure time.ParseDuration
pure github.com/rulego/streamsql/functions.GetExprBridge
pure (*github.com/rulego/streamsql/functions.ExprBridge).IsExprLangFunction

func NewFunctionValidator
  props C11
  option safety
  ensures fresh(result) && result.errorRecovery == errorRecovery

// relies on the regexp library contract (index pairs of FindAllStringSubmatchIndex lie inside the text): assumed
extern (*FunctionValidator).extractFunctionCalls
  props C11
  option pure

extern (*FunctionValidator).isBuiltinFunction
  props C11
  option pure

func (*FunctionValidator).isKeyword
  props C11
  option safety
  ensures the-words-of-the-language-that-may-stand-before-a-parenthesis-are-never-taken-for-function-names: strings.ToUpper(word) == "NOT" || strings.ToUpper(word) == "AND" || strings.ToUpper(word) == "OR" || strings.ToUpper(word) == "IN" || strings.ToUpper(word) == "LIKE" || strings.ToUpper(word) == "IS" || strings.ToUpper(word) == "WHERE" || strings.ToUpper(word) == "HAVING" || strings.ToUpper(word) == "WHEN" || strings.ToUpper(word) == "THEN" || strings.ToUpper(word) == "ELSE" || strings.ToUpper(word) == "CASE" || strings.ToUpper(word) == "SELECT" || strings.ToUpper(word) == "BY" || strings.ToUpper(word) == "AS" || strings.ToUpper(word) == "BETWEEN" || strings.ToUpper(word) == "DISTINCT" ==> result
  loop 1 invariant forall(j, 0, $i, wordUpper != $s[j]) && wordUpper == strings.ToUpper(word) && $s == keywords

func (*FunctionValidator).ValidateExpression
  props C11
  option safety
  requires fv != nil && fv.errorRecovery != nil
  modifies fv.errorRecovery.errors
  ensures recorded-errors-stay-non-nil: old(errsOK(fv.errorRecovery)) ==> errsOK(fv.errorRecovery)
  loop 1 invariant old(errsOK(fv.errorRecovery)) ==> errsOK(fv.errorRecovery)

func (*Lexer).GetPosition
  props C11
  option safety
  requires l != nil
  ensures result0 == l.pos && result1 == l.line && result2 == l.column

// string scanner over the rebuilt WHERE text; verified separately below where its index arithmetic is in reach
extern extractWhereAnalyticCalls
  props C11 C14
  option pure

func (*Parser).parseWhere
  props C11 C06 C16 C17
  option safety
  requires parOK(p) && stmt != nil
  modifies stmt.Condition, heap(Lexer.ch), heap(Lexer.pos), heap(Lexer.readPos), heap(Lexer.line), heap(Lexer.column), p.errorRecovery.errors
  ensures parOK(p) && errOK(result) && p.lexer.pos >= old(p.lexer.pos)
  loop 1 invariant parOK(p) && p.lexer.pos >= old(p.lexer.pos) && 0 <= iterations && iterations <= maxIterations && maxIterations == 100
  loop 1 invariant word-operators-enter-the-where-text-in-their-canonical-spelling-whatever-the-letter-case-written: iterations > 0 ==> (tok.Type == TokenLIKE ==> lastIs(conditions, "LIKE")) && (tok.Type == TokenIS ==> lastIs(conditions, "IS")) && (tok.Type == TokenNULL ==> lastIs(conditions, "NULL")) && (tok.Type == TokenNOT ==> lastIs(conditions, "NOT")) && (tok.Type == TokenAND ==> lastIs(conditions, "&&")) && (tok.Type == TokenOR ==> lastIs(conditions, "||")) && (tok.Type == TokenEQ && tok.Value == "=" ==> lastIs(conditions, "=="))
  loop 1 decreases 101 - iterations

func (*Parser).parseHaving
  props C11 C06 C16 C17 C13 C07
  option safety
  requires parOK(p) && stmt != nil
  modifies stmt.Having, heap(Lexer.ch), heap(Lexer.pos), heap(Lexer.readPos), heap(Lexer.line), heap(Lexer.column), p.errorRecovery.errors
  ensures parOK(p) && errOK(result) && p.lexer.pos >= old(p.lexer.pos)
  loop 1 invariant parOK(p) && p.lexer.pos >= old(p.lexer.pos) && 0 <= iterations && iterations <= maxIterations && maxIterations == 100
  loop 1 invariant word-operators-enter-the-having-text-in-their-canonical-spelling-whatever-the-letter-case-written: iterations > 0 && !inOrderBy ==> (tok__2.Type == TokenLIKE ==> lastIs(conditions, "LIKE")) && (tok__2.Type == TokenIS ==> lastIs(conditions, "IS")) && (tok__2.Type == TokenNULL ==> lastIs(conditions, "NULL")) && (tok__2.Type == TokenNOT ==> lastIs(conditions, "NOT")) && (tok__2.Type == TokenAND ==> lastIs(conditions, "&&")) && (tok__2.Type == TokenOR ==> lastIs(conditions, "||")) && (tok__2.Type == TokenEQ && tok__2.Value == "=" ==> lastIs(conditions, "=="))
  loop 1 decreases 101 - iterations
@*/

/*@
pred lastIs(c, w) := len(c) > 0 && c[len(c) - 1] == w
pred lexMods() := true

func convertValue
  props C11 C06 C16 C17
  option safety
  observe ival := Atoi
  observe ierr := Atoi#1
  observe fval := ParseFloat
  observe ferr := ParseFloat#1
  before Atoi the-text-read-as-an-integer-is-the-value-written: $arg0 == s
  before ParseFloat the-text-read-as-a-number-is-the-value-written-at-full-precision: $arg0 == s && $arg1 == 64
  atreturn the-truth-words-are-booleans: (s == "true" ==> result == boxof(true, bool)) && (s == "false" ==> result == boxof(false, bool))
  atreturn an-integer-is-that-integer: s != "true" && s != "false" && $ierr == nil ==> result == boxof($ival, int)
  atreturn any-other-number-is-that-number: s != "true" && s != "false" && $ierr != nil && $ferr == nil ==> result == boxof($fval, float64)
  atreturn text-between-single-quotes-loses-them-anything-else-is-kept-as-written: s != "true" && s != "false" && $ierr != nil && $ferr != nil ==> result == boxof(ite(strings.HasPrefix(s, "'") && strings.HasSuffix(s, "'"), strings.Trim(s, "'"), s), string)

pred clauseWord(u) := u == "JOIN" || u == "INNER" || u == "LEFT" || u == "RIGHT" || u == "FULL" || u == "CROSS" || u == "ON" || u == "WHERE" || u == "GROUP" || u == "HAVING" || u == "ORDER" || u == "LIMIT" || u == "WITH" || u == "MATCH_RECOGNIZE"

func isClauseBoundaryIdent
  props C11 C06 C16 C17
  option safety
  option pure
  ensures a-clause-word-in-any-letter-case-is-never-taken-as-an-alias: result <==> clauseWord(strings.ToUpper(value))

func (*Parser).parseWindowFunction
  props C11 C06 C16 C17
  option safety
  requires parOK(p) && stmt != nil
  modifies stmt.Window, heap(Lexer.ch), heap(Lexer.pos), heap(Lexer.readPos), heap(Lexer.line), heap(Lexer.column), p.errorRecovery.errors
  ensures parOK(p) && errOK(result) && p.lexer.pos >= old(p.lexer.pos)
  loop 1 invariant parOK(p) && p.lexer.pos >= old(p.lexer.pos) && 0 <= iterations && iterations <= maxIterations && maxIterations == 100
  loop 1 decreases 101 - iterations

func (*Parser).parseGlobalWindow
  props C11 C06 C16 C17
  option safety
  requires parOK(p) && stmt != nil
  modifies stmt.Window, heap(Lexer.ch), heap(Lexer.pos), heap(Lexer.readPos), heap(Lexer.line), heap(Lexer.column), p.errorRecovery.errors
  ensures parOK(p) && errOK(result) && p.lexer.pos >= old(p.lexer.pos)
  loop 1 invariant parOK(p) && p.lexer.pos >= old(p.lexer.pos) && 0 <= iter && iter <= maxIter && maxIter == 100
  loop 1 decreases 101 - iter

func (*Parser).parseOverPartitionBy
  props C11 C06 C16 C17
  option safety
  requires parOK(p) && spec != nil
  modifies spec.PartitionBy, heap(Lexer.ch), heap(Lexer.pos), heap(Lexer.readPos), heap(Lexer.line), heap(Lexer.column), p.errorRecovery.errors
  ensures parOK(p) && errOK(result) && p.lexer.pos >= old(p.lexer.pos)
  loop 1 invariant parOK(p) && p.lexer.pos >= old(p.lexer.pos)
  loop 1 decreases len(p.lexer.input) - p.lexer.pos

func (*Parser).parseOverWhen
  props C11 C06 C16 C17
  option safety
  requires parOK(p)
  modifies heap(Lexer.ch), heap(Lexer.pos), heap(Lexer.readPos), heap(Lexer.line), heap(Lexer.column), p.errorRecovery.errors
  ensures parOK(p) && errOK(result1) && p.lexer.pos >= old(p.lexer.pos)
  loop 1 invariant parOK(p) && p.lexer.pos >= old(p.lexer.pos) && 0 <= i && $restores == 0
  loop 1 decreases 100 - i
  count restores := restore
  before restore the-token-that-ends-the-condition-a-closing-parenthesis-or-partition-is-handed-back-to-the-caller: $arg1 == snap && depth == 0 && (t.Type == TokenRParen || t.Type == TokenPARTITION)
  atreturn a-condition-that-was-read-ends-with-its-terminator-handed-back: result1 == nil ==> $restores == 1

func (*Parser).parseOverClause
  props C11 C06 C16 C17
  option safety
  requires parOK(p)
  modifies heap(types.OverSpec.PartitionBy), heap(types.OverSpec.When), heap(Lexer.ch), heap(Lexer.pos), heap(Lexer.readPos), heap(Lexer.line), heap(Lexer.column), p.errorRecovery.errors
  ensures parOK(p) && errOK(result1) && p.lexer.pos >= old(p.lexer.pos)
  ensures a-spec-or-an-error: result1 == nil ==> result0 != nil
  loop 1 invariant parOK(p) && p.lexer.pos >= old(p.lexer.pos) && spec != nil && fresh(spec)
  loop 1 decreases len(p.lexer.input) - p.lexer.pos

func (*Parser).parseFrom
  props C11 C06 C16 C17
  option safety
  requires parOK(p) && stmt != nil
  modifies stmt.Source, stmt.SourceAlias, heap(ParseError.Message), heap(ParseError.Context), heap(ParseError.Suggestions), heap(Lexer.ch), heap(Lexer.pos), heap(Lexer.readPos), heap(Lexer.line), heap(Lexer.column), p.errorRecovery.errors
  ensures parOK(p) && errOK(result) && p.lexer.pos >= old(p.lexer.pos)
@*/

/*@
func stripAliasPrefix
  props C11 C06 C16 C17
  option safety

func (*Parser).readJoinedFieldName
  props C11 C06 C16 C17
  option safety
  requires parOK(p)
  modifies heap(Lexer.ch), heap(Lexer.pos), heap(Lexer.readPos), heap(Lexer.line), heap(Lexer.column), p.errorRecovery.errors
  ensures parOK(p) && errOK(result1) && p.lexer.pos >= old(p.lexer.pos)
  ensures a-field-name-consumes-input: result1 == nil ==> p.lexer.pos > old(p.lexer.pos)
  loop 1 invariant parOK(p) && p.lexer.pos > old(p.lexer.pos)
  loop 1 decreases len(p.lexer.input) - p.lexer.pos

func (*Parser).parseJoin
  props C11 C16 C06 C17
  option safety
  requires parOK(p) && stmt != nil
  before stripAliasPrefix on-operands-are-stripped-of-the-stream-alias-and-of-this-joins-alias: $arg1 == stmt.SourceAlias && $arg2 == jc.Alias
  before stripAliasPrefix each-join-clause-has-the-type-written-in-that-very-clause: jc.JoinType == ite(strings.ToUpper(tok.Value) == "LEFT", "LEFT", "INNER") && jc.Table == tableTok.Value
  before stripAliasPrefix a-join-written-without-alias-is-addressed-by-the-tables-own-name: aliasTok.Type != TokenAS && !(aliasTok.Type == TokenIdent && !isClauseBoundaryIdent(aliasTok.Value)) ==> jc.Alias == jc.Table
  modifies stmt.JoinConfigs, heap(Lexer.ch), heap(Lexer.pos), heap(Lexer.readPos), heap(Lexer.line), heap(Lexer.column), p.errorRecovery.errors
  ensures parOK(p) && errOK(result) && p.lexer.pos >= old(p.lexer.pos)
  loop 1 invariant parOK(p) && p.lexer.pos >= old(p.lexer.pos)
  loop 1 decreases len(p.lexer.input) - p.lexer.pos
  loop 2 invariant parOK(p) && p.lexer.pos > atloop(1, p.lexer.pos)
  loop 2 invariant aliasTok.Type != TokenAS && !(aliasTok.Type == TokenIdent && !isClauseBoundaryIdent(aliasTok.Value)) ==> jc.Alias == jc.Table
  loop 2 invariant jc.JoinType == ite(strings.ToUpper(tok.Value) == "LEFT", "LEFT", "INNER") && jc.Table == tableTok.Value
  loop 2 decreases len(p.lexer.input) - p.lexer.pos

// splitting of an argument list text: a comma separates only at parenthesis depth 0, and nothing inside a quoted literal
// counts (qst2 / pdepth: quote state and parenthesis depth after n bytes; the scan skips literals whole)
recfunc sq2((s Str) (n Int)) Int := (ite (<= n 0) 0 (let ((q (@sq2 s (- n 1))) (c (gs.at s (- n 1)))) (ite (not (= q 0)) (ite (= c q) 0 q) (ite (or (= c 39) (= c 34)) c 0))))
recfunc sdepth((s Str) (n Int)) Int := (ite (<= n 0) 0 (let ((d (@sdepth s (- n 1))) (q (@sq2 s (- n 1))) (c (gs.at s (- n 1)))) (ite (not (= q 0)) d (ite (= c 40) (+ d 1) (ite (= c 41) (- d 1) d)))))

// ---- small text helpers of the AST -> config conversion
// pdp(s, a, n): parenthesis depth after the bytes s[a..n), starting from depth 1 (just inside an opening parenthesis)
recfunc pdp((s Str) (a Int) (n Int)) Int := (ite (<= n a) 1 (+ (@pdp s a (- n 1)) (ite (= (gs.at s (- n 1)) 40) 1 (ite (= (gs.at s (- n 1)) 41) (- 1) 0))))

func findMatchingParenInternal
  props C11 C07 C14 C01 C04
  option safety
  requires start >= 0
  ensures only-an-opening-parenthesis-has-a-partner: start >= len(s) || (start >= 0 && s[start] != 40) ==> result == -1
  ensures the-partner-is-the-first-closing-parenthesis-that-brings-the-depth-back: result != -1 ==> start < result && result < len(s) && s[result] == 41 && pdp(s, start + 1, result) == 1 && forall(j, start + 1, result, !(s[j] == 41 && pdp(s, start + 1, j) == 1))
  ensures minus-one-means-it-is-never-closed: result == -1 && 0 <= start && start < len(s) && s[start] == 40 ==> forall(j, start + 1, len(s), !(s[j] == 41 && pdp(s, start + 1, j) == 1))
  loop 1 invariant start + 1 <= i && i <= len(s) && count == pdp(s, start + 1, i) && count >= 1
  loop 1 invariant forall(j, start + 1, i, !(s[j] == 41 && pdp(s, start + 1, j) == 1))
  loop 1 decreases len(s) - i

pred identStart(c) := (c >= 97 && c <= 122) || (c >= 65 && c <= 90) || c == 95
pred identPart(c) := identStart(c) || (c >= 48 && c <= 57)

func isIdentifier
  props C11 C07 C14 C01 C04
  option safety
  option pure
  ensures a-letter-or-underscore-then-letters-digits-underscores: result <==> len(s) > 0 && identStart(s[0]) && forall(j, 1, len(s), identPart(s[j]))
  loop 1 invariant 1 <= i && i <= len(s) && forall(j, 1, i, identPart(s[j]))
  loop 1 decreases len(s) - i

func isLiteralToken
  props C11 C07 C14 C01 C04
  option safety
  option pure
  ensures keywords-quoted-strings-and-number-like-tokens: result <==> s == "true" || s == "false" || s == "nil" || (len(s) >= 2 && (s[0] == 34 || s[0] == 39) && s[len(s) - 1] == s[0]) || (len(s) > 0 && ((s[0] >= 48 && s[0] <= 57) || s[0] == 45 || s[0] == 43 || s[0] == 46))

func extractFunctionName
  props C11 C07 C14 C01 C04
  option safety
  option pure
  ensures no-parenthesis-no-function: strings.Index(expr, "(") == -1 ==> result == ""
  ensures the-name-is-the-text-before-the-first-parenthesis-or-nothing: strings.Index(expr, "(") >= 0 ==> result == "" || result == strings.TrimSpace(expr[:strings.Index(expr, "(")])

func splitCallArgs
  props C11 C07 C14 C01 C04
  option safety
  before splitTopLevelCommas the-argument-text-is-what-lies-between-the-first-opening-and-the-last-closing-parenthesis: $arg0 == expr[strings.IndexByte(expr, 40) + 1 : strings.LastIndexByte(expr, 41)]
  ensures no-parentheses-no-arguments: strings.IndexByte(expr, 40) < 0 || strings.LastIndexByte(expr, 41) <= strings.IndexByte(expr, 40) ==> len(result) == 0

// window parameters: a counting window takes a positive integer count; a session window a positive timeout; tumbling and
// sliding windows only positive durations, one per parameter written and in that order; a bare number counts seconds
pred isIntParam(v) := hasType(v, int) || hasType(v, int8) || hasType(v, int16) || hasType(v, int32) || hasType(v, int64) || hasType(v, uint) || hasType(v, uint8) || hasType(v, uint16) || hasType(v, uint32) || hasType(v, uint64)

func validateWindowParams$1
  props C11 C01 C04 C07 C14
  ensures a-duration-is-taken-as-it-is: hasType(val, time.Duration) ==> result1 == nil && result0 == intval(val)
  ensures a-bare-integer-counts-seconds: isIntParam(val) ==> result1 == nil && result0 == cast.ToInt(val) * 1000000000
  ensures a-text-is-parsed-as-a-duration: hasType(val, string) ==> result0 == cast.ToDurationE(val) && result1 == second(cast.ToDurationE(val))

func validateWindowParams
  props C11 C01 C04 C07 C14
  option assumed_frame
  ensures nothing-written-nothing-to-validate: len(params) == 0 ==> result1 == nil && len(result0) == 0
  ensures a-counting-window-gets-its-positive-count-first-and-the-rest-as-written: windowType == "counting" && len(params) > 0 && result1 == nil ==> len(result0) == len(params) && result0[0] == boxof(cast.ToIntE(params[0]), int) && cast.ToIntE(params[0]) > 0 && forall(j, 1, len(params), result0[j] == params[j])
  ensures a-session-window-gets-a-positive-timeout-first-and-the-rest-as-written: windowType == "session" && len(params) > 0 && result1 == nil ==> len(result0) == len(params) && hasType(result0[0], time.Duration) && intval(result0[0]) > 0 && forall(j, 1, len(params), result0[j] == params[j])
  ensures time-windows-get-one-positive-duration-per-parameter: windowType != "counting" && windowType != "session" && result1 == nil ==> len(result0) == len(params) && forall(j, 0, len(params), hasType(result0[j], time.Duration) && intval(result0[j]) > 0)
  loop 1 invariant len(validated) == $i && forall(j, 0, $i, hasType(validated[j], time.Duration) && intval(validated[j]) > 0)

// what needs the aggregation path: a registered aggregate, analytic or window function; a registered scalar function and
// an expr-lang builtin do not; an unknown call is conservatively treated as one
func isAggregationFunction
  props C11 C07 C14 C01 C04
  option pure
  option assumed_frame
  observe fn := Get
  observe known := Get#1
  observe kind := GetType
  observe builtin := IsExprLangFunction
  before Get the-function-looked-up-is-the-one-named-in-the-expression: $arg0 == extractFunctionName(expr)
  before IsExprLangFunction the-function-asked-about-is-the-one-named-in-the-expression: $arg1 == extractFunctionName(expr)
  atreturn no-function-name-no-aggregate: extractFunctionName(expr) == "" ==> !result
  atreturn a-registered-function-decides-by-its-type: extractFunctionName(expr) != "" && $known ==> (result <==> $kind == "aggregation" || $kind == "analytical" || $kind == "window")
  atreturn an-expr-lang-builtin-is-no-aggregate: extractFunctionName(expr) != "" && !$known && $builtin ==> !result

// the group keys handed on are the GROUP BY items in the order written, minus aggregate calls
func extractGroupFields
  props C04 C11 C07 C14 C01
  ensures every-key-kept-is-a-group-by-item-that-is-no-aggregate: forall(j, 0, len(result), exists(k, 0, len(s.GroupBy), result[j] == s.GroupBy[k] && !isAggregationFunction(s.GroupBy[k])))
  ensures no-plain-or-scalar-function-key-is-lost: forall(k, 0, len(s.GroupBy), !isAggregationFunction(s.GroupBy[k]) ==> exists(j, 0, len(result), result[j] == s.GroupBy[k]))
  loop 1 invariant forall(j, 0, len(fields), exists(k, 0, $i, fields[j] == s.GroupBy[k] && !isAggregationFunction(s.GroupBy[k])))
  loop 1 invariant forall(k, 0, $i, !isAggregationFunction(s.GroupBy[k]) ==> exists(j, 0, len(fields), fields[j] == s.GroupBy[k]))
  loop 1 invariant $s == s.GroupBy

// the alias map of the SELECT list: an aliased item maps its expression text to its alias, nothing else is in the map
func buildSelectAliasMap
  props C04 C11 C07 C14 C01
  ensures aliased-items-map-to-their-alias-and-nothing-else-is-there: fresh(result) && forallv(k, "", dom(result, k) ==> exists(j, 0, len(fields), fields[j].Alias != "" && fields[j].Expression == k && result[k] != ""))
  ensures every-aliased-item-is-in-the-map: forall(j, 0, len(fields), fields[j].Alias != "" ==> dom(result, fields[j].Expression))
  ensures an-expression-written-once-maps-to-its-own-alias: forall(j, 0, len(fields), fields[j].Alias != "" && forall(k, 0, len(fields), k != j ==> fields[k].Expression != fields[j].Expression) ==> result[fields[j].Expression] == fields[j].Alias)
  loop 1 invariant fresh(m) && forallv(k, "", dom(m, k) ==> exists(j, 0, $i, fields[j].Alias != "" && fields[j].Expression == k && m[k] != ""))
  loop 1 invariant forall(j, 0, $i, fields[j].Alias != "" ==> dom(m, fields[j].Expression))
  loop 1 invariant forall(j, 0, $i, fields[j].Alias != "" && forall(k, 0, $i, k != j ==> fields[k].Expression != fields[j].Expression) ==> m[fields[j].Expression] == fields[j].Alias)

func splitTopLevelCommas
  props C11 C14 C01 C04 C07
  option safety
  loop 1 invariant 0 <= last && last <= i && last <= len(s) && i <= len(s) + 1
  loop 1 invariant i <= len(s) ==> sq2(s, i) == 0
  loop 1 invariant i <= len(s) ==> depth == sdepth(s, i)
  loop 1 decreases len(s) + 1 - i
  loop 2 invariant 0 <= last && last <= i && last <= len(s) && i <= len(s) && sq2(s, i) == 34 && depth == sdepth(s, i)
  loop 2 decreases len(s) - i
  loop 3 invariant 0 <= last && last <= i && last <= len(s) && i <= len(s) && sq2(s, i) == 39 && depth == sdepth(s, i)
  loop 3 decreases len(s) - i

// OVER clause extraction from expression text (WHERE analytic calls): totality
func skipSpaces
  props C11 C14
  option safety
  requires i >= 0
  ensures result >= old(i) && (old(i) <= len(s) ==> result <= len(s))
  loop 1 invariant i >= old(i) && (old(i) <= len(s) ==> i <= len(s))
  loop 1 decreases len(s) - i

func parseOverFromString
  props C11 C14
  option safety
  requires pos >= 0 && pos <= len(s)
  modifies *
  loop 1 invariant after + 1 <= k && k <= len(s) && bodyStart == after + 1 && after < len(s)
  loop 1 decreases 2 * (len(s) - k) + ite(depth > 0, 1, 0)

func collapseSpacesOutsideQuotes
  props C11 C01 C04 C07 C14
  option safety
  loop 1 decreases len(s) - i

func (*Parser).parseGroupBy
  props C11 C06 C16 C17
  option safety
  requires parOK(p) && stmt != nil
  modifies heap(SelectStatement.GroupBy), heap(strings.Builder), stmt.Window, stmt.Limit, heap(types.OverSpec.PartitionBy), heap(types.OverSpec.When), heap(Lexer.ch), heap(Lexer.pos), heap(Lexer.readPos), heap(Lexer.line), heap(Lexer.column), p.errorRecovery.errors
  ensures parOK(p) && errOK(result) && p.lexer.pos >= old(p.lexer.pos)
  loop 1 invariant parOK(p) && p.lexer.pos >= old(p.lexer.pos) && stmt != nil && 0 <= iterations && iterations <= maxIterations && maxIterations == 100
  loop 1 decreases 101 - iterations
@*/

/*@
func isKeyword
  props C11 C06 C16 C17
  option safety
  option pure
  ensures exactly-the-reserved-words-in-capitals: result <==> (word == "SELECT" || word == "FROM" || word == "WHERE" || word == "GROUP" || word == "BY" || word == "ORDER" || word == "HAVING" || word == "LIMIT" || word == "WITH" || word == "AS" || word == "CASE" || word == "WHEN" || word == "THEN" || word == "ELSE" || word == "END" || word == "AND" || word == "OR" || word == "NOT" || word == "IN" || word == "IS" || word == "NULL" || word == "DISTINCT" || word == "COUNT" || word == "SUM" || word == "AVG" || word == "MIN" || word == "MAX" || word == "INNER" || word == "LEFT" || word == "RIGHT" || word == "FULL" || word == "OUTER" || word == "JOIN" || word == "ON" || word == "UNION" || word == "ALL" || word == "EXCEPT" || word == "INTERSECT" || word == "EXISTS" || word == "BETWEEN" || word == "LIKE" || word == "ASC" || word == "DESC")

func (*Parser).parseSelect
  props C11 C06 C16 C17
  option safety
  requires parOK(p) && stmt != nil
  modifies stmt.Distinct, stmt.SelectAll, stmt.Fields, heap(strings.Builder), heap(types.OverSpec.PartitionBy), heap(types.OverSpec.When), heap(Lexer.ch), heap(Lexer.pos), heap(Lexer.readPos), heap(Lexer.line), heap(Lexer.column), p.errorRecovery.errors
  ensures parOK(p) && errOK(result) && p.lexer.pos >= old(p.lexer.pos)
  loop 1 invariant parOK(p) && p.lexer.pos >= old(p.lexer.pos) && 0 <= fieldCount && fieldCount <= 300
  loop 1 decreases 301 - fieldCount
  loop 2 invariant parOK(p) && p.lexer.pos >= old(p.lexer.pos) && 0 <= exprPartCount && exprPartCount <= maxExprParts && maxExprParts == 100 && fieldCount <= 300
  loop 2 decreases 101 - exprPartCount
@*/

/*@
func (*Parser).parseWith
  props C11 C06 C16 C17
  option safety
  requires parOK(p) && stmt != nil
  modifies stmt.Window, heap(Lexer.ch), heap(Lexer.pos), heap(Lexer.readPos), heap(Lexer.line), heap(Lexer.column), p.errorRecovery.errors
  ensures parOK(p) && errOK(result) && p.lexer.pos >= old(p.lexer.pos)
  loop 1 invariant parOK(p) && p.lexer.pos >= old(p.lexer.pos) && 0 <= iterations && iterations <= maxIterations && maxIterations == 100
  loop 1 decreases 100 - iterations
@*/

/*@
// ---------------------------------------------------------------- MATCH_RECOGNIZE parser (C11)
func isMRClauseKeyword
  props C11 C15
  option safety
  option pure
  ensures the-clause-words-of-match-recognize-in-any-letter-case-and-no-other-word: result <==> (strings.ToUpper(v) == "PARTITION" || strings.ToUpper(v) == "ORDER" || strings.ToUpper(v) == "MEASURES" || strings.ToUpper(v) == "ONE" || strings.ToUpper(v) == "ALL" || strings.ToUpper(v) == "AFTER" || strings.ToUpper(v) == "PATTERN" || strings.ToUpper(v) == "DEFINE" || strings.ToUpper(v) == "SUBSET" || strings.ToUpper(v) == "WITHIN")

func stripBackticks
  props C11 C15
  option safety
  option pure
  ensures a-name-between-backticks-loses-exactly-that-pair-anything-else-is-kept: result == ite(len(s) >= 2 && s[0] == 96 && s[len(s) - 1] == 96, s[1:len(s) - 1], s)

func isMRIdentLike
  props C11 C15
  option safety
  option pure
  ensures an-identifier-like-token-has-text: result ==> len(t.Value) > 0

func isMRSymbolToken
  props C11 C15
  option safety
  option pure
  ensures result <==> (t.Type == TokenQuotedIdent || isMRIdentLike(t))

func isMRAtomStart
  props C11 C15
  option safety
  option pure
  ensures result <==> (t.Type == TokenLParen || t.Type == TokenLBrace || isMRIdentLike(t))

// a WITHIN bound written as number and unit: the number is scaled by the unit BEFORE it is cut to whole nanoseconds
// (1.5 SECONDS is 1 500 000 000 ns, 0.5 SECONDS is not 0); a word that is no unit is refused
func durationUnit
  props C11 C15
  option safety
  ensures nanoseconds-are-scaled-before-they-are-cut-to-whole-nanoseconds: (strings.ToUpper(unit) == "NS" || strings.ToUpper(unit) == "NANO" || strings.ToUpper(unit) == "NANOS" || strings.ToUpper(unit) == "NANOSECOND" || strings.ToUpper(unit) == "NANOSECONDS") && n >= 0.0 ==> result1 && float64(result0) == floor(n * 1.0)
  ensures microseconds-are-scaled-before-they-are-cut-to-whole-nanoseconds: (strings.ToUpper(unit) == "US" || strings.ToUpper(unit) == "MICRO" || strings.ToUpper(unit) == "MICROS" || strings.ToUpper(unit) == "MICROSECOND" || strings.ToUpper(unit) == "MICROSECONDS") && n >= 0.0 ==> result1 && float64(result0) == floor(n * 1000.0)
  ensures milliseconds-are-scaled-before-they-are-cut-to-whole-nanoseconds: (strings.ToUpper(unit) == "MS" || strings.ToUpper(unit) == "MILLI" || strings.ToUpper(unit) == "MILLIS" || strings.ToUpper(unit) == "MILLISECOND" || strings.ToUpper(unit) == "MILLISECONDS") && n >= 0.0 ==> result1 && float64(result0) == floor(n * 1000000.0)
  ensures seconds-are-scaled-before-they-are-cut-to-whole-nanoseconds: (strings.ToUpper(unit) == "S" || strings.ToUpper(unit) == "SEC" || strings.ToUpper(unit) == "SECS" || strings.ToUpper(unit) == "SECOND" || strings.ToUpper(unit) == "SECONDS") && n >= 0.0 ==> result1 && float64(result0) == floor(n * 1000000000.0)
  ensures minutes-are-scaled-before-they-are-cut-to-whole-nanoseconds: (strings.ToUpper(unit) == "M" || strings.ToUpper(unit) == "MIN" || strings.ToUpper(unit) == "MINS" || strings.ToUpper(unit) == "MINUTE" || strings.ToUpper(unit) == "MINUTES") && n >= 0.0 ==> result1 && float64(result0) == floor(n * 60000000000.0)
  ensures hours-are-scaled-before-they-are-cut-to-whole-nanoseconds: (strings.ToUpper(unit) == "H" || strings.ToUpper(unit) == "HR" || strings.ToUpper(unit) == "HRS" || strings.ToUpper(unit) == "HOUR" || strings.ToUpper(unit) == "HOURS") && n >= 0.0 ==> result1 && float64(result0) == floor(n * 3600000000000.0)
  ensures a-word-that-is-no-unit-is-refused: strings.ToUpper(unit) != "NS" && strings.ToUpper(unit) != "NANO" && strings.ToUpper(unit) != "NANOS" && strings.ToUpper(unit) != "NANOSECOND" && strings.ToUpper(unit) != "NANOSECONDS" && strings.ToUpper(unit) != "US" && strings.ToUpper(unit) != "MICRO" && strings.ToUpper(unit) != "MICROS" && strings.ToUpper(unit) != "MICROSECOND" && strings.ToUpper(unit) != "MICROSECONDS" && strings.ToUpper(unit) != "MS" && strings.ToUpper(unit) != "MILLI" && strings.ToUpper(unit) != "MILLIS" && strings.ToUpper(unit) != "MILLISECOND" && strings.ToUpper(unit) != "MILLISECONDS" && strings.ToUpper(unit) != "S" && strings.ToUpper(unit) != "SEC" && strings.ToUpper(unit) != "SECS" && strings.ToUpper(unit) != "SECOND" && strings.ToUpper(unit) != "SECONDS" && strings.ToUpper(unit) != "M" && strings.ToUpper(unit) != "MIN" && strings.ToUpper(unit) != "MINS" && strings.ToUpper(unit) != "MINUTE" && strings.ToUpper(unit) != "MINUTES" && strings.ToUpper(unit) != "H" && strings.ToUpper(unit) != "HR" && strings.ToUpper(unit) != "HRS" && strings.ToUpper(unit) != "HOUR" && strings.ToUpper(unit) != "HOURS" ==> !result1 && result0 == 0

func (*Parser).expectKeyword
  props C11 C15
  option safety
  requires parOK(p)
  modifies heap(Lexer.ch), heap(Lexer.pos), heap(Lexer.readPos), heap(Lexer.line), heap(Lexer.column), p.errorRecovery.errors
  ensures parOK(p) && errOK(result) && p.lexer.pos >= old(p.lexer.pos)

func (*Parser).readSymbol
  props C11 C15
  option safety
  requires parOK(p)
  modifies heap(Lexer.ch), heap(Lexer.pos), heap(Lexer.readPos), heap(Lexer.line), heap(Lexer.column), p.errorRecovery.errors
  ensures parOK(p) && errOK(result1) && p.lexer.pos >= old(p.lexer.pos)

func (*Parser).readIdentList
  props C11 C15
  option safety
  requires parOK(p)
  modifies heap(Lexer.ch), heap(Lexer.pos), heap(Lexer.readPos), heap(Lexer.line), heap(Lexer.column), p.errorRecovery.errors
  ensures parOK(p) && errOK(result1) && p.lexer.pos >= old(p.lexer.pos)
  loop 1 invariant parOK(p) && p.lexer.pos >= old(p.lexer.pos)
  loop 1 decreases len(p.lexer.input) - p.lexer.pos

func (*Parser).readMROrderBy
  props C11 C15
  option safety
  requires parOK(p)
  before restore@1 a-direction-word-is-consumed-only-another-token-is-put-back: !strings.EqualFold(dir.Value, "DESC") && !strings.EqualFold(dir.Value, "ASC")
  before save@2 each-sort-key-carries-the-column-and-the-direction-written: f.Expression == stripBackticks(t.Value) && f.Direction == ite(strings.EqualFold(dir.Value, "DESC"), types.SortDesc, types.SortAsc)
  modifies heap(Lexer.ch), heap(Lexer.pos), heap(Lexer.readPos), heap(Lexer.line), heap(Lexer.column), p.errorRecovery.errors
  ensures parOK(p) && errOK(result1) && p.lexer.pos >= old(p.lexer.pos)
  loop 1 invariant parOK(p) && p.lexer.pos >= old(p.lexer.pos)
  loop 1 decreases len(p.lexer.input) - p.lexer.pos

func (*Parser).expectRowPerMatch
  props C11 C15
  option safety
  requires parOK(p)
  modifies heap(Lexer.ch), heap(Lexer.pos), heap(Lexer.readPos), heap(Lexer.line), heap(Lexer.column), p.errorRecovery.errors
  ensures parOK(p) && errOK(result) && p.lexer.pos >= old(p.lexer.pos)
  loop 1 invariant parOK(p) && p.lexer.pos >= old(p.lexer.pos)

func (*Parser).readMRUntilAS
  props C11 C15
  option safety
  requires parOK(p)
  modifies heap(Lexer.ch), heap(Lexer.pos), heap(Lexer.readPos), heap(Lexer.line), heap(Lexer.column), p.errorRecovery.errors
  ensures parOK(p) && errOK(result1) && p.lexer.pos >= old(p.lexer.pos)
  loop 1 invariant parOK(p) && p.lexer.pos >= old(p.lexer.pos) && 0 <= i
  loop 1 decreases 1000 - i

func (*Parser).readMRExpr
  props C11 C15
  option safety
  requires parOK(p)
  before restore an-expression-ends-only-at-parenthesis-depth-zero-at-a-comma-a-closing-parenthesis-or-a-clause-keyword: depth == 0 && (t.Type == TokenRParen || t.Type == TokenComma || (t.Type == TokenIdent && isMRClauseKeyword(t.Value)))
  atreturn an-expression-that-ends-normally-ends-at-depth-zero: result1 == nil ==> depth == 0
  modifies heap(Lexer.ch), heap(Lexer.pos), heap(Lexer.readPos), heap(Lexer.line), heap(Lexer.column), p.errorRecovery.errors
  ensures parOK(p) && errOK(result1) && p.lexer.pos >= old(p.lexer.pos)
  loop 1 invariant parOK(p) && p.lexer.pos >= old(p.lexer.pos) && 0 <= i
  loop 1 decreases 1000 - i

func (*Parser).readMRMeasures
  props C11 C15
  option safety
  requires parOK(p)
  modifies heap(Lexer.ch), heap(Lexer.pos), heap(Lexer.readPos), heap(Lexer.line), heap(Lexer.column), p.errorRecovery.errors
  ensures parOK(p) && errOK(result1) && p.lexer.pos >= old(p.lexer.pos)
  loop 1 invariant parOK(p) && p.lexer.pos >= old(p.lexer.pos)
  loop 1 decreases len(p.lexer.input) - p.lexer.pos

func (*Parser).readMRDefines
  props C11 C15
  option safety
  requires parOK(p)
  modifies heap(Lexer.ch), heap(Lexer.pos), heap(Lexer.readPos), heap(Lexer.line), heap(Lexer.column), p.errorRecovery.errors
  ensures parOK(p) && errOK(result1) && p.lexer.pos >= old(p.lexer.pos)
  loop 1 invariant parOK(p) && p.lexer.pos >= old(p.lexer.pos)
  loop 1 decreases len(p.lexer.input) - p.lexer.pos

func (*Parser).readMRSubsets
  props C11 C15
  option safety
  requires parOK(p)
  modifies heap(Lexer.ch), heap(Lexer.pos), heap(Lexer.readPos), heap(Lexer.line), heap(Lexer.column), p.errorRecovery.errors
  ensures parOK(p) && errOK(result1) && p.lexer.pos >= old(p.lexer.pos)
  loop 1 invariant parOK(p) && p.lexer.pos >= old(p.lexer.pos)
  loop 1 decreases len(p.lexer.input) - p.lexer.pos

func (*Parser).readMRAfterMatchSkip
  props C11 C15
  option safety
  requires parOK(p) && spec != nil
  modifies spec.Skip, spec.SkipSymbol, heap(Lexer.ch), heap(Lexer.pos), heap(Lexer.readPos), heap(Lexer.line), heap(Lexer.column), p.errorRecovery.errors
  ensures parOK(p) && errOK(result) && p.lexer.pos >= old(p.lexer.pos)

func (*Parser).parseMRDuration
  props C11 C15
  option safety
  requires parOK(p)
  modifies heap(Lexer.ch), heap(Lexer.pos), heap(Lexer.readPos), heap(Lexer.line), heap(Lexer.column), p.errorRecovery.errors
  ensures parOK(p) && errOK(result1) && p.lexer.pos >= old(p.lexer.pos)

func (*Parser).consumeReluctant
  props C11 C15
  option safety
  requires parOK(p)
  modifies heap(Lexer.ch), heap(Lexer.pos), heap(Lexer.readPos), heap(Lexer.line), heap(Lexer.column), p.errorRecovery.errors
  ensures parOK(p) && p.lexer.pos >= old(p.lexer.pos)

func (*Parser).parseMRBounded
  props C11 C15
  option safety
  requires parOK(p)
  modifies heap(Lexer.ch), heap(Lexer.pos), heap(Lexer.readPos), heap(Lexer.line), heap(Lexer.column), p.errorRecovery.errors
  ensures parOK(p) && errOK(result1) && p.lexer.pos >= old(p.lexer.pos)

func (*Parser).tryMRQuantifier
  props C11 C15
  option safety
  requires parOK(p)
  observe reluctant := consumeReluctant
  observe bounded := parseMRBounded
  atreturn every-quantifier-is-greedy-unless-a-question-mark-follows-it: result1 ==> result0 != nil && (result0.Greedy <==> !$reluctant)
  atreturn the-bounds-are-those-of-the-quantifier-written: result1 ==> (t.Type == TokenQuestion ==> result0.Min == 0 && result0.Max == 1) && (t.Type == TokenAsterisk ==> result0.Min == 0 && result0.Max == -1) && (t.Type == TokenPlus ==> result0.Min == 1 && result0.Max == -1) && (t.Type == TokenLBrace ==> result0.Min == $bounded.Min && result0.Max == $bounded.Max)
  modifies heap(Lexer.ch), heap(Lexer.pos), heap(Lexer.readPos), heap(Lexer.line), heap(Lexer.column), p.errorRecovery.errors
  ensures parOK(p) && errOK(result2) && p.lexer.pos >= old(p.lexer.pos)

// the pattern grammar is mutually recursive; termination measure: 8 * (bytes left) + rank of the nonterminal
func (*Parser).parseMRAlternation
  props C11 C15
  ensures success-consumes-input: result1 == nil ==> p.lexer.pos > old(p.lexer.pos)
  option safety
  recgroup mrpattern
  decreases 8 * (len(p.lexer.input) - p.lexer.pos) + 3
  requires parOK(p)
  modifies heap(Lexer.ch), heap(Lexer.pos), heap(Lexer.readPos), heap(Lexer.line), heap(Lexer.column), p.errorRecovery.errors
  ensures parOK(p) && errOK(result1) && p.lexer.pos >= old(p.lexer.pos)
  ensures a-node-or-an-error: result1 == nil ==> result0 != nil
  loop 1 invariant parOK(p) && p.lexer.pos > old(p.lexer.pos) && forall(i, 0, len(children), children[i] != nil)
  loop 1 decreases len(p.lexer.input) - p.lexer.pos

func (*Parser).parseMRSequence
  props C11 C15
  ensures success-consumes-input: result1 == nil ==> p.lexer.pos > old(p.lexer.pos)
  option safety
  recgroup mrpattern
  decreases 8 * (len(p.lexer.input) - p.lexer.pos) + 2
  requires parOK(p)
  modifies heap(Lexer.ch), heap(Lexer.pos), heap(Lexer.readPos), heap(Lexer.line), heap(Lexer.column), p.errorRecovery.errors
  ensures parOK(p) && errOK(result1) && p.lexer.pos >= old(p.lexer.pos)
  ensures a-node-or-an-error: result1 == nil ==> result0 != nil
  loop 1 invariant parOK(p) && p.lexer.pos >= old(p.lexer.pos) && forall(i, 0, len(atoms), atoms[i] != nil) && (len(atoms) > 0 ==> p.lexer.pos > old(p.lexer.pos))
  loop 1 decreases len(p.lexer.input) - p.lexer.pos

func (*Parser).parseMRQuantified
  props C11 C15
  option safety
  recgroup mrpattern
  decreases 8 * (len(p.lexer.input) - p.lexer.pos) + 1
  requires parOK(p)
  modifies heap(Lexer.ch), heap(Lexer.pos), heap(Lexer.readPos), heap(Lexer.line), heap(Lexer.column), p.errorRecovery.errors
  ensures parOK(p) && errOK(result1) && p.lexer.pos >= old(p.lexer.pos)
  ensures a-node-or-an-error: result1 == nil ==> result0 != nil
  ensures a-quantified-atom-consumes-input: result1 == nil ==> p.lexer.pos > old(p.lexer.pos)

func (*Parser).parseMRAtom
  props C11 C15
  option safety
  recgroup mrpattern
  decreases 8 * (len(p.lexer.input) - p.lexer.pos)
  requires parOK(p)
  modifies heap(Lexer.ch), heap(Lexer.pos), heap(Lexer.readPos), heap(Lexer.line), heap(Lexer.column), p.errorRecovery.errors
  ensures parOK(p) && errOK(result1) && p.lexer.pos >= old(p.lexer.pos)
  ensures a-node-or-an-error: result1 == nil ==> result0 != nil
  ensures an-atom-consumes-input: result1 == nil ==> p.lexer.pos > old(p.lexer.pos)

func (*Parser).parseMRPermute
  props C11 C15
  ensures success-consumes-input: result1 == nil ==> p.lexer.pos > old(p.lexer.pos)
  option safety
  recgroup mrpattern
  decreases 8 * (len(p.lexer.input) - p.lexer.pos) + 4
  requires parOK(p)
  modifies heap(Lexer.ch), heap(Lexer.pos), heap(Lexer.readPos), heap(Lexer.line), heap(Lexer.column), p.errorRecovery.errors
  ensures parOK(p) && errOK(result1) && p.lexer.pos >= old(p.lexer.pos)
  ensures a-node-or-an-error: result1 == nil ==> result0 != nil
  loop 1 invariant parOK(p) && p.lexer.pos > old(p.lexer.pos)
  loop 1 decreases len(p.lexer.input) - p.lexer.pos

func (*Parser).parseMRPatternBody
  props C11 C15
  option safety
  requires parOK(p)
  modifies heap(Lexer.ch), heap(Lexer.pos), heap(Lexer.readPos), heap(Lexer.line), heap(Lexer.column), p.errorRecovery.errors
  ensures parOK(p) && errOK(result1) && p.lexer.pos >= old(p.lexer.pos)

func (*Parser).parseMatchRecognize
  props C11 C15
  option safety
  requires parOK(p) && stmt != nil
  modifies stmt.MatchRecognize, heap(Lexer.ch), heap(Lexer.pos), heap(Lexer.readPos), heap(Lexer.line), heap(Lexer.column), p.errorRecovery.errors
  ensures parOK(p) && errOK(result) && p.lexer.pos >= old(p.lexer.pos)
  loop 1 invariant parOK(p) && p.lexer.pos >= old(p.lexer.pos) && spec != nil && fresh(spec)
  loop 1 decreases len(p.lexer.input) - p.lexer.pos
@*/

/*@
// ---------------------------------------------------------------- entry points (C11)
func (*Parser).Parse
  props C11 C06 C16 C17
  option safety
  requires parOK(p)
  modifies *
  ensures parOK(p) && errOK(result1)
  ensures a-statement-or-an-error: result1 == nil ==> result0 != nil

// AST -> configuration: outside the functions under contract (regular-expression based helpers in ast.go); only
// its frame is assumed here. Its own totality is NOT proved.
func (*SelectStatement).ToStreamConfig
  props C11 C01 C04 C07 C14 C09 C10 C17
  option assumed_frame
  modifies *
  atreturn a-keyed-window-is-keyed-by-every-group-by-item-function-keys-included: result2 == nil && result0 != nil ==> forall(k, 0, len(s.GroupBy), !isAggregationFunction(s.GroupBy[k]) ==> exists(j, 0, len(result0.WindowConfig.GroupByKeys), result0.WindowConfig.GroupByKeys[j] == s.GroupBy[k]))
  atreturn the-aggregator-groups-by-every-group-by-item-function-keys-included: result2 == nil && result0 != nil ==> forall(k, 0, len(s.GroupBy), !isAggregationFunction(s.GroupBy[k]) ==> exists(j, 0, len(result0.GroupFields), result0.GroupFields[j] == s.GroupBy[k]))

extern groupKeyIsScalarFunctionExpr
  props C11 C01 C04 C07 C14
  option pure

func Parse
  props C11 C06 C16 C17
  option safety
  modifies *
@*/
