// govc:pkg .
// govc:bound HAVING: 5 aggregates x 2 columns x {>,<,>=} x 3 thresholds singly, and 40 AND/OR pairs of unselected aggregates (about 130 queries; every third one beside a compound SELECT item); SELECT items: 12 item shapes (incl. parenthesised literal operands) plus 9 items using one aggregate twice over swapped operands and 4 items with a two-argument scalar call inside an aggregate's argument, 2 parameterised plain aggregates, 4 items whose only arithmetic is a unary minus on the aggregate; every delivered row is also checked to hold the selected columns only x aggregates {sum,avg,min,max,count} x columns {v,w} x operators {+,-,*,/} x literals {2,0.5,32} on one fixed batch of 3 groups x 3 rows (about 700 queries)
// govc:also C11
// Bounded stand-in (NOT a proof): SELECT items that combine aggregate calls, literals and arithmetic, executed through
// the real engine (Execute / Emit / sync sink) against a relational oracle computed from the same rows. The classification
// and rewriting of such items (rsql/ast.go, aggregator/post_aggregation.go) is regular-expression based and outside the
// contracts.
package streamsql

import (
	"fmt"
	"math"
	"sync"
	"testing"
	"time"
)

var govcRows = []map[string]any{
	{"g": "a", "v": 1.0, "w": 10.0}, {"g": "b", "v": 5.0, "w": 1.0}, {"g": "a", "v": 3.0, "w": 2.0},
	{"g": "c", "v": 7.0, "w": 4.0}, {"g": "b", "v": 9.0, "w": 3.0}, {"g": "c", "v": 2.0, "w": 8.0},
	{"g": "a", "v": 4.0, "w": 6.0}, {"g": "b", "v": 2.0, "w": 7.0}, {"g": "c", "v": 6.0, "w": 5.0},
}

type govcVal func(rows []map[string]any) float64

func govcAgg(name, col string, scale float64) govcVal {
	return func(rows []map[string]any) float64 {
		var xs []float64
		for _, r := range rows {
			xs = append(xs, r[col].(float64)*scale)
		}
		switch name {
		case "SUM", "AVG":
			s := 0.0
			for _, x := range xs {
				s += x
			}
			if name == "AVG" {
				return s / float64(len(xs))
			}
			return s
		case "MIN":
			m := xs[0]
			for _, x := range xs {
				m = math.Min(m, x)
			}
			return m
		case "MAX":
			m := xs[0]
			for _, x := range xs {
				m = math.Max(m, x)
			}
			return m
		}
		return float64(len(xs))
	}
}

func govcBin(op string, a, b govcVal) govcVal {
	return func(rows []map[string]any) float64 {
		x, y := a(rows), b(rows)
		switch op {
		case "+":
			return x + y
		case "-":
			return x - y
		case "*":
			return x * y
		}
		return x / y
	}
}

func govcLit(x float64) govcVal { return func([]map[string]any) float64 { return x } }

type govcItem struct {
	sql string
	val govcVal
}

func govcItems() []govcItem {
	var out []govcItem
	aggs := []string{"SUM", "AVG", "MIN", "MAX", "COUNT"}
	ops := []string{"+", "-", "*", "/"}
	lits := []struct {
		s string
		x float64
	}{{"2", 2}, {"0.5", 0.5}, {"32", 32}}
	for _, a := range aggs {
		for _, op := range ops {
			for _, l := range lits {
				ac := fmt.Sprintf("%s(v)", a)
				av := govcAgg(a, "v", 1)
				out = append(out, govcItem{ac + " " + op + " " + l.s, govcBin(op, av, govcLit(l.x))})
				out = append(out, govcItem{l.s + " " + op + " " + ac, govcBin(op, govcLit(l.x), av)})
				out = append(out, govcItem{ac + " * 1.8 " + op + " " + l.s, govcBin(op, govcBin("*", av, govcLit(1.8)), govcLit(l.x))})
				out = append(out, govcItem{"(" + ac + " " + op + " " + l.s + ") * 2", govcBin("*", govcBin(op, av, govcLit(l.x)), govcLit(2))})
				// a parenthesised literal operand after / before the single aggregate
				out = append(out, govcItem{ac + " " + op + " (" + l.s + ")", govcBin(op, av, govcLit(l.x))})
				out = append(out, govcItem{ac + " " + op + " (1 + " + l.s + ")", govcBin(op, av, govcLit(1+l.x))})
				out = append(out, govcItem{"(" + l.s + " * 2) " + op + " " + ac, govcBin(op, govcLit(l.x*2), av)})
			}
			for _, b := range aggs {
				out = append(out, govcItem{fmt.Sprintf("%s(v) %s %s(w)", a, op, b), govcBin(op, govcAgg(a, "v", 1), govcAgg(b, "w", 1))})
			}
			if a != "COUNT" {
				out = append(out, govcItem{fmt.Sprintf("%s(v*2) %s MAX(w)", a, op), govcBin(op, govcAgg(a, "v", 2), govcAgg("MAX", "w", 1))})
				out = append(out, govcItem{fmt.Sprintf("MAX(w) %s %s(v*2)", op, a), govcBin(op, govcAgg("MAX", "w", 1), govcAgg(a, "v", 2))})
				out = append(out, govcItem{fmt.Sprintf("%s(v*2) %s 1", a, op), govcBin(op, govcAgg(a, "v", 2), govcLit(1))})
			}
		}
	}
	// the same aggregate twice over arguments that are permutations of each other (swapped operands, anagram columns)
	rowExpr := func(name string, f func(v, w float64) float64) govcVal {
		return func(rows []map[string]any) float64 {
			var xs []float64
			for _, r := range rows {
				xs = append(xs, f(r["v"].(float64), r["w"].(float64)))
			}
			switch name {
			case "MAX":
				m := xs[0]
				for _, x := range xs {
					m = math.Max(m, x)
				}
				return m
			case "MIN":
				m := xs[0]
				for _, x := range xs {
					m = math.Min(m, x)
				}
				return m
			}
			s := 0.0
			for _, x := range xs {
				s += x
			}
			return s
		}
	}
	for _, a := range []string{"SUM", "MAX", "MIN"} {
		out = append(out, govcItem{a + "(v-w) + " + a + "(w-v)", govcBin("+", rowExpr(a, func(v, w float64) float64 { return v - w }), rowExpr(a, func(v, w float64) float64 { return w - v }))})
		out = append(out, govcItem{a + "(v/w) - " + a + "(w/v)", govcBin("-", rowExpr(a, func(v, w float64) float64 { return v / w }), rowExpr(a, func(v, w float64) float64 { return w / v }))})
		out = append(out, govcItem{a + "(v-w) * 2 + " + a + "(w-v)", govcBin("+", govcBin("*", rowExpr(a, func(v, w float64) float64 { return v - w }), govcLit(2)), rowExpr(a, func(v, w float64) float64 { return w - v }))})
	}
	// a multi-argument scalar call inside the argument of an aggregate, at its start and not at its start
	pow2 := func(x float64) float64 { return x * x }
	out = append(out, govcItem{"SUM(v + POWER(w, 2)) + 1", govcBin("+", rowExpr("SUM", func(v, w float64) float64 { return v + pow2(w) }), govcLit(1))})
	out = append(out, govcItem{"SUM(POWER(w, 2) + v) + 1", govcBin("+", rowExpr("SUM", func(v, w float64) float64 { return pow2(w) + v }), govcLit(1))})
	out = append(out, govcItem{"MAX(v * POWER(w, 2)) - MIN(v)", govcBin("-", rowExpr("MAX", func(v, w float64) float64 { return v * pow2(w) }), govcAgg("MIN", "v", 1))})
	out = append(out, govcItem{"SUM(2 * POWER(w, 2)) / COUNT(v)", govcBin("/", rowExpr("SUM", func(v, w float64) float64 { return 2 * pow2(w) }), govcAgg("COUNT", "v", 1))})
	// a unary sign as the only arithmetic of a compound item
	neg := func(a govcVal) govcVal { return func(rows []map[string]any) float64 { return -a(rows) } }
	out = append(out, govcItem{"-SUM(v)", neg(govcAgg("SUM", "v", 1))})
	out = append(out, govcItem{"- SUM(v)", neg(govcAgg("SUM", "v", 1))})
	out = append(out, govcItem{"(-AVG(v))", neg(govcAgg("AVG", "v", 1))})
	out = append(out, govcItem{"-(MAX(w))", neg(govcAgg("MAX", "w", 1))})
	// plain aggregates that take a parameter (they get a helper column of their own, which must not be delivered)
	out = append(out, govcItem{"NTH_VALUE(v, 2)", func(rows []map[string]any) float64 { return rows[1]["v"].(float64) }})
	out = append(out, govcItem{"NTH_VALUE(w, 1) + 0", func(rows []map[string]any) float64 { return rows[0]["w"].(float64) }})
	return out
}

func govcRunQuery(sql string) (map[string]float64, error) {
	s := New()
	defer s.Stop()
	if err := s.Execute(sql); err != nil {
		return nil, err
	}
	var mu sync.Mutex
	got := map[string]float64{}
	bad := ""
	s.AddSyncSink(func(rs []map[string]any) {
		mu.Lock()
		defer mu.Unlock()
		for _, r := range rs {
			g, _ := r["g"].(string)
			// only the selected columns are delivered: no helper column of the aggregation machinery reaches the sink
			for k := range r {
				if k != "g" && k != "f" && k != "window_id" && k != "window_start" && k != "window_end" {
					bad = fmt.Sprintf("group %s: unselected column %q delivered (%v)", g, k, r)
				}
			}
			switch x := r["f"].(type) {
			case float64:
				got[g] = x
			case int:
				got[g] = float64(x)
			case int64:
				got[g] = float64(x)
			default:
				bad = fmt.Sprintf("group %s: f is %T %v", g, r["f"], r["f"])
			}
		}
	})
	for _, r := range govcRows {
		c := map[string]any{}
		for k, v := range r {
			c[k] = v
		}
		s.Emit(c)
	}
	deadline := time.Now().Add(15 * time.Second)
	for time.Now().Before(deadline) {
		mu.Lock()
		n := len(got)
		b := bad
		mu.Unlock()
		if n >= 3 || b != "" {
			break
		}
		time.Sleep(2 * time.Millisecond)
	}
	mu.Lock()
	defer mu.Unlock()
	if bad != "" {
		return nil, fmt.Errorf("%s", bad)
	}
	if len(got) < 3 {
		return nil, fmt.Errorf("only %d of 3 groups delivered", len(got))
	}
	return got, nil
}

func TestGovcBounded_compound_select_items(t *testing.T) {
	byGroup := map[string][]map[string]any{}
	for _, r := range govcRows {
		g := r["g"].(string)
		byGroup[g] = append(byGroup[g], r)
	}
	cases, fails := 0, 0
	for _, it := range govcItems() {
		cases++
		sql := "SELECT g, " + it.sql + " AS f FROM stream GROUP BY g, CountingWindow(3)"
		got, err := govcRunQuery(sql)
		detail := ""
		if err != nil {
			detail = err.Error()
		} else {
			for g, rows := range byGroup {
				want := it.val(rows)
				if math.Abs(got[g]-want) > 1e-9*math.Max(1, math.Abs(want)) {
					detail = fmt.Sprintf("group %s: got %v, relational value %v", g, got[g], want)
					break
				}
			}
		}
		if detail != "" {
			fails++
			if fails <= 12 {
				fmt.Printf("GOVC-BOUNDED-FAIL compound_select_items item=`%s`: %s\n", it.sql, detail)
			}
		}
	}
	fmt.Printf("GOVC-BOUNDED-DONE compound_select_items cases=%d failures=%d\n", cases, fails)
	if fails > 0 {
		t.Fail()
	}
}


// ---- HAVING over aggregates that are not in the SELECT list: exactly the groups whose predicate is true are
// delivered, and the hidden helper columns never appear in a delivered row.

type govcPred struct {
	sql string
	ok  func(rows []map[string]any) bool
}

func govcCmp(a, col, op string, k float64) govcPred {
	v := govcAgg(a, col, 1)
	return govcPred{fmt.Sprintf("%s(%s) %s %v", a, col, op, k), func(rows []map[string]any) bool {
		x := v(rows)
		switch op {
		case ">":
			return x > k
		case "<":
			return x < k
		}
		return x >= k
	}}
}

func govcRunHaving(sql string, want int) (map[string]map[string]any, error) {
	s := New()
	defer s.Stop()
	if err := s.Execute(sql); err != nil {
		return nil, err
	}
	var mu sync.Mutex
	got := map[string]map[string]any{}
	s.AddSyncSink(func(rs []map[string]any) {
		mu.Lock()
		defer mu.Unlock()
		for _, r := range rs {
			g, _ := r["g"].(string)
			got[g] = r
		}
	})
	for _, r := range govcRows {
		c := map[string]any{}
		for k, v := range r {
			c[k] = v
		}
		s.Emit(c)
	}
	deadline := time.Now().Add(15 * time.Second)
	for time.Now().Before(deadline) {
		mu.Lock()
		n := len(got)
		mu.Unlock()
		if n >= want {
			break
		}
		time.Sleep(2 * time.Millisecond)
	}
	time.Sleep(40 * time.Millisecond) // let a wrongly kept group arrive too
	mu.Lock()
	defer mu.Unlock()
	out := map[string]map[string]any{}
	for k, v := range got {
		out[k] = v
	}
	return out, nil
}

func TestGovcBounded_having_unselected_aggregates(t *testing.T) {
	byGroup := map[string][]map[string]any{}
	for _, r := range govcRows {
		g := r["g"].(string)
		byGroup[g] = append(byGroup[g], r)
	}
	var preds []govcPred
	for _, a := range []string{"SUM", "AVG", "MIN", "MAX", "COUNT"} {
		for _, col := range []string{"v", "w"} {
			for _, op := range []string{">", "<", ">="} {
				for _, k := range []float64{3, 6, 12} {
					preds = append(preds, govcCmp(a, col, op, k))
				}
			}
		}
	}
	single := len(preds)
	// pairs of unselected aggregates, including the SAME function over different columns
	pairs := [][2]govcPred{}
	for _, a := range []string{"MAX", "MIN", "SUM", "AVG"} {
		for _, k1 := range []float64{3, 6} {
			for _, k2 := range []float64{5, 9} {
				pairs = append(pairs, [2]govcPred{govcCmp(a, "v", ">", k1), govcCmp(a, "w", "<", k2)})
			}
		}
	}
	for _, pr := range pairs {
		a, b := pr[0], pr[1]
		preds = append(preds, govcPred{a.sql + " AND " + b.sql, func(rows []map[string]any) bool { return a.ok(rows) && b.ok(rows) }})
		preds = append(preds, govcPred{a.sql + " OR " + b.sql, func(rows []map[string]any) bool { return a.ok(rows) || b.ok(rows) }})
	}
	_ = single
	cases, fails := 0, 0
	for pi, pd := range preds {
		cases++
		want := map[string]bool{}
		for g, rows := range byGroup {
			if pd.ok(rows) {
				want[g] = true
			}
		}
		// every third predicate runs next to a compound SELECT item, whose post-aggregation step cleans up its own
		// placeholder columns and must leave the hidden HAVING columns alone
		sel := "COUNT(*) AS n"
		if pi%3 == 0 {
			sel = "SUM(v) * 2 + 1 AS n"
		}
		sql := "SELECT g, " + sel + " FROM stream GROUP BY g, CountingWindow(3) HAVING " + pd.sql
		got, err := govcRunHaving(sql, len(want))
		detail := ""
		if err != nil {
			detail = err.Error()
		} else {
			for g := range byGroup {
				_, has := got[g]
				if has != want[g] {
					detail = fmt.Sprintf("group %s delivered=%v, predicate is %v", g, has, want[g])
					break
				}
			}
			for g, r := range got {
				for k := range r {
					if k != "g" && k != "n" && k != "window_id" && k != "window_start" && k != "window_end" {
						detail = fmt.Sprintf("group %s: helper column %q leaked into the row", g, k)
					}
				}
			}
		}
		if detail != "" {
			fails++
			if fails <= 12 {
				fmt.Printf("GOVC-BOUNDED-FAIL having_unselected_aggregates having=`%s`: %s\n", pd.sql, detail)
			}
		}
	}
	fmt.Printf("GOVC-BOUNDED-DONE having_unselected_aggregates cases=%d failures=%d\n", cases, fails)
	if fails > 0 {
		t.Fail()
	}
}
