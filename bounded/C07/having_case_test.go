// govc:pkg .
// govc:bound 8 HAVING predicates built on CASE (over a selected alias, a selected aggregate, an unselected aggregate; as a bare truth value and compared with a literal) x one batch of 3 groups x 3 rows
// Bounded stand-in (NOT a proof) for HAVING predicates that contain a CASE expression (evaluated by the hand-written
// expression engine, chosen by applyHavingFilter): a group is kept exactly when the predicate is true for it.
package streamsql

import (
	"fmt"
	"sync"
	"testing"
	"time"
)

func TestGovcBounded_having_case(t *testing.T) {
	rows := []map[string]any{
		{"g": "a", "v": 1.0, "w": 10.0}, {"g": "b", "v": 5.0, "w": 1.0}, {"g": "a", "v": 3.0, "w": 2.0},
		{"g": "c", "v": 7.0, "w": 4.0}, {"g": "b", "v": 9.0, "w": 3.0}, {"g": "c", "v": 2.0, "w": 8.0},
		{"g": "a", "v": 4.0, "w": 6.0}, {"g": "b", "v": 2.0, "w": 7.0}, {"g": "c", "v": 6.0, "w": 5.0},
	}
	sum := func(g, col string) float64 {
		s := 0.0
		for _, r := range rows {
			if r["g"] == g {
				s += r[col].(float64)
			}
		}
		return s
	}
	max := func(g, col string) float64 {
		m := -1e9
		for _, r := range rows {
			if r["g"] == g && r[col].(float64) > m {
				m = r[col].(float64)
			}
		}
		return m
	}
	type pred struct {
		sql string
		ok  func(g string) bool
	}
	preds := []pred{
		{"CASE WHEN s > 10 THEN 1 ELSE 0 END", func(g string) bool { return sum(g, "v") > 10 }},
		{"CASE WHEN SUM(v) > 10 THEN 1 ELSE 0 END", func(g string) bool { return sum(g, "v") > 10 }},
		{"CASE WHEN MAX(w) > 7 THEN 1 ELSE 0 END", func(g string) bool { return max(g, "w") > 7 }},
		{"CASE WHEN s > 10 THEN 0 ELSE 1 END", func(g string) bool { return !(sum(g, "v") > 10) }},
		{"CASE WHEN s > 10 THEN 1 WHEN s < 9 THEN 1 ELSE 0 END", func(g string) bool { return sum(g, "v") > 10 || sum(g, "v") < 9 }},
		{"CASE WHEN s > 10 THEN 1 ELSE 0 END = 1", func(g string) bool { return sum(g, "v") > 10 }},
		{"CASE WHEN SUM(v) > 10 THEN 1 ELSE 0 END = 1", func(g string) bool { return sum(g, "v") > 10 }},
		{"CASE WHEN s > 10 THEN 1 ELSE 0 END > 0", func(g string) bool { return sum(g, "v") > 10 }},
	}
	cases, fails := 0, 0
	for _, pd := range preds {
		sql := "SELECT g, SUM(v) AS s FROM stream GROUP BY g, CountingWindow(3) HAVING " + pd.sql
		s := New()
		if err := s.Execute(sql); err != nil {
			cases++
			fails++
			fmt.Printf("GOVC-BOUNDED-FAIL having_case having=`%s`: execute: %v\n", pd.sql, err)
			s.Stop()
			continue
		}
		var mu sync.Mutex
		got := map[string]bool{}
		s.AddSyncSink(func(rs []map[string]any) {
			mu.Lock()
			defer mu.Unlock()
			for _, r := range rs {
				got[fmt.Sprint(r["g"])] = true
			}
		})
		for _, r := range rows {
			c := map[string]any{}
			for k, v := range r {
				c[k] = v
			}
			s.Emit(c)
		}
		// wait until every group the predicate keeps has arrived (at most 10 s), then a little longer for a group that
		// must not arrive
		wantN := 0
		for _, g := range []string{"a", "b", "c"} {
			if pd.ok(g) {
				wantN++
			}
		}
		deadline := time.Now().Add(10 * time.Second)
		for time.Now().Before(deadline) {
			mu.Lock()
			n := len(got)
			mu.Unlock()
			if n >= wantN {
				break
			}
			time.Sleep(5 * time.Millisecond)
		}
		time.Sleep(150 * time.Millisecond)
		s.Stop()
		mu.Lock()
		for _, g := range []string{"a", "b", "c"} {
			cases++
			if got[g] != pd.ok(g) {
				fails++
				fmt.Printf("GOVC-BOUNDED-FAIL having_case having=`%s`: group %s delivered=%v, predicate is %v\n", pd.sql, g, got[g], pd.ok(g))
			}
		}
		mu.Unlock()
	}
	fmt.Printf("GOVC-BOUNDED-DONE having_case cases=%d failures=%d\n", cases, fails)
	if fails > 0 {
		t.Fail()
	}
}
