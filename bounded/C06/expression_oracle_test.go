// govc:pkg .
// govc:bound 160 (thorough: 800) random arithmetic expressions of depth <= 3 over columns and literals (parenthesised exactly where precedence requires), each as a SELECT item (EmitSync) and inside a WHERE comparison, over 8 rows whose columns a,b,c are int or float64 (no NULL, no zero divisor); plus 120 (thorough: 600) expressions evaluated on rows in which one mentioned column is explicit nil or absent (result must be NULL)
// govc:also C13
// Bounded stand-in (NOT a proof) for what the kernels under contract do not reach: the choice between the internal
// evaluators and expr-lang. On NULL-free rows every path must give the value of ordinary arithmetic with SQL
// precedence; in WHERE the row is kept iff the comparison is true.
package streamsql

import (
	"os"
	"fmt"
	"math"
	"math/rand"
	"strings"
	"testing"
)

type govcExpr struct {
	sql string
	val func(r map[string]float64) float64
}

func govcGenExpr(rng *rand.Rand, depth int) govcExpr {
	if depth == 0 || rng.Intn(4) == 0 {
		if rng.Intn(3) == 0 {
			k := float64(1 + rng.Intn(9))
			return govcExpr{fmt.Sprintf("%v", k), func(map[string]float64) float64 { return k }}
		}
		col := []string{"a", "b", "c"}[rng.Intn(3)]
		return govcExpr{col, func(r map[string]float64) float64 { return r[col] }}
	}
	l, r := govcGenExpr(rng, depth-1), govcGenExpr(rng, depth-1)
	op := []string{"+", "-", "*", "/"}[rng.Intn(4)]
	prec := func(o string) int {
		if o == "*" || o == "/" {
			return 2
		}
		return 1
	}
	wrap := func(e govcExpr, parentOp string, right bool) string {
		// parenthesise exactly where precedence/associativity requires it, so that precedence is exercised
		top := topOp(e.sql)
		if top == "" {
			return e.sql
		}
		if prec(top) < prec(parentOp) || (right && prec(top) == prec(parentOp)) {
			return "(" + e.sql + ")"
		}
		return e.sql
	}
	sql := wrap(l, op, false) + " " + op + " " + wrap(r, op, true)
	return govcExpr{sql, func(row map[string]float64) float64 {
		x, y := l.val(row), r.val(row)
		switch op {
		case "+":
			return x + y
		case "-":
			return x - y
		case "*":
			return x * y
		}
		return x / y
	}}
}

// topOp returns the operator at parenthesis depth 0 with the lowest precedence ("" for an atom).
func topOp(s string) string {
	depth := 0
	best := ""
	for i := 0; i < len(s); i++ {
		switch s[i] {
		case '(':
			depth++
		case ')':
			depth--
		case '+', '-':
			if depth == 0 && i > 0 && s[i-1] == ' ' {
				return string(s[i])
			}
		case '*', '/':
			if depth == 0 && best == "" {
				best = string(s[i])
			}
		}
	}
	return best
}

func govcFinite(x float64) bool { return !math.IsNaN(x) && !math.IsInf(x, 0) && math.Abs(x) < 1e9 }

func TestGovcBounded_expression_values(t *testing.T) {
	rng := rand.New(rand.NewSource(13))
	rows := []map[string]any{
		{"a": 1, "b": 2, "c": 3}, {"a": 7, "b": 2.5, "c": 4}, {"a": 10.0, "b": 3, "c": 8.0}, {"a": 2, "b": 9, "c": 5},
		{"a": 6.5, "b": 1.5, "c": 2}, {"a": 3, "b": 3, "c": 3}, {"a": 12, "b": 5, "c": 7.25}, {"a": 4.0, "b": 8, "c": 1},
	}
	toF := func(r map[string]any) map[string]float64 {
		m := map[string]float64{}
		for k, v := range r {
			switch x := v.(type) {
			case int:
				m[k] = float64(x)
			case float64:
				m[k] = x
			}
		}
		return m
	}
	cases, fails := 0, 0
	seen := map[string]bool{}
	var exprs []govcExpr
	nexpr := 160
	if os.Getenv("GOVC_BOUND") == "thorough" {
		nexpr = 800
	}
	for len(exprs) < nexpr {
		e := govcGenExpr(rng, 3)
		if seen[e.sql] || !strings.ContainsAny(e.sql, "abc") || topOp(e.sql) == "" {
			continue
		}
		ok := true
		for _, r := range rows {
			if !govcFinite(e.val(toF(r))) {
				ok = false
			}
		}
		if ok {
			seen[e.sql] = true
			exprs = append(exprs, e)
		}
	}
	for _, e := range exprs {
		cases++
		// SELECT path
		s := New()
		sql := "SELECT " + e.sql + " AS f FROM stream"
		if err := s.Execute(sql); err != nil {
			fails++
			fmt.Printf("GOVC-BOUNDED-FAIL expression select=`%s`: execute: %v\n", e.sql, err)
			s.Stop()
			continue
		}
		detail := ""
		for _, r := range rows {
			c := map[string]any{}
			for k, v := range r {
				c[k] = v
			}
			res, err := s.EmitSync(c)
			want := e.val(toF(r))
			if err != nil || res == nil {
				detail = fmt.Sprintf("row %v: no result (%v)", r, err)
				break
			}
			got, ok := govcExprNum(res["f"])
			if !ok || math.Abs(got-want) > 1e-9*math.Max(1, math.Abs(want)) {
				detail = fmt.Sprintf("row %v: f=%v (%T), arithmetic gives %v", r, res["f"], res["f"], want)
				break
			}
		}
		s.Stop()
		if detail != "" {
			fails++
			fmt.Printf("GOVC-BOUNDED-FAIL expression select=`%s`: %s\n", e.sql, detail)
			continue
		}
		// WHERE path: keep the row iff expr > threshold
		thr := e.val(toF(rows[len(e.sql)%len(rows)]))
		s = New()
		wsql := fmt.Sprintf("SELECT a FROM stream WHERE %s > %v", e.sql, thr-0.25)
		if err := s.Execute(wsql); err != nil {
			fails++
			fmt.Printf("GOVC-BOUNDED-FAIL expression where=`%s`: execute: %v\n", e.sql, err)
			s.Stop()
			continue
		}
		for _, r := range rows {
			c := map[string]any{}
			for k, v := range r {
				c[k] = v
			}
			res, _ := s.EmitSync(c)
			want := e.val(toF(r)) > thr-0.25
			if (res != nil) != want {
				detail = fmt.Sprintf("row %v: kept=%v, %s = %v > %v is %v", r, res != nil, e.sql, e.val(toF(r)), thr-0.25, want)
				break
			}
		}
		s.Stop()
		if detail != "" {
			fails++
			fmt.Printf("GOVC-BOUNDED-FAIL expression where=`%s`: %s\n", e.sql, detail)
		}
	}
	fmt.Printf("GOVC-BOUNDED-DONE expression cases=%d failures=%d\n", cases, fails)
	if fails > 0 {
		t.Fail()
	}
}

func govcExprNum(v any) (float64, bool) {
	switch x := v.(type) {
	case int:
		return float64(x), true
	case int64:
		return float64(x), true
	case float64:
		return x, true
	}
	return 0, false
}

// NULL propagation: every arithmetic operator is strict, so an expression mentioning a column that is NULL (explicit nil) or
// absent in the row evaluates to NULL, whichever evaluator or fast path handles the item; on the complete row of the same
// shape it evaluates to the ordinary value (so the expression itself is known to be supported).
func TestGovcBounded_expression_null_operands(t *testing.T) {
	rng := rand.New(rand.NewSource(31))
	nexpr := 120
	if os.Getenv("GOVC_BOUND") == "thorough" {
		nexpr = 600
	}
	full := map[string]any{"a": 6, "b": 2.5, "c": 4}
	cases, fails := 0, 0
	seen := map[string]bool{}
	for len(seen) < nexpr {
		e := govcGenExpr(rng, 2+rng.Intn(2))
		if seen[e.sql] || !strings.ContainsAny(e.sql, "abc") || topOp(e.sql) == "" {
			continue
		}
		fv := e.val(map[string]float64{"a": 6, "b": 2.5, "c": 4})
		if !govcFinite(fv) {
			continue
		}
		seen[e.sql] = true
		cases++
		s := New()
		if err := s.Execute("SELECT " + e.sql + " AS f FROM stream"); err != nil {
			fails++
			fmt.Printf("GOVC-BOUNDED-FAIL expression_null_operands expr=`%s`: execute: %v\n", e.sql, err)
			s.Stop()
			continue
		}
		detail := ""
		for _, col := range []string{"a", "b", "c"} {
			if !strings.Contains(e.sql, col) {
				continue
			}
			for _, mode := range []string{"nil", "absent"} {
				row := map[string]any{}
				for k, v := range full {
					row[k] = v
				}
				if mode == "nil" {
					row[col] = nil
				} else {
					delete(row, col)
				}
				res, err := s.EmitSync(row)
				if err != nil {
					detail = fmt.Sprintf("column %s %s: EmitSync error %v", col, mode, err)
				} else if res == nil {
					detail = fmt.Sprintf("column %s %s: no result row", col, mode)
				} else if v, ok := res["f"]; ok && v != nil {
					detail = fmt.Sprintf("column %s %s: f = %v (%T), want NULL", col, mode, v, v)
				}
				if detail != "" {
					break
				}
			}
			if detail != "" {
				break
			}
		}
		s.Stop()
		if detail != "" {
			fails++
			fmt.Printf("GOVC-BOUNDED-FAIL expression_null_operands expr=`%s`: %s\n", e.sql, detail)
		}
	}
	fmt.Printf("GOVC-BOUNDED-DONE expression_null_operands cases=%d failures=%d\n", cases, fails)
	if fails > 0 {
		t.Fail()
	}
}
