// govc:pkg .
// govc:bound CountingWindow(N) for N in 1..3 (1..5 with GOVC_BOUND=thorough) x 3 random feeds (12 thorough) of 30 rows (80 thorough) over 6 keys: two strings (one holding '|'), two integers (one of them also written as text of the same spelling), and the NULL key written both as an explicit nil and as a missing column; the feed is paced (at most 4 results outstanding) so that no overflow drop occurs
// govc:also C04
// Bounded stand-in (NOT a proof) for the path from the counting window to the delivered result, which crosses the
// group aggregator (reflection based, outside the contracts): for every key the i-th delivered result aggregates exactly
// that key's rows (i-1)*N+1 .. i*N in arrival order, one result per delivery, nothing for the trailing remainder, no row
// twice; the two spellings of the NULL key are one key for the window and for the aggregator alike.
package streamsql

import (
	"fmt"
	"math/rand"
	"os"
	"sync"
	"testing"
	"time"
)

func govcCountKeyName(v any, present bool) string {
	if !present || v == nil {
		return "NULL"
	}
	// a text value and a number of the same spelling are one counting key: the window and the aggregator both spell them
	// alike (a key column of mixed types is outside the property's quantifier; what is checked for that pair is only that the
	// two layers agree, i.e. a batch of N rows still gives one result of N rows)
	return fmt.Sprintf("%v", v)
}

func TestGovcBounded_counting_batches(t *testing.T) {
	maxN, feeds, length := 3, 3, 30
	if os.Getenv("GOVC_BOUND") == "thorough" {
		maxN, feeds, length = 5, 12, 80
	}
	type kv struct {
		present bool
		v       any
	}
	pool := []kv{{true, "a"}, {true, "b|c"}, {true, 7}, {true, 8}, {true, nil}, {false, nil}, {true, "7"}}
	cases, fails := 0, 0
	for n := 1; n <= maxN; n++ {
		for f := 0; f < feeds; f++ {
			cases++
			rng := rand.New(rand.NewSource(int64(1000*n + f)))
			label := fmt.Sprintf("N=%d feed=%d", n, f)
			sql := fmt.Sprintf("SELECT k, COUNT(*) AS c, collect(id) AS ids, first_value(id) AS fst, last_value(id) AS lst FROM stream GROUP BY k, CountingWindow(%d)", n)
			s := New()
			if err := s.Execute(sql); err != nil {
				fails++
				fmt.Printf("GOVC-BOUNDED-FAIL counting_batches %s: execute: %v\n", label, err)
				s.Stop()
				continue
			}
			var mu sync.Mutex
			var deliveries [][]map[string]any
			s.AddSyncSink(func(rs []map[string]any) {
				mu.Lock()
				defer mu.Unlock()
				deliveries = append(deliveries, rs)
			})
			perKey := map[string][]int{}
			due := 0
			for id := 1; id <= length; id++ {
				k := pool[rng.Intn(len(pool))]
				row := map[string]any{"id": id}
				if k.present {
					row["k"] = k.v
				}
				name := govcCountKeyName(k.v, k.present)
				perKey[name] = append(perKey[name], id)
				s.Emit(row)
				if len(perKey[name])%n == 0 {
					due++
				}
				// pace the feed: at most 4 results outstanding, so that the window's output buffer never overflows
				// (overflow drops are the business of C19, not of this property)
				for pace := time.Now().Add(15 * time.Second); time.Now().Before(pace); {
					mu.Lock()
					got := 0
					for _, d := range deliveries {
						got += len(d)
					}
					mu.Unlock()
					if got+4 >= due {
						break
					}
					time.Sleep(200 * time.Microsecond)
				}
			}
			want := 0
			for _, ids := range perKey {
				want += len(ids) / n
			}
			deadline := time.Now().Add(15 * time.Second)
			for time.Now().Before(deadline) {
				mu.Lock()
				got := 0
				for _, d := range deliveries {
					got += len(d)
				}
				mu.Unlock()
				if got >= want {
					break
				}
				time.Sleep(time.Millisecond)
			}
			time.Sleep(20 * time.Millisecond)
			mu.Lock()
			ds := append([][]map[string]any(nil), deliveries...)
			mu.Unlock()
			s.Stop()
			detail := ""
			seen := map[string]int{}
			for di, d := range ds {
				if len(d) != 1 {
					detail = fmt.Sprintf("delivery %d carries %d results, a counting batch belongs to one key", di, len(d))
					break
				}
				r := d[0]
				kval, has := r["k"]
				name := govcCountKeyName(kval, has)
				i := seen[name]
				seen[name]++
				all := perKey[name]
				if (i+1)*n > len(all) {
					detail = fmt.Sprintf("key %s: result %d delivered but the key has only %d rows", name, i+1, len(all))
					break
				}
				exp := all[i*n : (i+1)*n]
				if fmt.Sprint(r["c"]) != fmt.Sprint(n) {
					detail = fmt.Sprintf("key %s result %d: count %v, want %d (row %v)", name, i+1, r["c"], n, r)
					break
				}
				ids, _ := r["ids"].([]any)
				if fmt.Sprint(ids) != fmt.Sprint(exp) {
					detail = fmt.Sprintf("key %s result %d: rows %v, want %v", name, i+1, r["ids"], exp)
					break
				}
				if fmt.Sprint(r["fst"]) != fmt.Sprint(exp[0]) || fmt.Sprint(r["lst"]) != fmt.Sprint(exp[n-1]) {
					detail = fmt.Sprintf("key %s result %d: first/last %v/%v, want %d/%d", name, i+1, r["fst"], r["lst"], exp[0], exp[n-1])
					break
				}
			}
			if detail == "" {
				for name, all := range perKey {
					if seen[name] != len(all)/n {
						detail = fmt.Sprintf("key %s: %d results delivered, %d full batches of %d rows were fed", name, seen[name], len(all)/n, len(all))
						break
					}
				}
			}
			if detail != "" {
				fails++
				fmt.Printf("GOVC-BOUNDED-FAIL counting_batches %s: %s\n", label, detail)
			}
		}
	}
	fmt.Printf("GOVC-BOUNDED-DONE counting_batches cases=%d failures=%d\n", cases, fails)
	if fails > 0 {
		t.Fail()
	}
}
