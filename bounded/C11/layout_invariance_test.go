// govc:pkg .
// govc:bound 300 statements (2000 with GOVC_BOUND=thorough) generated from the documented grammar (select items with aliases, arithmetic, function calls, CASE, string literals holding clause keywords; WHERE; GROUP BY with a window; HAVING; ORDER BY; LIMIT; WITH) x 4 re-layouts each (random keyword case, random runs of spaces, tabs and line breaks between tokens, optional blanks around punctuation)
// govc:also C06 C16 C17
// Bounded stand-in (NOT a proof) for the faithfulness half of the property, which the totality contracts do not state:
// the parse of a re-laid-out statement has the same structure as the parse of its canonical spelling (upper-case keywords,
// single blanks), the canonical parse holds exactly the clauses that were written (WHERE / HAVING text, GROUP BY columns,
// ORDER BY keys, LIMIT, DISTINCT, number of select items, source), and for statements without a window both spellings
// produce the same rows on a fixed feed.
package streamsql

import (
	"fmt"
	"math/rand"
	"os"
	"reflect"
	"strings"
	"testing"

	"github.com/rulego/streamsql/rsql"
)

type govcTok struct {
	s  string
	kw bool // keyword: its case may vary
}

func govcKW(words ...string) []govcTok {
	var ts []govcTok
	for _, w := range words {
		ts = append(ts, govcTok{w, true})
	}
	return ts
}

func govcLex(src string) []govcTok {
	// src is a canonical fragment: tokens separated by single blanks, keywords in upper case written with a leading '~'
	var ts []govcTok
	for _, f := range strings.Split(src, " ") {
		if strings.HasPrefix(f, "~") {
			ts = append(ts, govcTok{f[1:], true})
		} else {
			ts = append(ts, govcTok{strings.ReplaceAll(f, "\x00", " "), false})
		}
	}
	return ts
}

// string literals are written with NUL for their inner blanks so that Split keeps them whole
var govcItems = []string{
	"id", "name", "temp", "id ~AS k", "name ~AS n", "upper ( name ) ~AS u", "temp + 1 ~AS t1", "temp * 2 ~AS dbl",
	"~CASE ~WHEN temp > 20 ~THEN 1 ~ELSE 0 ~END ~AS flag", "'say\x00LIMIT\x005\x00now' ~AS s", "'x\x00FROM\x00y\x00WHERE\x00z' ~AS w",
	"concat ( name , '-ORDER\x00BY-' ) ~AS c2", "temp - 1 ~AS m1", "~CASE ~WHEN name == 'a' ~THEN 10 ~ELSE 20 ~END ~AS pick",
}

var govcPreds = []string{
	"temp > 20", "temp > 20 ~AND name == 'a'", "name ~LIKE 'a%'", "temp ~IS ~NOT ~NULL", "name == 'ORDER\x00BY\x00x'",
	"( temp > 10 ~OR temp < 5 ) ~AND id >= 1", "name != 'LIMIT\x003'", "~NOT ( temp > 30 )",
}

func govcRender(ts []govcTok, rng *rand.Rand, canonical bool) string {
	var b strings.Builder
	for i, t := range ts {
		if i > 0 {
			prev := ts[i-1]
			// places where the canonical spelling has no blank: after "(", before ")" and ",", and between a function
			// name and its "("
			call := t.s == "(" && !prev.kw && isGovcWord(prev.s)
			tight := prev.s == "(" || t.s == ")" || t.s == "," || call
			switch {
			case canonical:
				if !tight {
					b.WriteString(" ")
				}
			case (tight || prev.s == "," || prev.s == ")" && t.s == ",") && rng.Intn(2) == 0:
				// no blank around punctuation
			default:
				b.WriteString([]string{" ", "  ", "\n", "\t", " \n  ", "\r\n"}[rng.Intn(6)])
			}
		}
		s := t.s
		if t.kw && !canonical {
			switch rng.Intn(3) {
			case 0:
				s = strings.ToLower(s)
			case 1:
				s = strings.ToUpper(s[:1]) + strings.ToLower(s[1:])
			}
		}
		b.WriteString(s)
	}
	return b.String()
}

func isGovcWord(s string) bool {
	if s == "" {
		return false
	}
	c := s[len(s)-1]
	return c == '_' || c >= 'a' && c <= 'z' || c >= 'A' && c <= 'Z' || c >= '0' && c <= '9'
}

// govcNormText: blanks collapsed and keyword case folded outside string literals, for the expression texts the parser
// keeps verbatim (their spelling legitimately follows the input).
func govcNormText(s string) string {
	kws := map[string]bool{"AND": true, "OR": true, "NOT": true, "LIKE": true, "IS": true, "NULL": true, "CASE": true, "WHEN": true, "THEN": true, "ELSE": true, "END": true, "AS": true}
	var out []string
	var cur strings.Builder
	flush := func() {
		if cur.Len() > 0 {
			w := cur.String()
			if kws[strings.ToUpper(w)] {
				w = strings.ToUpper(w)
			}
			out = append(out, w)
			cur.Reset()
		}
	}
	for i := 0; i < len(s); i++ {
		c := s[i]
		switch {
		case c == '\'' || c == '"':
			flush()
			j := i + 1
			for j < len(s) && s[j] != c {
				j++
			}
			if j < len(s) {
				j++
			}
			out = append(out, s[i:j])
			i = j - 1
		case c == ' ' || c == '\t' || c == '\n' || c == '\r':
			flush()
		case c == '(' || c == ')' || c == ',':
			flush()
			out = append(out, string(c))
		default:
			cur.WriteByte(c)
		}
	}
	flush()
	return strings.Join(out, " ")
}

func govcShape(st *rsql.SelectStatement) string {
	var b strings.Builder
	fmt.Fprintf(&b, "distinct=%v all=%v source=%q alias=%q limit=%d\n", st.Distinct, st.SelectAll, st.Source, st.SourceAlias, st.Limit)
	for _, f := range st.Fields {
		fmt.Fprintf(&b, "field expr=%q alias=%q agg=%q over=%v\n", govcNormText(f.Expression), f.Alias, f.AggType, f.OverSpec != nil)
	}
	fmt.Fprintf(&b, "where=%q\nhaving=%q\ngroupby=%q\norderby=%v\n", govcNormText(st.Condition), govcNormText(st.Having), st.GroupBy, st.OrderBy)
	fmt.Fprintf(&b, "window type=%q params=%v ts=%q unit=%v trigger=%q\n", st.Window.Type, st.Window.Params, st.Window.TsProp, st.Window.TimeUnit, govcNormText(st.Window.TriggerCondition))
	return b.String()
}

func TestGovcBounded_layout_invariance(t *testing.T) {
	n := 300
	if os.Getenv("GOVC_BOUND") == "thorough" {
		n = 2000
	}
	rng := rand.New(rand.NewSource(11))
	feed := []map[string]any{
		{"id": 1, "name": "a", "temp": 25.0}, {"id": 2, "name": "ab", "temp": 5.0}, {"id": 3, "name": "b", "temp": 40.0},
		{"id": 4, "name": "ORDER BY x", "temp": 21.0}, {"id": 5, "name": "a", "temp": nil}, {"id": 6, "name": "LIMIT 3", "temp": 12.0},
	}
	cases, fails := 0, 0
	for it := 0; it < n; it++ {
		windowed := rng.Intn(3) == 0
		var ts []govcTok
		// what was written, clause by clause (the expectation for the canonical parse)
		wantWhere, wantHaving, wantLimit, wantDistinct, wantFields := "", "", 0, false, 0
		var wantGroup, wantOrder []string
		clauseText := func(toks []govcTok) string {
			var ws []string
			for _, t := range toks {
				switch {
				case t.kw && t.s == "AND":
					ws = append(ws, "&&")
				case t.kw && t.s == "OR":
					ws = append(ws, "||")
				default:
					ws = append(ws, t.s)
				}
			}
			return govcNormText(strings.Join(ws, " "))
		}
		ts = append(ts, govcKW("SELECT")...)
		if !windowed && rng.Intn(6) == 0 {
			ts = append(ts, govcKW("DISTINCT")...)
			wantDistinct = true
		}
		if windowed {
			ts = append(ts, govcLex("name , COUNT ( * ) ~AS c , AVG ( temp ) ~AS a")...)
			wantFields = 3
			if rng.Intn(2) == 0 {
				ts = append(ts, govcLex(", MAX ( temp ) - MIN ( temp ) ~AS spread")...)
				wantFields = 4
			}
		} else {
			k := 1 + rng.Intn(4)
			wantFields = k
			for i, p := range rng.Perm(len(govcItems))[:k] {
				if i > 0 {
					ts = append(ts, govcTok{",", false})
				}
				ts = append(ts, govcLex(govcItems[p])...)
			}
		}
		ts = append(ts, govcLex("~FROM stream")...)
		if rng.Intn(2) == 0 {
			ts = append(ts, govcKW("WHERE")...)
			pred := govcLex(govcPreds[rng.Intn(len(govcPreds))])
			ts = append(ts, pred...)
			wantWhere = clauseText(pred)
		}
		havingOnly := !windowed && rng.Intn(8) == 0 // WHERE/FROM directly followed by HAVING (no GROUP BY): structure only
		if havingOnly {
			h := govcLex("id > 1 ~OR temp < 100")
			ts = append(ts, govcKW("HAVING")...)
			ts = append(ts, h...)
			wantHaving = clauseText(h)
		}
		if windowed {
			ts = append(ts, govcLex("~GROUP ~BY name , TumblingWindow ( '1s' )")...)
			wantGroup = []string{"name"}
			if rng.Intn(2) == 0 {
				h := govcLex("c > 1 ~AND a < 100")
				ts = append(ts, govcKW("HAVING")...)
				ts = append(ts, h...)
				wantHaving = clauseText(h)
			}
			// WITH directly follows GROUP BY / HAVING, as in every documented example
			if rng.Intn(2) == 0 {
				ts = append(ts, govcLex("~WITH ( TIMESTAMP = 'ts' , TIMEUNIT = 'ms' )")...)
			}
			if rng.Intn(2) == 0 {
				ts = append(ts, govcLex("~ORDER ~BY a ~DESC , name")...)
				wantOrder = []string{"a DESC", "name ASC"}
			}
		}
		if rng.Intn(3) == 0 {
			wantLimit = 1 + rng.Intn(4)
			ts = append(ts, govcLex(fmt.Sprintf("~LIMIT %d", wantLimit))...)
		}
		canon := govcRender(ts, rng, true)
		pc := rsql.NewParser(canon)
		sc, errc := pc.Parse()
		if errc == nil {
			// the canonical parse against what was written
			cases++
			var gotOrder []string
			for _, o := range sc.OrderBy {
				gotOrder = append(gotOrder, o.Expression+" "+string(o.Direction))
			}
			written := fmt.Sprintf("where=%q having=%q group=%q order=%q limit=%d distinct=%v fields=%d source=stream", wantWhere, wantHaving, wantGroup, wantOrder, wantLimit, wantDistinct, wantFields)
			parsed := fmt.Sprintf("where=%q having=%q group=%q order=%q limit=%d distinct=%v fields=%d source=%s", govcNormText(sc.Condition), govcNormText(sc.Having), sc.GroupBy, gotOrder, sc.Limit, sc.Distinct, len(sc.Fields), sc.Source)
			if written != parsed {
				fails++
				fmt.Printf("GOVC-BOUNDED-FAIL layout_invariance canonical=`%s`: clauses written %s, parsed %s\n", canon, written, parsed)
			}
		}
		for v := 0; v < 4; v++ {
			cases++
			variant := govcRender(ts, rng, false)
			pv := rsql.NewParser(variant)
			sv, errv := pv.Parse()
			detail := ""
			switch {
			case (errc == nil) != (errv == nil):
				detail = fmt.Sprintf("canonical parse error=%v, re-laid-out parse error=%v", errc, errv)
			case errc == nil && govcShape(sc) != govcShape(sv):
				detail = fmt.Sprintf("structure differs:\n--- canonical\n%s--- re-laid-out\n%s", govcShape(sc), govcShape(sv))
			case errc == nil && !windowed && !havingOnly:
				rc, e1 := govcRunRows(canon, feed)
				rv, e2 := govcRunRows(variant, feed)
				if (e1 == nil) != (e2 == nil) || !reflect.DeepEqual(rc, rv) {
					detail = fmt.Sprintf("results differ: canonical %v (err %v), re-laid-out %v (err %v)", rc, e1, rv, e2)
				}
			}
			if detail != "" {
				fails++
				fmt.Printf("GOVC-BOUNDED-FAIL layout_invariance canonical=`%s` variant=%q: %s\n", canon, variant, strings.ReplaceAll(detail, "\n", " | "))
			}
		}
	}
	fmt.Printf("GOVC-BOUNDED-DONE layout_invariance cases=%d failures=%d\n", cases, fails)
	if fails > 0 {
		t.Fail()
	}
}

func govcRunRows(sql string, feed []map[string]any) ([]string, error) {
	s := New()
	defer s.Stop()
	if err := s.Execute(sql); err != nil {
		return nil, err
	}
	var out []string
	for _, r := range feed {
		c := map[string]any{}
		for k, v := range r {
			c[k] = v
		}
		res, err := s.EmitSync(c)
		if err != nil {
			out = append(out, "error")
			continue
		}
		out = append(out, fmt.Sprint(res))
	}
	return out, nil
}
