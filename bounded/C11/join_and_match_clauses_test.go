// govc:pkg rsql
// govc:bound 400 statements (3000 with GOVC_BOUND=thorough): 1..3 JOIN clauses (INNER JOIN / JOIN / LEFT JOIN / LEFT OUTER JOIN in random letter case, alias written with AS, bare or not at all, 1..2 ON pairs in either operand order) and MATCH_RECOGNIZE clauses (PARTITION BY, ORDER BY with ASC / DESC / no direction, 1..3 measures, ONE ROW / ALL ROWS PER MATCH, the four AFTER MATCH SKIP forms, patterns over quantifiers ? * + {n} {n,} {n,m} each greedy or reluctant, SUBSET in one clause or two, WITHIN, DEFINE conditions using keyword-like column names inside calls)
// govc:also C15 C16
// Bounded stand-in (NOT a proof) for "faithful to the clauses written" where the contracts only state safety: what the parser
// hands on for JOIN and MATCH_RECOGNIZE is compared, field by field, with what the generator wrote.
package rsql

import (
	"fmt"
	"math/rand"
	"os"
	"strings"
	"testing"

	"github.com/rulego/streamsql/types"
)

func govcCase(rng *rand.Rand, w string) string {
	switch rng.Intn(3) {
	case 0:
		return strings.ToLower(w)
	case 1:
		return strings.ToUpper(w[:1]) + strings.ToLower(w[1:])
	}
	return w
}

func govcWords(rng *rand.Rand, ws ...string) string {
	var out []string
	for _, w := range ws {
		out = append(out, govcCase(rng, w))
	}
	return strings.Join(out, " ")
}

func TestGovcBounded_join_clauses(t *testing.T) {
	n := 400
	if os.Getenv("GOVC_BOUND") == "thorough" {
		n = 3000
	}
	rng := rand.New(rand.NewSource(1611))
	tables := []string{"meta", "dim", "owners"}
	cases, fails := 0, 0
	for it := 0; it < n; it++ {
		cases++
		srcAlias := ""
		sql := govcWords(rng, "SELECT") + " * " + govcWords(rng, "FROM") + " stream"
		if rng.Intn(2) == 0 {
			srcAlias = "s"
			sql += " s"
		}
		k := 1 + rng.Intn(3)
		type want struct {
			typ, table, alias string
			on                [][2]string
		}
		var wants []want
		for j, ti := range rng.Perm(len(tables))[:k] {
			tb := tables[ti]
			w := want{table: tb}
			switch rng.Intn(4) {
			case 0:
				sql += " " + govcWords(rng, "INNER", "JOIN")
				w.typ = "INNER"
			case 1:
				sql += " " + govcWords(rng, "JOIN")
				w.typ = "INNER"
			case 2:
				sql += " " + govcWords(rng, "LEFT", "JOIN")
				w.typ = "LEFT"
			default:
				sql += " " + govcWords(rng, "LEFT", "OUTER", "JOIN")
				w.typ = "LEFT"
			}
			sql += " " + tb
			al := fmt.Sprintf("t%d", j)
			switch rng.Intn(3) {
			case 0:
				sql += " " + govcWords(rng, "AS") + " " + al
				w.alias = al
			case 1:
				sql += " " + al
				w.alias = al
			default:
				w.alias = tb
			}
			sql += " " + govcWords(rng, "ON")
			pairs := 1 + rng.Intn(2)
			for p := 0; p < pairs; p++ {
				sf, tf := fmt.Sprintf("k%d", p), fmt.Sprintf("c%d", p)
				left, right := sf, w.alias+"."+tf
				if srcAlias != "" && rng.Intn(2) == 0 {
					left = srcAlias + "." + sf
				}
				if p > 0 {
					sql += " " + govcWords(rng, "AND")
				}
				sql += " " + left + " = " + right
				w.on = append(w.on, [2]string{sf, tf})
			}
			wants = append(wants, w)
		}
		if rng.Intn(2) == 0 {
			sql += " " + govcWords(rng, "WHERE") + " k0 > 1"
		}
		st, err := NewParser(sql).Parse()
		if err != nil {
			fails++
			fmt.Printf("GOVC-BOUNDED-FAIL join_clauses `%s`: parse error %v\n", sql, err)
			continue
		}
		var written, parsed []string
		for _, w := range wants {
			written = append(written, fmt.Sprintf("%s %s as %s on %v", w.typ, w.table, w.alias, w.on))
		}
		for _, jc := range st.JoinConfigs {
			var on [][2]string
			for _, p := range jc.OnPairs {
				on = append(on, [2]string{p.StreamField, p.TableField})
			}
			parsed = append(parsed, fmt.Sprintf("%s %s as %s on %v", jc.JoinType, jc.Table, jc.Alias, on))
		}
		if fmt.Sprint(written) != fmt.Sprint(parsed) || st.SourceAlias != srcAlias {
			fails++
			if fails <= 8 {
				fmt.Printf("GOVC-BOUNDED-FAIL join_clauses `%s`: written %v (source alias %q), parsed %v (source alias %q)\n", sql, written, srcAlias, parsed, st.SourceAlias)
			}
		}
	}
	fmt.Printf("GOVC-BOUNDED-DONE join_clauses cases=%d failures=%d\n", cases, fails)
	if fails > 0 {
		t.Fail()
	}
}

func govcPatternString(n *types.PatternNode) string {
	if n == nil {
		return "<nil>"
	}
	switch n.Kind {
	case types.PatternLiteral:
		return n.Symbol
	case types.PatternRepetition:
		g := "greedy"
		if n.Quant != nil && !n.Quant.Greedy {
			g = "reluctant"
		}
		inner := "<none>"
		if len(n.Children) > 0 {
			inner = govcPatternString(n.Children[0])
		}
		if n.Quant == nil {
			return inner + "{?}"
		}
		return fmt.Sprintf("%s{%d,%d,%s}", inner, n.Quant.Min, n.Quant.Max, g)
	default:
		var cs []string
		for _, c := range n.Children {
			cs = append(cs, govcPatternString(c))
		}
		return fmt.Sprintf("k%d(%s)", n.Kind, strings.Join(cs, " "))
	}
}

func TestGovcBounded_match_recognize_clauses(t *testing.T) {
	n := 400
	if os.Getenv("GOVC_BOUND") == "thorough" {
		n = 3000
	}
	rng := rand.New(rand.NewSource(1511))
	type quant struct {
		text     string
		min, max int
	}
	quants := []quant{{"?", 0, 1}, {"*", 0, -1}, {"+", 1, -1}, {"{2}", 2, 2}, {"{2,}", 2, -1}, {"{1,3}", 1, 3}}
	cases, fails := 0, 0
	for it := 0; it < n; it++ {
		cases++
		var b strings.Builder
		b.WriteString(govcWords(rng, "SELECT") + " * " + govcWords(rng, "FROM") + " stream " + govcCase(rng, "MATCH_RECOGNIZE") + " (")
		wantPart := []string{}
		if rng.Intn(2) == 0 {
			b.WriteString(" " + govcWords(rng, "PARTITION", "BY") + " deviceId")
			wantPart = append(wantPart, "deviceId")
		}
		b.WriteString(" " + govcWords(rng, "ORDER", "BY") + " ts")
		wantOrder := "ts ASC"
		switch rng.Intn(3) {
		case 0:
			b.WriteString(" " + govcCase(rng, "ASC"))
		case 1:
			b.WriteString(" " + govcCase(rng, "DESC"))
			wantOrder = "ts DESC"
		}
		nm := 1 + rng.Intn(3)
		b.WriteString(" " + govcCase(rng, "MEASURES"))
		var wantMeasures []string
		mexprs := []string{"MATCH_NUMBER()", "LAST(B.v)", "COUNT(*)"}
		for i := 0; i < nm; i++ {
			if i > 0 {
				b.WriteString(",")
			}
			al := fmt.Sprintf("m%d", i)
			b.WriteString(" " + mexprs[i] + " " + govcCase(rng, "AS") + " " + al)
			wantMeasures = append(wantMeasures, al)
		}
		wantRows := types.RowsPerMatchOne
		if rng.Intn(2) == 0 {
			b.WriteString(" " + govcWords(rng, "ALL", "ROWS", "PER", "MATCH"))
			wantRows = types.RowsPerMatchAll
		} else {
			b.WriteString(" " + govcWords(rng, "ONE", "ROW", "PER", "MATCH"))
		}
		wantSkip, wantSkipSym := types.SkipPastLastRow, ""
		switch rng.Intn(5) {
		case 0:
			b.WriteString(" " + govcWords(rng, "AFTER", "MATCH", "SKIP", "PAST", "LAST", "ROW"))
		case 1:
			b.WriteString(" " + govcWords(rng, "AFTER", "MATCH", "SKIP", "TO", "NEXT", "ROW"))
			wantSkip = types.SkipToNextRow
		case 2:
			b.WriteString(" " + govcWords(rng, "AFTER", "MATCH", "SKIP", "TO", "FIRST") + " B")
			wantSkip, wantSkipSym = types.SkipToFirst, "B"
		case 3:
			b.WriteString(" " + govcWords(rng, "AFTER", "MATCH", "SKIP", "TO", "LAST") + " B")
			wantSkip, wantSkipSym = types.SkipToLast, "B"
		}
		// PATTERN ( A<q> B<q> ): every quantifier greedy unless a question mark follows it
		qa, qb := quants[rng.Intn(len(quants))], quants[1+rng.Intn(len(quants)-1)]
		ra, rb := rng.Intn(3) == 0, rng.Intn(3) == 0
		pat := "A" + qa.text
		if ra {
			pat += "?"
		}
		pat += " B" + qb.text
		if rb {
			pat += "?"
		}
		b.WriteString(" " + govcCase(rng, "PATTERN") + " (" + pat + ")")
		g := func(r bool) string {
			if r {
				return "reluctant"
			}
			return "greedy"
		}
		wantPattern := fmt.Sprintf("A{%d,%d,%s} B{%d,%d,%s}", qa.min, qa.max, g(ra), qb.min, qb.max, g(rb))
		// SUBSET: none, one, or two subsets written either in one comma-separated clause or as two SUBSET clauses
		wantSubsets := "[]"
		switch rng.Intn(4) {
		case 1:
			b.WriteString(" " + govcCase(rng, "SUBSET") + " S1 = (A, B)")
			wantSubsets = "[S1=A+B]"
		case 2:
			b.WriteString(" " + govcCase(rng, "SUBSET") + " S1 = (A, B), S2 = (B)")
			wantSubsets = "[S1=A+B S2=B]"
		case 3:
			b.WriteString(" " + govcCase(rng, "SUBSET") + " S1 = (A, B) " + govcCase(rng, "SUBSET") + " S2 = (B)")
			wantSubsets = "[S1=A+B S2=B]"
		}
		b.WriteString(" " + govcCase(rng, "WITHIN") + " '1h'")
		// DEFINE conditions; the second one uses keyword-like column names inside a call
		defs := []string{"v > 10", "abs(after - v) > 1", "coalesce(pattern, 0) < v", "v < 100"}
		da, db := defs[rng.Intn(len(defs))], defs[rng.Intn(len(defs))]
		b.WriteString(" " + govcCase(rng, "DEFINE") + " A " + govcCase(rng, "AS") + " " + da + ", B " + govcCase(rng, "AS") + " " + db + " )")
		sql := b.String()
		st, err := NewParser(sql).Parse()
		if err != nil || st.MatchRecognize == nil {
			fails++
			if fails <= 8 {
				fmt.Printf("GOVC-BOUNDED-FAIL match_recognize_clauses `%s`: error %v, clause parsed: %v\n", sql, err, st != nil && st.MatchRecognize != nil)
			}
			continue
		}
		mr := st.MatchRecognize
		var gotMeasures, gotOrder, gotDefs []string
		for _, m := range mr.Measures {
			gotMeasures = append(gotMeasures, m.Alias)
		}
		for _, o := range mr.OrderBy {
			gotOrder = append(gotOrder, o.Expression+" "+string(o.Direction))
		}
		norm := func(s string) string {
			return strings.Join(strings.Fields(strings.NewReplacer("(", " ( ", ")", " ) ", ",", " , ").Replace(s)), " ")
		}
		for _, d := range mr.Defines {
			gotDefs = append(gotDefs, d.Symbol+":"+norm(d.Cond))
		}
		gotPattern := "<nil>"
		if mr.Pattern != nil {
			var cs []string
			seq := mr.Pattern
			for seq != nil && seq.Kind != types.PatternSequence && len(seq.Children) == 1 && seq.Kind != types.PatternRepetition {
				seq = seq.Children[0]
			}
			if seq.Kind == types.PatternSequence {
				for _, c := range seq.Children {
					cs = append(cs, govcPatternString(c))
				}
				gotPattern = strings.Join(cs, " ")
			} else {
				gotPattern = govcPatternString(seq)
			}
		}
		gotSubsets := []string{}
		for _, ss := range mr.Subsets {
			gotSubsets = append(gotSubsets, ss.Name+"="+strings.Join(ss.Symbols, "+"))
		}
		written := fmt.Sprintf("partition=%v order=[%s] measures=%v rows=%d skip=%d/%s pattern=%s defines=[A:%s B:%s] subsets=%s", wantPart, wantOrder, wantMeasures, wantRows, wantSkip, wantSkipSym, wantPattern, norm(da), norm(db), wantSubsets)
		parsed := fmt.Sprintf("partition=%v order=%v measures=%v rows=%d skip=%d/%s pattern=%s defines=%v subsets=%v", append([]string{}, mr.PartitionBy...), gotOrder, gotMeasures, mr.RowsPerMatch, mr.Skip, mr.SkipSymbol, gotPattern, gotDefs, gotSubsets)
		if written != parsed {
			fails++
			if fails <= 8 {
				fmt.Printf("GOVC-BOUNDED-FAIL match_recognize_clauses `%s`: written %s, parsed %s\n", sql, written, parsed)
			}
		}
	}
	fmt.Printf("GOVC-BOUNDED-DONE match_recognize_clauses cases=%d failures=%d\n", cases, fails)
	if fails > 0 {
		t.Fail()
	}
}
