// govc:pkg condition
// govc:bound 8 operators x 5 numeric literals x 24 row values (NaN, +-Inf, -0, integers of every width incl. beyond 2^53, float32, numeric-looking text, bool, NULL, absent) and 6 operators x 3 string literals x 8 values, each as a single comparison and inside a flat AND and a flat OR chain
// govc:also C05 C06 C13 C17
// Bounded stand-in (NOT a proof) for the part of the statement that contracts over real arithmetic cannot reach (NaN and
// infinities do not exist in the model) and for values of kinds the shortcut declines: the compiled shortcut decides
// exactly as the general evaluator, which is reached by writing the same predicate in parentheses.
package condition

import (
	"fmt"
	"math"
	"testing"
)

func TestGovcBounded_fastpath_agrees_with_general_evaluator(t *testing.T) {
	ops := []string{">", ">=", "<", "<=", "==", "=", "!=", "<>"}
	nums := []string{"0", "5", "-5", "2.5", "9007199254740993"}
	vals := []any{math.NaN(), math.Inf(1), math.Inf(-1), math.Copysign(0, -1), 0, 5, -5, 6, int8(5), int16(-5), int32(7), int64(5), int64(9007199254740993),
		uint8(5), uint16(6), uint32(5), uint64(5), float32(2.5), 2.5, 4.999, "5", true, nil, "absent"}
	strLits := []string{"m", "", "abc"}
	strVals := []any{"m", "a", "z", "", "abc", 7, nil, "absent"}
	cases, fails := 0, 0
	check := func(fast, general string, row map[string]any) {
		cases++
		cf, e1 := NewExprCondition(fast)
		cg, e2 := NewExprCondition(general)
		if e1 != nil || e2 != nil {
			if (e1 == nil) != (e2 == nil) {
				fails++
				fmt.Printf("GOVC-BOUNDED-FAIL fastpath_agreement `%s`: compile error %v vs `%s`: %v\n", fast, e1, general, e2)
			}
			return
		}
		a, b := cf.Evaluate(row), cg.Evaluate(row)
		if a != b {
			fails++
			if fails <= 12 {
				fmt.Printf("GOVC-BOUNDED-FAIL fastpath_agreement `%s` on %#v: shortcut %v, general evaluator (`%s`) %v\n", fast, row, a, general, b)
			}
		}
	}
	mk := func(v any) map[string]any {
		row := map[string]any{"w": 1}
		if s, ok := v.(string); !ok || s != "absent" {
			row["v"] = v
		}
		return row
	}
	for _, op := range ops {
		if op == "=" || op == "<>" {
			continue // the general evaluator (expr-lang) has no such operators; only the spellings both sides accept are compared
		}
		for _, lit := range nums {
			for _, v := range vals {
				p := "v " + op + " " + lit
				check(p, "("+p+")", mk(v))
				check(p+" && w >= 0", "("+p+") && (w >= 0)", mk(v))
				check(p+" || w < 0", "("+p+") || (w < 0)", mk(v))
			}
		}
		if op == ">" || op == "<" || op == "==" || op == "!=" || op == ">=" || op == "<=" {
			for _, lit := range strLits {
				for _, v := range strVals {
					p := "v " + op + " '" + lit + "'"
					check(p, "("+p+")", mk(v))
					check(p+" && w >= 0", "("+p+") && (w >= 0)", mk(v))
				}
			}
		}
	}
	fmt.Printf("GOVC-BOUNDED-DONE fastpath_agreement cases=%d failures=%d\n", cases, fails)
	if fails > 0 {
		t.Fail()
	}
}
