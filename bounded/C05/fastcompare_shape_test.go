// govc:pkg condition
// govc:bound 3 field names x 8 operators x 14 literals (bare numbers, quoted numbers, quoted text, empty) x 3 spacings = 1008 expressions
// govc:also C06 C13
// Bounded stand-in (NOT a proof): tryFastCompare recognises `field OP literal` with regular expressions, whose
// semantics the verifier does not model. Checked here on an enumerated set: a quoted literal is a TEXT literal
// (never compiled as a number), a bare number is a NUMBER literal with that value, the field and operator are the
// ones written.
package condition

import (
	"fmt"
	"strconv"
	"strings"
	"testing"
)

func TestGovcBounded_condition_tryFastCompare_shape_c05(t *testing.T) {
	fields := []string{"x", "status", "dev_1"}
	ops := []string{">=", "<=", "!=", "<>", "==", "=", ">", "<"}
	lits := []string{"5", "-7", "3.5", "0", "42", "'42'", "'-7'", "'3.5'", "'0'", "'abc'", "''", "'4 2'", "'1e3'", "'x>1'"}
	spacings := [][2]string{{" ", " "}, {"", ""}, {"  ", " "}}
	cases, fails := 0, 0
	for _, f := range fields {
		for _, op := range ops {
			for _, lit := range lits {
				for _, sp := range spacings {
					expr := f + sp[0] + op + sp[1] + lit
					cases++
					fc := tryFastCompare(expr)
					if fc == nil {
						continue // leaving an expression to the general evaluator is always allowed
					}
					bad := ""
					if fc.field != f {
						bad = "field " + fc.field
					}
					if fc.op != op {
						bad = "op " + fc.op
					}
					if strings.HasPrefix(lit, "'") {
						if !fc.isString || fc.strLit != strings.Trim(lit, "'") {
							bad = fmt.Sprintf("quoted literal compiled as isString=%v strLit=%q numLit=%v", fc.isString, fc.strLit, fc.numLit)
						}
					} else {
						n, _ := strconv.ParseFloat(lit, 64)
						if fc.isString || fc.numLit != n {
							bad = fmt.Sprintf("bare number compiled as isString=%v strLit=%q numLit=%v", fc.isString, fc.strLit, fc.numLit)
						}
					}
					if bad != "" {
						fails++
						if fails <= 10 {
							fmt.Printf("GOVC-BOUNDED-FAIL tryFastCompare(%q): %s\n", expr, bad)
						}
					}
				}
			}
		}
	}
	fmt.Printf("GOVC-BOUNDED-DONE condition_tryFastCompare_shape cases=%d failures=%d\n", cases, fails)
	if fails > 0 {
		t.Fail()
	}
}
