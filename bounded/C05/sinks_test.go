// govc:pkg .
// govc:bound 1 query x 8 rows x 3 synchronous sinks of which the first panics on every third row
// govc:also C19
// Bounded stand-in (NOT a proof; panicking executions are outside the verifier's model): a user sink that panics on a row
// does not keep the other synchronous sinks from receiving that row, and the rows still arrive in emission order.
package streamsql

import (
	"fmt"
	"sync"
	"testing"
	"time"
)

func TestGovcBounded_sync_sinks_isolated(t *testing.T) {
	s := New()
	defer s.Stop()
	cases, fails := 1, 0
	if err := s.Execute("SELECT id, v FROM stream WHERE id >= 0"); err != nil {
		fmt.Printf("GOVC-BOUNDED-FAIL sync_sinks: execute: %v\n", err)
		fmt.Printf("GOVC-BOUNDED-DONE sync_sinks cases=1 failures=1\n")
		t.Fail()
		return
	}
	var mu sync.Mutex
	got := map[int][]int{}
	for k := 0; k < 3; k++ {
		k := k
		s.AddSyncSink(func(rs []map[string]any) {
			for _, r := range rs {
				id := r["id"].(int)
				if k == 0 && id%3 == 2 {
					panic("sink 0 cannot handle this row")
				}
				mu.Lock()
				got[k] = append(got[k], id)
				mu.Unlock()
			}
		})
	}
	const n = 8
	for i := 0; i < n; i++ {
		s.Emit(map[string]any{"id": i, "v": i * 10})
	}
	deadline := time.Now().Add(15 * time.Second)
	for time.Now().Before(deadline) {
		mu.Lock()
		done := len(got[1]) >= n && len(got[2]) >= n
		mu.Unlock()
		if done {
			break
		}
		time.Sleep(time.Millisecond)
	}
	mu.Lock()
	defer mu.Unlock()
	want := "[0 1 2 3 4 5 6 7]"
	for _, k := range []int{1, 2} {
		if fmt.Sprint(got[k]) != want {
			fails++
			fmt.Printf("GOVC-BOUNDED-FAIL sync_sinks: sink %d received %v, want %s (sink 0 panics on ids 2 and 5)\n", k, got[k], want)
		}
	}
	fmt.Printf("GOVC-BOUNDED-DONE sync_sinks cases=%d failures=%d\n", cases, fails)
	if fails > 0 {
		t.Fail()
	}
}
