// govc:pkg .
// govc:bound 12 SELECT lists x 40 WHERE predicates (comparisons on int/float/string columns, IS [NOT] NULL, AND/OR mixes with and without parentheses) x 10 rows (flat, nested, NULL, missing): 480 queries, each through EmitSync and through Emit + synchronous sink
// Bounded stand-in (NOT a proof) for the end-to-end wiring that the per-function contracts do not reach: for every query and
// row, EmitSync's result equals what Emit delivers to a synchronous sink, a result exists iff the relational WHERE is true,
// it holds exactly the selected columns (NULL for a missing source), and the sink sees a single producer's rows in order.
package streamsql

import (
	"fmt"
	"reflect"
	"sync"
	"testing"
	"time"
)

var govcC05Rows = []map[string]any{
	{"id": 1, "t": 20.5, "s": "abc", "d": map[string]any{"x": 1, "y": "p"}},
	{"id": 2, "t": 30.0, "s": "abd"},
	{"id": 3, "t": nil, "s": "x%y", "d": map[string]any{"x": 7}},
	{"id": 4, "s": "", "d": map[string]any{"y": "q"}},
	{"id": 5, "t": -1.5, "s": nil},
	{"id": 6, "t": 25.0, "s": "ABC", "d": nil},
	{"id": 7, "t": 25, "s": "b"},
	{"id": 8, "t": 0.0, "s": "a b", "d": map[string]any{"x": 0, "y": ""}},
	{"id": 9, "t": 100.0},
	{"id": 10, "t": 24.999, "s": "abc", "d": map[string]any{"x": 3, "y": "p"}},
}

type govcSel struct {
	sql  string
	proj func(r map[string]any) map[string]any
}

func govcGet(r map[string]any, path ...string) any {
	var cur any = r
	for _, p := range path {
		m, ok := cur.(map[string]any)
		if !ok {
			return nil
		}
		v, ok := m[p]
		if !ok {
			return nil
		}
		cur = v
	}
	return cur
}

func govcSelects() []govcSel {
	return []govcSel{
		{"id", func(r map[string]any) map[string]any { return map[string]any{"id": r["id"]} }},
		{"id, t", func(r map[string]any) map[string]any { return map[string]any{"id": r["id"], "t": govcGet(r, "t")} }},
		{"id, t AS temp", func(r map[string]any) map[string]any { return map[string]any{"id": r["id"], "temp": govcGet(r, "t")} }},
		{"s, id", func(r map[string]any) map[string]any { return map[string]any{"id": r["id"], "s": govcGet(r, "s")} }},
		{"id, missing", func(r map[string]any) map[string]any { return map[string]any{"id": r["id"], "missing": nil} }},
		{"id, d.x", func(r map[string]any) map[string]any { return map[string]any{"id": r["id"], "d.x": govcGet(r, "d", "x")} }},
		{"id, d.x AS dx, d.y AS dy", func(r map[string]any) map[string]any {
			return map[string]any{"id": r["id"], "dx": govcGet(r, "d", "x"), "dy": govcGet(r, "d", "y")}
		}},
		{"id, 'lit' AS l", func(r map[string]any) map[string]any { return map[string]any{"id": r["id"], "l": "lit"} }},
		{"id AS a, id AS b", func(r map[string]any) map[string]any { return map[string]any{"a": r["id"], "b": r["id"]} }},
		{"*", func(r map[string]any) map[string]any {
			c := map[string]any{}
			for k, v := range r {
				c[k] = v
			}
			return c
		}},
		{"`id`, `s` AS str", func(r map[string]any) map[string]any { return map[string]any{"id": r["id"], "str": govcGet(r, "s")} }},
		{"t, s, id", func(r map[string]any) map[string]any {
			return map[string]any{"id": r["id"], "s": govcGet(r, "s"), "t": govcGet(r, "t")}
		}},
	}
}

type govcWhere struct {
	sql string
	ok  func(r map[string]any) bool
}

// govcNullOperand: does the predicate mention a column that is NULL or missing in this row? (printed with every
// failure so that the two open findings about NULL operands cannot absorb anything else)
func govcNullOperand(sql string, r map[string]any) bool {
	for _, col := range []string{"t", "s", "id", "missing"} {
		for i := 0; i+len(col) <= len(sql); i++ {
			if sql[i:i+len(col)] == col && (i == 0 || sql[i-1] == ' ' || sql[i-1] == '(') && (i+len(col) == len(sql) || sql[i+len(col)] == ' ') {
				if r[col] == nil {
					return true
				}
			}
		}
	}
	return false
}

func govcNum(v any) (float64, bool) {
	switch x := v.(type) {
	case int:
		return float64(x), true
	case float64:
		return x, true
	}
	return 0, false
}

func govcNumCmp(col, op string, k float64) govcWhere {
	return govcWhere{fmt.Sprintf("%s %s %v", col, op, k), func(r map[string]any) bool {
		x, ok := govcNum(r[col])
		if !ok {
			return false
		}
		switch op {
		case ">":
			return x > k
		case "<":
			return x < k
		case ">=":
			return x >= k
		case "<=":
			return x <= k
		case "=":
			return x == k
		}
		return x != k
	}}
}

func govcStrEq(col, lit string, neg bool) govcWhere {
	op := "="
	if neg {
		op = "!="
	}
	return govcWhere{fmt.Sprintf("%s %s '%s'", col, op, lit), func(r map[string]any) bool {
		s, ok := r[col].(string)
		if !ok {
			return false
		}
		return (s == lit) != neg
	}}
}

func govcWheres() []govcWhere {
	var ws []govcWhere
	ws = append(ws, govcWhere{"", func(map[string]any) bool { return true }})
	for _, op := range []string{">", "<", ">=", "<=", "=", "!="} {
		ws = append(ws, govcNumCmp("t", op, 25))
		ws = append(ws, govcNumCmp("id", op, 5))
	}
	ws = append(ws, govcStrEq("s", "abc", false), govcStrEq("s", "abc", true), govcStrEq("s", "", false))
	isNull := func(col string, neg bool) govcWhere {
		q := col + " IS NULL"
		if neg {
			q = col + " IS NOT NULL"
		}
		return govcWhere{q, func(r map[string]any) bool { return (r[col] == nil) != neg }}
	}
	ws = append(ws, isNull("t", false), isNull("t", true), isNull("s", false), isNull("s", true), isNull("missing", false))
	and := func(a, b govcWhere) govcWhere {
		return govcWhere{a.sql + " AND " + b.sql, func(r map[string]any) bool { return a.ok(r) && b.ok(r) }}
	}
	or := func(a, b govcWhere) govcWhere {
		return govcWhere{a.sql + " OR " + b.sql, func(r map[string]any) bool { return a.ok(r) || b.ok(r) }}
	}
	par := func(a govcWhere) govcWhere { return govcWhere{"(" + a.sql + ")", a.ok} }
	a, b, c := govcNumCmp("t", ">", 20), govcNumCmp("id", "<", 8), govcStrEq("s", "abc", false)
	d := govcNumCmp("id", ">", 6)
	ws = append(ws, and(a, b), or(a, b), and(a, c), or(c, d), and(and(a, b), c), or(or(a, c), d))
	// precedence: AND binds tighter than OR; parentheses override
	ws = append(ws, govcWhere{a.sql + " OR " + b.sql + " AND " + c.sql, func(r map[string]any) bool { return a.ok(r) || (b.ok(r) && c.ok(r)) }})
	ws = append(ws, govcWhere{c.sql + " AND " + b.sql + " OR " + d.sql, func(r map[string]any) bool { return (c.ok(r) && b.ok(r)) || d.ok(r) }})
	ws = append(ws, and(par(or(a, d)), c), or(par(and(a, b)), par(and(c, d))))
	ws = append(ws, and(isNull("t", true), a), or(isNull("s", false), c))
	return ws
}

func govcSame(a, b any) bool {
	if x, ok := govcNum(a); ok {
		if y, ok2 := govcNum(b); ok2 {
			return x == y
		}
	}
	return reflect.DeepEqual(a, b)
}

func govcSameRow(got, want map[string]any) string {
	if len(got) != len(want) {
		return fmt.Sprintf("columns %v, selected %v", govcKeys(got), govcKeys(want))
	}
	for k, w := range want {
		g, ok := got[k]
		if !ok {
			return fmt.Sprintf("column %q missing (got %v)", k, govcKeys(got))
		}
		if !govcSame(g, w) {
			return fmt.Sprintf("column %q = %v (%T), relational value %v (%T)", k, g, g, w, w)
		}
	}
	return ""
}

func govcKeys(m map[string]any) []string {
	var ks []string
	for k := range m {
		ks = append(ks, k)
	}
	return ks
}

func govcCopy(r map[string]any) map[string]any {
	c := map[string]any{}
	for k, v := range r {
		c[k] = v
	}
	return c
}

func TestGovcBounded_rowwise_filter_projection(t *testing.T) {
	cases, fails := 0, 0
	report := func(q, detail string) {
		fails++
		fmt.Printf("GOVC-BOUNDED-FAIL rowwise query=`%s`: %s\n", q, detail) // every failure is printed: known findings are matched line by line
	}
	for _, sel := range govcSelects() {
		for _, wh := range govcWheres() {
			cases++
			q := "SELECT " + sel.sql + " FROM stream"
			if wh.sql != "" {
				q += " WHERE " + wh.sql
			}
			s := New()
			if err := s.Execute(q); err != nil {
				report(q, "execute: "+err.Error())
				s.Stop()
				continue
			}
			var mu sync.Mutex
			var sunk []map[string]any
			s.AddSyncSink(func(rs []map[string]any) {
				mu.Lock()
				defer mu.Unlock()
				for _, r := range rs {
					sunk = append(sunk, r)
				}
			})
			// 1. EmitSync against the oracle
			var expect []map[string]any
			detail := ""
			for _, r := range govcC05Rows {
				res, err := s.EmitSync(govcCopy(r))
				want := wh.ok(r)
				if err != nil {
					detail = fmt.Sprintf("row id=%v: EmitSync error %v", r["id"], err)
					break
				}
				if (res != nil) != want {
					detail = fmt.Sprintf("row id=%v null-operand=%v: result present=%v, WHERE is %v", r["id"], govcNullOperand(wh.sql, r), res != nil, want)
					break
				}
				if want {
					if d := govcSameRow(res, sel.proj(r)); d != "" {
						detail = fmt.Sprintf("row id=%v: %s", r["id"], d)
						break
					}
					expect = append(expect, sel.proj(r))
				}
			}
			if detail != "" {
				report(q, detail)
				s.Stop()
				continue
			}
			// the sync sink has received the EmitSync results; now the async path
			mu.Lock()
			sunk = nil
			mu.Unlock()
			for _, r := range govcC05Rows {
				s.Emit(govcCopy(r))
			}
			deadline := time.Now().Add(15 * time.Second)
			for time.Now().Before(deadline) {
				mu.Lock()
				n := len(sunk)
				mu.Unlock()
				if n >= len(expect) {
					break
				}
				time.Sleep(time.Millisecond)
			}
			time.Sleep(5 * time.Millisecond)
			mu.Lock()
			got := append([]map[string]any(nil), sunk...)
			mu.Unlock()
			s.Stop()
			if len(got) != len(expect) {
				report(q, fmt.Sprintf("Emit delivered %d rows to the sink, EmitSync produced %d", len(got), len(expect)))
				continue
			}
			for i := range got {
				if d := govcSameRow(got[i], expect[i]); d != "" {
					report(q, fmt.Sprintf("sink row %d (emission order): %s", i, d))
					break
				}
			}
		}
	}
	fmt.Printf("GOVC-BOUNDED-DONE rowwise cases=%d failures=%d\n", cases, fails)
	if fails > 0 {
		t.Fail()
	}
}
