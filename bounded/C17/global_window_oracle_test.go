// govc:pkg .
// govc:bound 18 TRIGGER WHEN predicates (two mention one aggregate twice) x 6 output lists x 3 random feeds (quick; 10 with GOVC_BOUND=thorough) of 24 rows over 3 groups; one input field whose name ends in "or" (sensor) and one camelCase field (wLoad)
// govc:also C04 C12
// Bounded stand-in (NOT a proof) for the part of the global window that is regular-expression based and outside the
// contracts (rewriting of the TRIGGER WHEN predicate and its binding to aggregates): a group fires exactly at the rows where
// the predicate holds on the rows received since it last fired, the result carries the aggregates over exactly those rows,
// and other groups neither trigger nor contribute.
package streamsql

import (
	"fmt"
	"math/rand"
	"os"
	"sync"
	"testing"
	"time"
)

type govcGWPred struct {
	sql string
	ok  func(vs, ws []float64) bool
}

func govcGWSum(xs []float64) float64 {
	s := 0.0
	for _, x := range xs {
		s += x
	}
	return s
}
func govcGWMax(xs []float64) float64 {
	m := xs[0]
	for _, x := range xs {
		if x > m {
			m = x
		}
	}
	return m
}
func govcGWMin(xs []float64) float64 {
	m := xs[0]
	for _, x := range xs {
		if x < m {
			m = x
		}
	}
	return m
}

func govcGWPreds() []govcGWPred {
	return []govcGWPred{
		{"COUNT(*) >= 3", func(v, w []float64) bool { return len(v) >= 3 }},
		{"COUNT(*) >= 1", func(v, w []float64) bool { return len(v) >= 1 }},
		{"SUM(sensor) > 10", func(v, w []float64) bool { return govcGWSum(v) > 10 }},
		{"SUM(sensor) >= 7", func(v, w []float64) bool { return govcGWSum(v) >= 7 }},
		{"MAX(sensor) > 4", func(v, w []float64) bool { return govcGWMax(v) > 4 }},
		{"MIN(sensor) < 1", func(v, w []float64) bool { return govcGWMin(v) < 1 }},
		{"AVG(sensor) > 3", func(v, w []float64) bool { return govcGWSum(v)/float64(len(v)) > 3 }},
		{"SUM(wLoad) > 12", func(v, w []float64) bool { return govcGWSum(w) > 12 }},
		{"MAX(wLoad) > 4", func(v, w []float64) bool { return govcGWMax(w) > 4 }},
		{"COUNT(*) >= 2 AND SUM(sensor) > 5", func(v, w []float64) bool { return len(v) >= 2 && govcGWSum(v) > 5 }},
		{"COUNT(*) >= 4 OR MAX(sensor) > 4", func(v, w []float64) bool { return len(v) >= 4 || govcGWMax(v) > 4 }},
		{"SUM(sensor) > 6 AND SUM(wLoad) > 6", func(v, w []float64) bool { return govcGWSum(v) > 6 && govcGWSum(w) > 6 }},
		{"MAX(sensor) > 3 AND MIN(sensor) < 2", func(v, w []float64) bool { return govcGWMax(v) > 3 && govcGWMin(v) < 2 }},
		{"SUM(sensor) > SUM(wLoad)", func(v, w []float64) bool { return govcGWSum(v) > govcGWSum(w) }},
		{"MAX(sensor) > 2 AND MAX(wLoad) > 2", func(v, w []float64) bool { return govcGWMax(v) > 2 && govcGWMax(w) > 2 }},
		{"COUNT(*) >= 5", func(v, w []float64) bool { return len(v) >= 5 }},
		// the same aggregate mentioned twice (a range check)
		{"MAX(sensor) > 2 AND MAX(sensor) < 5", func(v, w []float64) bool { return govcGWMax(v) > 2 && govcGWMax(v) < 5 }},
		{"SUM(sensor) > 4 AND SUM(sensor) < 9 OR COUNT(*) >= 6", func(v, w []float64) bool {
			return govcGWSum(v) > 4 && govcGWSum(v) < 9 || len(v) >= 6
		}},
	}
}

type govcGWOut struct {
	sql  string
	vals func(vs, ws []float64) map[string]float64
}

func govcGWOuts() []govcGWOut {
	return []govcGWOut{
		{"COUNT(*) AS n", func(v, w []float64) map[string]float64 { return map[string]float64{"n": float64(len(v))} }},
		{"SUM(sensor) AS s", func(v, w []float64) map[string]float64 { return map[string]float64{"s": govcGWSum(v)} }},
		{"SUM(sensor) AS s, COUNT(*) AS n", func(v, w []float64) map[string]float64 {
			return map[string]float64{"s": govcGWSum(v), "n": float64(len(v))}
		}},
		{"MAX(sensor) AS mx, MIN(wLoad) AS mn", func(v, w []float64) map[string]float64 {
			return map[string]float64{"mx": govcGWMax(v), "mn": govcGWMin(w)}
		}},
		{"AVG(wLoad) AS a, SUM(sensor) AS s", func(v, w []float64) map[string]float64 {
			return map[string]float64{"a": govcGWSum(w) / float64(len(w)), "s": govcGWSum(v)}
		}},
		{"SUM(wLoad) AS sw, MAX(wLoad) AS mw, COUNT(*) AS n", func(v, w []float64) map[string]float64 {
			return map[string]float64{"sw": govcGWSum(w), "mw": govcGWMax(w), "n": float64(len(w))}
		}},
	}
}

func TestGovcBounded_global_window_trigger(t *testing.T) {
	rng := rand.New(rand.NewSource(11))
	cases, fails := 0, 0
	feeds := 3
	if os.Getenv("GOVC_BOUND") == "thorough" {
		feeds = 10
	}
	for _, pd := range govcGWPreds() {
		for _, ol := range govcGWOuts() {
			for feed := 0; feed < feeds && fails < 8; feed++ { // a broken trigger makes every case wait out its deadline: stop after 8 failures
				cases++
				sql := "SELECT g, " + ol.sql + " FROM stream GROUP BY g, GLOBAL WINDOW TRIGGER WHEN " + pd.sql
				s := New()
				if err := s.Execute(sql); err != nil {
					fails++
					fmt.Printf("GOVC-BOUNDED-FAIL global_window query=`%s`: execute: %v\n", sql, err)
					s.Stop()
					break
				}
				var mu sync.Mutex
				var got []map[string]any
				s.AddSyncSink(func(rs []map[string]any) {
					mu.Lock()
					defer mu.Unlock()
					got = append(got, rs...)
				})
				type acc struct{ v, w []float64 }
				state := map[string]*acc{}
				var want []map[string]any
				for i := 0; i < 24; i++ {
					g := []string{"a", "b", "c"}[rng.Intn(3)]
					v, w := float64(rng.Intn(6)), float64(rng.Intn(6))
					s.Emit(map[string]any{"g": g, "sensor": v, "wLoad": w})
					a := state[g]
					if a == nil {
						a = &acc{}
						state[g] = a
					}
					a.v, a.w = append(a.v, v), append(a.w, w)
					if pd.ok(a.v, a.w) {
						row := map[string]any{"g": g}
						for k, x := range ol.vals(a.v, a.w) {
							row[k] = x
						}
						want = append(want, row)
						state[g] = &acc{}
					}
				}
				deadline := time.Now().Add(15 * time.Second)
				for time.Now().Before(deadline) {
					mu.Lock()
					n := len(got)
					mu.Unlock()
					if n >= len(want) {
						break
					}
					time.Sleep(time.Millisecond)
				}
				time.Sleep(10 * time.Millisecond)
				mu.Lock()
				res := append([]map[string]any(nil), got...)
				mu.Unlock()
				s.Stop()
				detail := ""
				if len(res) != len(want) {
					detail = fmt.Sprintf("%d results delivered, the predicate held %d times", len(res), len(want))
				} else {
					for i := range want {
						if res[i]["g"] != want[i]["g"] {
							detail = fmt.Sprintf("firing %d: group %v, expected %v", i, res[i]["g"], want[i]["g"])
							break
						}
						for k, x := range want[i] {
							if k == "g" {
								continue
							}
							y, ok := govcAnaNumGW(res[i][k])
							if !ok || y-x.(float64) > 1e-9 || x.(float64)-y > 1e-9 {
								detail = fmt.Sprintf("firing %d (group %v): %s=%v, aggregate over the rows since the last firing is %v", i, want[i]["g"], k, res[i][k], x)
								break
							}
						}
						if detail != "" {
							break
						}
					}
				}
				if detail != "" {
					fails++
					fmt.Printf("GOVC-BOUNDED-FAIL global_window query=`%s` feed=%d: %s\n", sql, feed, detail)
				}
			}
		}
	}
	fmt.Printf("GOVC-BOUNDED-DONE global_window cases=%d failures=%d\n", cases, fails)
	if fails > 0 {
		t.Fail()
	}
}

func govcAnaNumGW(v any) (float64, bool) {
	switch x := v.(type) {
	case int:
		return float64(x), true
	case int64:
		return float64(x), true
	case float64:
		return x, true
	}
	return 0, false
}
