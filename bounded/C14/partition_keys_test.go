// govc:pkg stream
// govc:bound partition value tuples of arity 1..2 over a pool of 31 typed values (strings with '|' / ':' / digits look-alikes and imitations of the inter-column framing, ints, int64, floats incl. 16777216/16777217 and 0.1/0.10000000001, bools, NULL); all pairs compared
// govc:also C12
// Bounded stand-in (NOT a proof): the typed, length-prefixed partition key of analytic functions is the same for two
// rows iff their PARTITION BY values are identical (same Go type and value).
package stream

import (
	"fmt"
	"testing"

	"github.com/rulego/streamsql/types"
)

func TestGovcBounded_partition_keys(t *testing.T) {
	pool := []any{nil, "", "a", "|", "a|", "1:a|", "string|a", "int|1", "1", 1, 2, 12, int64(1), int64(12), 1.0, 1.5, 16777216.0, 16777217.0, 0.1, 0.10000000001, true, false}
	// values that imitate the framing between two columns ("<len>:<type>|<value>|"), with the length digits a broken
	// prefix could produce (length of the column name, of the value, of the typed value)
	for _, n := range []int{1, 2, 8} {
		pool = append(pool, fmt.Sprintf("x|%d:string|y", n), fmt.Sprintf("y|%d:string|z", n))
	}
	pool = append(pool, "x", "y", "z")
	cases, fails := 0, 0
	for arity := 1; arity <= 2; arity++ {
		cols := []string{"k1", "k2"}[:arity]
		fe := &analyticFieldEngine{af: types.AnalyticField{Over: &types.OverSpec{PartitionBy: cols}}}
		var tuples [][]any
		if arity == 1 {
			for _, a := range pool {
				tuples = append(tuples, []any{a})
			}
		} else {
			for _, a := range pool {
				for _, b := range pool {
					tuples = append(tuples, []any{a, b})
				}
			}
		}
		keys := make([]string, len(tuples))
		for i, tu := range tuples {
			row := map[string]any{}
			for c, v := range tu {
				row[cols[c]] = v
			}
			keys[i] = fe.partitionKey(row)
		}
		for i := range tuples {
			for j := i + 1; j < len(tuples); j++ {
				cases++
				same := true
				for c := range tuples[i] {
					if tuples[i][c] != tuples[j][c] {
						same = false
					}
				}
				if (keys[i] == keys[j]) != same {
					fails++
					if fails <= 5 {
						fmt.Printf("GOVC-BOUNDED-FAIL partitionKey: %#v and %#v: same=%v keys %q / %q\n", tuples[i], tuples[j], same, keys[i], keys[j])
					}
				}
			}
		}
	}
	fmt.Printf("GOVC-BOUNDED-DONE partition_keys cases=%d failures=%d\n", cases, fails)
	if fails > 0 {
		t.Fail()
	}
}
