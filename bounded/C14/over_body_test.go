// govc:pkg rsql
// govc:bound OVER bodies: 0..2 partition columns (exhaustive) and 3 (200 random draws) from {k, deviceId, region}, each written plain, back-quoted, or back-quoted with blanks around; three spellings of the comma; PARTITION BY and WHEN in three letter cases; no WHEN or one of 4 conditions (one starts with the word "whenever")
// govc:also C12
// Bounded stand-in (NOT a proof) for parseOverBodyString (regular expressions, outside the modelled library): the
// partition columns are the ones written, in order, without back quotes and blanks; the WHEN text is the one written.
package rsql

import (
	"fmt"
	"math/rand"
	"strings"
	"testing"
)

func TestGovcBounded_over_body(t *testing.T) {
	cols := []string{"k", "deviceId", "region"}
	spell := func(c string, how int) string {
		switch how {
		case 1:
			return "`" + c + "`"
		case 2:
			return " `" + c + "` "
		}
		return c
	}
	whens := []string{"", "v > 0", "status == 'on' && v < 5", "whenever > 1", "v >= 0 and w <= 3"}
	pb := []string{"PARTITION BY", "partition by", "Partition By"}
	wk := []string{"WHEN", "when", "When"}
	rng := rand.New(rand.NewSource(14))
	cases, fails := 0, 0
	check := func(want []string, body, when string) {
		cases++
		spec, err := parseOverBodyString(body)
		got := []string{}
		gotWhen := ""
		if spec != nil {
			got = append(got, spec.PartitionBy...)
			gotWhen = spec.When
		}
		if err != nil || fmt.Sprint(got) != fmt.Sprint(want) || gotWhen != when {
			fails++
			if fails <= 8 {
				fmt.Printf("GOVC-BOUNDED-FAIL over_body body=`%s`: partition %q when %q (err %v), written partition %q when %q\n", body, got, gotWhen, err, want, when)
			}
		}
	}
	build := func(idx, how []int, seps []string, pbi, wi, wki int) (string, []string) {
		var want []string
		body := ""
		if len(idx) > 0 {
			body = pb[pbi] + " "
			for i := range idx {
				if i > 0 {
					body += seps[i-1]
				}
				body += spell(cols[idx[i]], how[i])
				want = append(want, cols[idx[i]])
			}
		}
		if whens[wi] != "" {
			body += " " + wk[wki] + " " + whens[wi]
		}
		return body, want
	}
	seps := []string{",", ", ", " , "}
	for arity := 0; arity <= 2; arity++ {
		var rec func(idx, how []int, sp []string)
		rec = func(idx, how []int, sp []string) {
			if len(idx) == arity {
				for pbi := range pb {
					for wi := range whens {
						body, want := build(idx, how, sp, pbi, wi, (pbi+wi)%3)
						check(want, body, whens[wi])
					}
				}
				return
			}
			for c := range cols {
				for h := 0; h < 3; h++ {
					if len(idx) == 0 {
						rec(append(idx, c), append(how, h), sp)
					} else {
						for _, s := range seps {
							rec(append(append([]int{}, idx...), c), append(append([]int{}, how...), h), append(append([]string{}, sp...), s))
						}
					}
				}
			}
		}
		rec(nil, nil, nil)
	}
	for n := 0; n < 200; n++ {
		idx := []int{rng.Intn(3), rng.Intn(3), rng.Intn(3)}
		how := []int{rng.Intn(3), rng.Intn(3), rng.Intn(3)}
		sp := []string{seps[rng.Intn(3)], seps[rng.Intn(3)]}
		wi := rng.Intn(len(whens))
		body, want := build(idx, how, sp, rng.Intn(3), wi, rng.Intn(3))
		check(want, body, whens[wi])
	}
	_ = strings.TrimSpace
	fmt.Printf("GOVC-BOUNDED-DONE over_body cases=%d failures=%d\n", cases, fails)
	if fails > 0 {
		t.Fail()
	}
}
