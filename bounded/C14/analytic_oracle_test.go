// govc:pkg .
// govc:bound third test: 6 WHERE-side analytic calls with OVER (PARTITION BY alone, with WHEN, the column back-quoted) x 10 (thorough: 40) feeds of 14 rows over 3 partitions: which rows of a partition pass, interleaved vs. fed alone; second test: 4 queries with two or three analytic fields x 10 (thorough: 40) feeds, every column compared with the same field queried alone; first test: 14 analytic SELECT items x 40 (thorough: 160) random feeds of 12 rows over 3 partitions (NULL values included): each partition's output sequence interleaved vs. fed alone, EmitSync vs. Emit + synchronous sink, and lag / acc_sum / acc_count / acc_max / latest against their definitions
// govc:also C12
// Bounded stand-in (NOT a proof) for the wiring above the state machines under contract (partition key derivation, engine
// dispatch, projection): partitions must not influence each other and both API paths must agree.
package streamsql

import (
	"os"
	"fmt"
	"math/rand"
	"reflect"
	"strings"
	"sync"
	"testing"
	"time"
)

type govcAnaItem struct {
	sql    string
	oracle func(hist []any, cur any) any // hist: earlier values of the partition (arrival order), may be nil
}

func govcAnaItems() []govcAnaItem {
	lastNonNil := func(h []any, back int) any {
		n := 0
		for i := len(h) - 1; i >= 0; i-- {
			if h[i] != nil {
				n++
				if n == back {
					return h[i]
				}
			}
		}
		return nil
	}
	accum := func(h []any, cur any) (sum float64, cnt int, max float64, has bool) {
		for _, v := range append(append([]any{}, h...), cur) {
			if f, ok := v.(float64); ok {
				sum += f
				cnt++
				if !has || f > max {
					max = f
				}
				has = true
			}
		}
		return
	}
	return []govcAnaItem{
		{"lag(v)", func(h []any, cur any) any { return lastNonNil(h, 1) }},
		{"lag(v, 2)", func(h []any, cur any) any { return lastNonNil(h, 2) }},
		{"lag(v, 1, -1)", func(h []any, cur any) any {
			if x := lastNonNil(h, 1); x != nil {
				return x
			}
			return -1
		}},
		{"acc_sum(v)", func(h []any, cur any) any { s, _, _, _ := accum(h, cur); return s }},
		{"acc_count(v)", func(h []any, cur any) any { _, c, _, _ := accum(h, cur); return c }},
		{"acc_max(v)", func(h []any, cur any) any {
			_, _, m, has := accum(h, cur)
			if !has {
				return nil
			}
			return m
		}},
		{"latest(v)", func(h []any, cur any) any {
			if cur != nil {
				return cur
			}
			return lastNonNil(h, 1)
		}},
		{"acc_avg(v)", nil}, {"acc_min(v)", nil}, {"had_changed(true, v)", nil}, {"had_changed(false, v)", nil},
		{"lag(v, 3, 0)", nil}, {"acc_sum(v) + 1", nil}, {"v - lag(v)", nil},
	}
}

func govcAnaRun(sql string, rows []map[string]any, viaSink bool) ([]map[string]any, error) {
	s := New()
	defer s.Stop()
	if err := s.Execute(sql); err != nil {
		return nil, err
	}
	var out []map[string]any
	if !viaSink {
		for _, r := range rows {
			c := map[string]any{}
			for k, v := range r {
				c[k] = v
			}
			res, err := s.EmitSync(c)
			if err != nil {
				return nil, err
			}
			out = append(out, res)
		}
		return out, nil
	}
	var mu sync.Mutex
	s.AddSyncSink(func(rs []map[string]any) {
		mu.Lock()
		defer mu.Unlock()
		out = append(out, rs...)
	})
	for _, r := range rows {
		c := map[string]any{}
		for k, v := range r {
			c[k] = v
		}
		s.Emit(c)
	}
	deadline := time.Now().Add(15 * time.Second)
	for time.Now().Before(deadline) {
		mu.Lock()
		n := len(out)
		mu.Unlock()
		if n >= len(rows) {
			break
		}
		time.Sleep(time.Millisecond)
	}
	mu.Lock()
	defer mu.Unlock()
	return append([]map[string]any(nil), out...), nil
}

func govcNumEq(a, b any) bool {
	if x, ok := govcAnaNum(a); ok {
		if y, ok2 := govcAnaNum(b); ok2 {
			d := x - y
			return d < 1e-9 && d > -1e-9
		}
	}
	return reflect.DeepEqual(a, b)
}

func govcAnaNum(v any) (float64, bool) {
	switch x := v.(type) {
	case int:
		return float64(x), true
	case int64:
		return float64(x), true
	case float64:
		return x, true
	}
	return 0, false
}

func TestGovcBounded_analytic_partitions(t *testing.T) {
	rng := rand.New(rand.NewSource(7))
	cases, fails := 0, 0
	report := func(item string, feed int, detail string) {
		fails++
		fmt.Printf("GOVC-BOUNDED-FAIL analytic item=`%s` feed=%d: %s\n", item, feed, detail)
	}
	for _, it := range govcAnaItems() {
		sql := "SELECT id, k, " + it.sql + " OVER (PARTITION BY k) AS f FROM stream"
		nfeeds := 40
		if os.Getenv("GOVC_BOUND") == "thorough" {
			nfeeds = 160
		}
		for feed := 0; feed < nfeeds; feed++ {
			cases++
			var rows []map[string]any
			for i := 0; i < 12; i++ {
				var v any = float64(rng.Intn(5))
				if rng.Intn(5) == 0 {
					v = nil
				}
				rows = append(rows, map[string]any{"id": i, "k": []string{"p", "q", "r"}[rng.Intn(3)], "v": v})
			}
			inter, err := govcAnaRun(sql, rows, false)
			if err != nil {
				report(it.sql, feed, "execute/emit: "+err.Error())
				break
			}
			// (1) both API paths agree
			viaSink, err := govcAnaRun(sql, rows, true)
			if err != nil || len(viaSink) != len(inter) {
				report(it.sql, feed, fmt.Sprintf("Emit delivered %d rows, EmitSync %d (%v)", len(viaSink), len(inter), err))
				continue
			}
			bad := ""
			for i := range inter {
				if inter[i] == nil || !govcNumEq(inter[i]["f"], viaSink[i]["f"]) || !govcNumEq(inter[i]["id"], viaSink[i]["id"]) {
					bad = fmt.Sprintf("row %d: EmitSync f=%v, sink f=%v", i, inter[i]["f"], viaSink[i]["f"])
					break
				}
			}
			if bad != "" {
				report(it.sql, feed, bad)
				continue
			}
			// (2) every partition behaves as if fed alone; (3) definitions
			for _, part := range []string{"p", "q", "r"} {
				var own []map[string]any
				var idx []int
				for i, r := range rows {
					if r["k"] == part {
						own = append(own, r)
						idx = append(idx, i)
					}
				}
				alone, err := govcAnaRun(sql, own, false)
				if err != nil {
					bad = err.Error()
					break
				}
				var hist []any
				for j, i := range idx {
					if !govcNumEq(inter[i]["f"], alone[j]["f"]) {
						bad = fmt.Sprintf("partition %s row id=%d: interleaved f=%v, alone f=%v", part, i, inter[i]["f"], alone[j]["f"])
						break
					}
					if it.oracle != nil {
						want := it.oracle(hist, rows[i]["v"])
						if !govcNumEq(inter[i]["f"], want) {
							bad = fmt.Sprintf("partition %s row id=%d (v=%v, earlier %v): f=%v, definition gives %v", part, i, rows[i]["v"], hist, inter[i]["f"], want)
							break
						}
					}
					hist = append(hist, rows[i]["v"])
				}
				if bad != "" {
					break
				}
			}
			if bad != "" {
				report(it.sql, feed, bad)
			}
		}
	}
	fmt.Printf("GOVC-BOUNDED-DONE analytic cases=%d failures=%d\n", cases, fails)
	if fails > 0 {
		t.Fail()
	}
}

// several analytic fields in one query: every field sees the input row only, so each column of the combined query equals
// the column of the query that has this field alone (also when an alias re-uses an input column name)
func TestGovcBounded_analytic_fields_are_independent(t *testing.T) {
	rng := rand.New(rand.NewSource(77))
	combos := [][][2]string{
		{{"acc_count(v) OVER (PARTITION BY k)", "n"}, {"had_changed(true, v) OVER (PARTITION BY k)", "ch"}, {"acc_sum(v) OVER (PARTITION BY k)", "total"}},
		{{"lag(v) OVER (PARTITION BY k)", "v"}, {"acc_sum(v) OVER (PARTITION BY k)", "total"}},
		{{"latest(v) OVER (PARTITION BY k)", "w"}, {"lag(w) OVER (PARTITION BY k)", "pw"}, {"acc_max(v) OVER (PARTITION BY k)", "m"}},
		{{"acc_sum(v) OVER (PARTITION BY k)", "s"}, {"lag(v, 2) OVER (PARTITION BY k)", "l2"}},
	}
	feeds := 10
	if os.Getenv("GOVC_BOUND") == "thorough" {
		feeds = 40
	}
	cases, fails := 0, 0
	for ci, combo := range combos {
		for f := 0; f < feeds; f++ {
			cases++
			var rows []map[string]any
			for i := 0; i < 12; i++ {
				r := map[string]any{"id": i, "k": []string{"a", "b", "c"}[rng.Intn(3)], "w": float64(rng.Intn(5))}
				if rng.Intn(5) > 0 {
					r["v"] = float64(rng.Intn(9))
				} else if rng.Intn(2) == 0 {
					r["v"] = nil
				}
				rows = append(rows, r)
			}
			var items []string
			for _, it := range combo {
				items = append(items, it[0]+" AS "+it[1])
			}
			all, err := govcAnaRun("SELECT id, "+strings.Join(items, ", ")+" FROM stream", rows, false)
			detail := ""
			if err != nil {
				detail = "combined query: " + err.Error()
			}
			for _, it := range combo {
				if detail != "" {
					break
				}
				one, err := govcAnaRun("SELECT id, "+it[0]+" AS "+it[1]+" FROM stream", rows, false)
				if err != nil {
					detail = "single query " + it[0] + ": " + err.Error()
					break
				}
				for i := range rows {
					if i >= len(all) || i >= len(one) || !govcNumEq(all[i][it[1]], one[i][it[1]]) {
						detail = fmt.Sprintf("row %d column %s (%s): %v in the combined query, %v alone", i, it[1], it[0], all[i][it[1]], one[i][it[1]])
						break
					}
				}
			}
			if detail != "" {
				fails++
				if fails <= 8 {
					fmt.Printf("GOVC-BOUNDED-FAIL analytic_fields_independent combo=%d rows=%v: %s\n", ci, rows, detail)
				}
			}
		}
	}
	fmt.Printf("GOVC-BOUNDED-DONE analytic_fields_independent cases=%d failures=%d\n", cases, fails)
	if fails > 0 {
		t.Fail()
	}
}

// analytic calls in WHERE with an OVER clause (PARTITION BY alone, WHEN alone, both): which rows of a partition pass must
// not depend on the rows of other partitions interleaved in between
func TestGovcBounded_where_analytic_partitions(t *testing.T) {
	rng := rand.New(rand.NewSource(707))
	wheres := []string{
		"lag(v) OVER (PARTITION BY k) < v",
		"lag(v) OVER (PARTITION BY k WHEN v > 0) < v",
		"had_changed(true, v) OVER (PARTITION BY k WHEN v > 1)",
		"v > lag(v, 1, 0) OVER (PARTITION BY k WHEN v > 0)",
		"lag(v) OVER (PARTITION BY `k`) < v", // a back-quoted partition column
		"lag(v) OVER (PARTITION BY `k` WHEN v > 0) < v",
	}
	cases, fails := 0, 0
	for _, w := range wheres {
		sql := "SELECT id, k FROM stream WHERE " + w
		nfeeds := 10
		if os.Getenv("GOVC_BOUND") == "thorough" {
			nfeeds = 40
		}
		for feed := 0; feed < nfeeds; feed++ {
			cases++
			var rows []map[string]any
			for i := 0; i < 14; i++ {
				rows = append(rows, map[string]any{"id": i, "k": []string{"p", "q", "r"}[rng.Intn(3)], "v": float64(rng.Intn(5))})
			}
			inter, err := govcAnaRun(sql, rows, false)
			if err != nil {
				fails++
				fmt.Printf("GOVC-BOUNDED-FAIL where_analytic where=`%s` feed=%d: %v\n", w, feed, err)
				break
			}
			bad := ""
			for _, part := range []string{"p", "q", "r"} {
				var own []map[string]any
				var idx []int
				for i, r := range rows {
					if r["k"] == part {
						own = append(own, r)
						idx = append(idx, i)
					}
				}
				alone, err := govcAnaRun(sql, own, false)
				if err != nil {
					bad = err.Error()
					break
				}
				for j, i := range idx {
					if (inter[i] == nil) != (alone[j] == nil) {
						bad = fmt.Sprintf("partition %s row id=%d (v=%v): passes interleaved=%v, alone=%v", part, i, rows[i]["v"], inter[i] != nil, alone[j] != nil)
						break
					}
				}
				if bad != "" {
					break
				}
			}
			if bad != "" {
				fails++
				fmt.Printf("GOVC-BOUNDED-FAIL where_analytic where=`%s` feed=%d: %s\n", w, feed, bad)
			}
		}
	}
	fmt.Printf("GOVC-BOUNDED-DONE where_analytic cases=%d failures=%d\n", cases, fails)
	if fails > 0 {
		t.Fail()
	}
}
