// govc:pkg stream
// govc:bound key tuples of arity 1..2 over a pool of 49 values: strings with separator/tag look-alikes (unit, record and group separators, NUL, '|', ',', values ending in the escape character), ints and floats of every width (1 vs 1.0 vs int64(1) vs float32(1) vs int32(1) vs uint(1), 2^53, 2^53+1), bools, NULL; all pairs of tuples compared
// Bounded stand-in (NOT a proof): encodeKey gives two key tuples the same table key iff every component matches
// (numbers numerically, strings exactly, NULL with NULL, no cross-type matches).
package stream

import (
	"fmt"
	"math/big"
	"testing"
)

func govcNum(v any) (*big.Rat, bool) {
	switch x := v.(type) {
	case int:
		return new(big.Rat).SetInt64(int64(x)), true
	case int64:
		return new(big.Rat).SetInt64(x), true
	case uint64:
		return new(big.Rat).SetInt(new(big.Int).SetUint64(x)), true
	case float64:
		r := new(big.Rat)
		r.SetFloat64(x)
		return r, true
	case float32:
		r := new(big.Rat)
		r.SetFloat64(float64(x))
		return r, true
	case int32:
		return new(big.Rat).SetInt64(int64(x)), true
	case uint32:
		return new(big.Rat).SetInt64(int64(x)), true
	case uint:
		return new(big.Rat).SetInt(new(big.Int).SetUint64(uint64(x))), true
	}
	return nil, false
}

func govcKeyEq(a, b any) bool {
	if a == nil || b == nil {
		return a == nil && b == nil
	}
	if x, ok := govcNum(a); ok {
		if y, ok2 := govcNum(b); ok2 {
			return x.Cmp(y) == 0
		}
		return false
	}
	if _, ok := govcNum(b); ok {
		return false
	}
	return a == b
}

func TestGovcBounded_table_keys(t *testing.T) {
	pool := []any{nil, "", "a", "b", "\x1f", "a\x1f", "\x1fa", "a\x1fs:b", "b\x1fs:b", "s:b", "s:a", "n:1", "1", "<nil>", "b:true", "\\", "a\\", "a\x1fs:b\\", "b\x1fs:c", "c", "\\\x1f", true, false,
		// other control characters a changed separator could be, alone and as imitations of the framing between two parts
		"\x1e", "a\x1es:b", "b\x1es:b", "\x1d", "a\x1ds:b", "\x00", "a\x00s:b", "a|s:b", "a,s:b",
		1, 1.0, int64(1), 2, 1.5, int64(9007199254740992), int64(9007199254740993), 1e19, 2e19, uint64(18446744073709551615), uint64(10000000000000000000),
		// the narrow numeric types: the same numbers again, and one only a float32 holds exactly like that
		float32(1), float32(1.5), float32(2), int32(1), uint32(2), uint(1)}
	var tuples [][]any
	for _, a := range pool {
		tuples = append(tuples, []any{a})
	}
	for _, a := range pool {
		for _, b := range pool {
			tuples = append(tuples, []any{a, b})
		}
	}
	keys := make([]string, len(tuples))
	for i, tu := range tuples {
		keys[i] = encodeKey(tu)
	}
	cases, fails := 0, 0
	for i := range tuples {
		for j := i + 1; j < len(tuples); j++ {
			if len(tuples[i]) != len(tuples[j]) {
				continue
			}
			cases++
			same := true
			for c := range tuples[i] {
				if !govcKeyEq(tuples[i][c], tuples[j][c]) {
					same = false
				}
			}
			if (keys[i] == keys[j]) != same {
				fails++
				if fails <= 6 {
					fmt.Printf("GOVC-BOUNDED-FAIL encodeKey: %#v and %#v: match=%v but keys %q / %q\n", tuples[i], tuples[j], same, keys[i], keys[j])
				}
			}
		}
	}
	// single value and one-element tuple address the same row
	for _, a := range pool {
		cases++
		if encodeKey(a) != encodeKey([]any{a}) {
			fails++
			fmt.Printf("GOVC-BOUNDED-FAIL encodeKey: single value %#v and its 1-tuple differ\n", a)
		}
	}
	fmt.Printf("GOVC-BOUNDED-DONE table_keys cases=%d failures=%d\n", cases, fails)
	if fails > 0 {
		t.Fail()
	}
}
