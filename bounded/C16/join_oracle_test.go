// govc:pkg .
// govc:bound INNER and LEFT JOIN x single and composite ON keys (the composite key written in both orders) x 40 (thorough: 200) random histories of 30 steps (table upserts / deletes interleaved with emitted rows; keys are strings with separator bytes, ints, int-valued floats, NULL and missing)
// govc:also C20
// Bounded stand-in (NOT a proof) for the wiring around the table store under contract (ON parsing, key derivation,
// lookup, INNER/LEFT handling, projection of joined columns): each row is enriched from the table state at the moment it is
// processed.
package streamsql

import (
	"os"
	"fmt"
	"math/rand"
	"testing"
)

func TestGovcBounded_join_enrichment(t *testing.T) {
	rng := rand.New(rand.NewSource(5))
	keys := []any{"d1", "d2", "a\x1fb", "a", "b", 7, 8, "7"}
	cases, fails := 0, 0
	for _, kind := range []string{"INNER", "LEFT"} {
		for _, composite := range []bool{false, true} {
			nhist := 40
			if os.Getenv("GOVC_BOUND") == "thorough" {
				nhist = 200
			}
			for hist := 0; hist < nhist; hist++ {
				cases++
				on := "deviceId = m.deviceId"
				if composite {
					on += " AND tenant = m.tenant"
					if hist%2 == 1 {
						// the key fields in the other (not alphabetical) order: index and lookup tuple must both follow the ON clause
						on = "tenant = m.tenant AND deviceId = m.deviceId"
					}
				}
				join := "JOIN"
				if kind == "LEFT" {
					join = "LEFT JOIN"
				}
				sql := "SELECT deviceId, temperature, m.location FROM stream " + join + " meta m ON " + on
				s := New()
				if err := s.Execute(sql); err != nil {
					fails++
					fmt.Printf("GOVC-BOUNDED-FAIL join query=`%s`: execute: %v\n", sql, err)
					s.Stop()
					break
				}
				src, err := s.RegisterTable("meta", nil)
				if err != nil {
					fails++
					fmt.Printf("GOVC-BOUNDED-FAIL join query=`%s`: RegisterTable: %v\n", sql, err)
					s.Stop()
					break
				}
				type tk struct{ d, t any }
				table := map[tk]string{}
				detail := ""
				for step := 0; step < 30 && detail == ""; step++ {
					d := keys[rng.Intn(len(keys))]
					var tn any = "t1"
					if composite {
						tn = []any{"t1", "t2"}[rng.Intn(2)]
					}
					switch rng.Intn(4) {
					case 0: // upsert
						loc := fmt.Sprintf("loc%d", step)
						row := map[string]any{"deviceId": d, "location": loc}
						if composite {
							row["tenant"] = tn
						}
						if err := s.UpsertTable("meta", row); err != nil {
							detail = fmt.Sprintf("step %d: upsert %v: %v", step, row, err)
						}
						table[tk{d, tn}] = loc
					case 1: // delete
						if composite && hist%2 == 1 {
							src.Delete([]any{tn, d}) // a key tuple follows the order of the ON clause
						} else if composite {
							src.Delete([]any{d, tn})
						} else {
							src.Delete(d)
						}
						delete(table, tk{d, tn})
					default: // emit
						row := map[string]any{"deviceId": d, "temperature": float64(step)}
						if composite {
							row["tenant"] = tn
						}
						res, err := s.EmitSync(row)
						if err != nil {
							detail = fmt.Sprintf("step %d: EmitSync: %v", step, err)
							break
						}
						loc, hit := table[tk{d, tn}]
						switch {
						case hit && (res == nil || res["location"] != loc):
							detail = fmt.Sprintf("step %d: row %v matched table row with location %q, result %v", step, row, loc, res)
						case !hit && kind == "INNER" && res != nil:
							detail = fmt.Sprintf("step %d: row %v has no table match, INNER JOIN delivered %v", step, row, res)
						case !hit && kind == "LEFT" && (res == nil || res["location"] != nil):
							detail = fmt.Sprintf("step %d: row %v has no table match, LEFT JOIN delivered %v (location must be NULL)", step, row, res)
						}
						if detail == "" && res != nil && (res["temperature"] != float64(step) || fmt.Sprint(res["deviceId"]) != fmt.Sprint(d)) {
							detail = fmt.Sprintf("step %d: stream columns changed: %v from %v", step, res, row)
						}
					}
				}
				s.Stop()
				if detail != "" {
					fails++
					fmt.Printf("GOVC-BOUNDED-FAIL join query=`%s` history=%d: %s\n", sql, hist, detail)
				}
			}
		}
	}
	fmt.Printf("GOVC-BOUNDED-DONE join cases=%d failures=%d\n", cases, fails)
	if fails > 0 {
		t.Fail()
	}
}
