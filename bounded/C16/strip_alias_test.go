// govc:pkg rsql
// govc:bound ON operands of 1..3 dot-separated segments over {s, m, meta, id, x} (155 paths) x stream alias in {"", s, meta} x table alias in {m, meta, s}
// govc:also C11
// Bounded stand-in (NOT a proof) for stripAliasPrefix (strings.SplitN, outside the modelled library): an ON operand loses
// its first segment exactly when that segment is the stream alias or this JOIN's alias; everything after it is kept
// verbatim, and an operand without such a qualifier is untouched.
package rsql

import (
	"fmt"
	"strings"
	"testing"
)

func TestGovcBounded_strip_alias_prefix(t *testing.T) {
	segs := []string{"s", "m", "meta", "id", "x"}
	var paths []string
	for _, a := range segs {
		paths = append(paths, a)
		for _, b := range segs {
			paths = append(paths, a+"."+b)
			for _, c := range segs {
				paths = append(paths, a+"."+b+"."+c)
			}
		}
	}
	cases, fails := 0, 0
	for _, sa := range []string{"", "s", "meta"} {
		for _, ta := range []string{"m", "meta", "s"} {
			for _, p := range paths {
				cases++
				want := p
				if i := strings.Index(p, "."); i > 0 && (p[:i] == sa || p[:i] == ta) {
					want = p[i+1:]
				}
				if got := stripAliasPrefix(p, sa, ta); got != want {
					fails++
					if fails <= 6 {
						fmt.Printf("GOVC-BOUNDED-FAIL strip_alias: stripAliasPrefix(%q, stream alias %q, table alias %q) = %q, want %q\n", p, sa, ta, got, want)
					}
				}
			}
		}
	}
	fmt.Printf("GOVC-BOUNDED-DONE strip_alias cases=%d failures=%d\n", cases, fails)
	if fails > 0 {
		t.Fail()
	}
}
