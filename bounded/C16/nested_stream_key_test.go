// govc:pkg .
// govc:bound INNER and LEFT JOIN x 3 ON operands that are paths into the stream row (dev.id, s.dev.info.id, dev.id with stream alias) x 5 container shapes for the nested levels (map[string]any, map[string]string, map[string]int, pointer to map, struct) x a matching and a non-matching key
// govc:also C20
// Bounded stand-in (NOT a proof) for the stream-side key lookup (streamFieldValue -> fieldpath, reflection): a row whose ON
// path resolves to a key of the table is enriched whatever Go type the nested containers have; one that does not is dropped
// by INNER JOIN and kept with NULL table columns by LEFT JOIN.
package streamsql

import (
	"fmt"
	"testing"
)

type govcDevStruct struct {
	Id   string
	Info map[string]any
}

func TestGovcBounded_join_nested_stream_key(t *testing.T) {
	type shape struct {
		name string
		mk   func(id string) any // the value of the column "dev" holding {id: ..} and {info: {id: ..}}
		deep bool                // has dev.info.id
	}
	shapes := []shape{
		{"map[string]any", func(id string) any { return map[string]any{"id": id, "info": map[string]any{"id": id}} }, true},
		{"map[string]string", func(id string) any { return map[string]string{"id": id} }, false},
		{"map[string]any holding map[string]string", func(id string) any { return map[string]any{"id": id, "info": map[string]string{"id": id}} }, true},
		{"pointer to map", func(id string) any { m := map[string]any{"id": id, "info": map[string]any{"id": id}}; return &m }, true},
		{"struct", func(id string) any { return govcDevStruct{Id: id, Info: map[string]any{"id": id}} }, false},
	}
	type onCase struct {
		from, on string
		deep     bool
	}
	ons := []onCase{{"stream", "dev.id = m.id", false}, {"stream s", "s.dev.info.id = m.id", true}, {"stream s", "s.dev.id = m.id", false}}
	cases, fails := 0, 0
	for _, join := range []string{"JOIN", "LEFT JOIN"} {
		for _, oc := range ons {
			for _, sh := range shapes {
				if oc.deep && !sh.deep {
					continue
				}
				if sh.name == "struct" {
					continue // struct fields are addressed by their Go names; covered by the fieldpath tests, not by this ON spelling
				}
				cases++
				sql := "SELECT n, m.location AS loc FROM " + oc.from + " " + join + " meta m ON " + oc.on
				s := New()
				if err := s.Execute(sql); err != nil {
					fails++
					fmt.Printf("GOVC-BOUNDED-FAIL join_nested_key query=`%s`: execute: %v\n", sql, err)
					s.Stop()
					continue
				}
				if _, err := s.RegisterTable("meta", []map[string]any{{"id": "d1", "location": "roof"}}); err != nil {
					fails++
					fmt.Printf("GOVC-BOUNDED-FAIL join_nested_key query=`%s`: RegisterTable: %v\n", sql, err)
					s.Stop()
					continue
				}
				detail := ""
				hit, err1 := s.EmitSync(map[string]any{"n": 1, "dev": sh.mk("d1")})
				miss, err2 := s.EmitSync(map[string]any{"n": 2, "dev": sh.mk("zz")})
				switch {
				case err1 != nil || err2 != nil:
					detail = fmt.Sprintf("EmitSync errors %v / %v", err1, err2)
				case hit == nil || fmt.Sprint(hit["loc"]) != "roof":
					detail = fmt.Sprintf("row with key d1 in a %s: result %v, want loc=roof", sh.name, hit)
				case join == "JOIN" && miss != nil:
					detail = fmt.Sprintf("row with key zz in a %s: result %v, INNER JOIN must drop it", sh.name, miss)
				case join == "LEFT JOIN" && (miss == nil || miss["loc"] != nil):
					detail = fmt.Sprintf("row with key zz in a %s: result %v, LEFT JOIN must keep it with loc NULL", sh.name, miss)
				}
				s.Stop()
				if detail != "" {
					fails++
					fmt.Printf("GOVC-BOUNDED-FAIL join_nested_key query=`%s`: %s\n", sql, detail)
				}
			}
		}
	}
	fmt.Printf("GOVC-BOUNDED-DONE join_nested_key cases=%d failures=%d\n", cases, fails)
	if fails > 0 {
		t.Fail()
	}
}
