// govc:pkg .
// govc:bound second test: 20 feeds of one query with FIVE aggregates over nested-field expressions that share their first field (sum(n.x), sum(n.x + n.y), max(n.x * 2), min(n.y), nth_value(n.x, 2)); third test: merge_agg over three batches of five values (float64 needing more than float32 precision, large integers, text with a comma, float32, bool); first test: 14 aggregate SELECT items (first_value / last_value over an expression whose first / last row is NULL included) (incl. a CASE argument that maps NULL / missing to a number, and arithmetic over two columns one of which may be NULL) (sum, avg, min, max, count(col), count(*), expression arguments) x 30 (thorough: 120) random feeds of 18 rows over 3 groups with NULL and missing inputs, two consecutive batches per group (state must not leak)
// Bounded stand-in (NOT a proof) for the wiring around the accumulators under contract (NULL skipping and numeric
// coercion in GroupAggregator.Add, expression arguments evaluated per row, reset between batches, partitioning by key).
package streamsql

import (
	"os"
	"fmt"
	"math"
	"math/rand"
	"reflect"
	"strconv"
	"strings"
	"sync"
	"testing"
	"time"
)

type govcAggItem struct {
	sql    string
	oracle func(vs []any) any // vs: the group's v values of the batch in arrival order (nil = NULL, missing skipped as NULL)
}

func govcAggNums(vs []any) []float64 {
	var xs []float64
	for _, v := range vs {
		if f, ok := v.(float64); ok {
			xs = append(xs, f)
		}
	}
	return xs
}

func govcAggItems() []govcAggItem {
	return []govcAggItem{
		// an expression argument that turns NULL / a missing column into a value: every row of the group counts
		{"SUM(CASE WHEN v IS NULL THEN 1 ELSE 0 END)", func(vs []any) any {
			n := 0.0
			for _, v := range vs {
				if v == nil {
					n++
				}
			}
			return n
		}},
		{"SUM(v)", func(vs []any) any {
			xs := govcAggNums(vs)
			if len(xs) == 0 {
				return nil
			}
			s := 0.0
			for _, x := range xs {
				s += x
			}
			return s
		}},
		{"AVG(v)", func(vs []any) any {
			xs := govcAggNums(vs)
			if len(xs) == 0 {
				return nil
			}
			s := 0.0
			for _, x := range xs {
				s += x
			}
			return s / float64(len(xs))
		}},
		{"MIN(v)", func(vs []any) any {
			xs := govcAggNums(vs)
			if len(xs) == 0 {
				return nil
			}
			m := xs[0]
			for _, x := range xs {
				m = math.Min(m, x)
			}
			return m
		}},
		{"MAX(v)", func(vs []any) any {
			xs := govcAggNums(vs)
			if len(xs) == 0 {
				return nil
			}
			m := xs[0]
			for _, x := range xs {
				m = math.Max(m, x)
			}
			return m
		}},
		{"COUNT(v)", func(vs []any) any { return float64(len(govcAggNums(vs))) }},
		{"COUNT(*)", func(vs []any) any { return float64(len(vs)) }},
		{"SUM(v * 2)", func(vs []any) any {
			xs := govcAggNums(vs)
			if len(xs) == 0 {
				return nil
			}
			s := 0.0
			for _, x := range xs {
				s += 2 * x
			}
			return s
		}},
		// arithmetic over two columns, one of which may be NULL: NULL + w is NULL, so the row is skipped (w is 10 in every row)
		{"SUM(v + w)", func(vs []any) any {
			xs := govcAggNums(vs)
			if len(xs) == 0 {
				return nil
			}
			s := 0.0
			for _, x := range xs {
				s += x + 10
			}
			return s
		}},
		{"COUNT(v + w)", func(vs []any) any { return float64(len(govcAggNums(vs))) }},
		{"MIN(w - v)", func(vs []any) any {
			xs := govcAggNums(vs)
			if len(xs) == 0 {
				return nil
			}
			m := 10 - xs[0]
			for _, x := range xs {
				m = math.Min(m, 10-x)
			}
			return m
		}},
		// first_value / last_value report the first / last row's value even when it is NULL, also over an expression argument
		{"FIRST_VALUE(v * 2)", func(vs []any) any {
			if f, ok := vs[0].(float64); ok {
				return 2 * f
			}
			return nil
		}},
		{"LAST_VALUE(v * 2)", func(vs []any) any {
			if f, ok := vs[len(vs)-1].(float64); ok {
				return 2 * f
			}
			return nil
		}},
		{"MAX(v + 1)", func(vs []any) any {
			xs := govcAggNums(vs)
			if len(xs) == 0 {
				return nil
			}
			m := xs[0] + 1
			for _, x := range xs {
				m = math.Max(m, x+1)
			}
			return m
		}},
	}
}

func TestGovcBounded_aggregates_per_group_and_batch(t *testing.T) {
	rng := rand.New(rand.NewSource(3))
	cases, fails := 0, 0
	for _, it := range govcAggItems() {
		nfeeds := 30
		if os.Getenv("GOVC_BOUND") == "thorough" {
			nfeeds = 120
		}
		for feed := 0; feed < nfeeds; feed++ {
			cases++
			sql := "SELECT g, " + it.sql + " AS f FROM stream GROUP BY g, CountingWindow(3)"
			s := New()
			if err := s.Execute(sql); err != nil {
				fails++
				fmt.Printf("GOVC-BOUNDED-FAIL aggregates item=`%s`: execute: %v\n", it.sql, err)
				s.Stop()
				break
			}
			var mu sync.Mutex
			var got []map[string]any
			s.AddSyncSink(func(rs []map[string]any) {
				mu.Lock()
				defer mu.Unlock()
				got = append(got, rs...)
			})
			buf := map[string][]any{}
			var want []map[string]any
			for i := 0; i < 18; i++ {
				g := []string{"a", "b", "a|b"}[rng.Intn(3)]
				row := map[string]any{"g": g, "w": 10.0}
				var v any
				switch rng.Intn(6) {
				case 0:
					row["v"] = nil
				case 1: // missing
				default:
					v = float64(rng.Intn(9)) - 2
					row["v"] = v
				}
				s.Emit(row)
				buf[g] = append(buf[g], v)
				if len(buf[g]) == 3 {
					want = append(want, map[string]any{"g": g, "f": it.oracle(buf[g])})
					buf[g] = nil
				}
			}
			deadline := time.Now().Add(15 * time.Second)
			for time.Now().Before(deadline) {
				mu.Lock()
				n := len(got)
				mu.Unlock()
				if n >= len(want) {
					break
				}
				time.Sleep(time.Millisecond)
			}
			time.Sleep(5 * time.Millisecond)
			mu.Lock()
			res := append([]map[string]any(nil), got...)
			mu.Unlock()
			s.Stop()
			detail := ""
			if len(res) != len(want) {
				detail = fmt.Sprintf("%d batches delivered, %d groups reached 3 rows", len(res), len(want))
			} else {
				for i := range want {
					if res[i]["g"] != want[i]["g"] {
						detail = fmt.Sprintf("batch %d: group %v, expected %v", i, res[i]["g"], want[i]["g"])
						break
					}
					w := want[i]["f"]
					g := res[i]["f"]
					if w == nil {
						if g != nil {
							detail = fmt.Sprintf("batch %d (group %v): f=%v, no usable input so NULL expected", i, want[i]["g"], g)
						}
					} else {
						y, ok := govcAnaNumAgg(g)
						if !ok || math.Abs(y-w.(float64)) > 1e-9 {
							detail = fmt.Sprintf("batch %d (group %v): f=%v (%T), definition gives %v", i, want[i]["g"], g, g, w)
						}
					}
					if detail != "" {
						break
					}
				}
			}
			if detail != "" {
				fails++
				fmt.Printf("GOVC-BOUNDED-FAIL aggregates item=`%s` feed=%d: %s\n", it.sql, feed, detail)
			}
		}
	}
	fmt.Printf("GOVC-BOUNDED-DONE aggregates cases=%d failures=%d\n", cases, fails)
	if fails > 0 {
		t.Fail()
	}
	_ = reflect.DeepEqual
}

func govcAnaNumAgg(v any) (float64, bool) {
	switch x := v.(type) {
	case int:
		return float64(x), true
	case int64:
		return float64(x), true
	case float64:
		return x, true
	}
	return 0, false
}


// Several aggregates of one query whose expression arguments start with the same (nested) field: each aggregate must be
// fed its OWN expression evaluated per row.
func TestGovcBounded_aggregates_expression_arguments_per_aggregate(t *testing.T) {
	rng := rand.New(rand.NewSource(17))
	cases, fails := 0, 0
	sql := "SELECT g, sum(n.x) AS a, sum(n.x + n.y) AS b, max(n.x * 2) AS c, min(n.y) AS d, nth_value(n.x, 2) AS e FROM stream GROUP BY g, CountingWindow(3)"
	for feed := 0; feed < 20; feed++ {
		cases++
		s := New()
		if err := s.Execute(sql); err != nil {
			fails++
			fmt.Printf("GOVC-BOUNDED-FAIL aggregates_multi: execute: %v\n", err)
			s.Stop()
			break
		}
		var mu sync.Mutex
		var got []map[string]any
		s.AddSyncSink(func(rs []map[string]any) {
			mu.Lock()
			defer mu.Unlock()
			got = append(got, rs...)
		})
		type xy struct{ x, y float64 }
		buf := map[string][]xy{}
		var want []map[string]float64
		var wantG []string
		for i := 0; i < 12; i++ {
			g := []string{"a", "b"}[rng.Intn(2)]
			v := xy{float64(rng.Intn(7)), float64(rng.Intn(7))}
			s.Emit(map[string]any{"g": g, "n": map[string]any{"x": v.x, "y": v.y}})
			buf[g] = append(buf[g], v)
			if len(buf[g]) == 3 {
				b := buf[g]
				w := map[string]float64{"a": b[0].x + b[1].x + b[2].x, "b": b[0].x + b[0].y + b[1].x + b[1].y + b[2].x + b[2].y,
					"c": math.Max(math.Max(b[0].x, b[1].x), b[2].x) * 2, "d": math.Min(math.Min(b[0].y, b[1].y), b[2].y), "e": b[1].x}
				want = append(want, w)
				wantG = append(wantG, g)
				buf[g] = nil
			}
		}
		deadline := time.Now().Add(15 * time.Second)
		for time.Now().Before(deadline) {
			mu.Lock()
			n := len(got)
			mu.Unlock()
			if n >= len(want) {
				break
			}
			time.Sleep(time.Millisecond)
		}
		time.Sleep(5 * time.Millisecond)
		mu.Lock()
		res := append([]map[string]any(nil), got...)
		mu.Unlock()
		s.Stop()
		detail := ""
		if len(res) != len(want) {
			detail = fmt.Sprintf("%d batches delivered, %d expected", len(res), len(want))
		}
		for i := 0; detail == "" && i < len(want); i++ {
			if res[i]["g"] != wantG[i] {
				detail = fmt.Sprintf("batch %d: group %v, expected %v", i, res[i]["g"], wantG[i])
			}
			for k, w := range want[i] {
				y, ok := govcAnaNumAgg(res[i][k])
				if !ok || math.Abs(y-w) > 1e-9 {
					detail = fmt.Sprintf("batch %d (group %v): %s=%v, definition gives %v", i, wantG[i], k, res[i][k], w)
				}
			}
		}
		if detail != "" {
			fails++
			fmt.Printf("GOVC-BOUNDED-FAIL aggregates_multi feed=%d: %s\n", feed, detail)
		}
	}
	fmt.Printf("GOVC-BOUNDED-DONE aggregates_multi cases=%d failures=%d\n", cases, fails)
	if fails > 0 {
		t.Fail()
	}
}

// merge_agg joins the values' spellings with ','; a float64 is spelled with the shortest digits that give the same
// float64 back (so 16777217 is not 16777216), an integer in decimal, text as it is; two consecutive batches.
func TestGovcBounded_merge_agg_spelling(t *testing.T) {
	batches := [][]any{
		{16777217.0, 1234567.891, 0.1, 3.0, -2.5},
		{int(7), int64(9007199254740993), "a,b", 2.5e-7, 1e21},
		{float32(1.5), true, "x", 100.0, 123456789.125},
	}
	spell := func(v any) string {
		switch x := v.(type) {
		case float64:
			return strconv.FormatFloat(x, 'f', -1, 64)
		case float32:
			return strconv.FormatFloat(float64(x), 'f', -1, 32)
		}
		return fmt.Sprint(v)
	}
	s := New()
	defer s.Stop()
	cases, fails := 0, 0
	if err := s.Execute("SELECT g, merge_agg(v) AS m FROM stream GROUP BY g, CountingWindow(5)"); err != nil {
		fmt.Printf("GOVC-BOUNDED-FAIL merge_agg_spelling: execute: %v\n", err)
		fmt.Printf("GOVC-BOUNDED-DONE merge_agg_spelling cases=1 failures=1\n")
		t.Fail()
		return
	}
	var mu sync.Mutex
	var got []map[string]any
	s.AddSyncSink(func(rs []map[string]any) {
		mu.Lock()
		defer mu.Unlock()
		got = append(got, rs...)
	})
	for bi, b := range batches {
		cases++
		var want []string
		for _, v := range b {
			want = append(want, spell(v))
			s.Emit(map[string]any{"g": "k", "v": v})
		}
		deadline := time.Now().Add(15 * time.Second)
		for time.Now().Before(deadline) {
			mu.Lock()
			n := len(got)
			mu.Unlock()
			if n > bi {
				break
			}
			time.Sleep(time.Millisecond)
		}
		mu.Lock()
		var m any
		if len(got) > bi {
			m = got[bi]["m"]
		}
		mu.Unlock()
		if fmt.Sprint(m) != strings.Join(want, ",") {
			fails++
			fmt.Printf("GOVC-BOUNDED-FAIL merge_agg_spelling batch=%d values=%v: merge_agg = %q, want %q\n", bi, b, fmt.Sprint(m), strings.Join(want, ","))
		}
	}
	fmt.Printf("GOVC-BOUNDED-DONE merge_agg_spelling cases=%d failures=%d\n", cases, fails)
	if fails > 0 {
		t.Fail()
	}
}
