// govc:pkg cep
// govc:bound 10 directed pattern/stream pairs under every SKIP mode, then 3000 random greedy patterns (30000 with GOVC_BOUND=thorough) over <= 4 variables built from sequence, alternation, group, ?, *, +, {n}, {n,m} and PERMUTE (never matching the empty word) x every SKIP mode x one stream of <= 14 rows split over two interleaved partitions; DEFINE conditions on the current row only, once with disjoint and once with overlapping variables; no WITHIN expiry; plus 200 (thorough: 1500) streams each for two DEFINE shapes that aggregate over the match so far (running SUM budget, comparison with AVG of an earlier variable)
// Bounded stand-in (NOT a proof) for the NFA construction and the run bookkeeping (closures and recursion over pattern
// trees, outside the contracts): the matches of a partition are exactly those of a reference matcher that works on the
// pattern tree directly - starts leftmost-first under the SKIP rule, the longest match per start, MATCH_NUMBER 1,2,3..,
// pending accepting runs flushed at the end, other partitions without influence. SKIP TO FIRST/LAST <var> uses the rule the
// contracts pin for skipTo (resume after the labelled row, past the last row when the label is absent) and is only
// exercised with disjoint variables, where the labelling of a match is unique.
package cep

import (
	"fmt"
	"math/rand"
	"os"
	"strings"
	"testing"

	"github.com/rulego/streamsql/types"
)

type govcPat struct {
	kind     int // 0 literal 1 sequence 2 alternation 3 repetition 4 group 5 permute
	sym      int
	kids     []*govcPat
	min, max int
}

var govcSyms = []string{"A", "B", "C", "D"}

func govcGenPat(rng *rand.Rand, depth, nsym int) *govcPat {
	if depth <= 0 || rng.Intn(10) < 3 {
		return &govcPat{kind: 0, sym: rng.Intn(nsym)}
	}
	switch rng.Intn(8) {
	case 0, 1, 2:
		n := 2 + rng.Intn(2)
		p := &govcPat{kind: 1}
		for i := 0; i < n; i++ {
			p.kids = append(p.kids, govcGenPat(rng, depth-1, nsym))
		}
		return p
	case 3:
		n := 2 + rng.Intn(2)
		p := &govcPat{kind: 2}
		for i := 0; i < n; i++ {
			p.kids = append(p.kids, govcGenPat(rng, depth-1, nsym))
		}
		return p
	case 4, 5:
		p := &govcPat{kind: 3, kids: []*govcPat{govcGenPat(rng, depth-1, nsym)}}
		switch rng.Intn(5) {
		case 0:
			p.min, p.max = 0, 1
		case 1:
			p.min, p.max = 0, -1
		case 2:
			p.min, p.max = 1, -1
		case 3:
			p.min = 1 + rng.Intn(3)
			p.max = p.min
		default:
			p.min = rng.Intn(3)
			p.max = p.min + 1 + rng.Intn(2)
		}
		return p
	case 6:
		return &govcPat{kind: 4, kids: []*govcPat{govcGenPat(rng, depth-1, nsym)}}
	default:
		if nsym < 2 {
			return &govcPat{kind: 0, sym: 0}
		}
		n := 2 + rng.Intn(nsym-1)
		perm := rng.Perm(nsym)[:n]
		p := &govcPat{kind: 5}
		for _, s := range perm {
			p.kids = append(p.kids, &govcPat{kind: 0, sym: s})
		}
		return p
	}
}

func (p *govcPat) String() string {
	switch p.kind {
	case 0:
		return govcSyms[p.sym]
	case 1, 2, 5:
		var ks []string
		for _, k := range p.kids {
			ks = append(ks, k.String())
		}
		switch p.kind {
		case 1:
			return "(" + strings.Join(ks, " ") + ")"
		case 2:
			return "(" + strings.Join(ks, " | ") + ")"
		}
		return "PERMUTE(" + strings.Join(ks, ", ") + ")"
	case 3:
		return fmt.Sprintf("%s{%d,%d}", p.kids[0], p.min, p.max)
	}
	return "(" + p.kids[0].String() + ")"
}

func (p *govcPat) node() *types.PatternNode {
	switch p.kind {
	case 0:
		return &types.PatternNode{Kind: types.PatternLiteral, Symbol: govcSyms[p.sym]}
	case 3:
		return &types.PatternNode{Kind: types.PatternRepetition, Children: []*types.PatternNode{p.kids[0].node()}, Quant: &types.Quantifier{Min: p.min, Max: p.max, Greedy: true}}
	}
	kind := map[int]types.PatternKind{1: types.PatternSequence, 2: types.PatternAlternation, 4: types.PatternGroup, 5: types.PatternPermute}[p.kind]
	n := &types.PatternNode{Kind: kind}
	for _, k := range p.kids {
		n.Children = append(n.Children, k.node())
	}
	return n
}

// govcEnds: the positions reachable after matching p from any position of `from` (sat[i][s]: row i may be labelled s).
func govcEnds(p *govcPat, sat [][]bool, from map[int]bool) map[int]bool {
	out := map[int]bool{}
	switch p.kind {
	case 0:
		for i := range from {
			if i < len(sat) && sat[i][p.sym] {
				out[i+1] = true
			}
		}
	case 1:
		cur := from
		for _, k := range p.kids {
			cur = govcEnds(k, sat, cur)
		}
		return cur
	case 2:
		for _, k := range p.kids {
			for e := range govcEnds(k, sat, from) {
				out[e] = true
			}
		}
	case 4:
		return govcEnds(p.kids[0], sat, from)
	case 3:
		cur := from
		for i := 0; i < p.min; i++ {
			cur = govcEnds(p.kids[0], sat, cur)
		}
		for e := range cur {
			out[e] = true
		}
		for i := p.min; p.max < 0 || i < p.max; i++ {
			cur = govcEnds(p.kids[0], sat, cur)
			grew := false
			for e := range cur {
				if !out[e] {
					out[e] = true
					grew = true
				}
			}
			if !grew {
				break
			}
		}
	case 5:
		idx := make([]int, len(p.kids))
		for i := range idx {
			idx[i] = i
		}
		var rec func(k int)
		rec = func(k int) {
			if k == len(idx) {
				cur := from
				for _, j := range idx {
					cur = govcEnds(p.kids[j], sat, cur)
				}
				for e := range cur {
					out[e] = true
				}
				return
			}
			for i := k; i < len(idx); i++ {
				idx[k], idx[i] = idx[i], idx[k]
				rec(k + 1)
				idx[k], idx[i] = idx[i], idx[k]
			}
		}
		rec(0)
	}
	return out
}

type govcMatch struct{ s, e int } // row numbers within the partition, 0-based, inclusive

// govcReference lists the matches of one partition under the skip rule.
func govcReference(p *govcPat, sat [][]bool, label []int, skip types.AfterMatchSkip, skipSym int) []govcMatch {
	var ms []govcMatch
	for s := 0; s < len(sat); {
		best := -1
		for e := range govcEnds(p, sat, map[int]bool{s: true}) {
			if e > s && e-1 > best {
				best = e - 1
			}
		}
		if best < 0 {
			s++
			continue
		}
		ms = append(ms, govcMatch{s, best})
		switch skip {
		case types.SkipToNextRow:
			s++
		case types.SkipToFirst, types.SkipToLast, types.SkipToVariable:
			at := -1
			for i := s; i <= best; i++ {
				if label[i] == skipSym {
					at = i
					if skip == types.SkipToFirst {
						break
					}
				}
			}
			if at < 0 {
				s = best + 1
			} else if at+1 > s {
				s = at + 1
			} else {
				s++
			}
		default:
			s = best + 1
		}
	}
	return ms
}

func govcNum(v any) int {
	switch x := v.(type) {
	case int:
		return x
	case int64:
		return int(x)
	case float64:
		return int(x)
	}
	return -1
}

func TestGovcBounded_cep_reference_matcher(t *testing.T) {
	iters := 3000
	if os.Getenv("GOVC_BOUND") == "thorough" {
		iters = 30000
	}
	rng := rand.New(rand.NewSource(15))
	cases, fails := 0, 0
	skips := []types.AfterMatchSkip{types.SkipPastLastRow, types.SkipToNextRow, types.SkipToFirst, types.SkipToLast, types.SkipToVariable}
	// directed cases first (shapes a uniform generator rarely produces): a short alternative that starts later than a long
	// one still running, an accepting prefix whose continuation fails, optional tails; each under every SKIP mode
	L := func(i int) *govcPat { return &govcPat{kind: 0, sym: i} }
	S := func(ks ...*govcPat) *govcPat { return &govcPat{kind: 1, kids: ks} }
	Alt := func(ks ...*govcPat) *govcPat { return &govcPat{kind: 2, kids: ks} }
	R := func(k *govcPat, min, max int) *govcPat { return &govcPat{kind: 3, kids: []*govcPat{k}, min: min, max: max} }
	type directed struct {
		pat *govcPat
		ks  []int
	}
	dirs := []directed{
		{Alt(S(L(0), L(1), L(2)), L(1)), []int{1, 2, 3}},
		{Alt(S(L(0), L(1), L(2)), L(1)), []int{1, 2, 0, 1, 2, 3}},
		{Alt(S(L(0), L(1)), S(L(0), L(1), L(2), L(3)), S(L(1), L(2))), []int{1, 2, 3, 0}},
		{R(S(L(0), L(1)), 1, -1), []int{1, 2, 1, 0}},
		{R(S(L(0), L(1)), 1, -1), []int{1, 2, 1, 2, 1, 0, 1, 2}},
		{S(L(0), R(S(L(1), L(2)), 0, -1)), []int{1, 2, 0}},
		{S(L(0), R(S(L(1), L(2)), 0, 1)), []int{1, 2, 0, 1, 2, 3}},
		{S(L(0), R(L(1), 1, -1), R(L(2), 0, 1)), []int{1, 2, 2, 3, 1, 2}},
		{Alt(S(L(0), R(L(1), 1, -1), L(2)), S(L(1), L(1))), []int{1, 2, 2, 2, 0}},
		{&govcPat{kind: 5, kids: []*govcPat{L(0), L(1), L(2)}}, []int{2, 3, 1, 3, 1, 2, 2, 1, 3}},
	}
	nDirected := len(dirs) * len(skips)
	for it := 0; it < iters+nDirected; it++ {
		nsym := 1 + rng.Intn(4)
		var pat *govcPat
		var fixed []int
		if it < nDirected {
			pat, fixed, nsym = dirs[it/len(skips)].pat, dirs[it/len(skips)].ks, 4
		} else {
			for {
				pat = govcGenPat(rng, 3, nsym)
				if !govcEnds(pat, nil, map[int]bool{0: true})[0] {
					break
				}
			}
		}
		overlapping := it >= nDirected && it%2 == 1
		skip := skips[rng.Intn(len(skips))]
		if it < nDirected {
			skip = skips[it%len(skips)]
		}
		if overlapping && skip >= types.SkipToFirst {
			skip = types.AfterMatchSkip(rng.Intn(2))
		}
		skipSym := rng.Intn(nsym)
		var defs []types.MatchDefine
		for i := 0; i < nsym; i++ {
			if overlapping {
				defs = append(defs, types.MatchDefine{Symbol: govcSyms[i], Cond: fmt.Sprintf("k >= %d", i+1)})
			} else {
				defs = append(defs, types.MatchDefine{Symbol: govcSyms[i], Cond: fmt.Sprintf("k == %d", i+1)})
			}
		}
		spec := &types.MatchRecognizeSpec{
			Pattern: pat.node(),
			Defines: defs,
			OrderBy: []types.OrderByField{{Expression: "ts"}},
			Measures: []types.Measure{{Expr: "FIRST(ts)", Alias: "s"}, {Expr: "LAST(ts)", Alias: "e"},
				{Expr: "COUNT(*)", Alias: "n"}, {Expr: "MATCH_NUMBER()", Alias: "mn"}},
			Skip: skip, SkipSymbol: govcSyms[skipSym],
		}
		n := 3 + rng.Intn(12)
		var rows []map[string]any
		var parts []string
		for i := 0; i < n && fixed == nil; i++ {
			rows = append(rows, map[string]any{"ts": i + 1, "k": rng.Intn(nsym + 1)})
			parts = append(parts, []string{"p", "q"}[rng.Intn(2)])
		}
		for i, k := range fixed {
			rows = append(rows, map[string]any{"ts": i + 1, "k": k})
			parts = append(parts, "p")
		}
		cases++
		label := fmt.Sprintf("pattern=%s skip=%d/%s overlapping=%v rows=%v parts=%v", pat, skip, govcSyms[skipSym], overlapping, rows, parts)
		e, err := NewEngine(spec)
		if err != nil {
			fails++
			fmt.Printf("GOVC-BOUNDED-FAIL cep_oracle %s: NewEngine: %v\n", label, err)
			continue
		}
		got := map[string][]map[string]any{}
		for i, r := range rows {
			c := map[string]any{}
			for k, v := range r {
				c[k] = v
			}
			for _, o := range e.Process(c, parts[i]) {
				got[parts[i]] = append(got[parts[i]], o)
			}
		}
		flushed := e.Flush()
		detail := ""
		for _, pk := range []string{"p", "q"} {
			var sat [][]bool
			var lab, tss []int
			for i, r := range rows {
				if parts[i] != pk {
					continue
				}
				k := r["k"].(int)
				row := make([]bool, 4)
				for s := 0; s < nsym; s++ {
					if overlapping {
						row[s] = k >= s+1
					} else {
						row[s] = k == s+1
					}
				}
				sat = append(sat, row)
				lab = append(lab, k-1)
				tss = append(tss, r["ts"].(int))
			}
			want := govcReference(pat, sat, lab, skip, skipSym)
			var ws []string
			for i, m := range want {
				ws = append(ws, fmt.Sprintf("[%d..%d n=%d mn=%d]", tss[m.s], tss[m.e], m.e-m.s+1, i+1))
			}
			// matches flushed at the end belong to the partition that holds their first row
			all := append([]map[string]any(nil), got[pk]...)
			for _, o := range flushed {
				for i := range tss {
					if tss[i] == govcNum(o["s"]) {
						all = append(all, o)
					}
				}
			}
			var gs []string
			for _, o := range all {
				gs = append(gs, fmt.Sprintf("[%d..%d n=%d mn=%d]", govcNum(o["s"]), govcNum(o["e"]), govcNum(o["n"]), govcNum(o["mn"])))
			}
			if strings.Join(gs, "") != strings.Join(ws, "") {
				detail = fmt.Sprintf("partition %s: matches %v, reference %v", pk, gs, ws)
			}
			if detail != "" {
				break
			}
		}
		if detail != "" {
			fails++
			fmt.Printf("GOVC-BOUNDED-FAIL cep_oracle %s: %s\n", label, detail)
		}
	}
	fmt.Printf("GOVC-BOUNDED-DONE cep_oracle cases=%d failures=%d\n", cases, fails)
	if fails > 0 {
		t.Fail()
	}
}

// permutations(n) drives PERMUTE: it must list every ordering of 0..n-1 exactly once.
func TestGovcBounded_cep_permutations(t *testing.T) {
	maxN := 6
	if os.Getenv("GOVC_BOUND") == "thorough" {
		maxN = 8
	}
	cases, fails := 0, 0
	fact := 1
	for n := 0; n <= maxN; n++ {
		if n > 0 {
			fact *= n
		}
		cases++
		ps := permutations(n)
		seen := map[string]bool{}
		detail := ""
		for _, p := range ps {
			used := make([]bool, n)
			ok := len(p) == n
			for _, x := range p {
				if x < 0 || x >= n || used[x] {
					ok = false
					break
				}
				used[x] = true
			}
			if !ok {
				detail = fmt.Sprintf("%v is not an ordering of 0..%d", p, n-1)
				break
			}
			if seen[fmt.Sprint(p)] {
				detail = fmt.Sprintf("%v listed twice", p)
				break
			}
			seen[fmt.Sprint(p)] = true
		}
		if detail == "" && len(ps) != fact {
			detail = fmt.Sprintf("%d orderings, %d! = %d expected", len(ps), n, fact)
		}
		if detail != "" {
			fails++
			fmt.Printf("GOVC-BOUNDED-FAIL cep_permutations n=%d: %s\n", n, detail)
		}
	}
	fmt.Printf("GOVC-BOUNDED-DONE cep_permutations cases=%d failures=%d\n", cases, fails)
	if fails > 0 {
		t.Fail()
	}
}

// DEFINE conditions that look back at the match so far through an aggregate: a running budget (A AS SUM(v) <= B, the
// candidate row included) and a comparison with the average of an earlier variable (B AS ... v > AVG(A.v)).
func TestGovcBounded_cep_define_aggregates(t *testing.T) {
	iters := 200
	if os.Getenv("GOVC_BOUND") == "thorough" {
		iters = 1500
	}
	rng := rand.New(rand.NewSource(151))
	cases, fails := 0, 0
	run := func(spec *types.MatchRecognizeSpec, rows []map[string]any) (string, error) {
		e, err := NewEngine(spec)
		if err != nil {
			return "", err
		}
		out := ""
		emit := func(os []map[string]any) {
			for _, o := range os {
				out += fmt.Sprintf("[%d..%d n=%d]", govcNum(o["s"]), govcNum(o["e"]), govcNum(o["n"]))
			}
		}
		for _, r := range rows {
			emit(e.Process(r, ""))
		}
		emit(e.Flush())
		return out, nil
	}
	measures := []types.Measure{{Expr: "FIRST(ts)", Alias: "s"}, {Expr: "LAST(ts)", Alias: "e"}, {Expr: "COUNT(*)", Alias: "n"}}
	lit := func(s string) *types.PatternNode { return &types.PatternNode{Kind: types.PatternLiteral, Symbol: s} }
	plus := func(p *types.PatternNode) *types.PatternNode {
		return &types.PatternNode{Kind: types.PatternRepetition, Children: []*types.PatternNode{p}, Quant: &types.Quantifier{Min: 1, Max: -1, Greedy: true}}
	}
	for it := 0; it < iters; it++ {
		n := 4 + rng.Intn(9)
		vs := make([]int, n)
		ks := make([]int, n)
		var rows []map[string]any
		for i := range vs {
			vs[i], ks[i] = 1+rng.Intn(6), 1+rng.Intn(2)
			rows = append(rows, map[string]any{"ts": i + 1, "v": vs[i], "k": ks[i]})
		}
		// 1. running budget
		cases++
		budget := 5 + rng.Intn(11)
		want := ""
		for s := 0; s < n; {
			sum, e := 0, s-1
			for j := s; j < n && sum+vs[j] <= budget; j++ {
				sum += vs[j]
				e = j
			}
			if e < s {
				s++
				continue
			}
			want += fmt.Sprintf("[%d..%d n=%d]", s+1, e+1, e-s+1)
			s = e + 1
		}
		got, err := run(&types.MatchRecognizeSpec{Pattern: plus(lit("A")), Defines: []types.MatchDefine{{Symbol: "A", Cond: fmt.Sprintf("SUM(v) <= %d", budget)}},
			OrderBy: []types.OrderByField{{Expression: "ts"}}, Measures: measures}, rows)
		if err != nil || got != want {
			fails++
			if fails <= 8 {
				fmt.Printf("GOVC-BOUNDED-FAIL cep_define_aggregates A+ with A AS SUM(v) <= %d on v=%v: got %q (err %v), want %q\n", budget, vs, got, err, want)
			}
		}
		// 2. average of an earlier variable
		cases++
		want = ""
		for s := 0; s < n; {
			if ks[s] != 1 {
				s++
				continue
			}
			j, sum := s, 0
			for j < n && ks[j] == 1 {
				sum += vs[j]
				j++
			}
			if j < n && ks[j] == 2 && float64(vs[j]) > float64(sum)/float64(j-s) {
				want += fmt.Sprintf("[%d..%d n=%d]", s+1, j+1, j-s+1)
				s = j + 1
			} else {
				s++
			}
		}
		got, err = run(&types.MatchRecognizeSpec{Pattern: &types.PatternNode{Kind: types.PatternSequence, Children: []*types.PatternNode{plus(lit("A")), lit("B")}},
			Defines: []types.MatchDefine{{Symbol: "A", Cond: "k == 1"}, {Symbol: "B", Cond: "k == 2 AND v > AVG(A.v)"}},
			OrderBy: []types.OrderByField{{Expression: "ts"}}, Measures: measures}, rows)
		if err != nil || got != want {
			fails++
			if fails <= 8 {
				fmt.Printf("GOVC-BOUNDED-FAIL cep_define_aggregates (A+ B) with B AS k == 2 AND v > AVG(A.v) on k=%v v=%v: got %q (err %v), want %q\n", ks, vs, got, err, want)
			}
		}
	}
	fmt.Printf("GOVC-BOUNDED-DONE cep_define_aggregates cases=%d failures=%d\n", cases, fails)
	if fails > 0 {
		t.Fail()
	}
}
