// govc:pkg .
// govc:bound 10 WHERE conditions mixing f(x) IS [NOT] NULL, plain column IS [NOT] NULL and other function calls / comparisons, joined by AND / OR, x 16 rows (a in {x, y}, b, c, d.x each NULL or a number)
// govc:also C06 C20
// Bounded stand-in (NOT a proof) for the regular-expression rewriting of IS [NOT] NULL into calls (PreprocessIsNullExpression,
// outside the contracts): the row is kept exactly when the condition holds under the plain reading of IS NULL, also when
// another function call stands earlier or later in the same condition.
package streamsql

import (
	"fmt"
	"strings"
	"testing"
)

func TestGovcBounded_isnull_rewrite(t *testing.T) {
	type cond struct {
		sql string
		ok  func(a string, b, c, dx any) bool
	}
	up := strings.ToUpper
	conds := []cond{
		{"upper(a) == 'X' OR coalesce(b) IS NULL", func(a string, b, c, dx any) bool { return up(a) == "X" || b == nil }},
		{"upper(a) == 'X' AND coalesce(b) IS NOT NULL", func(a string, b, c, dx any) bool { return up(a) == "X" && b != nil }},
		{"coalesce(b) IS NULL AND upper(a) == 'X'", func(a string, b, c, dx any) bool { return b == nil && up(a) == "X" }},
		{"lower(a) == 'x' OR coalesce(b) IS NOT NULL OR c IS NULL", func(a string, b, c, dx any) bool { return a == "x" || b != nil || c == nil }},
		{"coalesce(b) IS NULL OR coalesce(c) IS NULL", func(a string, b, c, dx any) bool { return b == nil || c == nil }},
		{"coalesce(b) IS NOT NULL AND coalesce(c) IS NULL", func(a string, b, c, dx any) bool { return b != nil && c == nil }},
		{"b IS NULL AND upper(a) == 'Y'", func(a string, b, c, dx any) bool { return b == nil && up(a) == "Y" }},
		{"c IS NOT NULL OR upper(a) == 'Y'", func(a string, b, c, dx any) bool { return c != nil || up(a) == "Y" }},
		{"d.x IS NULL AND upper(a) == 'X'", func(a string, b, c, dx any) bool { return dx == nil && up(a) == "X" }},
		{"d.x IS NOT NULL OR coalesce(b) IS NULL", func(a string, b, c, dx any) bool { return dx != nil || b == nil }},
	}
	cases, fails := 0, 0
	for _, cd := range conds {
		s := New()
		if err := s.Execute("SELECT id FROM stream WHERE " + cd.sql); err != nil {
			cases++
			fails++
			fmt.Printf("GOVC-BOUNDED-FAIL isnull_rewrite where=`%s`: execute: %v\n", cd.sql, err)
			s.Stop()
			continue
		}
		id := 0
		for _, a := range []string{"x", "y"} {
			for _, b := range []any{nil, 1.0} {
				for _, c := range []any{nil, 2.0} {
					for _, dx := range []any{nil, 3.0} {
						cases++
						id++
						row := map[string]any{"id": id, "a": a, "b": b, "c": c, "d": map[string]any{"x": dx}}
						res, err := s.EmitSync(row)
						kept := err == nil && res != nil
						if want := cd.ok(a, b, c, dx); kept != want {
							fails++
							if fails <= 10 {
								fmt.Printf("GOVC-BOUNDED-FAIL isnull_rewrite where=`%s` row a=%v b=%v c=%v d.x=%v: kept=%v (err %v), condition is %v\n", cd.sql, a, b, c, dx, kept, err, want)
							}
						}
					}
				}
			}
		}
		s.Stop()
	}
	fmt.Printf("GOVC-BOUNDED-DONE isnull_rewrite cases=%d failures=%d\n", cases, fails)
	if fails > 0 {
		t.Fail()
	}
}
