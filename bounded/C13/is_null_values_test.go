// govc:pkg functions
// govc:bound 22 values (untyped nil, typed nil of every nilable kind, empty and non-empty collections, zero and non-zero scalars, pointers to zero values) x the two functions is_null / is_not_null
// govc:also C05 C06
// Bounded stand-in (NOT a proof) for isNilValue (reflect.Value.Kind / IsNil are outside the modelled library): f(x) IS
// [NOT] NULL is rewritten to is_null / is_not_null, whose answer must be "NULL exactly for nil and typed nil": an empty
// collection, an empty text, zero and false are values.
package functions

import (
	"fmt"
	"testing"
)

func TestGovcBounded_is_null_values(t *testing.T) {
	var np *int
	var ns []any
	var nm map[string]any
	var nf func()
	var nc chan int
	zero := 0
	type c struct {
		name string
		v    any
		null bool
	}
	cases := []c{
		{"untyped nil", nil, true}, {"nil pointer", np, true}, {"nil slice", ns, true}, {"nil map", nm, true},
		{"nil func", nf, true}, {"nil chan", nc, true},
		{"empty slice", []any{}, false}, {"empty string slice", []string{}, false}, {"empty map", map[string]any{}, false},
		{"one-element slice", []any{1}, false}, {"one-entry map", map[string]any{"a": 1}, false},
		{"empty text", "", false}, {"text", "x", false}, {"zero", 0, false}, {"zero float", 0.0, false}, {"false", false, false},
		{"true", true, false}, {"pointer to zero", &zero, false}, {"one", 1, false}, {"negative", -1.5, false},
		{"struct", struct{}{}, false}, {"array", [0]int{}, false},
	}
	fails := 0
	isNull, ok1 := Get("is_null")
	isNotNull, ok2 := Get("is_not_null")
	if !ok1 || !ok2 {
		fmt.Printf("GOVC-BOUNDED-FAIL is_null_values: is_null / is_not_null not registered\n")
		t.Fatal()
	}
	for _, k := range cases {
		if got := isNilValue(k.v); got != k.null {
			fails++
			fmt.Printf("GOVC-BOUNDED-FAIL is_null_values value=`%s`: isNilValue = %v, expected %v\n", k.name, got, k.null)
		}
		a, err1 := isNull.Execute(&FunctionContext{}, []any{k.v})
		b, err2 := isNotNull.Execute(&FunctionContext{}, []any{k.v})
		if err1 != nil || err2 != nil || a != k.null || b != !k.null {
			fails++
			fmt.Printf("GOVC-BOUNDED-FAIL is_null_values value=`%s`: is_null = %v (%v), is_not_null = %v (%v), expected %v / %v\n", k.name, a, err1, b, err2, k.null, !k.null)
		}
	}
	fmt.Printf("GOVC-BOUNDED-DONE is_null_values cases=%d failures=%d\n", 2*len(cases), fails)
	if fails > 0 {
		t.Fail()
	}
}
