// govc:pkg functions
// govc:bound |text| <= 4, |pattern| <= 4 over the alphabet {'%', '_', 'a', 'b'} (exhaustive: 341 x 341 pairs) through ExprBridge.EvaluateExpression("x LIKE 'p'"); and |text|,|pattern| <= 3 through the column shapes d.x, d.inner.x (nested maps) and `col1`
// govc:also C06 C20
// Bounded stand-in (NOT a proof): the bridge's rewriting of LIKE into operators (convertLikeToFunction) followed by
// evaluation, against the recursive definition of LIKE from the property statement.
package functions

import (
	"fmt"
	"testing"
)

func govcLikeSpec2(t string, ti int, p string, pi int) bool {
	if pi >= len(p) {
		return ti >= len(t)
	}
	if p[pi] == '%' {
		return govcLikeSpec2(t, ti, p, pi+1) || (ti < len(t) && govcLikeSpec2(t, ti+1, p, pi))
	}
	return ti < len(t) && (p[pi] == '_' || p[pi] == t[ti]) && govcLikeSpec2(t, ti+1, p, pi+1)
}

func govcAllStrings2(alpha string, max int) []string {
	out := []string{""}
	level := []string{""}
	for n := 1; n <= max; n++ {
		var next []string
		for _, s := range level {
			for i := 0; i < len(alpha); i++ {
				next = append(next, s+string(alpha[i]))
			}
		}
		out = append(out, next...)
		level = next
	}
	return out
}

func TestGovcBounded_functions_bridge_like(t *testing.T) {
	strs := govcAllStrings2("%_ab", 4)
	bridge := GetExprBridge()
	cases, fails := 0, 0
	for _, pat := range strs {
		expr := "x LIKE '" + pat + "'"
		for _, text := range strs {
			cases++
			res, err := bridge.EvaluateExpression(expr, map[string]any{"x": text})
			got, isBool := res.(bool)
			want := govcLikeSpec2(text, 0, pat, 0)
			if err != nil || !isBool || got != want {
				fails++
				if fails <= 3 {
					fmt.Printf("GOVC-BOUNDED-FAIL functions_bridge_like: %q LIKE %q = %v (err %v), definition says %v\n", text, pat, res, err, want)
				}
			}
		}
	}
	fmt.Printf("GOVC-BOUNDED-DONE functions_bridge_like cases=%d failures=%d\n", cases, fails)
	if fails > 0 {
		t.Fail()
	}
}

// the same through column names that are not one plain word: a dotted path into a nested map and a backticked name
func TestGovcBounded_functions_bridge_like_columns(t *testing.T) {
	strs := govcAllStrings2("%_ab", 3)
	bridge := GetExprBridge()
	cases, fails := 0, 0
	shapes := []struct {
		col  string
		data func(text string) map[string]any
	}{
		{"d.x", func(text string) map[string]any { return map[string]any{"d": map[string]any{"x": text}} }},
		{"d.inner.x", func(text string) map[string]any {
			return map[string]any{"d": map[string]any{"inner": map[string]any{"x": text}}}
		}},
		{"`col1`", func(text string) map[string]any { return map[string]any{"col1": text} }},
	}
	for _, sh := range shapes {
		for _, pat := range strs {
			expr := sh.col + " LIKE '" + pat + "'"
			for _, text := range strs {
				cases++
				res, err := bridge.EvaluateExpression(expr, sh.data(text))
				got, isBool := res.(bool)
				want := govcLikeSpec2(text, 0, pat, 0)
				if err != nil || !isBool || got != want {
					fails++
					if fails <= 6 {
						fmt.Printf("GOVC-BOUNDED-FAIL functions_bridge_like_columns: %s = %q LIKE %q = %v (err %v), definition says %v\n", sh.col, text, pat, res, err, want)
					}
				}
			}
		}
	}
	fmt.Printf("GOVC-BOUNDED-DONE functions_bridge_like_columns cases=%d failures=%d\n", cases, fails)
	if fails > 0 {
		t.Fail()
	}
}
