// govc:pkg functions
// govc:bound |text| <= 5, |pattern| <= 5 over the alphabet {'%', '_', 'a', 'b'} (exhaustive: 1365 x 1365 pairs)
// govc:also C06 C20
// Bounded stand-in (NOT a proof): the real matcher GetExprBridge().matchesLikePattern against the recursive definition of LIKE from the
// property statement.
package functions

import (
	"fmt"
	"testing"
)

func govcLikeSpec(t string, ti int, p string, pi int) bool {
	if pi >= len(p) {
		return ti >= len(t)
	}
	if p[pi] == '%' {
		return govcLikeSpec(t, ti, p, pi+1) || (ti < len(t) && govcLikeSpec(t, ti+1, p, pi))
	}
	return ti < len(t) && (p[pi] == '_' || p[pi] == t[ti]) && govcLikeSpec(t, ti+1, p, pi+1)
}

func govcAllStrings(alpha string, max int) []string {
	out := []string{""}
	level := []string{""}
	for n := 1; n <= max; n++ {
		var next []string
		for _, s := range level {
			for i := 0; i < len(alpha); i++ {
				next = append(next, s+string(alpha[i]))
			}
		}
		out = append(out, next...)
		level = next
	}
	return out
}

func TestGovcBounded_functions_ExprBridge_matchesLikePattern(t *testing.T) {
	strs := govcAllStrings("%_ab", 5)
	cases, fails := 0, 0
	for _, text := range strs {
		for _, pat := range strs {
			cases++
			got := GetExprBridge().matchesLikePattern(text, pat)
			want := govcLikeSpec(text, 0, pat, 0)
			if got != want {
				fails++
				if fails <= 3 {
					fmt.Printf("GOVC-BOUNDED-FAIL functions_ExprBridge_matchesLikePattern: %q LIKE %q = %v, definition says %v\n", text, pat, got, want)
				}
			}
		}
	}
	fmt.Printf("GOVC-BOUNDED-DONE functions_ExprBridge_matchesLikePattern cases=%d failures=%d\n", cases, fails)
	if fails > 0 {
		t.Fail()
	}
}
