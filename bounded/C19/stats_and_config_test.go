// govc:pkg stream
// govc:bound GetStats with the five counters set to 5 distinct values (all 120 assignments of 1,2,4,8,16); createStreamInstance with BlockTimeout in {0, 1ms, 3s} x AllowDataLoss x the three overflow strategies
// Bounded stand-in (NOT a proof) for two places the contracts do not model (atomic counter reads are uninterpreted, the
// configuration is a large struct value): every counter is reported under its own name (so processed + input_dropped can be
// compared with the number of Emit calls), and the overflow settings a stream runs with are exactly the configured ones
// (a block strategy without timeout stays without timeout).
package stream

import (
	"fmt"
	"testing"
	"time"

	"github.com/rulego/streamsql/types"
)

func TestGovcBounded_stats_report_each_counter(t *testing.T) {
	cases, fails := 0, 0
	vals := []int64{1, 2, 4, 8, 16}
	var perm func(k int)
	perm = func(k int) {
		if k == len(vals) {
			cases++
			s, err := NewStream(types.Config{SimpleFields: []string{"id"}})
			if err != nil {
				fails++
				fmt.Printf("GOVC-BOUNDED-FAIL stats: NewStream: %v\n", err)
				return
			}
			defer s.Stop()
			s.mInput.IncBy(vals[0])
			s.mOutput.IncBy(vals[1])
			s.mInputDropped.IncBy(vals[2])
			s.mOutputDropped.IncBy(vals[3])
			st := s.GetStats()
			want := map[string]int64{InputCount: vals[0], OutputCount: vals[1], InputDroppedCount: vals[2], OutputDroppedCount: vals[3], DroppedCount: vals[2] + vals[3]}
			for k, w := range want {
				if st[k] != w {
					fails++
					fmt.Printf("GOVC-BOUNDED-FAIL stats counters=%v: %s = %d, want %d\n", vals, k, st[k], w)
					return
				}
			}
			return
		}
		for i := k; i < len(vals); i++ {
			vals[k], vals[i] = vals[i], vals[k]
			perm(k + 1)
			vals[k], vals[i] = vals[i], vals[k]
		}
	}
	perm(0)
	fmt.Printf("GOVC-BOUNDED-DONE stats cases=%d failures=%d\n", cases, fails)
	if fails > 0 {
		t.Fail()
	}
}

func TestGovcBounded_overflow_settings_are_the_configured_ones(t *testing.T) {
	cases, fails := 0, 0
	for _, to := range []time.Duration{0, time.Millisecond, 3 * time.Second} {
		for _, loss := range []bool{false, true} {
			for _, strat := range []string{types.OverflowStrategyBlock, types.OverflowStrategyDrop, types.OverflowStrategyExpand} {
				cases++
				pc := types.DefaultPerformanceConfig()
				pc.OverflowConfig.BlockTimeout = to
				pc.OverflowConfig.AllowDataLoss = loss
				pc.OverflowConfig.Strategy = strat
				s, err := NewStream(types.Config{SimpleFields: []string{"id"}, PerformanceConfig: pc})
				if err != nil {
					fails++
					fmt.Printf("GOVC-BOUNDED-FAIL overflow_settings timeout=%v loss=%v strategy=%s: NewStream: %v\n", to, loss, strat, err)
					continue
				}
				if s.blockingTimeout != to || s.allowDataDrop != loss || s.overflowStrategy != strat {
					fails++
					fmt.Printf("GOVC-BOUNDED-FAIL overflow_settings timeout=%v loss=%v strategy=%s: stream runs with timeout=%v loss=%v strategy=%s\n", to, loss, strat, s.blockingTimeout, s.allowDataDrop, s.overflowStrategy)
				}
				s.Stop()
			}
		}
	}
	fmt.Printf("GOVC-BOUNDED-DONE overflow_settings cases=%d failures=%d\n", cases, fails)
	if fails > 0 {
		t.Fail()
	}
}
