// govc:pkg window
// govc:bound session windows over 1..4 (thorough: 1..6) grouping keys x rows per key 1..3 (equal and unequal counts) x 3 interleavings; every open session flushed at once by Trigger(); each delivered batch compared with the rows fed for its key
// govc:also C02 C10
// Bounded stand-in (NOT a proof) for what the value model of slices cannot see: batches delivered by one flush must not share
// storage. Each open session is delivered once, holding exactly its own key's rows in arrival order, whatever the other
// sessions flushed in the same call hold.
package window

import (
	"fmt"
	"os"
	"testing"
	"time"

	"github.com/rulego/streamsql/types"
)

func TestGovcBounded_session_flush(t *testing.T) {
	maxKeys := 4
	if os.Getenv("GOVC_BOUND") == "thorough" {
		maxKeys = 6
	}
	cases, fails := 0, 0
	for nk := 1; nk <= maxKeys; nk++ {
		for shape := 0; shape < 3; shape++ { // rows per key: all 1, all 2, k%3+1
			for order := 0; order < 3; order++ { // round-robin, key by key, reversed round-robin
				cases++
				label := fmt.Sprintf("keys=%d shape=%d order=%d", nk, shape, order)
				per := make([]int, nk)
				for k := range per {
					switch shape {
					case 0:
						per[k] = 1
					case 1:
						per[k] = 2
					default:
						per[k] = k%3 + 1
					}
				}
				sw, err := NewSessionWindow(types.WindowConfig{Type: TypeSession, Params: []any{time.Hour}, GroupByKeys: []string{"k"}})
				if err != nil {
					fails++
					fmt.Printf("GOVC-BOUNDED-FAIL session_flush %s: %v\n", label, err)
					continue
				}
				want := map[string][]int{}
				id := 0
				feed := func(k int) {
					id++
					key := fmt.Sprintf("key%d", k)
					want[key] = append(want[key], id)
					sw.Add(map[string]any{"k": key, "id": id})
				}
				switch order {
				case 1:
					for k := 0; k < nk; k++ {
						for r := 0; r < per[k]; r++ {
							feed(k)
						}
					}
				default:
					for r := 0; r < 3; r++ {
						for kk := 0; kk < nk; kk++ {
							k := kk
							if order == 2 {
								k = nk - 1 - kk
							}
							if r < per[k] {
								feed(k)
							}
						}
					}
				}
				var got [][]types.Row
				done := make(chan struct{})
				go func() {
					defer close(done)
					for {
						select {
						case b, ok := <-sw.OutputChan():
							if !ok {
								return
							}
							got = append(got, b)
						case <-time.After(150 * time.Millisecond):
							return
						}
					}
				}()
				sw.Trigger()
				<-done
				sw.Stop()
				detail := ""
				seen := map[string]bool{}
				for _, b := range got {
					if len(b) == 0 {
						continue
					}
					m, _ := b[0].Data.(map[string]any)
					key := fmt.Sprint(m["k"])
					if seen[key] {
						detail = fmt.Sprintf("key %s delivered twice", key)
						break
					}
					seen[key] = true
					var ids []int
					for _, r := range b {
						rm, _ := r.Data.(map[string]any)
						if fmt.Sprint(rm["k"]) != key {
							detail = fmt.Sprintf("batch of key %s holds a row of key %v", key, rm["k"])
						}
						n, _ := rm["id"].(int)
						ids = append(ids, n)
					}
					if detail == "" && fmt.Sprint(ids) != fmt.Sprint(want[key]) {
						detail = fmt.Sprintf("key %s delivered rows %v, fed %v", key, ids, want[key])
					}
					if detail != "" {
						break
					}
				}
				if detail == "" && len(seen) != len(want) {
					detail = fmt.Sprintf("%d sessions delivered, %d were open", len(seen), len(want))
				}
				if detail != "" {
					fails++
					fmt.Printf("GOVC-BOUNDED-FAIL session_flush %s: %s\n", label, detail)
				}
			}
		}
	}
	fmt.Printf("GOVC-BOUNDED-DONE session_flush cases=%d failures=%d\n", cases, fails)
	if fails > 0 {
		t.Fail()
	}
}
