// govc:pkg .
// govc:bound every ordering of up to three GROUP BY keys drawn from {plain column, aliased column, function expression with alias} (15 queries) x one batch of 2 rows per group for 2 groups
// govc:also C05 C06 C07 C16 C20
// Bounded stand-in (NOT a proof) for projectGroupColumns / groupFieldOutputName (output naming of group columns, extern in
// the contracts): every emitted group carries each key's value under the name it was selected with, whatever the position
// of renamed keys in the GROUP BY list, and no internal (qualified or expression-text) key leaks into the row.
package streamsql

import (
	"fmt"
	"sort"
	"strings"
	"sync"
	"testing"
	"time"
)

func TestGovcBounded_group_column_names(t *testing.T) {
	type key struct {
		sel, grp, out string
		val           func(r map[string]any) string
	}
	keys := []key{
		{"deviceId", "deviceId", "deviceId", func(r map[string]any) string { return r["deviceId"].(string) }},
		{"zone AS z", "zone", "z", func(r map[string]any) string { return r["zone"].(string) }},
		{"upper(region) AS r", "upper(region)", "r", func(r map[string]any) string { return strings.ToUpper(r["region"].(string)) }},
	}
	rows := []map[string]any{
		{"deviceId": "d1", "zone": "a,b", "region": "eu", "v": 1.0},
		{"deviceId": "d2", "zone": "c", "region": "us", "v": 2.0},
		{"deviceId": "d1", "zone": "a,b", "region": "eu", "v": 3.0},
		{"deviceId": "d2", "zone": "c", "region": "us", "v": 4.0},
	}
	var lists [][]int
	for a := 0; a < 3; a++ {
		lists = append(lists, []int{a})
		for b := 0; b < 3; b++ {
			if b != a {
				lists = append(lists, []int{a, b})
				for c := 0; c < 3; c++ {
					if c != a && c != b {
						lists = append(lists, []int{a, b, c})
					}
				}
			}
		}
	}
	cases, fails := 0, 0
	for _, l := range lists {
		cases++
		var sel, grp []string
		for _, i := range l {
			sel = append(sel, keys[i].sel)
			grp = append(grp, keys[i].grp)
		}
		sql := "SELECT " + strings.Join(sel, ", ") + ", COUNT(*) AS c, SUM(v) AS s FROM stream GROUP BY " + strings.Join(grp, ", ") + ", CountingWindow(2)"
		s := New()
		if err := s.Execute(sql); err != nil {
			fails++
			fmt.Printf("GOVC-BOUNDED-FAIL group_columns query=`%s`: execute: %v\n", sql, err)
			s.Stop()
			continue
		}
		var mu sync.Mutex
		var got []map[string]any
		s.AddSyncSink(func(rs []map[string]any) {
			mu.Lock()
			defer mu.Unlock()
			got = append(got, rs...)
		})
		for _, r := range rows {
			c := map[string]any{}
			for k, v := range r {
				c[k] = v
			}
			s.Emit(c)
		}
		deadline := time.Now().Add(15 * time.Second)
		for time.Now().Before(deadline) {
			mu.Lock()
			n := len(got)
			mu.Unlock()
			if n >= 2 {
				break
			}
			time.Sleep(time.Millisecond)
		}
		time.Sleep(5 * time.Millisecond)
		mu.Lock()
		res := append([]map[string]any(nil), got...)
		mu.Unlock()
		s.Stop()
		detail := ""
		if len(res) != 2 {
			detail = fmt.Sprintf("%d groups delivered, 2 expected", len(res))
		}
		for gi := 0; detail == "" && gi < 2; gi++ {
			src := rows[gi] // first row of group gi (d1 fires first, then d2)
			var wantKeys []string
			for _, i := range l {
				wantKeys = append(wantKeys, keys[i].out)
				if fmt.Sprint(res[gi][keys[i].out]) != keys[i].val(src) {
					detail = fmt.Sprintf("group %d: column %q = %v, the key value is %q (row %v)", gi, keys[i].out, res[gi][keys[i].out], keys[i].val(src), res[gi])
				}
			}
			wantKeys = append(wantKeys, "c", "s")
			var gotKeys []string
			for k := range res[gi] {
				if k != "window_id" && k != "window_start" && k != "window_end" {
					gotKeys = append(gotKeys, k)
				}
			}
			sort.Strings(wantKeys)
			sort.Strings(gotKeys)
			if detail == "" && strings.Join(gotKeys, ",") != strings.Join(wantKeys, ",") {
				detail = fmt.Sprintf("group %d: columns %v, selected %v", gi, gotKeys, wantKeys)
			}
		}
		if detail != "" {
			fails++
			fmt.Printf("GOVC-BOUNDED-FAIL group_columns query=`%s`: %s\n", sql, detail)
		}
	}
	fmt.Printf("GOVC-BOUNDED-DONE group_columns cases=%d failures=%d\n", cases, fails)
	if fails > 0 {
		t.Fail()
	}
}
