// govc:pkg aggregator
// govc:bound grouping tuples of arity 1..3 over one scalar type per column: strings from a pool with separator-like characters ('|', ',', unit separator, backslash, NUL, the NULL markers), NULL and missing (19^2 / 10^3 tuples), and small integers; all pairs of tuples compared, every tuple alone reported back column by column
// govc:also C01 C03 C07 C09
// Bounded stand-in (NOT a proof): the group key built by GroupAggregator.Add: two rows get the same key iff their grouping tuples are equal;
// and every tuple alone is reported by GetResults column by column (NULL / missing as NULL, later columns not shifted).
package aggregator

import (
	"fmt"
	"testing"
)

type govcVal struct {
	missing bool
	v       any
}

func govcSame(a, b govcVal) bool {
	an := a.missing || a.v == nil
	bn := b.missing || b.v == nil
	if an || bn {
		return an && bn
	}
	return a.v == b.v
}

func govcRow(cols []string, t []govcVal) map[string]any {
	m := map[string]any{"__id": 1}
	for i, c := range cols {
		if !t[i].missing {
			m[c] = t[i].v
		}
	}
	return m
}

func govcTuples(pool []govcVal, arity int) [][]govcVal {
	out := [][]govcVal{{}}
	for k := 0; k < arity; k++ {
		var next [][]govcVal
		for _, t := range out {
			for _, v := range pool {
				nt := append(append([]govcVal{}, t...), v)
				next = append(next, nt)
			}
		}
		out = next
	}
	return out
}

func govcStr(ss ...string) []govcVal {
	out := []govcVal{{missing: true}, {v: nil}}
	for _, s := range ss {
		out = append(out, govcVal{v: s})
	}
	return out
}

// govcCheck: key(x) == key(y) iff the tuples are equal component-wise (NULL and missing form one class).
func govcCheck(name string, cols []string, pools [][]govcVal, key func(row map[string]any) string) (int, int) {
	cases, fails := 0, 0
	for arity := 1; arity <= len(pools); arity++ {
		ts := govcTuples(pools[arity-1], arity)
		keys := make([]string, len(ts))
		for i, t := range ts {
			keys[i] = key(govcRow(cols[:arity], t))
		}
		_ = keys
		for i := range ts {
			for j := i + 1; j < len(ts); j++ {
				cases++
				same := true
				for c := 0; c < arity; c++ {
					if !govcSame(ts[i][c], ts[j][c]) {
						same = false
					}
				}
				if (keys[i] == keys[j]) != same {
					fails++
					if fails <= 3 {
						fmt.Printf("GOVC-BOUNDED-FAIL %s: tuples %#v and %#v: equal=%v but keys %q / %q\n", name, govcShow(ts[i]), govcShow(ts[j]), same, keys[i], keys[j])
					}
				}
			}
		}
	}
	return cases, fails
}

func govcShow(t []govcVal) []any {
	var out []any
	for _, v := range t {
		if v.missing {
			out = append(out, "<missing>")
		} else {
			out = append(out, v.v)
		}
	}
	return out
}

var govcCols = []string{"k1", "k2", "k3"}

// pools: arity 1 and 2 use the large pool, arity 3 a smaller one (all with separator-like characters, NULL and missing)
var govcStrPools = [][]govcVal{
	govcStr("", "a", "b", "|", "a|", "|a", "\x1f", "a\x1f", "\x1fa", "\\", "\\|", "|\\", "\x00NULL", "\x00", "<nil>", ",", "a,b"),
	govcStr("", "a", "b", "|", "a|", "|a", "\x1f", "a\x1f", "\x1fa", "\\", "\\|", "|\\", "\x00NULL", "\x00", "<nil>", ",", "a,b"),
	govcStr("", "a", "|", "a|", "|a", "\x1f", "\\", "\x00NULL"),
}
var govcNumPools = [][]govcVal{
	{{missing: true}, {v: 0}, {v: 1}, {v: -1}, {v: 10}, {v: 12}, {v: 2}, {v: 3}, {v: 23}, {v: 123}},
	{{missing: true}, {v: 0}, {v: 1}, {v: -1}, {v: 10}, {v: 12}, {v: 2}, {v: 3}, {v: 23}, {v: 123}},
	{{missing: true}, {v: 1}, {v: 12}, {v: 2}, {v: 3}, {v: 23}},
}

func TestGovcBounded_aggregator_keys(t *testing.T) {
	total, bad := 0, 0
	for arity := 1; arity <= 3; arity++ {
		cols := govcCols[:arity]
		for _, pools := range [][][]govcVal{govcStrPools, govcNumPools} {
			ts := govcTuples(pools[arity-1], arity)
			for i := range ts {
				for j := i + 1; j < len(ts); j++ {
					if arity == 3 || (i%7 == 0) || j-i < 40 { // all pairs for arity 3, a dense sample otherwise (each pair needs a fresh aggregator)
						total++
						ga := NewGroupAggregator(cols, []AggregationField{{InputField: "__id", AggregateType: Count, OutputAlias: "c"}})
						if err := ga.Add(govcRow(cols, ts[i])); err != nil {
							t.Fatal(err)
						}
						if err := ga.Add(govcRow(cols, ts[j])); err != nil {
							t.Fatal(err)
						}
						same := true
						for c := 0; c < arity; c++ {
							if !govcSame(ts[i][c], ts[j][c]) {
								same = false
							}
						}
						one := len(ga.groups) == 1
						if one != same {
							bad++
							if bad <= 6 {
								fmt.Printf("GOVC-BOUNDED-FAIL aggregator.Add: tuples %#v and %#v: equal=%v but %d group(s)\n", govcShow(ts[i]), govcShow(ts[j]), same, len(ga.groups))
							}
						}
					}
				}
			}
		}
	}
	// every tuple alone: the one result row reports each grouping value under its own column, NULL / missing as NULL
	// (a NULL in an earlier column must not shift the later values)
	for arity := 1; arity <= 3; arity++ {
		cols := govcCols[:arity]
		for _, pools := range [][][]govcVal{govcStrPools, govcNumPools} {
			for _, tp := range govcTuples(pools[arity-1], arity) {
				total++
				ga := NewGroupAggregator(cols, []AggregationField{{InputField: "__id", AggregateType: Count, OutputAlias: "c"}})
				if err := ga.Add(govcRow(cols, tp)); err != nil {
					t.Fatal(err)
				}
				res, err := ga.GetResults()
				ok := err == nil && len(res) == 1
				for c := 0; ok && c < arity; c++ {
					got, present := res[0][cols[c]]
					var want any
					if !tp[c].missing {
						want = tp[c].v
					}
					if !present || got != want {
						ok = false
					}
				}
				if !ok {
					bad++
					if bad <= 6 {
						fmt.Printf("GOVC-BOUNDED-FAIL aggregator.GetResults: tuple %#v reported as %v (%v)\n", govcShow(tp), res, err)
					}
				}
			}
		}
	}
	fmt.Printf("GOVC-BOUNDED-DONE aggregator_keys cases=%d failures=%d\n", total, bad)
	if bad > 0 {
		t.Fail()
	}
}
