package main

// govc check --property Cxx: the registered per-property check.

import (
	"encoding/json"
	"flag"
	"fmt"
	"os"
	"path/filepath"
	"regexp"
	"sort"
	"strconv"
	"strings"
	"sync"
	"time"
)

type KnownFinding struct {
	State      string // open | fixed
	Property   string
	Obligation string
	When       string // spec expression delimiting the failing region (optional)
	Input      string // bounded stand-ins: regular expression over the GOVC-BOUNDED-FAIL lines this finding accounts for
	Text       string
}

func loadKnownFindings(path string) ([]KnownFinding, error) {
	data, err := os.ReadFile(path)
	if err != nil {
		if os.IsNotExist(err) {
			return nil, nil
		}
		return nil, err
	}
	var out []KnownFinding
	for _, l := range strings.Split(string(data), "\n") {
		l = strings.TrimSpace(l)
		if l == "" || strings.HasPrefix(l, "#") {
			continue
		}
		kf := KnownFinding{Text: l}
		switch {
		case strings.HasPrefix(l, "open:"):
			kf.State = "open"
		case strings.HasPrefix(l, "fixed:"):
			kf.State = "fixed"
		default:
			return nil, fmt.Errorf("known_findings: bad line %q", l)
		}
		for _, f := range strings.Fields(l) {
			if strings.HasPrefix(f, "property=") {
				kf.Property = strings.TrimPrefix(f, "property=")
			}
			if strings.HasPrefix(f, "obligation=") {
				kf.Obligation = strings.TrimPrefix(f, "obligation=")
			}
		}
		if i := strings.Index(l, " input=`"); i >= 0 {
			rest := l[i+8:]
			if j := strings.Index(rest, "`"); j >= 0 {
				kf.Input = rest[:j]
			}
		}
		if i := strings.Index(l, " when=`"); i >= 0 {
			rest := l[i+7:]
			if j := strings.Index(rest, "`"); j >= 0 {
				kf.When = rest[:j]
			}
		}
		out = append(out, kf)
	}
	return out, nil
}

type Evidence struct {
	PropertyID  string         `json:"property_id"`
	Tier        string         `json:"tier"`
	Seed        int            `json:"seed"`
	Level       string         `json:"level"`
	Coverage    map[string]any `json:"coverage"`
	Assumptions []string       `json:"assumptions"`
	WallS       float64        `json:"wall_s"`
	Violations  int            `json:"violations"`
}

var verifRoot = "/verif"

func cmdCheck(args []string) {
	fs := flag.NewFlagSet("check", flag.ExitOnError)
	prop := fs.String("property", "", "property id")
	tier := fs.String("tier", "quick", "quick|thorough")
	repo := fs.String("repo", "/repo", "repository")
	specDir := fs.String("spec-dir", "", "override directory with contract files (development)")
	noEvidence := fs.Bool("no-evidence", false, "do not write the evidence file (self tests)")
	pin := fs.Bool("pin", false, "write obligations/<property>.txt from this run (only when everything discharged)")
	outRoot := fs.String("out", "", "output directory (default /verif/out/<property>)")
	fs.Parse(args)
	if t := os.Getenv("VERIF_TIER"); t != "" {
		*tier = t
	}
	seed := 0
	if s := os.Getenv("VERIF_SEED"); s != "" {
		seed, _ = strconv.Atoi(s)
	}
	replayRepo = *repo
	if *prop == "" {
		fmt.Fprintln(os.Stderr, "check: --property required")
		os.Exit(2)
	}
	if exe, err := os.Executable(); err == nil {
		if d := filepath.Dir(filepath.Dir(exe)); fileExists(filepath.Join(d, "properties.jsonl")) {
			verifRoot = d
		}
	}
	start := time.Now()
	timeout := 10000
	allSolvers := false
	if *tier == "thorough" {
		timeout = 60000
		allSolvers = true
	}
	outDir := *outRoot
	if outDir == "" {
		outDir = filepath.Join(verifRoot, "out", *prop)
	}
	os.RemoveAll(outDir)
	os.MkdirAll(outDir, 0o755)

	// which packages carry contracts for this property?
	pats, err := packagesWithProperty(*repo, *specDir, *prop)
	if err != nil || len(pats) == 0 {
		fmt.Printf("UNDECIDED property=%s: no contracts found (%v)\n", *prop, err)
		os.Exit(2)
	}
	P, err := loadProgram(*repo, *specDir, pats)
	if err != nil {
		fmt.Printf("UNDECIDED property=%s: %v\n", *prop, err)
		os.Exit(2)
	}
	known, err := loadKnownFindings(filepath.Join(verifRoot, "known_findings.txt"))
	if err != nil {
		fmt.Printf("UNDECIDED property=%s: %v\n", *prop, err)
		os.Exit(2)
	}

	type job struct {
		key string
		con *Contract
	}
	var jobs []job
	var externs []string
	for path, ps := range P.specs {
		for _, name := range ps.Order {
			con := ps.Contracts[name]
			if !hasProp(con.Props, *prop) {
				continue
			}
			if con.Trusted {
				externs = append(externs, "extern (assumed) contract: "+shortPkg(path)+"."+name)
				continue
			}
			jobs = append(jobs, job{path + "::" + name, con})
		}
	}
	sort.Slice(jobs, func(i, j int) bool { return jobs[i].key < jobs[j].key })
	reports := make([]*FuncReport, len(jobs))
	var wg sync.WaitGroup
	sem := make(chan struct{}, 4)
	for i, j := range jobs {
		wg.Add(1)
		go func(i int, j job) {
			defer wg.Done()
			sem <- struct{}{}
			defer func() { <-sem }()
			reports[i] = verifyFunction(P, P.funcs[j.key], j.con, outDir, timeout, seed, allSolvers)
		}(i, j)
	}
	wg.Wait()
	// lemmas
	var lemmaResults []*Result
	for path, ps := range P.specs {
		for _, lm := range ps.Lemmas {
			if hasProp(lm.Props, *prop) {
				lemmaResults = append(lemmaResults, solveLemma(lm, shortPkg(path), outDir, timeout))
			}
		}
	}
	// closure: every writer of a guarded / immutable field of the types involved is under contract
	closure := P.closureObligations(*prop)

	// global-write inventory: every (package-level variable, writer) pair must be declared
	closure = append(closure, P.globalInventory(*prop)...)
	closure = append(closure, P.callerObligations(*prop)...)

	// bounded stand-ins (labelled, never counted as discharged)
	bounded := runBounded(*repo, *prop, *tier)

	// pinned obligation names
	pinned := loadPinned(filepath.Join(verifRoot, "obligations", *prop+".txt"))
	produced := map[string]bool{}

	total, discharged, violations, undecided := 0, 0, 0, 0
	probes, probesOK := 0, 0
	solverCount := map[string]int{}
	var solverMs int64
	var samples []any
	var funcs []string
	trusted := map[string]bool{}
	notes := map[string]bool{}
	var knownLines []string
	var violationLines []string
	var undecidedLines []string
	for _, m := range P.missingAnchors {
		undecided++
		undecidedLines = append(undecidedLines, fmt.Sprintf("UNDECIDED property=%s %s", *prop, m))
	}
	handle := func(fn string, vc *VC, r *Result) {
		name := r.Obl.Name
		if len(r.Obl.Only) > 0 && !hasProp(r.Obl.Only, *prop) {
			return // clause scoped to other properties ("[Cxx]" prefix); reported by their checks
		}
		produced[name] = true
		if r.Obl.MustFail {
			probes++
			if r.ok() {
				probesOK++
			} else {
				undecided++
				undecidedLines = append(undecidedLines, fmt.Sprintf("UNDECIDED property=%s vacuity probe %s did not find the function end reachable (%s)", *prop, name, r.Status))
			}
			return
		}
		total++
		solverMs += r.Millis
		if r.ok() {
			discharged++
			solverCount[r.Solver]++
			if len(samples) < 6 && r.Solver != "trivial" {
				samples = append(samples, map[string]any{"obligation": name, "function": fn, "clause": r.Obl.Note, "at": r.Obl.Pos, "solver": r.Solver, "ms": r.Millis, "smt_file": r.File})
			}
			return
		}
		// failing: known finding?
		for _, kf := range known {
			if kf.State == "open" && kf.Property == *prop && (kf.Obligation == name || kf.Obligation == baseName(name)) {
				if kf.When == "" || (vc != nil && remainderHolds(P, vc, fn, r, kf, outDir, timeout)) {
					knownLines = append(knownLines, "KNOWN-FINDING: "+strings.TrimPrefix(kf.Text, "open: "))
					total--
					return
				}
			}
		}
		violations++
		replay := writeReplay(P, *prop, fn, vc, r, outDir)
		violationLines = append(violationLines, replay)
	}
	for i, rep := range reports {
		funcs = append(funcs, rep.Func)
		for _, e := range rep.Errors {
			undecided++
			undecidedLines = append(undecidedLines, fmt.Sprintf("UNDECIDED property=%s function=%s: %s", *prop, rep.Func, e))
		}
		for _, r := range rep.Results {
			handle(rep.Func, rep.VC, r)
		}
		for k := range rep.VC.assumed {
			trusted[k] = true
		}
		for _, n := range rep.VC.sortedNotes() {
			notes[n] = true
		}
		for _, o := range rep.Opaque {
			notes["opaque call (havoc): "+o] = true
		}
		_ = i
	}
	for _, r := range lemmaResults {
		handle("lemma", nil, r)
	}
	for _, c := range closure {
		total++
		produced[c.name] = true
		if c.ok {
			discharged++
			solverCount["scan"]++
		} else {
			undecided++
			undecidedLines = append(undecidedLines, fmt.Sprintf("UNDECIDED property=%s %s: %s", *prop, c.name, c.detail))
		}
	}
	producedBase := map[string]bool{}
	for n := range produced {
		producedBase[baseName(n)] = true
	}
	if *pin && violations == 0 && undecided == 0 {
		os.MkdirAll(filepath.Join(verifRoot, "obligations"), 0o755)
		os.WriteFile(filepath.Join(verifRoot, "obligations", *prop+".txt"), []byte("# obligation base names this property must generate (suffixes ~k and /k stripped)\n"+strings.Join(sortedKeys(producedBase), "\n")+"\n"), 0o644)
		pinned = nil
	}
	for bi := range bounded {
		b := &bounded[bi]
		if b.OK {
			continue
		}
		// failures of a bounded stand-in that open known findings account for, input by input
		if len(b.FailLines) > 0 && len(b.FailLines) == b.Failures {
			matched := map[int]bool{}
			var unmatched []string
			for _, fl := range b.FailLines {
				hit := false
				for ki, kf := range known {
					if kf.State == "open" && kf.Property == *prop && kf.Obligation == "bounded:"+b.Name && kf.Input != "" {
						if re, err := regexp.Compile(kf.Input); err == nil && re.MatchString(fl) {
							matched[ki] = true
							hit = true
							break
						}
					}
				}
				if !hit {
					unmatched = append(unmatched, fl)
				}
			}
			if len(unmatched) == 0 {
				for ki := range matched {
					line := "KNOWN-FINDING: " + strings.TrimPrefix(known[ki].Text, "open: ")
					knownLines = append(knownLines, line)
					b.Known = append(b.Known, line)
				}
				b.OK = true
				continue
			}
			if len(unmatched) > 12 {
				unmatched = unmatched[:12]
			}
			b.Output = strings.Join(unmatched, "\n")
		}
		violations++
		dir := filepath.Join(verifRoot, "out", "replay", *prop)
		os.MkdirAll(dir, 0o755)
		path := filepath.Join(dir, "bounded_"+b.Name+".json")
		data, _ := json.MarshalIndent(map[string]any{"property": *prop, "obligation": "bounded:" + b.Name, "bound": b.Bound, "cases": b.Cases, "failures": b.Failures, "failing_inputs": b.Output, "test_file": b.File, "replayed_on_real_code": b.Failures > 0}, "", " ")
		os.WriteFile(path, data, 0o644)
		line := fmt.Sprintf("VIOLATION property=%s replay=%s", *prop, path)
		if b.Failures == 0 {
			line += " no-failing-input-found"
		}
		violationLines = append(violationLines, line)
	}
	var lost []string
	for _, p := range pinned {
		if !producedBase[p] {
			undecided++
			lost = append(lost, p)
			undecidedLines = append(undecidedLines, fmt.Sprintf("UNDECIDED property=%s pinned obligation %s was not generated", *prop, p))
		}
	}
	if undecided > 0 {
		// Obligations that were discharged on the pinned tree and can no longer even be generated from the current
		// source (a contract anchor was removed or renamed, or the code left the verified subset), a vacuity probe
		// that no longer finds the function end reachable, or a writer of a guarded field that left the contracts:
		// the property is no longer established. Reported as a violation without a failing input; the file
		// carries the reasons.
		violations++
		dir := filepath.Join(verifRoot, "out", "replay", *prop)
		os.MkdirAll(dir, 0o755)
		path := filepath.Join(dir, "lost_obligations.json")
		data, _ := json.MarshalIndent(map[string]any{
			"property":              *prop,
			"obligation":            "pinned obligations no longer derivable from the source",
			"lost_obligations":      lost,
			"verifier_output":       undecidedLines,
			"replayed_on_real_code": false,
			"note":                  "each listed obligation was discharged on the tree the list was pinned on (obligations/" + *prop + ".txt); on this tree the generator could not produce it, for the reasons in verifier_output",
		}, "", " ")
		os.WriteFile(path, data, 0o644)
		violationLines = append(violationLines, fmt.Sprintf("VIOLATION property=%s replay=%s no-failing-input-found", *prop, path))
	}
	for _, e := range externs {
		trusted[e] = true
	}
	trusted["T1: govc lowering of go/ssa (NaiveForm) to SMT, solvers z3 4.8.12 / z3 5.1.0 / cvc5 1.0.3"] = true
	trusted["A2: Go integers are mathematical integers constrained to their machine range at entry (no wrap-around)"] = true
	trusted["A3: float64 is modelled as a real"] = true
	trusted["slices are values (array,len): aliasing of backing arrays is not modelled; element writes without provenance are rejected"] = true

	for _, l := range knownLines {
		fmt.Println(l)
	}
	for _, l := range undecidedLines {
		fmt.Println(l)
	}
	for _, l := range violationLines {
		fmt.Println(l)
	}
	wall := time.Since(start).Seconds()
	fmt.Printf("property %s tier %s: %d functions under contract, %d obligations, %d discharged, %d violations, %d undecided, %d known findings, %d/%d vacuity probes ok, %.1fs\n",
		*prop, *tier, len(reports), total, discharged, violations, undecided, len(knownLines), probesOK, probes, wall)

	if !*noEvidence {
		ev := Evidence{PropertyID: *prop, Tier: *tier, Seed: seed, Level: "proof", WallS: wall, Violations: violations}
		cmd := "./bin/govc check --property " + *prop + " --tier " + *tier
		ev.Coverage = map[string]any{
			"obligations":              total,
			"discharged":               discharged,
			"checker_cmd":              cmd,
			"trusted_base":             sortedKeys(trusted),
			"samples":                  samples,
			"functions_under_contract": funcs,
			"discharged_by_backend":    solverCount,
			"solver_time_s":            float64(solverMs) / 1000.0,
			"vacuity_probes":           probes,
			"vacuity_probes_reachable": probesOK,
			"known_findings":           knownLines,
			"undecided":                undecidedLines,
			"lowering_notes":           sortedKeys(notes),
			"pinned_obligations":       len(pinned),
			"bounded_stand_ins":        bounded,
		}
		ev.Assumptions = sortedKeys(trusted)
		data, _ := json.MarshalIndent(ev, "", " ")
		os.MkdirAll(filepath.Join(verifRoot, "evidence"), 0o755)
		os.WriteFile(filepath.Join(verifRoot, "evidence", *prop+".json"), data, 0o644)
	}
	if violations > 0 {
		os.Exit(1)
	}
	if undecided > 0 {
		os.Exit(2)
	}
}

var suffixRe = regexp.MustCompile(`(~\d+|/\d+)+$`)

var counterRe = regexp.MustCompile(`(@unlock)\d+|(:[rw])\d+$|:\d+$`)

// baseName strips the counters that depend on how many similar sites a function has, so that the pinned list
// survives harmless edits (an extra read of a guarded field, one more return).
func baseName(n string) string {
	for {
		m := suffixRe.ReplaceAllString(n, "")
		m = counterRe.ReplaceAllString(m, "$1$2")
		if m == n {
			return n
		}
		n = m
	}
}

func fileExists(p string) bool {
	_, err := os.Stat(p)
	return err == nil
}

func hasProp(ps []string, p string) bool {
	for _, x := range ps {
		if x == p {
			return true
		}
	}
	return false
}

func shortPkg(path string) string {
	return strings.TrimPrefix(strings.TrimPrefix(path, modPath), "/")
}

func sortedKeys(m map[string]bool) []string {
	var xs []string
	for k := range m {
		xs = append(xs, k)
	}
	sort.Strings(xs)
	return xs
}

func loadPinned(path string) []string {
	data, err := os.ReadFile(path)
	if err != nil {
		return nil
	}
	var out []string
	for _, l := range strings.Split(string(data), "\n") {
		l = strings.TrimSpace(l)
		if l != "" && !strings.HasPrefix(l, "#") {
			out = append(out, l)
		}
	}
	return out
}

// packagesWithProperty scans contract files for "props ... Cxx" and returns go list patterns.
func packagesWithProperty(repo, specDir, prop string) ([]string, error) {
	var pats []string
	seen := map[string]bool{}
	add := func(rel string) {
		p := "./" + rel
		if rel == "" || rel == "." {
			p = "."
		}
		if !seen[p] {
			seen[p] = true
			pats = append(pats, p)
		}
	}
	mentions := func(file string) bool {
		data, err := os.ReadFile(file)
		if err != nil {
			return false
		}
		for _, l := range strings.Split(string(data), "\n") {
			t := strings.TrimSpace(l)
			if strings.HasPrefix(t, "props ") && hasProp(strings.Fields(t)[1:], prop) {
				return true
			}
			if f := strings.Fields(t); len(f) >= 2 && f[0] == "global_writer" && f[1] == prop {
				return true
			}
		}
		return false
	}
	if specDir != "" {
		ents, _ := os.ReadDir(specDir)
		for _, e := range ents {
			if strings.HasSuffix(e.Name(), ".go") && mentions(filepath.Join(specDir, e.Name())) {
				rel := strings.ReplaceAll(strings.TrimSuffix(e.Name(), ".go"), "_", "/")
				if rel == "root" {
					rel = ""
				}
				add(rel)
			}
		}
	}
	filepath.Walk(repo, func(p string, info os.FileInfo, err error) error {
		if err != nil {
			return nil
		}
		if info.IsDir() && (info.Name() == ".git" || info.Name() == "_seed") {
			return filepath.SkipDir
		}
		if info.Name() == "contracts_verif.go" && mentions(p) {
			rel, _ := filepath.Rel(repo, filepath.Dir(p))
			add(rel)
		}
		return nil
	})
	sort.Strings(pats)
	// contracts of one package may call contracted functions of another: always load them together
	return pats, nil
}
