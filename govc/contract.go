package main

// Contract files: a comment-only Go file per package (contracts_verif.go,
// //go:build verif) whose /*@ ... @*/ blocks hold line-oriented clauses.

import (
	"fmt"
	"go/ast"
	"go/types"
	"os"
	"regexp"
	"strconv"
	"strings"
)

type Clause struct {
	Label string
	Src   string
	Expr  ast.Expr
	Line  int
	Only  []string // property ids this clause is checked for ("[C10] label: expr"); empty = all props of the contract
}

type ModClause struct {
	src   string
	all   bool
	allMaps bool // every map heap may change, nothing else
	pkgHeaps string // every field heap of the structs of this package may change (accumulator state behind an interface)
	heaps []string
	sorts []Sort
	at    ast.Expr // base reference expression (nil: whole heap)
	raw   ast.Expr
}

type LoopContract struct {
	Invariants []*Clause
	Steps      []*Clause // asserted at every back edge, never assumed; prev(e) = e at the head of the iteration
	Decreases  *Clause
}

type Contract struct {
	Pkg          string // package path
	Name         string // e.g. alignWindowStart, (*TumblingWindow).Add
	File         string
	Line         int
	Requires     []*Clause
	Ensures      []*Clause
	Modifies     []*ModClause
	modSrc       []string
	HeldAtEntry  []ast.Expr
	Acquires     []ast.Expr
	Loops        map[int]*LoopContract
	Safety       bool
	Overflow     bool // + - * on machine integers must not wrap (obligations safe:...:overflow:k)
	Pure         bool
	NoPanic      bool
	FrameChecked bool
	NoFrame      bool
	AssumedFrame bool // the declared frame is trusted (as for an extern) while the body is still checked for its other clauses
	OnlyCalledBy []string // the only functions of the package allowed to call this one
	WritesImmut  []string // waivers: heaps declared immutable that this function may write on objects it owns
	CallbackPure bool
	Rnd64        bool
	Allocates    bool
	Trusted      bool // contract is assumed, body not verified (extern)
	LoopsHavocOnly bool
	NativeStr    bool
	Props        []string // property ids this contract serves
	Decreases    *Clause  // variant for recursive calls of the function itself (mathematical integer, >= 0)
	RecGroup     string   // mutual recursion: calls between functions of one group must decrease the callee's variant below the caller's
	Asserts      []*Clause
	AtReturn     []*Clause // assertions checked at every return, local variables visible
	Ticks        map[string]string // callee short name -> ghost global incremented at each call
	ChanEvents   bool              // channel operations update the ghost globals sends/recvs/dones/timeouts
	Recovers     bool              // the function recovers panics in a deferred guard; its clauses are NOT established on such exits (assumption)
	Counts       map[string]string // callee short name -> ghost counter of calls
	Observe      map[string]string // callee short name -> ghost variable holding its last result
	Before       map[string][]*Clause // callee short name -> assertions checked before each call
	resolved     bool
}

func (c *Contract) modifiesAll() bool {
	for _, m := range c.Modifies {
		if m.all {
			return true
		}
	}
	return false
}

type Pred struct {
	Name   string
	Params []string
	Body   ast.Expr
	Src    string
}

type Lemma struct {
	Name    string
	Props   []string
	Vars    []string // "name sort" declarations
	Assumes []string
	Goal    string
	SMT     []string // raw SMT prelude lines
	Native  bool
	Solver  string
}

type GhostField struct {
	owner string
	name  string
	typ   types.Type
	srt   Sort
}

func (g *GhostField) sort(vc *VC) Sort {
	if g.typ != nil {
		return vc.sortOf(g.typ)
	}
	return g.srt
}

type PkgSpec struct {
	Path      string
	Contracts map[string]*Contract
	Order     []string
	Preds     map[string]*Pred
	Guarded   map[string][]string // "T.mu" -> fields
	Monitors  map[string][]string // "T.mu" -> invariant predicate names
	Relies    map[string]string   // "T.mu" -> two-state predicate (old() = state at acquisition)
	PureExt   []string
	Immutable map[string][]string // type name -> fields never written after construction
	ImmutNonNil map[string][]string // ... of those, the ones that are never nil after construction (`f!`)
	GlobalWriters []string // "Cxx pkg.var func": allowed (variable, writer) pairs of the global-write inventory
	ImmutCells []string           // deref heaps (by element type, e.g. time.Time) whose cells are written only when fresh
	Lemmas    []*Lemma
	RecFuncs  map[string]*RecFunc
	File      string
}

type RecFunc struct {
	Name   string
	Params []string // names
	PSorts []Sort
	Res    Sort
	Body   string // SMT body (raw)
}

var clauseKW = regexp.MustCompile(`^(requires|ensures|decreases|recgroup|modifies|held|acquires|loop|option|props|assert|before|observe|count|atreturn|tick|owns|only_called_by)\b`)
var labelRe = regexp.MustCompile(`^([A-Za-z][A-Za-z0-9_\-]*):\s+(.*)$`)

func parseClause(src string, line int) (*Clause, error) {
	c := &Clause{Src: src, Line: line}
	if strings.HasPrefix(src, "[") {
		if j := strings.Index(src, "]"); j > 0 {
			c.Only = strings.Fields(src[1:j])
			src = strings.TrimSpace(src[j+1:])
			c.Src = src
		}
	}
	if m := labelRe.FindStringSubmatch(src); m != nil {
		c.Label = m[1]
		src = m[2]
		c.Src = src
	}
	e, err := parseSpecExpr(src)
	if err != nil {
		return nil, fmt.Errorf("line %d: %v", line, err)
	}
	c.Expr = e
	return c, nil
}

func parseContractFile(path, pkgPath string) (*PkgSpec, error) {
	data, err := os.ReadFile(path)
	if err != nil {
		return nil, err
	}
	ps := &PkgSpec{Path: pkgPath, Contracts: map[string]*Contract{}, Preds: map[string]*Pred{}, Guarded: map[string][]string{}, Monitors: map[string][]string{}, Relies: map[string]string{}, Immutable: map[string][]string{}, RecFuncs: map[string]*RecFunc{}, File: path}
	text := string(data)
	lines := strings.Split(text, "\n")
	in := false
	type item struct {
		line int
		text string
	}
	var items []item
	for i, l := range lines {
		t := strings.TrimSpace(l)
		if strings.HasPrefix(t, "/*@") {
			in = true
			t = strings.TrimSpace(strings.TrimPrefix(t, "/*@"))
		}
		if !in {
			continue
		}
		if strings.HasSuffix(t, "@*/") {
			t = strings.TrimSpace(strings.TrimSuffix(t, "@*/"))
			in = false
		}
		if t == "" || strings.HasPrefix(t, "//") || strings.HasPrefix(t, "#") {
			continue
		}
		// strip trailing comments introduced by " // "
		if k := strings.Index(t, " // "); k >= 0 {
			t = strings.TrimSpace(t[:k])
		}
		top := strings.HasPrefix(t, "func ") || strings.HasPrefix(t, "pred ") || strings.HasPrefix(t, "guarded_by ") || strings.HasPrefix(t, "immutable ") || strings.HasPrefix(t, "immutable_cells ") || strings.HasPrefix(t, "global_writer ") || strings.HasPrefix(t, "monitor ") || strings.HasPrefix(t, "pure ") || strings.HasPrefix(t, "lemma ") || strings.HasPrefix(t, "extern ") || strings.HasPrefix(t, "recfunc ") || strings.HasPrefix(t, "end")
		if top || clauseKW.MatchString(t) || strings.HasPrefix(t, "var ") || strings.HasPrefix(t, "assume ") || strings.HasPrefix(t, "goal ") || strings.HasPrefix(t, "smt ") || strings.HasPrefix(t, "solver ") {
			items = append(items, item{i + 1, t})
		} else if len(items) > 0 {
			items[len(items)-1].text += " " + t
		}
	}
	var cur *Contract
	var curLemma *Lemma
	for _, it := range items {
		t := it.text
		fail := func(err error) error { return fmt.Errorf("%s:%d: %v", path, it.line, err) }
		switch {
		case strings.HasPrefix(t, "end"):
			cur, curLemma = nil, nil
		case strings.HasPrefix(t, "pred "):
			cur, curLemma = nil, nil
			m := regexp.MustCompile(`^pred\s+([A-Za-z_][A-Za-z0-9_]*)\s*\(([^)]*)\)\s*:=\s*(.*)$`).FindStringSubmatch(t)
			if m == nil {
				return nil, fail(fmt.Errorf("bad pred"))
			}
			e, err := parseSpecExpr(m[3])
			if err != nil {
				return nil, fail(err)
			}
			var ps2 []string
			for _, p := range strings.Split(m[2], ",") {
				if p = strings.TrimSpace(p); p != "" {
					ps2 = append(ps2, p)
				}
			}
			ps.Preds[m[1]] = &Pred{Name: m[1], Params: ps2, Body: e, Src: m[3]}
		case strings.HasPrefix(t, "guarded_by "):
			m := regexp.MustCompile(`^guarded_by\s+(\S+)\s*:\s*(.*)$`).FindStringSubmatch(t)
			if m == nil {
				return nil, fail(fmt.Errorf("bad guarded_by"))
			}
			for _, f := range strings.Split(m[2], ",") {
				ps.Guarded[m[1]] = append(ps.Guarded[m[1]], strings.TrimSpace(f))
			}
		case strings.HasPrefix(t, "global_writer "):
			ps.GlobalWriters = append(ps.GlobalWriters, strings.TrimSpace(strings.TrimPrefix(t, "global_writer ")))
		case strings.HasPrefix(t, "immutable_cells "):
			ps.ImmutCells = append(ps.ImmutCells, strings.Fields(strings.TrimPrefix(t, "immutable_cells "))...)
		case strings.HasPrefix(t, "immutable "):
			m := regexp.MustCompile(`^immutable\s+(\S+)\s*:\s*(.*)$`).FindStringSubmatch(t)
			if m == nil {
				return nil, fail(fmt.Errorf("bad immutable"))
			}
			for _, f := range strings.Split(m[2], ",") {
				f = strings.TrimSpace(f)
				if strings.HasSuffix(f, "!") {
					// `f!`: immutable and never nil once the constructing function has returned
					f = strings.TrimSuffix(f, "!")
					if ps.ImmutNonNil == nil {
						ps.ImmutNonNil = map[string][]string{}
					}
					ps.ImmutNonNil[m[1]] = append(ps.ImmutNonNil[m[1]], f)
				}
				ps.Immutable[m[1]] = append(ps.Immutable[m[1]], f)
			}
		case strings.HasPrefix(t, "monitor "):
			m := regexp.MustCompile(`^monitor\s+(\S+)\s+(inv|rely)\s+(\S+)$`).FindStringSubmatch(t)
			if m == nil {
				return nil, fail(fmt.Errorf("bad monitor"))
			}
			if m[2] == "inv" {
				ps.Monitors[m[1]] = append(ps.Monitors[m[1]], m[3])
			} else {
				ps.Relies[m[1]] = m[3]
			}
		case strings.HasPrefix(t, "pure "):
			ps.PureExt = append(ps.PureExt, strings.TrimSpace(strings.TrimPrefix(t, "pure ")))
		case strings.HasPrefix(t, "recfunc "):
			// recfunc name((a (Array Int Real)) (n Int)) Real := <smt body>
			m := regexp.MustCompile(`^recfunc\s+([A-Za-z_][A-Za-z0-9_]*)\s*\((.*?)\)\s+(\S+)\s*:=\s*(.*)$`).FindStringSubmatch(t)
			if m == nil {
				return nil, fail(fmt.Errorf("bad recfunc"))
			}
			rf := &RecFunc{Name: m[1], Res: m[3], Body: m[4]}
			pm := regexp.MustCompile(`\(\s*([A-Za-z_][A-Za-z0-9_]*)\s+((?:\([^()]*(?:\([^()]*\)[^()]*)*\))|\S+?)\s*\)`).FindAllStringSubmatch(m[2], -1)
			for _, p := range pm {
				rf.Params = append(rf.Params, p[1])
				rf.PSorts = append(rf.PSorts, p[2])
			}
			ps.RecFuncs[rf.Name] = rf
		case strings.HasPrefix(t, "lemma "):
			cur = nil
			curLemma = &Lemma{Name: strings.TrimSpace(strings.TrimPrefix(t, "lemma "))}
			ps.Lemmas = append(ps.Lemmas, curLemma)
		case strings.HasPrefix(t, "func ") || strings.HasPrefix(t, "extern "):
			curLemma = nil
			trusted := strings.HasPrefix(t, "extern ")
			name := strings.TrimSpace(strings.TrimPrefix(strings.TrimPrefix(t, "func "), "extern "))
			cur = &Contract{Pkg: pkgPath, Name: name, File: path, Line: it.line, Loops: map[int]*LoopContract{}, Trusted: trusted}
			if _, dup := ps.Contracts[name]; dup {
				return nil, fail(fmt.Errorf("duplicate contract for %s", name))
			}
			ps.Contracts[name] = cur
			ps.Order = append(ps.Order, name)
		case curLemma != nil:
			switch {
			case strings.HasPrefix(t, "props "):
				curLemma.Props = strings.Fields(strings.TrimPrefix(t, "props "))
			case strings.HasPrefix(t, "var "):
				curLemma.Vars = append(curLemma.Vars, strings.TrimSpace(strings.TrimPrefix(t, "var ")))
			case strings.HasPrefix(t, "assume "):
				curLemma.Assumes = append(curLemma.Assumes, strings.TrimSpace(strings.TrimPrefix(t, "assume ")))
			case strings.HasPrefix(t, "goal "):
				curLemma.Goal = strings.TrimSpace(strings.TrimPrefix(t, "goal "))
			case strings.HasPrefix(t, "smt "):
				curLemma.SMT = append(curLemma.SMT, strings.TrimSpace(strings.TrimPrefix(t, "smt ")))
			case strings.HasPrefix(t, "solver "):
				curLemma.Solver = strings.TrimSpace(strings.TrimPrefix(t, "solver "))
			case strings.HasPrefix(t, "option "):
				if strings.Contains(t, "native") {
					curLemma.Native = true
				}
			default:
				return nil, fail(fmt.Errorf("unexpected in lemma: %s", t))
			}
		case cur == nil:
			return nil, fail(fmt.Errorf("clause outside func: %s", t))
		case strings.HasPrefix(t, "requires "):
			c, err := parseClause(strings.TrimSpace(strings.TrimPrefix(t, "requires ")), it.line)
			if err != nil {
				return nil, fail(err)
			}
			cur.Requires = append(cur.Requires, c)
		case strings.HasPrefix(t, "ensures "):
			c, err := parseClause(strings.TrimSpace(strings.TrimPrefix(t, "ensures ")), it.line)
			if err != nil {
				return nil, fail(err)
			}
			cur.Ensures = append(cur.Ensures, c)
		case strings.HasPrefix(t, "recgroup "):
			cur.RecGroup = strings.TrimSpace(strings.TrimPrefix(t, "recgroup "))
		case strings.HasPrefix(t, "decreases "):
			c, err := parseClause(strings.TrimSpace(strings.TrimPrefix(t, "decreases ")), it.line)
			if err != nil {
				return nil, fail(err)
			}
			cur.Decreases = c
		case strings.HasPrefix(t, "assert "):
			c, err := parseClause(strings.TrimSpace(strings.TrimPrefix(t, "assert ")), it.line)
			if err != nil {
				return nil, fail(err)
			}
			cur.Asserts = append(cur.Asserts, c)
		case strings.HasPrefix(t, "modifies "):
			for _, m := range splitTop(strings.TrimPrefix(t, "modifies "), ',') {
				cur.modSrc = append(cur.modSrc, strings.TrimSpace(m))
			}
		case strings.HasPrefix(t, "held "):
			e, err := parseSpecExpr(strings.TrimSpace(strings.TrimPrefix(t, "held ")))
			if err != nil {
				return nil, fail(err)
			}
			cur.HeldAtEntry = append(cur.HeldAtEntry, e)
		case strings.HasPrefix(t, "before "):
			rest := strings.TrimSpace(strings.TrimPrefix(t, "before "))
			k := strings.IndexAny(rest, " \t")
			if k < 0 {
				return nil, fail(fmt.Errorf("bad before clause"))
			}
			c, err := parseClause(strings.TrimSpace(rest[k:]), it.line)
			if err != nil {
				return nil, fail(err)
			}
			if cur.Before == nil {
				cur.Before = map[string][]*Clause{}
			}
			cur.Before[rest[:k]] = append(cur.Before[rest[:k]], c)
		case strings.HasPrefix(t, "atreturn "):
			c, err := parseClause(strings.TrimSpace(strings.TrimPrefix(t, "atreturn ")), it.line)
			if err != nil {
				return nil, fail(err)
			}
			cur.AtReturn = append(cur.AtReturn, c)
		case strings.HasPrefix(t, "only_called_by "):
			// only_called_by A, (*T).m: no other function of the package may call this one (a design constraint such as
			// "only the expansion strategy swaps the input buffer")
			for _, n := range strings.Split(strings.TrimPrefix(t, "only_called_by "), ",") {
				if n = strings.TrimSpace(n); n != "" {
					cur.OnlyCalledBy = append(cur.OnlyCalledBy, n)
				}
			}
		case strings.HasPrefix(t, "owns "):
			// owns TimeSlot.End: this function reassigns an otherwise immutable field on objects only it can reach
			cur.WritesImmut = append(cur.WritesImmut, strings.Fields(strings.TrimPrefix(t, "owns "))...)
		case strings.HasPrefix(t, "tick "):
			m := regexp.MustCompile(`^tick\s+([A-Za-z_][A-Za-z0-9_]*)\s+at\s+(\S+)$`).FindStringSubmatch(t)
			if m == nil {
				return nil, fail(fmt.Errorf("bad tick clause (tick NAME at CALLEE)"))
			}
			if cur.Ticks == nil {
				cur.Ticks = map[string]string{}
			}
			cur.Ticks[m[2]] = m[1]
		case strings.HasPrefix(t, "count "):
			m := regexp.MustCompile(`^count\s+([A-Za-z_][A-Za-z0-9_]*)\s*:=\s*(\S+)$`).FindStringSubmatch(t)
			if m == nil {
				return nil, fail(fmt.Errorf("bad count clause"))
			}
			if cur.Counts == nil {
				cur.Counts = map[string]string{}
			}
			cur.Counts[m[2]] = m[1]
		case strings.HasPrefix(t, "observe "):
			// observe late := IsEventTimeLate
			m := regexp.MustCompile(`^observe\s+([A-Za-z_][A-Za-z0-9_]*)\s*:=\s*(\S+)$`).FindStringSubmatch(t)
			if m == nil {
				return nil, fail(fmt.Errorf("bad observe clause"))
			}
			if cur.Observe == nil {
				cur.Observe = map[string]string{}
			}
			cur.Observe[m[2]] = m[1]
		case strings.HasPrefix(t, "acquires "):
			e, err := parseSpecExpr(strings.TrimSpace(strings.TrimPrefix(t, "acquires ")))
			if err != nil {
				return nil, fail(err)
			}
			cur.Acquires = append(cur.Acquires, e)
		case strings.HasPrefix(t, "props "):
			cur.Props = strings.Fields(strings.TrimPrefix(t, "props "))
		case strings.HasPrefix(t, "option "):
			for _, o := range strings.Fields(strings.TrimPrefix(t, "option ")) {
				switch o {
				case "safety":
					cur.Safety = true
				case "overflow":
					cur.Overflow = true
				case "pure":
					cur.Pure = true
				case "nopanic":
					cur.NoPanic = true
				case "frame":
					cur.FrameChecked = true
				case "noframe":
					cur.NoFrame = true
				case "assumed_frame":
					cur.AssumedFrame = true
				case "callbacks_pure":
					cur.CallbackPure = true
				case "rnd64":
					cur.Rnd64 = true
				case "allocates":
					cur.Allocates = true
				case "havoc_loops":
					cur.LoopsHavocOnly = true
				case "channel_events":
					cur.ChanEvents = true
				case "recovers":
					cur.Recovers = true
				case "native_strings":
					cur.NativeStr = true
				default:
					return nil, fail(fmt.Errorf("unknown option %s", o))
				}
			}
		case strings.HasPrefix(t, "loop "):
			m := regexp.MustCompile(`^loop\s+(\d+)\s+(invariant|decreases|step)\s+(.*)$`).FindStringSubmatch(t)
			if m == nil {
				return nil, fail(fmt.Errorf("bad loop clause"))
			}
			k, _ := strconv.Atoi(m[1])
			lc := cur.Loops[k]
			if lc == nil {
				lc = &LoopContract{}
				cur.Loops[k] = lc
			}
			c, err := parseClause(m[3], it.line)
			if err != nil {
				return nil, fail(err)
			}
			if m[2] == "invariant" {
				lc.Invariants = append(lc.Invariants, c)
			} else if m[2] == "step" {
				lc.Steps = append(lc.Steps, c)
			} else {
				lc.Decreases = c
			}
		default:
			return nil, fail(fmt.Errorf("unknown clause: %s", t))
		}
	}
	return ps, nil
}
