package main

// VC: the per-function verification-condition context: declarations,
// path-guarded assumptions in program order, obligations, sort mapping.

import (
	"fmt"
	"sync"
	"go/types"
	"sort"
	"strings"
)

type Obligation struct {
	Name    string
	Kind    string // post, pre, inv-init, inv-pres, decr, monitor, lock, safe, frame, assert, lemma, vacuity
	Guard   T
	Goal    T
	NAssume int // only assumptions [0,NAssume) are visible
	NDecl   int
	Pos     string
	// MustFail marks reachability probes: the query must be SAT.
	MustFail bool
	Note     string
	Only     []string // property ids this obligation is reported for (empty = every property of the contract)
	// Stem is the file stem of the obligation's SMT file, unique within the function's directory (allocated by
	// verifyFunction before the obligations are solved concurrently). Empty: sanitizeFile(Name).
	Stem  string
	split []*Obligation
}

func (o *Obligation) SetOnly(only []string) {
	o.Only = only
	for _, p := range o.split {
		p.Only = only
	}
}

// SetNote annotates an obligation (and its split parts).
func (o *Obligation) SetNote(n string) {
	o.Note = n
	for _, p := range o.split {
		p.Note = n
	}
}

type VC struct {
	fnName  string
	decls   []string
	declSet map[string]bool
	assumes []string
	obls    []*Obligation
	nfresh  int
	typeIDs map[string]int
	typeIDn []string
	notes   map[string]bool // abstractions / dropped constructs encountered
	assumed map[string]bool // extern contracts, axioms used
	strLits map[string]T
	boxes   map[Sort]bool
	nativeStr bool
	strAx     bool
	pureNames map[string]string
}

func newVC(fn string) *VC {
	vc := &VC{fnName: fn, declSet: map[string]bool{}, typeIDs: map[string]int{}, notes: map[string]bool{}, assumed: map[string]bool{}, strLits: map[string]T{}, boxes: map[Sort]bool{}}
	vc.prelude()
	return vc
}

func (vc *VC) note(format string, a ...any) { vc.notes[fmt.Sprintf(format, a...)] = true }

func (vc *VC) declare(key, text string) {
	if vc.declSet[key] {
		return
	}
	vc.declSet[key] = true
	vc.decls = append(vc.decls, text)
}

func (vc *VC) assume(guard, fact T) {
	if fact.s == "true" {
		return
	}
	vc.assumes = append(vc.assumes, "(assert "+Imp(guard, fact).s+")")
}

func (vc *VC) axiom(text string) { vc.assumes = append(vc.assumes, "(assert "+text+")") }

func (vc *VC) oblige(kind, name string, guard, goal T, pos string) *Obligation {
	// split top-level conjunctions: smaller queries, sharper reports
	if parts := conjOf(goal); len(parts) > 1 && len(parts) <= 16 && kind != "vacuity" {
		var first *Obligation
		for i, p := range parts {
			o := vc.oblige(kind, fmt.Sprintf("%s/%d", name, i+1), guard, p, pos)
			if first == nil {
				first = o
			}
		}
		return &Obligation{Name: name, split: vc.obls[len(vc.obls)-len(parts):]}
	}
	// unique names
	base := name
	n := 1
	for {
		dup := false
		for _, o := range vc.obls {
			if o.Name == name {
				dup = true
				break
			}
		}
		if !dup {
			break
		}
		n++
		name = fmt.Sprintf("%s~%d", base, n)
	}
	o := &Obligation{Name: name, Kind: kind, Guard: guard, Goal: goal, NAssume: len(vc.assumes), NDecl: len(vc.decls), Pos: pos}
	vc.obls = append(vc.obls, o)
	return o
}

func (vc *VC) fresh(hint string, s Sort) T {
	vc.nfresh++
	name := fmt.Sprintf("%s!%d", sanitize(hint), vc.nfresh)
	vc.declareSort(s)
	vc.declare("c:"+name, fmt.Sprintf("(declare-fun %s () %s)", name, s))
	return T{name, s}
}

func (vc *VC) constant(name string, s Sort) T {
	vc.declareSort(s)
	vc.declare("c:"+name, fmt.Sprintf("(declare-fun %s () %s)", name, s))
	return T{name, s}
}

func (vc *VC) ufun(name string, args []Sort, res Sort) {
	for _, a := range args {
		vc.declareSort(a)
	}
	vc.declareSort(res)
	vc.declare("f:"+name, fmt.Sprintf("(declare-fun %s (%s) %s)", name, strings.Join(args, " "), res))
}

const ZeroTime = "(- 62135596800000000000)"

func (vc *VC) prelude() {
	vc.declare("sort:Str", "(declare-sort Str 0)")
	vc.declare("sort:Opq", "(declare-sort Opq 0)")
	vc.declare("dt:Value", `(declare-datatypes ((Value 0)) (((VNil) (VInt (vtI Int) (vint Int)) (VReal (vtR Int) (vreal Real)) (VStr (vtS Int) (vstr Str)) (VBool (vtB Int) (vbool Bool)) (VRef (vtP Int) (vref Int)) (VOther (vtO Int) (vbox Int)))))`)
	vc.declare("f:gs.len", "(declare-fun gs.len (Str) Int)")
	vc.declare("f:gs.at", "(declare-fun gs.at (Str Int) Int)")
	vc.declare("c:gs.empty", "(declare-fun gs.empty () Str)")
	vc.declare("c:opq.zero", "(declare-fun opq.zero () Opq)")
	vc.declare("f:go.div", "(define-fun go.div ((a Int) (b Int)) Int (ite (= b 0) 0 (ite (>= a 0) (ite (> b 0) (div a b) (- (div a (- b)))) (ite (> b 0) (- (div (- a) b)) (div (- a) (- b))))))")
	vc.declare("f:go.rem", "(define-fun go.rem ((a Int) (b Int)) Int (- a (* b (go.div a b))))")
	vc.declare("f:gs.diff", "(declare-fun gs.diff (Str Str) Int)")
}

// needStrings adds the string axioms the first time a string operation is lowered.
func (vc *VC) needStrings() {
	if vc.strAx {
		return
	}
	vc.strAx = true
	vc.axiom("(forall ((s Str)) (! (>= (gs.len s) 0) :pattern ((gs.len s))))")
	vc.axiom("(= (gs.len gs.empty) 0)")
	// strings are extensional: needed for ==, map keys
	vc.axiom("(forall ((a Str) (b Str)) (! (=> (and (= (gs.len a) (gs.len b)) (=> (and (<= 0 (gs.diff a b)) (< (gs.diff a b) (gs.len a))) (= (gs.at a (gs.diff a b)) (gs.at b (gs.diff a b))))) (= a b)) :pattern ((gs.diff a b))))")
}

// typeID gives each concrete Go type that is boxed into an interface a small integer.
func (vc *VC) typeID(t types.Type) T {
	k := types.TypeString(t, nil)
	id, ok := vc.typeIDs[k]
	if !ok {
		id = len(vc.typeIDn) + 1
		vc.typeIDs[k] = id
		vc.typeIDn = append(vc.typeIDn, k)
	}
	return IntLit(int64(id))
}

func shortTypeName(t types.Type) string {
	return sanitize(types.TypeString(t, func(p *types.Package) string { return p.Name() }))
}

func isTimeTime(t types.Type) bool {
	n, ok := t.(*types.Named)
	return ok && n.Obj().Pkg() != nil && n.Obj().Pkg().Path() == "time" && n.Obj().Name() == "Time"
}

func isOpaqueNamed(t types.Type) bool {
	n, ok := t.(*types.Named)
	if !ok || n.Obj().Pkg() == nil {
		return false
	}
	switch n.Obj().Pkg().Path() {
	case "sync", "sync/atomic", "context", "reflect", "regexp", "container/list", "strings", "bytes", "math/big", "math/rand":
		return true
	}
	return false
}

// isListElementValue: the exported Value field of container/list.Element is modelled as an ordinary heap field
// (the list models in program.go store and read it); everything else of container/list stays opaque.
func isListElementValue(owner types.Type, field int) bool {
	n, ok := owner.(*types.Named)
	if !ok || n.Obj().Pkg() == nil || n.Obj().Pkg().Path() != "container/list" || n.Obj().Name() != "Element" {
		return false
	}
	st, ok := owner.Underlying().(*types.Struct)
	return ok && field < st.NumFields() && st.Field(field).Name() == "Value"
}

// sortOf maps a Go type to an SMT sort, declaring datatypes on demand.
func (vc *VC) sortOf(t types.Type) Sort {
	if isTimeTime(t) {
		return SInt
	}
	if isOpaqueNamed(t) {
		if _, isIface := t.Underlying().(*types.Interface); isIface {
			return SVal
		}
		if _, isPtr := t.Underlying().(*types.Pointer); isPtr {
			return SInt
		}
		return "Opq"
	}
	switch u := t.Underlying().(type) {
	case *types.Basic:
		switch {
		case u.Info()&types.IsBoolean != 0:
			return SBool
		case u.Info()&types.IsInteger != 0:
			return SInt
		case u.Info()&types.IsFloat != 0:
			return SReal
		case u.Info()&types.IsString != 0:
			vc.needStrings()
			return SStr
		case u.Kind() == types.UnsafePointer:
			return SInt
		case u.Kind() == types.UntypedNil:
			return SInt
		}
		return "Opq"
	case *types.Pointer, *types.Map, *types.Chan, *types.Signature:
		return SInt
	case *types.Interface:
		return SVal
	case *types.Slice:
		return vc.sliceSort(vc.sortOf(u.Elem()))
	case *types.Array:
		return vc.sliceSort(vc.sortOf(u.Elem()))
	case *types.Struct:
		return vc.structSort(t, u)
	case *types.Tuple:
		return "Opq"
	}
	return "Opq"
}

func sortSym(s Sort) string {
	return sanitize(strings.NewReplacer("(Array ", "A_", ")", "", " ", "_").Replace(s))
}

func (vc *VC) sliceSort(elem Sort) Sort {
	name := "Slice_" + sortSym(elem)
	sliceElemSet(name, elem)
	vc.declareSort(elem)
	vc.declare("dt:"+name, fmt.Sprintf("(declare-datatypes ((%s 0)) (((mk%s (%s.arr (Array Int %s)) (%s.len Int) (%s.nil Bool)))))", name, name, name, elem, name, name))
	return name
}

func sliceElemSort(s Sort) Sort {
	// recover from declaration text is awkward; keep a registry instead
	return sliceElemGet(s)
}

var sliceElemsM = map[Sort]Sort{}
var globMu sync.RWMutex

func sliceElemGet(s Sort) Sort {
	globMu.RLock()
	defer globMu.RUnlock()
	return sliceElemsM[s]
}

func sliceElemSet(s, e Sort) {
	globMu.Lock()
	sliceElemsM[s] = e
	globMu.Unlock()
}

func (vc *VC) declareSort(s Sort) {
	// array sorts need their components declared; datatypes are declared by their makers.
	if strings.HasPrefix(s, "(Array ") {
		i, e := splitArraySort(s)
		vc.declareSort(i)
		vc.declareSort(e)
		return
	}
	// a sort name computed against another VC (e.g. while resolving modifies clauses): declare it here too
	if strings.HasPrefix(s, "Slice_") && !vc.declSet["dt:"+s] {
		if e := sliceElemGet(s); e != "" {
			vc.sliceSort(e)
		}
		return
	}
	if strings.HasPrefix(s, "S_") && !vc.declSet["dt:"+s] {
		if info, ok := structInfoGet(s); ok && info.st != nil {
			for _, fs := range info.fsorts {
				vc.declareSort(fs)
			}
			var parts []string
			for i, acc := range info.fields {
				parts = append(parts, fmt.Sprintf("(%s %s)", acc, info.fsorts[i]))
			}
			if len(parts) == 0 {
				vc.declare("dt:"+s, fmt.Sprintf("(declare-datatypes ((%s 0)) (((mk%s))))", s, s))
			} else {
				vc.declare("dt:"+s, fmt.Sprintf("(declare-datatypes ((%s 0)) (((mk%s %s))))", s, s, strings.Join(parts, " ")))
			}
		}
	}
}

type structInfo struct {
	sort   Sort
	fields []string // accessor names
	fsorts []Sort
	st     *types.Struct
}

var structInfosM = map[Sort]*structInfo{}

func structInfoGet(s Sort) (*structInfo, bool) {
	globMu.RLock()
	defer globMu.RUnlock()
	i, ok := structInfosM[s]
	return i, ok
}

func structInfoSet(s Sort, i *structInfo) {
	globMu.Lock()
	structInfosM[s] = i
	globMu.Unlock()
}

func (vc *VC) structSort(t types.Type, st *types.Struct) Sort {
	name := "S_" + shortTypeName(t)
	if _, named := t.(*types.Named); !named {
		name = "S_anon_" + sanitize(types.TypeString(st, func(p *types.Package) string { return p.Name() }))
		if len(name) > 80 {
			name = name[:80]
		}
	}
	if vc.declSet["dt:"+name] {
		return name
	}
	info := &structInfo{sort: name, st: st}
	var parts []string
	for i := 0; i < st.NumFields(); i++ {
		f := st.Field(i)
		fs := vc.sortOf(f.Type())
		acc := name + "." + sanitize(f.Name())
		info.fields = append(info.fields, acc)
		info.fsorts = append(info.fsorts, fs)
		parts = append(parts, fmt.Sprintf("(%s %s)", acc, fs))
	}
	structInfoSet(name, info)
	if len(parts) == 0 {
		vc.declare("dt:"+name, fmt.Sprintf("(declare-datatypes ((%s 0)) (((mk%s))))", name, name))
	} else {
		vc.declare("dt:"+name, fmt.Sprintf("(declare-datatypes ((%s 0)) (((mk%s %s))))", name, name, strings.Join(parts, " ")))
	}
	return name
}

func (vc *VC) structInfo(t types.Type) *structInfo {
	st, ok := t.Underlying().(*types.Struct)
	if !ok {
		return nil
	}
	s := vc.structSort(t, st)
	i, _ := structInfoGet(s)
	return i
}

// zero value of a Go type
func (vc *VC) zero(t types.Type) T {
	if isTimeTime(t) {
		return T{ZeroTime, SInt}
	}
	s := vc.sortOf(t)
	return vc.zeroOfSort(s, t)
}

func (vc *VC) zeroOfSort(s Sort, t types.Type) T {
	switch s {
	case SInt:
		return IntLit(0)
	case SBool:
		return TFalse
	case SReal:
		return T{"0.0", SReal}
	case SStr:
		return T{"gs.empty", SStr}
	case SVal:
		return T{"VNil", SVal}
	case "Opq":
		return T{"opq.zero", "Opq"}
	}
	if strings.HasPrefix(s, "Slice_") {
		var et types.Type
		isArr := false
		n := int64(0)
		if t != nil {
			switch u := t.Underlying().(type) {
			case *types.Slice:
				et = u.Elem()
			case *types.Array:
				et = u.Elem()
				isArr = true
				n = u.Len()
			}
		}
		var ez T
		if et != nil {
			ez = vc.zero(et)
		} else {
			ez = vc.zeroOfSort(sliceElemGet(s), nil)
		}
		arr := vc.constArray(ez)
		if isArr {
			return mk(s, "mk"+s, arr, IntLit(n), TFalse)
		}
		return mk(s, "mk"+s, arr, IntLit(0), TTrue)
	}
	if info, ok := structInfoGet(s); ok {
		var args []T
		for i := range info.fields {
			args = append(args, vc.zero(info.st.Field(i).Type()))
		}
		if len(args) == 0 {
			return T{"mk" + s, s}
		}
		return mk(s, "mk"+s, args...)
	}
	return vc.fresh("zero", s)
}

func (vc *VC) sliceSortOfType(t types.Type) (Sort, Sort) {
	var et types.Type
	switch u := t.Underlying().(type) {
	case *types.Slice:
		et = u.Elem()
	case *types.Array:
		et = u.Elem()
	case *types.Pointer:
		return vc.sliceSortOfType(u.Elem())
	default:
		panic("not a slice type: " + t.String())
	}
	es := vc.sortOf(et)
	ss := vc.sliceSort(es)
	sliceElemSet(ss, es)
	return ss, es
}

func slArr(s T) T {
	return mk(ArraySort(SInt, sliceElemGet(s.sort)), s.sort+".arr", s)
}
func slLen(s T) T { return mk(SInt, s.sort+".len", s) }
func slNil(s T) T { return mk(SBool, s.sort+".nil", s) }
func mkSlice(sort Sort, arr, n, isnil T) T {
	return mk(sort, "mk"+sort, arr, n, isnil)
}

// boxing of non-primitive sorts into Value
func (vc *VC) box(v T, t types.Type) T {
	tid := vc.typeID(t)
	switch v.sort {
	case SInt:
		if isRefType(t) {
			return mk(SVal, "VRef", tid, v)
		}
		return mk(SVal, "VInt", tid, v)
	case SReal:
		return mk(SVal, "VReal", tid, v)
	case SStr:
		return mk(SVal, "VStr", tid, v)
	case SBool:
		return mk(SVal, "VBool", tid, v)
	case SVal:
		return v
	}
	vc.declareBox(v.sort)
	return mk(SVal, "VOther", tid, mk(SInt, "box."+sortSym(v.sort), v))
}

func (vc *VC) declareBox(s Sort) {
	if vc.boxes[s] {
		return
	}
	vc.boxes[s] = true
	n := sortSym(s)
	vc.ufun("box."+n, []Sort{s}, SInt)
	vc.ufun("unbox."+n, []Sort{SInt}, s)
	vc.axiom(fmt.Sprintf("(forall ((x %s)) (! (= (unbox.%s (box.%s x)) x) :pattern ((box.%s x))))", s, n, n, n))
}

func isRefType(t types.Type) bool {
	if isTimeTime(t) {
		return false
	}
	switch t.Underlying().(type) {
	case *types.Pointer, *types.Map, *types.Chan, *types.Signature:
		return true
	}
	return false
}

// isType: v (Value) holds dynamic type t
func (vc *VC) isType(v T, t types.Type) T {
	tid := vc.typeID(t)
	s := vc.sortOf(t)
	switch s {
	case SInt:
		if isRefType(t) {
			return And(mk(SBool, "(_ is VRef)", v), Eq(mk(SInt, "vtP", v), tid))
		}
		return And(mk(SBool, "(_ is VInt)", v), Eq(mk(SInt, "vtI", v), tid))
	case SReal:
		return And(mk(SBool, "(_ is VReal)", v), Eq(mk(SInt, "vtR", v), tid))
	case SStr:
		return And(mk(SBool, "(_ is VStr)", v), Eq(mk(SInt, "vtS", v), tid))
	case SBool:
		return And(mk(SBool, "(_ is VBool)", v), Eq(mk(SInt, "vtB", v), tid))
	}
	return And(mk(SBool, "(_ is VOther)", v), Eq(mk(SInt, "vtO", v), tid))
}

func (vc *VC) unbox(v T, t types.Type) T {
	s := vc.sortOf(t)
	switch s {
	case SInt:
		if isRefType(t) {
			return mk(SInt, "vref", v)
		}
		return mk(SInt, "vint", v)
	case SReal:
		return mk(SReal, "vreal", v)
	case SStr:
		return mk(SStr, "vstr", v)
	case SBool:
		return mk(SBool, "vbool", v)
	case SVal:
		return v
	}
	vc.declareBox(s)
	return mk(s, "unbox."+sortSym(s), mk(SInt, "vbox", v))
}

// strLit returns the constant for a string literal with its bytes axiomatised.
func (vc *VC) strLit(s string) T {
	if s == "" {
		return T{"gs.empty", SStr}
	}
	if t, ok := vc.strLits[s]; ok {
		return t
	}
	vc.needStrings()
	name := fmt.Sprintf("lit!%d", len(vc.strLits)+1)
	vc.declare("c:"+name, fmt.Sprintf("(declare-fun %s () Str)", name))
	t := T{name, SStr}
	vc.strLits[s] = t
	vc.axiom(fmt.Sprintf("(= (gs.len %s) %d)", name, len(s)))
	for i := 0; i < len(s) && i < 64; i++ {
		vc.axiom(fmt.Sprintf("(= (gs.at %s %d) %d)", name, i, s[i]))
	}
	return t
}

func (vc *VC) sortedNotes() []string {
	var xs []string
	for k := range vc.notes {
		xs = append(xs, k)
	}
	sort.Strings(xs)
	return xs
}

// constArray: an array holding zero everywhere. Solvers accept `as const` only for value elements; for elements
// built from uninterpreted constants (empty string, opaque) a named array with a quantified axiom is used.
func (vc *VC) constArray(ez T) T {
	as := ArraySort(SInt, ez.sort)
	if !strings.Contains(ez.s, "gs.empty") && !strings.Contains(ez.s, "opq.zero") && !strings.Contains(ez.s, "!") {
		return T{fmt.Sprintf("((as const %s) %s)", as, ez.s), as}
	}
	name := "zeroarr." + sortSym(ez.sort)
	if !vc.declSet["c:"+name] {
		vc.constant(name, as)
		vc.axiom(fmt.Sprintf("(forall ((i!z Int)) (! (= (select %s i!z) %s) :pattern ((select %s i!z))))", name, ez.s, name))
	}
	return T{name, as}
}

func (vc *VC) declareSqrt() {
	if vc.declSet["f:real.sqrt"] {
		return
	}
	vc.ufun("real.sqrt", []Sort{SReal}, SReal)
	vc.axiom("(forall ((x Real)) (! (=> (>= x 0.0) (and (>= (real.sqrt x) 0.0) (= (* (real.sqrt x) (real.sqrt x)) x))) :pattern ((real.sqrt x))))")
}

// declareASCII introduces gs.ascii(s) ("every byte of s is below 0x80") together with its two defining axioms:
// elimination (each byte is below 128) and introduction through a witness function (a string that is not
// all-ASCII has an index holding a byte >= 128).
func (vc *VC) declareASCII() {
	if vc.declSet["f:gs.ascii"] {
		return
	}
	vc.needStrings()
	vc.ufun("gs.ascii", []Sort{SStr}, SBool)
	vc.ufun("gs.nonascii", []Sort{SStr}, SInt)
	vc.axiom("(forall ((s Str) (i Int)) (! (=> (and (gs.ascii s) (<= 0 i) (< i (gs.len s))) (< (gs.at s i) 128)) :pattern ((gs.ascii s) (gs.at s i))))")
	vc.axiom("(forall ((s Str)) (! (or (gs.ascii s) (and (<= 0 (gs.nonascii s)) (< (gs.nonascii s) (gs.len s)) (>= (gs.at s (gs.nonascii s)) 128))) :pattern ((gs.ascii s))))")
}
