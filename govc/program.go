package main

import (
	"fmt"
	"regexp"
	"go/ast"
	"go/token"
	"go/types"
	"os"
	"path/filepath"
	"sort"
	"strings"

	"golang.org/x/tools/go/packages"
	"golang.org/x/tools/go/ssa"
	"golang.org/x/tools/go/ssa/ssautil"
)

type Program struct {
	fset     *token.FileSet
	pkgs     []*packages.Package
	prog     *ssa.Program
	spkgs    map[string]*ssa.Package
	specs    map[string]*PkgSpec // by package path
	byFunc   map[*ssa.Function]*Contract
	funcs    map[string]*ssa.Function // "pkgpath::relname"
	repoDir  string
	specDir  string // override dir for contract files (development)
	pureExt  map[string]bool
	immutHeaps map[string]bool // field heaps declared immutable
	missingAnchors []string   // contracts whose function no longer exists
	immutNonNil map[string]bool // ... and never nil once their constructor has returned (`f!`)
	models   map[string]modelFn
	inlinableMemo map[*ssa.Function]bool
}

type modelFn func(ex *Exec, st *State, args []T, c *ssa.CallCommon) []T

const modPath = "github.com/rulego/streamsql"

func goEnv() []string {
	return append(os.Environ(), "GOFLAGS=-mod=mod", "GOPROXY=off", "GOSUMDB=off", "GOTOOLCHAIN=local")
}

func loadProgram(repoDir, specDir string, patterns []string) (*Program, error) {
	cfg := &packages.Config{
		Mode:       packages.LoadAllSyntax,
		Dir:        repoDir,
		BuildFlags: []string{"-tags=verif"},
		Env:        goEnv(),
	}
	pkgs, err := packages.Load(cfg, patterns...)
	if err != nil {
		return nil, err
	}
	nerr := 0
	packages.Visit(pkgs, nil, func(p *packages.Package) {
		if strings.HasPrefix(p.PkgPath, modPath) {
			for _, e := range p.Errors {
				fmt.Fprintln(os.Stderr, "load error:", e)
				nerr++
			}
		}
	})
	if nerr > 0 {
		return nil, fmt.Errorf("%d load errors in %s", nerr, repoDir)
	}
	prog, _ := ssautil.AllPackages(pkgs, ssa.NaiveForm)
	P := &Program{fset: prog.Fset, pkgs: pkgs, prog: prog, spkgs: map[string]*ssa.Package{}, specs: map[string]*PkgSpec{}, byFunc: map[*ssa.Function]*Contract{}, funcs: map[string]*ssa.Function{}, repoDir: repoDir, specDir: specDir, pureExt: map[string]bool{}}
	P.models = builtinModels()
	P.inlinableMemo = map[*ssa.Function]bool{}
	for _, sp := range prog.AllPackages() {
		if strings.HasPrefix(sp.Pkg.Path(), modPath) {
			sp.Build()
			P.spkgs[sp.Pkg.Path()] = sp
		}
	}
	for fn := range ssautil.AllFunctions(prog) {
		if fn.Pkg == nil || !strings.HasPrefix(fn.Pkg.Pkg.Path(), modPath) {
			continue
		}
		if fn.Synthetic != "" && !strings.HasPrefix(fn.Synthetic, "package init") {
			continue
		}
		P.funcs[fn.Pkg.Pkg.Path()+"::"+fn.RelString(fn.Pkg.Pkg)] = fn
	}
	// contract files
	var paths []string
	for p := range P.spkgs {
		paths = append(paths, p)
	}
	sort.Strings(paths)
	for _, path := range paths {
		rel := strings.TrimPrefix(strings.TrimPrefix(path, modPath), "/")
		cands := []string{}
		if specDir != "" {
			name := rel
			if name == "" {
				name = "root"
			}
			cands = append(cands, filepath.Join(specDir, strings.ReplaceAll(name, "/", "_")+".go"))
		}
		cands = append(cands, filepath.Join(repoDir, rel, "contracts_verif.go"))
		for _, c := range cands {
			if _, err := os.Stat(c); err == nil {
				ps, err := parseContractFile(c, path)
				if err != nil {
					return nil, err
				}
				P.specs[path] = ps
				for _, pe := range ps.PureExt {
					P.pureExt[pe] = true
				}
				break
			}
		}
	}
	// immutable fields -> heap names
	P.immutHeaps = map[string]bool{}
	for path, ps := range P.specs {
		sp := P.spkgs[path]
		for _, c := range ps.ImmutCells {
			P.immutHeaps["D_"+sanitize(c)] = true
		}
		for tn, fields := range ps.Immutable {
			obj := sp.Pkg.Scope().Lookup(tn)
			if obj == nil {
				return nil, fmt.Errorf("%s: immutable %s: no such type", ps.File, tn)
			}
			st, ok := obj.Type().Underlying().(*types.Struct)
			if !ok {
				return nil, fmt.Errorf("%s: immutable %s: not a struct", ps.File, tn)
			}
			for _, f := range fields {
				found := false
				// `immutable T: f!` — f is also never nil once the constructing function has returned
				nonNil := false
				for _, nf := range ps.ImmutNonNil[tn] {
					if nf == f {
						nonNil = true
					}
				}
				for i := 0; i < st.NumFields(); i++ {
					if st.Field(i).Name() == f {
						P.immutHeaps[fieldHeapName(obj.Type(), i)] = true
						if nonNil {
							if P.immutNonNil == nil {
								P.immutNonNil = map[string]bool{}
							}
							P.immutNonNil[fieldHeapName(obj.Type(), i)] = true
						}
						found = true
					}
				}
				if !found {
					return nil, fmt.Errorf("%s: immutable %s.%s: no such field", ps.File, tn, f)
				}
			}
		}
	}
	// resolve contracts to functions
	for path, ps := range P.specs {
		for _, name := range append([]string(nil), ps.Order...) {
			con := ps.Contracts[name]
			if strings.HasPrefix(name, "iface.") {
				con.Trusted = true
				for _, src := range con.modSrc {
					switch src {
					case "*":
						con.Modifies = append(con.Modifies, &ModClause{src: src, all: true})
					case "allmaps":
						con.Modifies = append(con.Modifies, &ModClause{src: src, allMaps: true})
					default:
						if m := regexp.MustCompile(`^pkgheaps\((\w+)\)$`).FindStringSubmatch(src); m != nil {
							con.Modifies = append(con.Modifies, &ModClause{src: src, pkgHeaps: m[1]})
							continue
						}
						return nil, fmt.Errorf("%s:%d: interface contracts support only `modifies *` / `modifies allmaps` / `modifies pkgheaps(pkg)` / nothing", con.File, con.Line)
					}
				}
				continue
			}
			fn := P.funcs[path+"::"+name]
			if fn == nil {
				// the function a contract is written for is gone (renamed, removed, restructured): everything that was
				// proved about it is lost; the check reports that as a violation and goes on with the other contracts
				P.missingAnchors = append(P.missingAnchors, fmt.Sprintf("%s:%d: contract for %s: no such function in %s (anchor missing)", con.File, con.Line, name, path))
				delete(ps.Contracts, name)
				var kept []string
				for _, n := range ps.Order {
					if n != name {
						kept = append(kept, n)
					}
				}
				ps.Order = kept
				continue
			}
			P.byFunc[fn] = con
			if err := P.resolveModifies(fn, con); err != nil {
				// the frame of a contract no longer fits the code (a field it names is gone): same treatment
				P.missingAnchors = append(P.missingAnchors, fmt.Sprintf("%s:%d: contract for %s: %v (anchor missing)", con.File, con.Line, name, err))
				delete(P.byFunc, fn)
				delete(ps.Contracts, name)
				var kept []string
				for _, n := range ps.Order {
					if n != name {
						kept = append(kept, n)
					}
				}
				ps.Order = kept
				continue
			}
		}
	}
	return P, nil
}

func (P *Program) contractOf(fn *ssa.Function) *Contract {
	if fn == nil {
		return nil
	}
	return P.byFunc[fn]
}

func (P *Program) pred(pkg *types.Package, name string) *Pred {
	if ps := P.specs[pkg.Path()]; ps != nil {
		if p := ps.Preds[name]; p != nil {
			return p
		}
	}
	// predicates of imported packages' specs are visible too
	for _, ps := range P.specs {
		if p := ps.Preds[name]; p != nil {
			return p
		}
	}
	return nil
}

func (P *Program) recFunc(pkg *types.Package, name string) *RecFunc {
	for _, ps := range P.specs {
		if r := ps.RecFuncs[name]; r != nil {
			return r
		}
	}
	return nil
}

func (P *Program) ghostField(owner types.Type, name string) *GhostField { return nil }

// ifaceContract: an assumed contract for calls through an interface, written as `extern iface.<Interface>.<Method>`
// in the contract file of the interface's package. Only its frame (modifies) is used at call sites.
func (P *Program) ifaceContract(t types.Type, method string) *Contract {
	n, ok := types.Unalias(t).(*types.Named)
	if !ok || n.Obj().Pkg() == nil {
		return nil
	}
	ps := P.specs[n.Obj().Pkg().Path()]
	if ps == nil {
		return nil
	}
	return ps.Contracts["iface."+n.Obj().Name()+"."+method]
}

func (P *Program) heapSortHint(ex *Exec, h string) (Sort, bool) { return "", false }

// resolveModifies types the `modifies x.f, *p, map(m)` clauses against the function's parameters.
func (P *Program) resolveModifies(fn *ssa.Function, con *Contract) error {
	vc := newVC("modifies")
	for _, src := range con.modSrc {
		if src == "*" {
			con.Modifies = append(con.Modifies, &ModClause{src: src, all: true})
			continue
		}
		if src == "allmaps" {
			con.Modifies = append(con.Modifies, &ModClause{src: src, allMaps: true})
			continue
		}
		if m := regexp.MustCompile(`^pkgheaps\((\w+)\)$`).FindStringSubmatch(src); m != nil {
			con.Modifies = append(con.Modifies, &ModClause{src: src, pkgHeaps: m[1]})
			continue
		}
		e, err := parseSpecExpr(src)
		if err != nil {
			return err
		}
		mc := &ModClause{src: src, raw: e}
		typeOf := func(e ast.Expr) (types.Type, error) { return nil, nil }
		var tyOf func(e ast.Expr) (types.Type, error)
		tyOf = func(e ast.Expr) (types.Type, error) {
			switch e := e.(type) {
			case *ast.Ident:
				for _, p := range fn.Params {
					if p.Name() == e.Name {
						return p.Type(), nil
					}
				}
				if obj := fn.Pkg.Pkg.Scope().Lookup(e.Name); obj != nil {
					return obj.Type(), nil
				}
				return nil, fmt.Errorf("modifies: unknown %s", e.Name)
			case *ast.SelectorExpr:
				bt, err := tyOf(e.X)
				if err != nil {
					return nil, err
				}
				if pt, ok := bt.Underlying().(*types.Pointer); ok {
					bt = pt.Elem()
				}
				st, ok := bt.Underlying().(*types.Struct)
				if !ok {
					return nil, fmt.Errorf("modifies: %s is not a struct", bt)
				}
				for i := 0; i < st.NumFields(); i++ {
					if st.Field(i).Name() == e.Sel.Name {
						return st.Field(i).Type(), nil
					}
				}
				return nil, fmt.Errorf("modifies: no field %s", e.Sel.Name)
			case *ast.ParenExpr:
				return tyOf(e.X)
			}
			return nil, fmt.Errorf("modifies: unsupported expression")
		}
		_ = typeOf
		switch x := e.(type) {
		case *ast.SelectorExpr:
			bt, err := tyOf(x.X)
			if err != nil {
				return err
			}
			pt, ok := bt.Underlying().(*types.Pointer)
			if !ok {
				return fmt.Errorf("modifies %s: base is not a pointer", src)
			}
			st, ok := pt.Elem().Underlying().(*types.Struct)
			if !ok {
				return fmt.Errorf("modifies %s: not a struct", src)
			}
			found := false
			for i := 0; i < st.NumFields(); i++ {
				if st.Field(i).Name() == x.Sel.Name {
					mc.heaps = append(mc.heaps, fieldHeapName(pt.Elem(), i))
					mc.sorts = append(mc.sorts, ArraySort(SInt, vc.sortOf(st.Field(i).Type())))
					found = true
				}
			}
			if !found {
				return fmt.Errorf("modifies %s: no such field", src)
			}
			mc.at = x.X
		case *ast.StarExpr:
			bt, err := tyOf(x.X)
			if err != nil {
				return err
			}
			pt, ok := bt.Underlying().(*types.Pointer)
			if !ok {
				return fmt.Errorf("modifies %s: not a pointer", src)
			}
			if st, ok := pt.Elem().Underlying().(*types.Struct); ok && !isTimeTime(pt.Elem()) && !isOpaqueNamed(pt.Elem()) {
				for i := 0; i < st.NumFields(); i++ {
					mc.heaps = append(mc.heaps, fieldHeapName(pt.Elem(), i))
					mc.sorts = append(mc.sorts, ArraySort(SInt, vc.sortOf(st.Field(i).Type())))
				}
			} else {
				mc.heaps = append(mc.heaps, derefHeapName(pt.Elem()))
				mc.sorts = append(mc.sorts, ArraySort(SInt, vc.sortOf(pt.Elem())))
			}
			mc.at = x.X
		case *ast.CallExpr:
			id, ok := x.Fun.(*ast.Ident)
			if ok && id.Name == "ghost" && len(x.Args) == 1 {
				g, ok := x.Args[0].(*ast.Ident)
				if !ok {
					return fmt.Errorf("modifies %s: ghost(name)", src)
				}
				mc.heaps = append(mc.heaps, "G_ghost."+g.Name)
				mc.sorts = append(mc.sorts, SInt)
				break
			}
			if !ok || (id.Name != "mapof" && id.Name != "heap") || len(x.Args) != 1 {
				return fmt.Errorf("modifies %s: expected mapof(expr) or heap(T.f)", src)
			}
			if id.Name == "heap" {
				// whole field heap of a type: heap(T.f)
				sel, ok := x.Args[0].(*ast.SelectorExpr)
				if !ok {
					return fmt.Errorf("modifies %s: heap(T.f)", src)
				}
				if tn, ok := sel.X.(*ast.Ident); ok && tn.Name == "strings" && sel.Sel.Name == "Builder" {
					// heap(strings.Builder): the ghost heap holding the text of every strings.Builder
					mc.heaps = append(mc.heaps, builderHeap)
					mc.sorts = append(mc.sorts, ArraySort(SInt, SStr))
					break
				}
				var obj types.Object
				if qs, isQual := sel.X.(*ast.SelectorExpr); isQual {
					// heap(pkg.T.f): a type of an imported package
					if pn, ok := qs.X.(*ast.Ident); ok {
						for _, imp := range fn.Pkg.Pkg.Imports() {
							if imp.Name() == pn.Name {
								obj = imp.Scope().Lookup(qs.Sel.Name)
							}
						}
					}
				} else if tn, ok := sel.X.(*ast.Ident); ok {
					obj = fn.Pkg.Pkg.Scope().Lookup(tn.Name)
				} else {
					return fmt.Errorf("modifies %s: heap(T.f)", src)
				}
				if obj == nil {
					return fmt.Errorf("modifies %s: unknown type", src)
				}
				st, ok := obj.Type().Underlying().(*types.Struct)
				if !ok {
					return fmt.Errorf("modifies %s: not a struct type", src)
				}
				for i := 0; i < st.NumFields(); i++ {
					if st.Field(i).Name() == sel.Sel.Name {
						mc.heaps = append(mc.heaps, fieldHeapName(obj.Type(), i))
						mc.sorts = append(mc.sorts, ArraySort(SInt, vc.sortOf(st.Field(i).Type())))
					}
				}
				break
			}
			mt, err := tyOf(x.Args[0])
			if err != nil {
				return err
			}
			m, ok := mt.Underlying().(*types.Map)
			if !ok {
				return fmt.Errorf("modifies %s: not a map", src)
			}
			ks := vc.sortOf(m.Key())
			vs := vc.sortOf(m.Elem())
			n := mapTypeSym(mt)
			mc.heaps = append(mc.heaps, "MapDom_"+n, "MapVal_"+n)
			mc.sorts = append(mc.sorts, ArraySort(SInt, ArraySort(ks, SBool)), ArraySort(SInt, ArraySort(ks, vs)))
			mc.at = x.Args[0]
		default:
			return fmt.Errorf("modifies %s: unsupported form", src)
		}
		con.Modifies = append(con.Modifies, mc)
	}
	return nil
}

// ------------------------------------------------------------------ purity tables

var pureFuncs = map[string]bool{}

// builderHeap holds the text accumulated by each strings.Builder (keyed by its address).
const builderHeap = "H_strings.Builder.content"

var purePrefixes = []string{
	"strings.", "strconv.", "math.", "unicode.", "unicode/utf8.", "fmt.Sprintf", "fmt.Sprint", "fmt.Errorf", "errors.New", "errors.Is",
	"(time.Time).", "(time.Duration).", "time.Unix", "time.Date", "time.Since", "time.Duration", "(*time.Time).",
	"(reflect.Value).", "reflect.ValueOf", "reflect.TypeOf", "(*reflect.rtype).", "reflect.DeepEqual",
	"path.", "path/filepath.Base", "sort.SearchInts", "sort.SearchStrings", "bytes.Equal", "bytes.Compare",
	"(*regexp.Regexp).", "regexp.MustCompile", "regexp.QuoteMeta",
	"(*errors.errorString).Error",
	"(*sync/atomic.Int64).Load", "(*sync/atomic.Int32).Load", "(*sync/atomic.Bool).Load", "sync/atomic.LoadInt64", "sync/atomic.LoadInt32",
	"(*sync/atomic.Uint64).Load", "(*sync/atomic.Value).Load",
	"github.com/rulego/streamsql/logger.", "(*github.com/rulego/streamsql/logger.", "log.Printf", "log.Println",
	"github.com/rulego/streamsql/window.debugLog",
	"context.WithCancel", "context.Background", "(context.CancelFunc)",
}

// side-effecting but irrelevant to modelled state (counters, logging, wake-ups)
var benignPrefixes = []string{
	"(*sync/atomic.Int64).", "(*sync/atomic.Int32).", "(*sync/atomic.Bool).", "(*sync/atomic.Uint64).", "sync/atomic.",
	"(*sync.WaitGroup).", "(*sync.Once).Do", "(*time.Ticker).", "time.NewTicker", "time.NewTimer", "(*time.Timer).", "time.After", "time.Sleep",
	"(*sync.Cond).", "runtime.",
}

func (P *Program) isPure(name string) bool {
	if P.pureExt[name] {
		return true
	}
	for _, p := range purePrefixes {
		if strings.HasPrefix(name, p) {
			return true
		}
	}
	for _, p := range benignPrefixes {
		if strings.HasPrefix(name, p) {
			return true
		}
	}
	return false
}

func (P *Program) isPureMethod(method string, recv types.Type) bool {
	rs := types.TypeString(types.Unalias(recv), nil)
	switch rs {
	case "error":
		return method == "Error"
	case "context.Context":
		return true
	case "reflect.Type":
		return true
	case "fmt.Stringer":
		return true
	}
	if strings.HasSuffix(rs, "logger.Logger") {
		return true
	}
	return false
}

// ------------------------------------------------------------------ models of library functions

func builtinModels() map[string]modelFn {
	m := map[string]modelFn{}
	b1 := func(f func(a T) T) modelFn {
		return func(ex *Exec, st *State, args []T, c *ssa.CallCommon) []T { return []T{f(args[0])} }
	}
	b2 := func(f func(a, b T) T) modelFn {
		return func(ex *Exec, st *State, args []T, c *ssa.CallCommon) []T { return []T{f(args[0], args[1])} }
	}
	zt := T{ZeroTime, SInt}
	m["(time.Time).Before"] = b2(func(a, b T) T { return Lt(a, b) })
	m["(time.Time).After"] = b2(func(a, b T) T { return Gt(a, b) })
	m["(time.Time).Equal"] = b2(func(a, b T) T { return Eq(a, b) })
	m["(time.Time).Compare"] = b2(func(a, b T) T { return Ite(Lt(a, b), IntLit(-1), Ite(Gt(a, b), IntLit(1), IntLit(0))) })
	m["(time.Time).IsZero"] = b1(func(a T) T { return Eq(a, zt) })
	m["(time.Time).Add"] = b2(func(a, b T) T { return Add(a, b) })
	m["(time.Time).Sub"] = b2(func(a, b T) T { return Sub(a, b) })
	m["(time.Time).UnixNano"] = b1(func(a T) T { return a })
	m["(time.Time).UTC"] = b1(func(a T) T { return a })
	m["(time.Time).Local"] = b1(func(a T) T { return a })
	m["(time.Time).UnixMilli"] = b1(func(a T) T { return mk(SInt, "div", a, IntLit(1000000)) })
	m["(time.Time).UnixMicro"] = b1(func(a T) T { return mk(SInt, "div", a, IntLit(1000)) })
	m["(time.Time).Unix"] = b1(func(a T) T { return mk(SInt, "div", a, IntLit(1000000000)) })
	m["(time.Duration).Nanoseconds"] = b1(func(a T) T { return a })
	m["(time.Duration).Milliseconds"] = b1(func(a T) T { return mk(SInt, "go.div", a, IntLit(1000000)) })
	m["time.Unix"] = b2(func(a, b T) T { return Add(Mul(a, IntLit(1000000000)), b) })
	m["time.UnixMilli"] = b1(func(a T) T { return Mul(a, IntLit(1000000)) })
	m["time.UnixMicro"] = b1(func(a T) T { return Mul(a, IntLit(1000)) })
	m["time.Now"] = func(ex *Exec, st *State, args []T, c *ssa.CallCommon) []T {
		now := ex.vc.fresh("now", SInt)
		prev := ex.ghostGet(st, "now")
		ex.vc.assume(st.guard, And(Ge(now, prev), Gt(now, IntLit(0))))
		st.ghost["now"] = now
		ex.vc.assumed["A4: time.Now() is monotone and after the Unix epoch"] = true
		return []T{now}
	}
	m["math.Abs"] = b1(func(a T) T { return Ite(Ge(a, T{"0.0", SReal}), a, mk(SReal, "-", a)) })
	m["math.Floor"] = b1(func(a T) T { return mk(SReal, "to_real", mk(SInt, "to_int", a)) })
	// floor(x) = to_int(x) in SMT-LIB; ceil(x) = -floor(-x); trunc rounds toward zero; round is half away from zero
	flo := func(a T) T { return mk(SReal, "to_real", mk(SInt, "to_int", a)) }
	neg := func(a T) T { return mk(SReal, "-", a) }
	m["math.Ceil"] = b1(func(a T) T { return neg(flo(neg(a))) })
	m["math.Trunc"] = b1(func(a T) T { return Ite(Ge(a, T{"0.0", SReal}), flo(a), neg(flo(neg(a)))) })
	m["math.Round"] = b1(func(a T) T {
		half := T{"0.5", SReal}
		return Ite(Ge(a, T{"0.0", SReal}), flo(Add(a, half)), neg(flo(Add(neg(a), half))))
	})
	m["math.Max"] = b2(func(a, b T) T { return Ite(Ge(a, b), a, b) })
	m["math.Min"] = b2(func(a, b T) T { return Ite(Le(a, b), a, b) })
	m["math.IsNaN"] = b1(func(a T) T { return TFalse })
	m["math.IsInf"] = b2(func(a, b T) T { return TFalse })
	m["strings.HasPrefix"] = func(ex *Exec, st *State, args []T, c *ssa.CallCommon) []T {
		s, p := args[0], args[1]
		ln := func(x T) T { return mk(SInt, "gs.len", x) }
		return []T{ex.define("hasprefix", And(Le(ln(p), ln(s)), Eq(ex.strSub(s, IntLit(0), ln(p)), p)))}
	}
	// strings.Builder: the text built so far lives in a ghost heap indexed by the builder's address
	bget := func(ex *Exec, st *State, b T) T {
		ex.vc.needStrings()
		return Select(ex.heapGet(st, builderHeap, ArraySort(SInt, SStr)), b)
	}
	bset := func(ex *Exec, st *State, b, v T) {
		h := ex.heapGet(st, builderHeap, ArraySort(SInt, SStr))
		ex.heapSet(st, builderHeap, Store(h, b, v))
	}
	m["(*strings.Builder).WriteString"] = func(ex *Exec, st *State, args []T, c *ssa.CallCommon) []T {
		bset(ex, st, args[0], ex.strConcat(st, bget(ex, st, args[0]), args[1]))
		return []T{mk(SInt, "gs.len", args[1]), IntLit(0)}
	}
	m["(*strings.Builder).WriteByte"] = func(ex *Exec, st *State, args []T, c *ssa.CallCommon) []T {
		one := ex.vc.fresh("byte.str", SStr)
		ex.vc.assume(st.guard, And(Eq(mk(SInt, "gs.len", one), IntLit(1)), Eq(mk(SInt, "gs.at", one, IntLit(0)), args[1])))
		bset(ex, st, args[0], ex.strConcat(st, bget(ex, st, args[0]), one))
		return []T{IntLit(0)}
	}
	m["(*strings.Builder).WriteRune"] = func(ex *Exec, st *State, args []T, c *ssa.CallCommon) []T {
		r := ex.vc.fresh("rune.str", SStr)
		ex.vc.assume(st.guard, And(Ge(mk(SInt, "gs.len", r), IntLit(1)), Le(mk(SInt, "gs.len", r), IntLit(4))))
		bset(ex, st, args[0], ex.strConcat(st, bget(ex, st, args[0]), r))
		n := ex.vc.fresh("rune.n", SInt)
		ex.vc.assume(st.guard, Eq(n, mk(SInt, "gs.len", r)))
		return []T{n, IntLit(0)}
	}
	m["(*strings.Builder).String"] = func(ex *Exec, st *State, args []T, c *ssa.CallCommon) []T {
		return []T{bget(ex, st, args[0])}
	}
	m["(*strings.Builder).Len"] = func(ex *Exec, st *State, args []T, c *ssa.CallCommon) []T {
		return []T{mk(SInt, "gs.len", bget(ex, st, args[0]))}
	}
	m["(*strings.Builder).Reset"] = func(ex *Exec, st *State, args []T, c *ssa.CallCommon) []T {
		bset(ex, st, args[0], T{"gs.empty", SStr})
		return nil
	}
	m["(*strings.Builder).Grow"] = func(ex *Exec, st *State, args []T, c *ssa.CallCommon) []T {
		ex.safeOblige(st, "grow-count", Ge(args[1], IntLit(0)))
		return nil
	}
	// container/list as an unordered bag of elements: an element keeps the Value it was created with, the order
	// (and therefore Back/Front) and the length are unknown. Sound for statements that do not depend on the order.
	listElemValue := func(ex *Exec, st *State, c *ssa.CallCommon, elemPtr types.Type) (string, Sort, bool) {
		pt, ok := elemPtr.Underlying().(*types.Pointer)
		if !ok {
			return "", "", false
		}
		stt, ok := pt.Elem().Underlying().(*types.Struct)
		if !ok {
			return "", "", false
		}
		for i := 0; i < stt.NumFields(); i++ {
			if stt.Field(i).Name() == "Value" {
				return fieldHeapName(pt.Elem(), i), ArraySort(SInt, SVal), true
			}
		}
		return "", "", false
	}
	m["(*container/list.List).PushFront"] = func(ex *Exec, st *State, args []T, c *ssa.CallCommon) []T {
		e := ex.freshRef(st, "listelem")
		if h, srt, ok := listElemValue(ex, st, c, c.StaticCallee().Signature.Results().At(0).Type()); ok {
			ex.heapSet(st, h, Store(ex.heapGet(st, h, srt), e, args[1]))
		}
		ex.vc.assumed["container/list modelled as an unordered bag (element values kept; order, Back/Front and Len unknown)"] = true
		return []T{e}
	}
	m["(*container/list.List).PushBack"] = m["(*container/list.List).PushFront"]
	m["(*container/list.List).MoveToFront"] = func(ex *Exec, st *State, args []T, c *ssa.CallCommon) []T { return nil }
	m["(*container/list.List).MoveToBack"] = m["(*container/list.List).MoveToFront"]
	m["(*container/list.List).Remove"] = func(ex *Exec, st *State, args []T, c *ssa.CallCommon) []T {
		if h, srt, ok := listElemValue(ex, st, c, c.StaticCallee().Signature.Params().At(0).Type()); ok {
			return []T{Select(ex.heapGet(st, h, srt), args[1])}
		}
		return []T{ex.vc.fresh("list.remove", SVal)}
	}
	m["(*container/list.List).Back"] = func(ex *Exec, st *State, args []T, c *ssa.CallCommon) []T {
		r := ex.vc.fresh("list.back", SInt)
		ex.vc.assume(st.guard, And(Ge(r, IntLit(0)), Le(r, ex.ghostGet(st, "alloc"))))
		return []T{r}
	}
	m["(*container/list.List).Front"] = m["(*container/list.List).Back"]
	m["(*container/list.List).Len"] = func(ex *Exec, st *State, args []T, c *ssa.CallCommon) []T {
		r := ex.vc.fresh("list.len", SInt)
		ex.vc.assume(st.guard, Ge(r, IntLit(0)))
		return []T{r}
	}
	m["container/list.New"] = func(ex *Exec, st *State, args []T, c *ssa.CallCommon) []T {
		return []T{ex.freshRef(st, "list")}
	}
	m["(reflect.Value).Len"] = func(ex *Exec, st *State, args []T, c *ssa.CallCommon) []T {
		rs := ex.pureCall(st, "(reflect.Value).Len", c.StaticCallee().Signature, args)
		ex.vc.assume(st.guard, Ge(rs[0], IntLit(0)))
		return rs
	}
	m["(reflect.Value).Index"] = func(ex *Exec, st *State, args []T, c *ssa.CallCommon) []T {
		// panics unless 0 <= i < v.Len() (slice, array or string value)
		callee := c.StaticCallee()
		if named, ok := callee.Signature.Recv().Type().(*types.Named); ok {
			for i := 0; i < named.NumMethods(); i++ {
				if m := named.Method(i); m.Name() == "Len" {
					ln := ex.pureCall(st, "(reflect.Value).Len", m.Type().(*types.Signature), args[:1])[0]
					ex.vc.assume(st.guard, Ge(ln, IntLit(0)))
					ex.safeOblige(st, "reflect-index", And(Ge(args[1], IntLit(0)), Lt(args[1], ln)))
				}
			}
		}
		return ex.pureCall(st, "(reflect.Value).Index", callee.Signature, args)
	}
	// strings.Index / LastIndex: -1 or a position where the needle occurs (the needle fits, and the bytes there are the needle's)
	strIndex := func(name string) modelFn {
		return func(ex *Exec, st *State, args []T, c *ssa.CallCommon) []T {
			ex.vc.needStrings()
			rs := ex.pureCall(st, name, c.StaticCallee().Signature, args)
			ln := func(x T) T { return mk(SInt, "gs.len", x) }
			r := rs[0]
			ex.vc.assume(st.guard, Ge(r, IntLit(-1)))
			ex.vc.assume(st.guard, Imp(Ge(r, IntLit(0)), And(Le(Add(r, ln(args[1])), ln(args[0])), Eq(ex.strSub(args[0], r, Add(r, ln(args[1]))), args[1]))))
			ex.vc.assumed["strings.Index/LastIndex: -1 or an in-range occurrence of the needle"] = true
			return rs
		}
	}
	m["strings.Index"] = strIndex("strings.Index")
	m["strings.LastIndex"] = strIndex("strings.LastIndex")
	strIndexByte := func(name string) modelFn {
		return func(ex *Exec, st *State, args []T, c *ssa.CallCommon) []T {
			ex.vc.needStrings()
			rs := ex.pureCall(st, name, c.StaticCallee().Signature, args)
			r := rs[0]
			ex.vc.assume(st.guard, And(Ge(r, IntLit(-1)), Lt(r, Ite(Ge(mk(SInt, "gs.len", args[0]), IntLit(1)), mk(SInt, "gs.len", args[0]), IntLit(0)))))
			ex.vc.assume(st.guard, Imp(Ge(r, IntLit(0)), Eq(mk(SInt, "gs.at", args[0], r), args[1])))
			ex.vc.assumed["strings.IndexByte/LastIndexByte: -1 or an in-range position holding the byte"] = true
			return rs
		}
	}
	m["strings.IndexByte"] = strIndexByte("strings.IndexByte")
	m["strings.LastIndexByte"] = strIndexByte("strings.LastIndexByte")
	strShrink := func(name string) modelFn {
		return func(ex *Exec, st *State, args []T, c *ssa.CallCommon) []T {
			ex.vc.needStrings()
			rs := ex.pureCall(st, name, c.StaticCallee().Signature, args)
			ex.vc.assume(st.guard, Le(mk(SInt, "gs.len", rs[0]), mk(SInt, "gs.len", args[0])))
			ex.vc.assumed["strings.Trim*: the result is no longer than the argument"] = true
			return rs
		}
	}
	for _, n := range []string{"strings.TrimSpace", "strings.Trim", "strings.TrimLeft", "strings.TrimRight", "strings.TrimPrefix", "strings.TrimSuffix"} {
		m[n] = strShrink(n)
	}
	m["strings.Repeat"] = func(ex *Exec, st *State, args []T, c *ssa.CallCommon) []T {
		// panics on a negative count; the result has count*len(s) bytes
		ex.safeOblige(st, "repeat-count", Ge(args[1], IntLit(0)))
		ex.vc.needStrings()
		ex.vc.ufun("fn.strings.Repeat", []Sort{SStr, SInt}, SStr)
		r := mk(SStr, "fn.strings.Repeat", args[0], args[1])
		ex.vc.assume(st.guard, Eq(mk(SInt, "gs.len", r), Mul(mk(SInt, "gs.len", args[0]), args[1])))
		return []T{r}
	}
	m["strings.Split"] = func(ex *Exec, st *State, args []T, c *ssa.CallCommon) []T {
		// library facts used by callers that index the result: at least one part; with a non-empty separator
		// that occurs in s there are at least two parts (n = -1 form)
		callee := c.StaticCallee()
		rs := ex.pureCall(st, "strings.Split", callee.Signature, args)
		ex.vc.assume(st.guard, Ge(slLen(rs[0]), IntLit(1)))
		if pkg := callee.Pkg; pkg != nil {
			if cf := pkg.Func("Contains"); cf != nil {
				cont := ex.pureCall(st, "strings.Contains", cf.Signature, args)
				ex.vc.assume(st.guard, Imp(And(cont[0], Gt(mk(SInt, "gs.len", args[1]), IntLit(0))), Ge(slLen(rs[0]), IntLit(2))))
			}
		}
		ex.vc.assumed["strings.Split: >= 1 part, >= 2 parts when the non-empty separator occurs"] = true
		return rs
	}
	m["strings.HasSuffix"] = func(ex *Exec, st *State, args []T, c *ssa.CallCommon) []T {
		s, p := args[0], args[1]
		ln := func(x T) T { return mk(SInt, "gs.len", x) }
		return []T{ex.define("hassuffix", And(Le(ln(p), ln(s)), Eq(ex.strSub(s, Sub(ln(s), ln(p)), ln(s)), p)))}
	}
	m["math.Pow"] = func(ex *Exec, st *State, args []T, c *ssa.CallCommon) []T {
		if args[1].s == "2.0" {
			return []T{Mul(args[0], args[0])}
		}
		ex.vc.ufun("real.pow", []Sort{SReal, SReal}, SReal)
		return []T{mk(SReal, "real.pow", args[0], args[1])}
	}
	m["math.Sqrt"] = func(ex *Exec, st *State, args []T, c *ssa.CallCommon) []T {
		ex.vc.declareSqrt()
		return []T{mk(SReal, "real.sqrt", args[0])}
	}
	m["sort.Float64s"] = func(ex *Exec, st *State, args []T, c *ssa.CallCommon) []T {
		// in-place sort of a slice held in a local or field: the new content is ordered and has the same length
		// (that it is a permutation of the old content is the assumed part of sort's contract)
		p, ok := ex.prov[c.Args[0]]
		if !ok {
			ex.fail("sort.Float64s on a slice of unknown provenance")
			return nil
		}
		old := args[0]
		arr := ex.vc.fresh("sorted.arr", slArr(old).sort)
		nv := mkSlice(old.sort, arr, slLen(old), slNil(old))
		ex.vc.axiom(fmt.Sprintf("(forall ((i!s Int) (j!s Int)) (! (=> (and (<= 0 i!s) (<= i!s j!s) (< j!s %s)) (<= (select %s i!s) (select %s j!s))) :pattern ((select %s i!s) (select %s j!s))))", slLen(old).s, arr.s, arr.s, arr.s, arr.s))
		ex.vc.assumed["extern sort.Float64s: result is ordered, same length; permutation of the input is assumed, not used"] = true
		if err := ex.store(st, p, nv); err != nil {
			ex.fail("sort.Float64s: %v", err)
		}
		return nil
	}
	atomicLoad := func(ex *Exec, st *State, args []T, c *ssa.CallCommon) []T {
		l := ex.addr(st, c.Args[0])
		v := ex.load(st, l)
		if ex.onRead != nil {
			_ = l
		}
		return []T{v}
	}
	m["sync/atomic.LoadInt32"] = atomicLoad
	m["sync/atomic.LoadInt64"] = atomicLoad
	atomicStore := func(ex *Exec, st *State, args []T, c *ssa.CallCommon) []T {
		if err := ex.store(st, ex.addr(st, c.Args[0]), args[1]); err != nil {
			ex.fail("%v", err)
		}
		return nil
	}
	m["sync/atomic.StoreInt32"] = atomicStore
	m["sync/atomic.StoreInt64"] = atomicStore
	atomicAdd := func(ex *Exec, st *State, args []T, c *ssa.CallCommon) []T {
		l := ex.addr(st, c.Args[0])
		nv := ex.define("atomic.add", Add(ex.load(st, l), args[1]))
		if err := ex.store(st, l, nv); err != nil {
			ex.fail("%v", err)
		}
		return []T{nv}
	}
	m["sync/atomic.AddInt64"] = atomicAdd
	m["sync/atomic.AddInt32"] = atomicAdd
	m["sync/atomic.CompareAndSwapInt32"] = func(ex *Exec, st *State, args []T, c *ssa.CallCommon) []T {
		l := ex.addr(st, c.Args[0])
		cur := ex.load(st, l)
		ok := ex.define("cas.ok", Eq(cur, args[1]))
		if err := ex.store(st, l, Ite(ok, args[2], cur)); err != nil {
			ex.fail("%v", err)
		}
		return []T{ok}
	}
	// sync.Pool: Get hands out some object (a pooled one or a new one: an arbitrary value, which the caller type-asserts),
	// Put takes it back; neither writes state under contract (assumption A13: the pool's New function only allocates)
	m["(*sync.Pool).Get"] = func(ex *Exec, st *State, args []T, c *ssa.CallCommon) []T {
		ex.vc.assumed["A13: sync.Pool.Get/Put write no state under contract (the pool's New function only allocates)"] = true
		return []T{ex.vc.fresh("pool.get", SVal)}
	}
	m["(*sync.Pool).Put"] = func(ex *Exec, st *State, args []T, c *ssa.CallCommon) []T {
		ex.vc.assumed["A13: sync.Pool.Get/Put write no state under contract (the pool's New function only allocates)"] = true
		return nil
	}
	m["(*sync.Once).Do"] = func(ex *Exec, st *State, args []T, c *ssa.CallCommon) []T {
		ex.vc.note("sync.Once.Do body skipped")
		return nil
	}
	return m
}

func (P *Program) model(name string) (modelFn, bool) {
	f, ok := P.models[name]
	return f, ok
}

// calleeByShortName finds a function called (statically) from fn by its short name.
func (P *Program) calleeByShortName(fn *ssa.Function, name string) *ssa.Function {
	for _, b := range fn.Blocks {
		for _, in := range b.Instrs {
			if c, ok := in.(ssa.CallInstruction); ok {
				if f := c.Common().StaticCallee(); f != nil && f.Name() == name {
					return f
				}
			}
		}
	}
	return nil
}
