package main

// Replay of a refuted obligation against the real code, for functions whose parameters and results are scalars:
// the model's parameter values are fed to the real function through an in-package test injected with
// `go test -overlay`, and the violated clause is then evaluated (by the solver) on the real result.

import (
	"context"
	"encoding/json"
	"fmt"
	"go/types"
	"math/big"
	"os"
	"os/exec"
	"path/filepath"
	"regexp"
	"strings"
	"time"

	"golang.org/x/tools/go/ssa"
)

func scalarKind(t types.Type) string {
	if isTimeTime(t) {
		return "time"
	}
	if b, ok := t.Underlying().(*types.Basic); ok {
		switch {
		case b.Info()&types.IsInteger != 0:
			return "int"
		case b.Info()&types.IsFloat != 0:
			return "float"
		case b.Info()&types.IsBoolean != 0:
			return "bool"
		}
	}
	return ""
}

func findFuncByReportName(P *Program, name string) (*ssa.Function, *Contract) {
	for f, c := range P.byFunc {
		if f.Pkg.Pkg.Name()+"."+f.RelString(f.Pkg.Pkg) == name {
			return f, c
		}
	}
	return nil, nil
}

var valRe = regexp.MustCompile(`\(\s*([A-Za-z_.!$0-9]+)\s+(\(- [0-9.]+\)|[0-9.]+|true|false|\(/ [0-9.]+ [0-9.]+\)|\(- \(/ [0-9.]+ [0-9.]+\)\))\s*\)`)

func parseRat(s string) (*big.Rat, bool) {
	s = strings.TrimSpace(s)
	neg := false
	if strings.HasPrefix(s, "(- ") {
		neg = true
		s = strings.TrimSuffix(strings.TrimPrefix(s, "(- "), ")")
	}
	var r *big.Rat
	if strings.HasPrefix(s, "(/ ") {
		parts := strings.Fields(strings.TrimSuffix(strings.TrimPrefix(s, "(/ "), ")"))
		if len(parts) != 2 {
			return nil, false
		}
		a, ok1 := new(big.Rat).SetString(parts[0])
		b, ok2 := new(big.Rat).SetString(parts[1])
		if !ok1 || !ok2 || b.Sign() == 0 {
			return nil, false
		}
		r = new(big.Rat).Quo(a, b)
	} else {
		var ok bool
		r, ok = new(big.Rat).SetString(s)
		if !ok {
			return nil, false
		}
	}
	if neg {
		r.Neg(r)
	}
	return r, true
}

// tryPanicReplay: a refuted safety obligation of a receiver-less function whose parameters are scalars or
// strings. The model's arguments (strings rebuilt byte by byte from gs.len / gs.at) are passed to the real
// function inside a recover(); the replay is confirmed when the real function panics.
func tryPanicReplay(P *Program, vc *VC, r *Result, rf *ReplayFile) bool {
	fn, _ := findFuncByReportName(P, vc.fnName)
	if fn == nil || fn.Signature.Recv() != nil {
		rf.ReplayNote += " safety replay needs a function without receiver;"
		return false
	}
	for _, p := range fn.Params {
		if scalarKind(p.Type()) == "" && !isStringType(p.Type()) {
			rf.ReplayNote += " non-scalar parameter " + p.Name() + ";"
			return false
		}
	}
	data, err := os.ReadFile(r.File)
	if err != nil {
		return false
	}
	base := strings.Replace(string(data), "(check-sat)", "", 1)
	qf := strings.TrimSuffix(r.File, ".smt2") + ".val.smt2"
	var names []string
	for _, p := range fn.Params {
		n := "p." + sanitize(p.Name())
		if isStringType(p.Type()) {
			names = append(names, "(gs.len "+n+")")
			for i := 0; i < 24; i++ {
				names = append(names, fmt.Sprintf("(gs.at %s %d)", n, i))
			}
		} else {
			names = append(names, n)
		}
	}
	var out string
	for _, bound := range []string{"16", "1000", "1000000000", ""} {
		q := base
		for _, p := range fn.Params {
			n := "p." + sanitize(p.Name())
			if isStringType(p.Type()) {
				q += fmt.Sprintf("(assert (<= (gs.len %s) 24))\n", n)
			} else if k := scalarKind(p.Type()); bound != "" && (k == "int" || k == "time") {
				q += fmt.Sprintf("(assert (and (<= (- %s) %s) (<= %s %s)))\n", bound, n, n, bound)
			}
		}
		q += "(check-sat)\n(get-value (" + strings.Join(names, " ") + "))\n"
		os.WriteFile(qf, []byte(q), 0o644)
		for _, sp := range solvers {
			st, o := runSolver(context.Background(), sp, qf, 10000, true)
			if st == "sat" {
				out = o
				break
			}
		}
		if out != "" {
			break
		}
	}
	if out == "" {
		rf.ReplayNote += " no small model found for the safety obligation;"
		return false
	}
	termVal := regexp.MustCompile(`\(\s*(\(gs\.(?:len|at) [^()]+\)|[A-Za-z_.!$0-9]+)\s+(\(- [0-9.]+\)|[0-9.]+|true|false)\s*\)`)
	vals := map[string]string{}
	for _, m := range termVal.FindAllStringSubmatch(out, -1) {
		vals[m[1]] = m[2]
	}
	rf.ReplayInput = map[string]string{}
	var goArgs []string
	for _, p := range fn.Params {
		n := "p." + sanitize(p.Name())
		if isStringType(p.Type()) {
			lr, ok := parseRat(vals["(gs.len "+n+")"])
			if !ok || !lr.IsInt() || lr.Sign() < 0 {
				return false
			}
			ln := int(lr.Num().Int64())
			var bs []string
			for i := 0; i < ln && i < 24; i++ {
				br, ok := parseRat(vals[fmt.Sprintf("(gs.at %s %d)", n, i)])
				b := int64(0)
				if ok && br.IsInt() {
					b = br.Num().Int64()
				}
				bs = append(bs, fmt.Sprintf("%d", ((b%256)+256)%256))
			}
			lit := "string([]byte{" + strings.Join(bs, ", ") + "})"
			goArgs = append(goArgs, lit)
			rf.ReplayInput[p.Name()] = lit
			continue
		}
		v, ok := vals[n]
		if !ok {
			return false
		}
		rf.ReplayInput[p.Name()] = v
		rat, ok := parseRat(v)
		switch scalarKind(p.Type()) {
		case "bool":
			goArgs = append(goArgs, v)
		case "int":
			if !ok || !rat.IsInt() || !rat.Num().IsInt64() {
				return false
			}
			goArgs = append(goArgs, fmt.Sprintf("%s(%d)", types.TypeString(p.Type(), func(pk *types.Package) string {
				if pk == fn.Pkg.Pkg {
					return ""
				}
				return pk.Name()
			}), rat.Num().Int64()))
		case "float":
			if !ok {
				return false
			}
			f, _ := rat.Float64()
			goArgs = append(goArgs, fmt.Sprintf("float64(%v)", f))
		default:
			return false
		}
	}
	var src strings.Builder
	fmt.Fprintf(&src, "package %s\n\nimport (\n\t\"fmt\"\n\t\"testing\"\n)\n\n// generated by govc: replay of %s\nfunc TestGovcReplay(t *testing.T) {\n\tdefer func() {\n\t\tif e := recover(); e != nil {\n\t\t\tfmt.Printf(\"GOVC-PANIC %%v\\n\", e)\n\t\t}\n\t}()\n\t%s(%s)\n\tfmt.Println(\"GOVC-NO-PANIC\")\n}\n", fn.Pkg.Pkg.Name(), r.Obl.Name, fn.Name(), strings.Join(goArgs, ", "))
	dir := filepath.Join(verifRoot, "out", "replay", rf.Property)
	os.MkdirAll(dir, 0o755)
	testFile := uniquePath(dir, sanitizeFile(r.Obl.Name), "_test.go")
	os.WriteFile(testFile, []byte(src.String()), 0o644)
	rf.ReplayTest = testFile
	_, outRun := runReplayTest(testFile, vc.fnName)
	if m := regexp.MustCompile(`GOVC-PANIC (.*)`).FindStringSubmatch(outRun); m != nil {
		rf.ReplayNote += " the real function panics on the model's input: " + m[1] + ";"
		return true
	}
	rf.ReplayNote += " the real function did not panic on the model's input (the model lives in an abstraction): " + firstLines(outRun, 3) + ";"
	return false
}

func isStringType(t types.Type) bool {
	b, ok := t.Underlying().(*types.Basic)
	return ok && b.Info()&types.IsString != 0
}

func tryScalarReplay(P *Program, vc *VC, r *Result, rf *ReplayFile) bool {
	fn, con := findFuncByReportName(P, vc.fnName)
	if fn != nil && r.Obl.Kind == "safe" {
		return tryPanicReplay(P, vc, r, rf)
	}
	if fn == nil || r.Obl.Kind != "post" {
		rf.ReplayNote += " replay supports only postconditions of scalar functions;"
		return false
	}
	if fn.Signature.Recv() != nil {
		rf.ReplayNote += " function has a receiver (state construction not automated);"
		return false
	}
	for _, p := range fn.Params {
		if scalarKind(p.Type()) == "" {
			rf.ReplayNote += " non-scalar parameter " + p.Name() + ";"
			return false
		}
	}
	res := fn.Signature.Results()
	for i := 0; i < res.Len(); i++ {
		if scalarKind(res.At(i).Type()) == "" {
			rf.ReplayNote += " non-scalar result;"
			return false
		}
	}
	// 1. parameter values from the model
	data, err := os.ReadFile(r.File)
	if err != nil {
		return false
	}
	var names []string
	for _, p := range fn.Params {
		names = append(names, "p."+sanitize(p.Name()))
	}
	// minimise: prefer small magnitudes (they survive the int64 / wall-clock conversions of the real code)
	base := strings.Replace(string(data), "(check-sat)", "", 1)
	qf := strings.TrimSuffix(r.File, ".smt2") + ".val.smt2"
	var out string
	for _, bound := range []string{"1000", "1000000000", "1000000000000000", "9223372036854775807", ""} {
		q := base
		if bound != "" {
			for _, p := range fn.Params {
				if k := scalarKind(p.Type()); k == "int" || k == "time" {
					q += fmt.Sprintf("(assert (and (<= (- %s) p.%s) (<= p.%s %s)))\n", bound, sanitize(p.Name()), sanitize(p.Name()), bound)
				}
			}
		}
		q += "(check-sat)\n(get-value (" + strings.Join(names, " ") + "))\n"
		os.WriteFile(qf, []byte(q), 0o644)
		found := false
		for _, sp := range solvers {
			st, o := runSolver(context.Background(), sp, qf, 10000, true)
			if st == "sat" {
				out = o
				found = true
				break
			}
		}
		if found {
			break
		}
	}
	vals := map[string]string{}
	for _, m := range valRe.FindAllStringSubmatch(out, -1) {
		vals[m[1]] = m[2]
	}
	rf.ReplayInput = map[string]string{}
	var goArgs []string
	for _, p := range fn.Params {
		v, ok := vals["p."+sanitize(p.Name())]
		if !ok {
			rf.ReplayNote += " model has no value for " + p.Name() + ";"
			return false
		}
		rf.ReplayInput[p.Name()] = v
		rat, ok := parseRat(v)
		switch scalarKind(p.Type()) {
		case "bool":
			goArgs = append(goArgs, v)
		case "int", "time":
			if !ok || !rat.IsInt() {
				return false
			}
			n := rat.Num()
			if !n.IsInt64() {
				rf.ReplayNote += " model value outside int64;"
				return false
			}
			if scalarKind(p.Type()) == "time" {
				goArgs = append(goArgs, fmt.Sprintf("time.Unix(0, %d)", n.Int64()))
			} else {
				goArgs = append(goArgs, fmt.Sprintf("%s(%d)", types.TypeString(p.Type(), func(pk *types.Package) string {
					if pk == fn.Pkg.Pkg {
						return ""
					}
					return pk.Name()
				}), n.Int64()))
			}
		case "float":
			if !ok {
				return false
			}
			f, _ := rat.Float64()
			goArgs = append(goArgs, fmt.Sprintf("float64(%v)", f))
		}
	}
	// 2. run the real function
	var prints []string
	var lhs []string
	for i := 0; i < res.Len(); i++ {
		lhs = append(lhs, fmt.Sprintf("r%d", i))
		switch scalarKind(res.At(i).Type()) {
		case "time":
			prints = append(prints, fmt.Sprintf(`fmt.Printf("GOVC-RESULT %d %%d\n", r%d.UnixNano())`, i, i))
		case "int":
			prints = append(prints, fmt.Sprintf(`fmt.Printf("GOVC-RESULT %d %%d\n", r%d)`, i, i))
		case "bool":
			prints = append(prints, fmt.Sprintf(`fmt.Printf("GOVC-RESULT %d %%v\n", r%d)`, i, i))
		case "float":
			prints = append(prints, fmt.Sprintf(`fmt.Printf("GOVC-RESULT %d %%s\n", new(big.Rat).SetFloat64(float64(r%d)).String())`, i, i))
		}
	}
	needsTime := strings.Contains(strings.Join(goArgs, ","), "time.")
	needsBig := strings.Contains(strings.Join(prints, ","), "big.")
	var src strings.Builder
	fmt.Fprintf(&src, "package %s\n\nimport (\n\t\"fmt\"\n\t\"testing\"\n", fn.Pkg.Pkg.Name())
	if needsTime {
		src.WriteString("\t\"time\"\n")
	}
	if needsBig {
		src.WriteString("\t\"math/big\"\n")
	}
	fmt.Fprintf(&src, ")\n\n// generated by govc: replay of %s\nfunc TestGovcReplay(t *testing.T) {\n\t%s := %s(%s)\n", r.Obl.Name, strings.Join(lhs, ", "), fn.Name(), strings.Join(goArgs, ", "))
	for _, p := range prints {
		src.WriteString("\t" + p + "\n")
	}
	src.WriteString("}\n")
	dir := filepath.Join(verifRoot, "out", "replay", rf.Property)
	os.MkdirAll(dir, 0o755)
	testFile := uniquePath(dir, sanitizeFile(r.Obl.Name), "_test.go")
	os.WriteFile(testFile, []byte(src.String()), 0o644)
	rf.ReplayTest = testFile
	okRun, outRun := runReplayTest(testFile, vc.fnName)
	_ = okRun
	resRe := regexp.MustCompile(`GOVC-RESULT (\d+) (\S+)`)
	real := map[int]string{}
	for _, m := range resRe.FindAllStringSubmatch(outRun, -1) {
		var i int
		fmt.Sscanf(m[1], "%d", &i)
		real[i] = m[2]
	}
	if len(real) != res.Len() {
		rf.ReplayNote += " replay test produced no result: " + firstLines(outRun, 5) + ";"
		return false
	}
	// 3. evaluate the clause on the real result
	var clause *Clause
	for i, en := range con.Ensures {
		label := en.Label
		if label == "" {
			label = fmt.Sprintf("%d", i+1)
		}
		if regexp.MustCompile(`(/\d+)+$`).ReplaceAllString(r.Obl.Name, "") == fmt.Sprintf("post:%s#%s", con.Name, label) {
			clause = en
		}
	}
	if clause == nil {
		return false
	}
	vc2 := newVC("replay")
	ex2 := &Exec{P: P, vc: vc2, fn: fn, con: con, params: map[string]TV{}, heapR: heapReg{sorts: map[string]Sort{}}, calledOpaque: map[string]bool{}, usedContracts: map[string]bool{}}
	vc2.pureNames = map[string]string{}
	st := &State{guard: TTrue, heaps: map[string]T{}, ghost: map[string]T{}}
	ex2.entry = st
	var fix []string
	for _, p := range fn.Params {
		c := vc2.constant("p."+sanitize(p.Name()), vc2.sortOf(p.Type()))
		ex2.params[p.Name()] = TV{c, p.Type()}
		fix = append(fix, fmt.Sprintf("(assert (= %s %s))", c.s, vals["p."+sanitize(p.Name())]))
	}
	env := ex2.specEnv(st, st, true)
	var rs []T
	for i := 0; i < res.Len(); i++ {
		c := vc2.constant(fmt.Sprintf("res!%d", i), vc2.sortOf(res.At(i).Type()))
		rs = append(rs, c)
		v := real[i]
		switch scalarKind(res.At(i).Type()) {
		case "int", "time":
			bi, _ := new(big.Int).SetString(v, 10)
			if bi == nil {
				return false
			}
			v = BigIntLit(bi).s
		case "float":
			rat, ok := new(big.Rat).SetString(v)
			if !ok {
				return false
			}
			v = RealLitRat(rat).s
		}
		fix = append(fix, fmt.Sprintf("(assert (= %s %s))", c.s, v))
		rf.ReplayInput[fmt.Sprintf("real result %d", i)] = real[i]
	}
	env.bindResults(fn, rs)
	psi, err := env.evalBool(clause.Expr)
	if err != nil || len(ex2.errs) > 0 {
		rf.ReplayNote += fmt.Sprintf(" clause not evaluable outside the body: %v %v;", err, ex2.errs)
		return false
	}
	var b strings.Builder
	b.WriteString("(set-logic ALL)\n")
	for _, d := range vc2.decls {
		b.WriteString(d + "\n")
	}
	for _, a := range vc2.assumes {
		b.WriteString(a + "\n")
	}
	for _, f := range fix {
		b.WriteString(f + "\n")
	}
	b.WriteString("(assert (not " + psi.s + "))\n(check-sat)\n")
	ef := strings.TrimSuffix(r.File, ".smt2") + ".eval.smt2"
	os.WriteFile(ef, []byte(b.String()), 0o644)
	stt, _ := runSolver(context.Background(), solvers[0], ef, 20000, false)
	if stt == "sat" {
		rf.ReplayNote += " clause evaluates to false on the real function's result for this input;"
		return true
	}
	rf.ReplayNote += " the real function satisfies the clause on the model's input (" + stt + "): the model lives in an abstraction;"
	return false
}

// runReplayTest injects the test into the package of the function via an overlay and runs it.
func runReplayTest(testFile, fnName string) (bool, string) {
	data, err := os.ReadFile(testFile)
	if err != nil {
		return false, err.Error()
	}
	m := regexp.MustCompile(`(?m)^package (\S+)`).FindStringSubmatch(string(data))
	if m == nil {
		return false, "no package clause"
	}
	// find the package directory by name
	repo := replayRepo
	var pkgDir string
	filepath.Walk(repo, func(p string, info os.FileInfo, err error) error {
		if err != nil || !info.IsDir() {
			return nil
		}
		if info.Name() == ".git" || info.Name() == "_seed" {
			return filepath.SkipDir
		}
		if pkgDir == "" {
			ents, _ := os.ReadDir(p)
			for _, e := range ents {
				if strings.HasSuffix(e.Name(), ".go") && !strings.HasSuffix(e.Name(), "_test.go") {
					d, _ := os.ReadFile(filepath.Join(p, e.Name()))
					if regexp.MustCompile(`(?m)^package ` + regexp.QuoteMeta(m[1]) + `\s*$`).Match(d) {
						pkgDir = p
					}
					break
				}
			}
		}
		return nil
	})
	if pkgDir == "" {
		return false, "package directory not found"
	}
	ov := map[string]map[string]string{"Replace": {filepath.Join(pkgDir, "zz_govc_replay_test.go"): testFile}}
	ovData, _ := json.Marshal(ov)
	ovFile := testFile + ".overlay.json"
	os.WriteFile(ovFile, ovData, 0o644)
	ctx, cancel := context.WithTimeout(context.Background(), 180*time.Second)
	defer cancel()
	rel, _ := filepath.Rel(repo, pkgDir)
	cmd := exec.CommandContext(ctx, "go", "test", "-overlay", ovFile, "-v", "-vet=off", "-count=1", "-timeout", "60s", "-run", "^TestGovcReplay$", "./"+rel)
	cmd.Dir = repo
	cmd.Env = goEnv()
	out, err := cmd.CombinedOutput()
	return err == nil, string(out)
}

var replayRepo = "/repo"
