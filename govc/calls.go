package main

import (
	"sort"
	"fmt"
	"go/ast"
	"go/token"
	"go/types"
	"strings"

	"golang.org/x/tools/go/ssa"
)

func isLockCall(name string) bool {
	switch name {
	case "(*sync.Mutex).Lock", "(*sync.Mutex).Unlock", "(*sync.RWMutex).Lock", "(*sync.RWMutex).Unlock", "(*sync.RWMutex).RLock", "(*sync.RWMutex).RUnlock":
		return true
	}
	return false
}

func (ex *Exec) execCall(st *State, in *ssa.Call) {
	rs := ex.execCommon(st, in.Common(), in, in.Pos(), false)
	if ex.con != nil && ex.con.Ticks != nil {
		cn := ""
		if callee := in.Common().StaticCallee(); callee != nil {
			cn = callee.Name()
		} else if in.Common().IsInvoke() {
			cn = in.Common().Method.Name()
		}
		if g, ok := ex.con.Ticks[cn]; ok && cn != "" {
			name := "G_ghost." + g
			cur := ex.heapGet(st, name, SInt)
			ex.heapSet(st, name, ex.define(name, Add(cur, IntLit(1))))
			ex.heapWrites[name] = true
			ex.obsSeen["tick:"+g] = true
		}
	}
	if ex.con != nil && ex.con.Counts != nil {
		cn := ""
		if callee := in.Common().StaticCallee(); callee != nil {
			cn = callee.Name()
		} else if in.Common().IsInvoke() {
			cn = in.Common().Method.Name()
		}
		if v, ok := ex.con.Counts[cn]; ok && cn != "" {
			st.ghost["cnt:"+v] = ex.define("cnt", Add(ex.ghostGet(st, "cnt:"+v), IntLit(1)))
			ex.obsSeen[v] = true
		}
	}
	if ex.con != nil && ex.con.Observe != nil {
		cn := ""
		if callee := in.Common().StaticCallee(); callee != nil {
			cn = callee.Name()
		} else if in.Common().IsInvoke() {
			cn = in.Common().Method.Name()
		}
		if v, ok := ex.con.Observe[cn]; ok && cn != "" && len(rs) > 0 {
			st.ghost["obs:"+v] = rs[0]
			ex.obsSeen[v] = true
		}
		// observe v := CALLEE#k  (k-th result, 0-based)
		for k := 1; k < len(rs) && cn != ""; k++ {
			if v, ok := ex.con.Observe[fmt.Sprintf("%s#%d", cn, k)]; ok {
				st.ghost["obs:"+v] = rs[k]
				ex.obsSeen[v] = true
			}
		}
	}
	sig := in.Common().Signature()
	switch sig.Results().Len() {
	case 0:
	case 1:
		if len(rs) == 1 {
			ex.regs[in] = rs[0]
		} else {
			ex.regs[in] = ex.vc.fresh("call", ex.vc.sortOf(in.Type()))
		}
	default:
		ex.tuples[in] = rs
	}
}

// havocResults returns fresh results typed by the signature.
func (ex *Exec) havocResults(st *State, sig *types.Signature, hint string) []T {
	var rs []T
	for i := 0; i < sig.Results().Len(); i++ {
		rt := sig.Results().At(i).Type()
		r := ex.vc.fresh(hint, ex.vc.sortOf(rt))
		ex.assumeTypeInv(st, r, rt)
		rs = append(rs, r)
	}
	return rs
}

func (ex *Exec) execCommon(st *State, c *ssa.CallCommon, site ssa.Value, pos token.Pos, deferredCall bool) []T {
	vc := ex.vc
	sig := c.Signature()
	// builtins
	if b, ok := c.Value.(*ssa.Builtin); ok {
		return ex.execBuiltin(st, b, c, site)
	}
	if len(ex.nonNilPending) > 0 {
		// an object under construction that is handed to a callee must already satisfy its never-nil fields
		handed := []string{}
		if c.IsInvoke() || c.StaticCallee() == nil {
			handed = append(handed, ex.val(st, c.Value).s)
		}
		for _, a := range c.Args {
			if _, isAddr := ex.locs[a]; isAddr {
				continue
			}
			handed = append(handed, ex.val(st, a).s)
		}
		ex.nonNilCheckpointFor(st, "call", pos, handed)
	}
	var args []T
	evalArgs := func() {
		if args != nil {
			return
		}
		for _, a := range c.Args {
			args = append(args, ex.argVal(st, a))
		}
	}
	if callee := c.StaticCallee(); callee != nil {
		name := callee.String()
		ex.beforeHooks(st, callee.Name(), c, pos)
		if isLockCall(name) {
			ex.execLock(st, name, c, pos)
			return nil
		}
		if m, ok := ex.P.model(name); ok {
			evalArgs()
			return m(ex, st, args, c)
		}
		if con := ex.P.contractOf(callee); con != nil {
			evalArgs()
			return ex.callByContract(st, callee, con, args, pos)
		}
		if ex.P.isPure(name) {
			evalArgs()
			// a variadic library function called with a literal argument list f(x, a, b): the arguments themselves are
			// handed to the uninterpreted function, not the slice the compiler packs them into (whose identity means
			// nothing), so that a specification can name the same application
			if n, ok := variadicLiteralLen(c); ok && len(args) > 0 {
				last := args[len(args)-1]
				flat := append([]T{}, args[:len(args)-1]...)
				for k := 0; k < n; k++ {
					flat = append(flat, mk(sliceElemGet(last.sort), "select", slArr(last), IntLit(int64(k))))
				}
				args = flat
			}
			rs := ex.pureCall(st, name, sig, args)
			if name == "fmt.Errorf" || name == "errors.New" {
				// a non-nil error of an unexported library type (type id 0 is never given to a program type)
				vc.assume(st.guard, And(Not(Eq(rs[0], T{"VNil", SVal})), mk(SBool, "(_ is VRef)", rs[0]), Eq(mk(SInt, "vtP", rs[0]), IntLit(0)), Gt(mk(SInt, "vref", rs[0]), IntLit(0))))
			}
			return rs
		}
		if callee.Blocks == nil && callee.Synthetic == "" && false {
			_ = callee
		}
		if ex.inlineDepth < 3 && ex.inlinable(callee) {
			evalArgs()
			return ex.inlineCall(st, callee, args)
		}
		// immediately-invoked closure or unknown function: opaque
		ex.havocAll(st, name)
		ex.calledOpaque[name] = true
		return ex.havocResults(st, sig, "r."+callee.Name())
	}
	if c.IsInvoke() {
		mname := c.Method.Name()
		ex.beforeHooks(st, mname, c, pos)
		if ex.P.isPureMethod(mname, c.Value.Type()) {
			evalArgs()
			recv := ex.val(st, c.Value)
			return ex.pureCall(st, "iface."+shortTypeName(c.Value.Type())+"."+mname, sig, append([]T{recv}, args...))
		}
		if icon := ex.P.ifaceContract(c.Value.Type(), mname); icon != nil {
			evalArgs()
			recv := ex.val(st, c.Value)
			return ex.callByIfaceContract(st, icon, recv, args, sig, pos)
		}
		ex.havocAll(st, "invoke "+mname)
		ex.calledOpaque["invoke "+shortTypeName(c.Value.Type())+"."+mname] = true
		return ex.havocResults(st, sig, "r."+mname)
	}
	// call of a function value (closure, callback)
	if cf := ex.localClosure(c.Value); cf != nil && len(cf.FreeVars) == 0 {
		// an anonymous function that captures nothing and has its own contract is called like any other function
		if con := ex.P.contractOf(cf); con != nil {
			evalArgs()
			ex.beforeHooks(st, cf.Name(), c, pos)
			return ex.callByContract(st, cf, con, args, pos)
		}
	}
	if cf := ex.localClosure(c.Value); cf != nil {
		// a closure defined in this very function: it can write at most what its body (and the contracted
		// functions it calls) syntactically writes; havoc exactly that instead of everything.
		ms := ex.funcModSet(cf)
		if !ms.all && len(ms.pkgs) == 0 {
			syn := &Contract{Name: cf.Name() + " (closure write set)", Pkg: ex.fn.Pkg.Pkg.Path()}
			var hs []string
			for h := range ms.heaps {
				hs = append(hs, h)
			}
			sort.Strings(hs)
			mc := &ModClause{src: "closure " + cf.Name()}
			for _, h := range hs {
				mc.heaps = append(mc.heaps, h)
				mc.sorts = append(mc.sorts, ms.heaps[h])
			}
			syn.Modifies = []*ModClause{mc}
			if ms.maps {
				syn.Modifies = append(syn.Modifies, &ModClause{allMaps: true, src: "closure maps"})
			}
			ex.applyModifies(st, ex.specEnv(st, ex.entry, false), syn)
			vc.note("call of local closure %s: havoc of its syntactic write set %v", cf.Name(), hs)
			return ex.havocResults(st, sig, "r."+cf.Name())
		}
	}
	if ex.con != nil && ex.con.CallbackPure {
		vc.note("function-value calls assumed not to touch modelled state (contract option callbacks_pure)")
		return ex.havocResults(st, sig, "r.fv")
	}
	ex.havocAll(st, "function value")
	ex.calledOpaque["function value"] = true
	return ex.havocResults(st, sig, "r.fv")
}

// argVal: an argument may be an address-valued register (e.g. &local passed to a callee).
func (ex *Exec) argVal(st *State, a ssa.Value) T {
	return ex.val(st, a)
}

func (ex *Exec) pureCall(st *State, name string, sig *types.Signature, args []T) []T {
	vc := ex.vc
	var sorts []Sort
	for _, a := range args {
		sorts = append(sorts, a.sort)
	}
	var rs []T
	for i := 0; i < sig.Results().Len(); i++ {
		rt := sig.Results().At(i).Type()
		fname := fmt.Sprintf("pure.%s", sanitize(name))
		if sig.Results().Len() > 1 {
			fname = fmt.Sprintf("pure.%s.%d", sanitize(name), i)
		}
		// overloads by argument sorts (variadic / generic)
		key := fname + "/" + strings.Join(sorts, ",")
		if !vc.declSet["f:"+key] {
			vc.declSet["f:"+key] = true
			if vc.declSet["f:"+fname] {
				fname = fname + fmt.Sprintf("!%d", len(vc.decls))
			}
			vc.pureNames[key] = fname
			vc.ufun(fname, sorts, vc.sortOf(rt))
		}
		fname = vc.pureNames[key]
		r := mk(vc.sortOf(rt), fname, args...)
		if len(args) == 0 {
			r = T{fname, vc.sortOf(rt)}
		}
		bound := false
		for _, a := range args {
			if strings.Contains(a.s, "!q") {
				bound = true
			}
		}
		if !bound {
			ex.assumeTypeInv(st, r, rt)
		}
		rs = append(rs, r)
		if (name == "strings.ToUpper" || name == "strings.ToLower") && len(sorts) == 1 && !vc.declSet["ax:case-len:"+fname] {
			// library fact: case mapping keeps the byte length of an all-ASCII string (it does not for some
			// non-ASCII runes, e.g. U+0131), and the result is all-ASCII again
			vc.declSet["ax:case-len:"+fname] = true
			vc.declareASCII()
			vc.axiom(fmt.Sprintf("(forall ((s Str)) (! (=> (gs.ascii s) (and (= (gs.len (%s s)) (gs.len s)) (gs.ascii (%s s)))) :pattern ((%s s))))", fname, fname, fname))
			vc.axiom(fmt.Sprintf("(= (%s gs.empty) gs.empty)", fname))
			// library fact: mapping an already mapped string again changes nothing
			vc.axiom(fmt.Sprintf("(forall ((s Str)) (! (= (%s (%s s)) (%s s)) :pattern ((%s s))))", fname, fname, fname, fname))
			vc.assumed["strings.ToUpper/ToLower keep the byte length of all-ASCII strings and are idempotent"] = true
		}
	}
	vc.assumed["pure (deterministic, side-effect free): "+name] = true
	return rs
}

func (ex *Exec) execBuiltin(st *State, b *ssa.Builtin, c *ssa.CallCommon, site ssa.Value) []T {
	vc := ex.vc
	switch b.Name() {
	case "len":
		x := ex.val(st, c.Args[0])
		switch {
		case x.sort == SStr:
			return []T{mk(SInt, "gs.len", x)}
		case strings.HasPrefix(x.sort, "Slice_"):
			return []T{slLen(x)}
		default:
			if _, isMap := c.Args[0].Type().Underlying().(*types.Map); isMap {
				return []T{ex.mapCard(st, c.Args[0].Type(), x)}
			}
			r := vc.fresh("len", SInt)
			vc.assume(st.guard, Ge(r, IntLit(0)))
			vc.note("len of channel abstracted")
			return []T{r}
		}
	case "cap":
		x := ex.val(st, c.Args[0])
		r := vc.fresh("cap", SInt)
		if strings.HasPrefix(x.sort, "Slice_") {
			vc.assume(st.guard, Ge(r, slLen(x)))
		} else {
			vc.assume(st.guard, Ge(r, IntLit(0)))
		}
		return []T{r}
	case "append":
		s := ex.val(st, c.Args[0])
		if len(c.Args) == 1 {
			return []T{s}
		}
		y := ex.val(st, c.Args[1])
		if y.sort == SStr {
			r := vc.fresh("append", s.sort)
			vc.assume(st.guard, Eq(slLen(r), Add(slLen(s), mk(SInt, "gs.len", y))))
			vc.note("append([]byte, string...) abstracted to its length")
			return []T{r}
		}
		return []T{ex.appendSlices(st, s, y)}
	case "copy":
		// dst contents change: only supported when dst has provenance
		dst := c.Args[0]
		d := ex.val(st, dst)
		s := ex.val(st, c.Args[1])
		n := vc.fresh("copy.n", SInt)
		var slen T
		if s.sort == SStr {
			slen = mk(SInt, "gs.len", s)
		} else {
			slen = slLen(s)
		}
		vc.assume(st.guard, Eq(n, Ite(Lt(slLen(d), slen), slLen(d), slen)))
		if p, ok := ex.prov[dst]; ok && s.sort == d.sort {
			arr := vc.fresh("copy.arr", slArr(d).sort)
			vc.axiom(fmt.Sprintf("(forall ((k!q Int)) (! (= (select %s k!q) (ite (and (<= 0 k!q) (< k!q %s)) (select %s k!q) (select %s k!q))) :pattern ((select %s k!q))))", arr.s, n.s, slArr(s).s, slArr(d).s, arr.s))
			if err := ex.store(st, p, mkSlice(d.sort, arr, slLen(d), slNil(d))); err != nil {
				ex.fail("copy: %v", err)
			}
		} else {
			ex.fail("%s: copy into a slice of unknown provenance (aliasing not modelled)", ex.pos(token.NoPos))
		}
		return []T{n}
	case "delete":
		m := ex.val(st, c.Args[0])
		k := ex.val(st, c.Args[1])
		ex.mapDelete(st, c.Args[0].Type(), m, k)
		return nil
	case "clear":
		if _, isMap := c.Args[0].Type().Underlying().(*types.Map); isMap {
			ex.mapClear(st, c.Args[0].Type(), ex.val(st, c.Args[0]))
			return nil
		}
		ex.fail("clear on slice unsupported")
		return nil
	case "close":
		vc.note("close(chan) abstracted")
		return nil
	case "panic":
		st.dead = true
		return nil
	case "recover":
		return []T{vc.fresh("recover", SVal)}
	case "print", "println":
		return nil
	case "min", "max":
		x := ex.val(st, c.Args[0])
		for _, a := range c.Args[1:] {
			y := ex.val(st, a)
			if b.Name() == "min" {
				x = Ite(Le(x, y), x, y)
			} else {
				x = Ite(Ge(x, y), x, y)
			}
		}
		return []T{x}
	case "ssa:wrapnilchk":
		return []T{ex.val(st, c.Args[0])}
	case "ssa:deferstack":
		return []T{IntLit(0)}
	}
	ex.fail("unsupported builtin %s", b.Name())
	return ex.havocResults(st, c.Signature(), "builtin")
}

// appendSlices: s ++ y (value semantics)
func (ex *Exec) appendSlices(st *State, s, y T) T {
	vc := ex.vc
	// common case: y is a one-element varargs slice whose array is a store over a constant array
	n := slLen(s)
	if one, ok := ex.singleton[y.s]; ok {
		return ex.define("append", mkSlice(s.sort, Store(slArr(s), n, one), Add(n, IntLit(1)), TFalse))
	}
	arr := vc.fresh("append.arr", slArr(s).sort)
	vc.axiom(fmt.Sprintf("(forall ((k!q Int)) (! (= (select %s k!q) (ite (< k!q %s) (select %s k!q) (select %s (- k!q %s)))) :pattern ((select %s k!q))))", arr.s, n.s, slArr(s).s, slArr(y).s, n.s, arr.s))
	return ex.define("append", mkSlice(s.sort, arr, Add(n, slLen(y)), And(slNil(s), Eq(slLen(y), IntLit(0)))))
}

// ------------------------------------------------------------------ locks / monitors

// canonTerm: two loads of the same cell get two alias constants; the lock object is the same when their definitions are.
func (ex *Exec) canonTerm(s string) string {
	for i := 0; i < 8; i++ {
		d, ok := ex.defs[s]
		if !ok {
			break
		}
		s = d
	}
	return s
}

func (ex *Exec) lockKeyOf(st *State, v ssa.Value) string {
	canon := ex.canonTerm
	if l, ok := ex.locs[v]; ok {
		switch l := l.(type) {
		case LocHeapField:
			return fieldHeapName(l.owner, l.idx) + "@" + canon(l.ref.s)
		case LocSubField:
			return l.String()
		case LocGlobal:
			return l.String()
		}
		return l.String()
	}
	return "ref@" + ex.val(st, v).s
}

func (ex *Exec) execLock(st *State, name string, c *ssa.CallCommon, pos token.Pos) {
	key := ex.lockKeyOf(st, c.Args[0])
	write := strings.HasSuffix(name, ").Lock") || strings.HasSuffix(name, ").Unlock")
	acquire := strings.HasSuffix(name, "Lock") && !strings.HasSuffix(name, "Unlock")
	if acquire {
		ex.monitorAcquire(st, key, c.Args[0], pos)
		st.ghost["held:"+key] = TTrue
		if write {
			st.ghost["wheld:"+key] = TTrue
		}
	} else {
		ex.monitorRelease(st, key, c.Args[0], pos)
		st.ghost["held:"+key] = TFalse
		st.ghost["wheld:"+key] = TFalse
	}
}

// ------------------------------------------------------------------ call by contract

func (ex *Exec) callByContract(st *State, callee *ssa.Function, con *Contract, args []T, pos token.Pos) []T {
	vc := ex.vc
	sig := callee.Signature
	// bind parameters
	bind := map[string]TV{}
	for i, p := range callee.Params {
		if i < len(args) {
			bind[p.Name()] = TV{args[i], p.Type()}
		}
	}
	// a callee that takes a monitor lock itself observes whatever other threads left there
	for _, a := range con.Acquires {
		env0 := &SpecEnv{ex: ex, st: st, old: st, vars: bind, calleeFn: callee, isPrePost: true}
		sel, ok := a.(*ast.SelectorExpr)
		if !ok {
			ex.fail("acquires: expected x.mu")
			continue
		}
		x, err := env0.eval(sel.X)
		if err != nil {
			ex.fail("acquires: %v", err)
			continue
		}
		pt, ok := x.typ.Underlying().(*types.Pointer)
		if !ok {
			ex.fail("acquires: not a pointer")
			continue
		}
		n, _ := pt.Elem().(*types.Named)
		if n == nil {
			continue
		}
		// a lock already held by the caller is re-entrant nonsense; not checked here
		ex.acquireMonitor(st, n.Obj().Name()+"."+sel.Sel.Name, x.t, pt.Elem())
	}
	for cn, v := range con.Observe {
		var srt Sort = SBool
		if f := ex.P.calleeByShortName(callee, cn); f != nil && f.Signature.Results().Len() > 0 {
			srt = vc.sortOf(f.Signature.Results().At(0).Type())
		}
		bind["$obs:"+v] = TV{vc.fresh("obs."+v, srt), nil}
	}
	pre := st.clone()
	env := &SpecEnv{ex: ex, st: st, old: pre, vars: bind, calleeFn: callee, isPrePost: true}
	for i, r := range con.Requires {
		t, err := env.evalBool(r.Expr)
		if err != nil {
			ex.fail("call %s requires %q: %v", con.Name, r.Src, err)
			continue
		}
		label := r.Label
		if label == "" {
			label = fmt.Sprintf("%d", i+1)
		}
		o := vc.oblige("pre", fmt.Sprintf("pre:%s->%s#%s", ex.conName(), con.Name, label), st.guard, t, ex.pos(pos))
		o.SetNote(r.Src)
		vc.assume(st.guard, t)
	}
	if callee == ex.fn || (con.RecGroup != "" && ex.con != nil && ex.con.RecGroup == con.RecGroup) {
		// (mutual) recursion: the callee's variant at the call must be below the caller's variant at its entry
		if con.Decreases == nil || ex.con == nil || ex.con.Decreases == nil {
			ex.vc.note("recursive call of %s without a decreases clause: termination not proved", con.Name)
		} else {
			vCall, err1 := env.eval(con.Decreases.Expr)
			envE := ex.specEnv(ex.entry, ex.entry, true)
			vEntry, err2 := envE.eval(ex.con.Decreases.Expr)
			if err1 != nil || err2 != nil {
				ex.fail("decreases %q: %v %v", con.Decreases.Src, err1, err2)
			} else {
				o := vc.oblige("decr", fmt.Sprintf("decr:%s/recursion", con.Name), st.guard, And(Ge(vCall.t, IntLit(0)), Lt(vCall.t, vEntry.t)), ex.pos(pos))
				o.SetNote("decreases " + con.Decreases.Src)
			}
		}
	}
	for _, h := range con.HeldAtEntry {
		key, err := env.lockKey(h)
		if err == nil {
			vc.oblige("lock", fmt.Sprintf("lock:%s->%s:held", ex.conName(), con.Name), st.guard, ex.ghostGet(st, "held:"+key), ex.pos(pos))
		}
	}
	if con.Pure {
		rs := ex.pureCall(st, "fn."+con.Name, sig, args)
		ex.pureAxioms(callee, con)
		ex.usedContracts[con.Name] = true
		return rs
	}
	// frame
	if con.NoFrame {
		ex.havocAll(st, "callee "+con.Name+" has no frame (option noframe)")
	}
	ex.applyModifies(st, env, con)
	rs := ex.havocResults(st, sig, "r."+callee.Name())
	env3 := &SpecEnv{ex: ex, st: st, old: pre, vars: bind, calleeFn: callee, isPrePost: true}
	env3.bindResults(callee, rs)
	for _, en := range con.Ensures {
		t, err := env3.evalBool(en.Expr)
		if err != nil {
			ex.fail("call %s ensures %q: %v", con.Name, en.Src, err)
			continue
		}
		vc.assume(st.guard, t)
	}
	ex.usedContracts[con.Name] = true
	return rs
}

func (ex *Exec) callByIfaceContract(st *State, con *Contract, recv T, args []T, sig *types.Signature, pos token.Pos) []T {
	for _, m := range con.Modifies {
		if m.all {
			ex.havocAll(st, "iface contract "+con.Name)
		}
		if m.allMaps {
			ex.havocMaps(st)
		}
		if m.pkgHeaps != "" {
			ex.havocPkgHeaps(st, m.pkgHeaps)
		}
	}
	ex.vc.assumed["assumed interface contract "+con.Name+" (frame only) for every implementation"] = true
	ex.usedContracts[con.Name] = true
	old := ex.ghostGet(st, "alloc")
	n := ex.vc.fresh("alloc", SInt)
	ex.vc.assume(st.guard, Ge(n, old))
	st.ghost["alloc"] = n
	rs := ex.havocResults(st, sig, "r.iface")
	// assumed postconditions over the results (and the named parameters of the interface method)
	if len(con.Ensures) > 0 {
		env := ex.specEnv(st, st, true)
		for i := 0; i < sig.Params().Len() && i < len(args); i++ {
			if nm := sig.Params().At(i).Name(); nm != "" && nm != "_" {
				env.vars[nm] = TV{args[i], sig.Params().At(i).Type()}
			}
		}
		for i := 0; i < sig.Results().Len() && i < len(rs); i++ {
			tv := TV{rs[i], sig.Results().At(i).Type()}
			env.vars[fmt.Sprintf("result%d", i)] = tv
			if i == 0 {
				env.vars["result"] = tv
			}
		}
		for _, en := range con.Ensures {
			t, err := env.evalBool(en.Expr)
			if err != nil {
				ex.fail("interface contract %s ensures %q: %v", con.Name, en.Src, err)
				continue
			}
			ex.vc.assume(st.guard, t)
		}
	}
	return rs
}

// applyModifies havocs exactly what the callee's contract lists.
func (ex *Exec) applyModifies(st *State, env *SpecEnv, con *Contract) {
	vc := ex.vc
	for _, m := range con.Modifies {
		if m.all {
			ex.havocAll(st, "modifies * of "+con.Name)
			continue
		}
		if m.allMaps {
			ex.havocMaps(st)
			continue
		}
		if m.pkgHeaps != "" {
			ex.havocPkgHeaps(st, m.pkgHeaps)
			continue
		}
		for i, h := range m.heaps {
			sort, ok := ex.heapR.sorts[h]
			if !ok {
				if m.sorts != nil && m.sorts[i] != "" {
					sort = m.sorts[i]
				} else if s2, ok2 := ex.P.heapSortHint(ex, h); ok2 {
					sort = s2
				} else {
					ex.fail("modifies: unknown heap %s in contract of %s", h, con.Name)
					continue
				}
			}
			cur := ex.heapGet(st, h, sort)
			var nh T
			if m.at != nil && strings.HasPrefix(sort, "(Array ") {
				// only the cell at the given reference changes
				ref, err := env.eval(m.at)
				if err != nil {
					ex.fail("modifies %s: %v", m.src, err)
					continue
				}
				nv := vc.fresh(h+".cell", arrayElem(sort))
				nh = ex.define(h, Store(cur, ref.t, nv))
			} else {
				nh = vc.fresh(h, sort)
			}
			ex.heapSet(st, h, nh)
			ex.heapWrites[h] = true
			if m.at == nil {
				ex.wholeWrites[h] = true
			}
		}
	}
	if true {
		old := ex.ghostGet(st, "alloc")
		n := vc.fresh("alloc", SInt)
		vc.assume(st.guard, Ge(n, old))
		st.ghost["alloc"] = n
	}
}

// pureAxioms states the postconditions of a pure contracted function once, universally quantified over its
// parameters (the function is an uninterpreted symbol; its contract is proved against the body separately).
func (ex *Exec) pureAxioms(callee *ssa.Function, con *Contract) {
	vc := ex.vc
	key := "pureax:" + con.Pkg + "::" + con.Name
	if vc.declSet[key] {
		return
	}
	vc.declSet[key] = true
	if len(con.Ensures) == 0 {
		return
	}
	bind := map[string]TV{}
	var qs []string
	var args []T
	for i, p := range callee.Params {
		srt := vc.sortOf(p.Type())
		ex.nq++
		qn := fmt.Sprintf("a%d!q%d", i, ex.nq)
		bind[p.Name()] = TV{T{qn, srt}, p.Type()}
		qs = append(qs, fmt.Sprintf("(%s %s)", qn, srt))
		args = append(args, T{qn, srt})
	}
	st := &State{guard: TTrue, locals: nil, heaps: map[string]T{}, ghost: map[string]T{}}
	rs := ex.pureCall(st, "fn."+con.Name, callee.Signature, args)
	env := &SpecEnv{ex: ex, st: ex.entry, old: ex.entry, vars: bind, calleeFn: callee, isPrePost: true}
	env.bindResults(callee, rs)
	var pats []string
	for _, r := range rs {
		pats = append(pats, ":pattern ("+r.s+")")
	}
	for _, en := range con.Ensures {
		t, err := env.evalBool(en.Expr)
		if err != nil {
			ex.fail("pure contract %s ensures %q: %v", con.Name, en.Src, err)
			continue
		}
		if len(qs) == 0 {
			vc.axiom(t.s)
			continue
		}
		vc.axiom(fmt.Sprintf("(forall (%s) (! %s %s))", strings.Join(qs, " "), t.s, strings.Join(pats, " ")))
	}
}

// havocMaps: contents of every map may have changed (callee works on caller-visible maps), nothing else.
func (ex *Exec) havocMaps(st *State) {
	ex.nmepoch++
	st.mepoch = ex.nmepoch
	for _, h := range append([]string(nil), ex.heapR.order...) {
		if strings.HasPrefix(h, "MapDom_") || strings.HasPrefix(h, "MapVal_") {
			delete(st.heaps, h)
			ex.heapWrites[h] = true
			ex.wholeWrites[h] = true
		}
	}
	ex.mapsHavocked = true
}

// beforeHooks checks the `before <callee>` assertions of the contract at a call site; $arg0, $arg1, ... are the
// call's arguments (for methods $arg0 is the receiver).
// beforeChanSend: `before chansend label: P` is asserted where the function sends on a channel (a send statement or a
// select with a send case); $arg0 is the value sent.
func (ex *Exec) beforeChanSend(st *State, sent ssa.Value, pos token.Pos) {
	if ex.con == nil || ex.con.Before == nil || ex.con.Before["chansend"] == nil {
		return
	}
	env := ex.specEnv(st, ex.entry, false)
	if sent != nil {
		env.vars["ĦĦarg0"] = TV{ex.val(st, sent), sent.Type()}
	}
	for i, cl := range ex.con.Before["chansend"] {
		t, err := env.evalBool(cl.Expr)
		if err != nil {
			ex.fail("before chansend %q: %v", cl.Src, err)
			continue
		}
		label := cl.Label
		if label == "" {
			label = fmt.Sprintf("%d", i+1)
		}
		ex.vc.oblige("assert", fmt.Sprintf("assert:%s@chansend#%s", ex.conName(), label), st.guard, t, ex.pos(pos)).SetNote(cl.Src)
		ex.beforeSeen["chansend"] = true
	}
}

func (ex *Exec) beforeHooks(st *State, calleeName string, c *ssa.CallCommon, pos token.Pos) {
	if ex.con == nil || ex.con.Before == nil {
		return
	}
	// `before NAME@k`: only the k-th call site of NAME in source order (1-based)
	if k := ex.callSiteOrdinal(calleeName, pos); k > 0 {
		if key := fmt.Sprintf("%s@%d", calleeName, k); ex.con.Before[key] != nil && !strings.Contains(calleeName, "@") {
			ex.beforeHooksKey(st, key, c, pos)
		}
	}
	ex.beforeHooksKey(st, calleeName, c, pos)
}

// callSiteOrdinal: the position of this call among the call sites of the same callee name in the function under
// verification, in source order; 0 when unknown (no position, or the call sits in an inlined helper).
func (ex *Exec) callSiteOrdinal(calleeName string, pos token.Pos) int {
	if !pos.IsValid() || ex.inlineDepth > 0 {
		return 0
	}
	if ex.siteOrd == nil {
		ex.siteOrd = map[string][]token.Pos{}
		for _, b := range ex.fn.Blocks {
			for _, in := range b.Instrs {
				ci, ok := in.(ssa.CallInstruction)
				if !ok {
					continue
				}
				cn := ""
				if callee := ci.Common().StaticCallee(); callee != nil {
					cn = callee.Name()
				} else if ci.Common().IsInvoke() {
					cn = ci.Common().Method.Name()
				}
				if cn != "" && ci.Pos().IsValid() {
					ex.siteOrd[cn] = append(ex.siteOrd[cn], ci.Pos())
				}
			}
		}
		for _, ps := range ex.siteOrd {
			sort.Slice(ps, func(i, j int) bool { return ps[i] < ps[j] })
		}
	}
	for i, p := range ex.siteOrd[calleeName] {
		if p == pos {
			return i + 1
		}
	}
	return 0
}

func (ex *Exec) beforeHooksKey(st *State, calleeName string, c *ssa.CallCommon, pos token.Pos) {
	cls := ex.con.Before[calleeName]
	if cls == nil {
		return
	}
	env := ex.specEnv(st, ex.entry, false)
	var all []ssa.Value
	if c.IsInvoke() {
		all = append(all, c.Value)
	}
	all = append(all, c.Args...)
	for i, a := range all {
		if _, isAddr := ex.locs[a]; isAddr {
			continue
		}
		env.vars[fmt.Sprintf("ĦĦarg%d", i)] = TV{ex.val(st, a), a.Type()}
	}
	for i, cl := range cls {
		t, err := env.evalBool(cl.Expr)
		if err != nil {
			ex.fail("before %s %q: %v", calleeName, cl.Src, err)
			continue
		}
		label := cl.Label
		if label == "" {
			label = fmt.Sprintf("%d", i+1)
		}
		ex.vc.oblige("assert", fmt.Sprintf("assert:%s@%s#%s", ex.conName(), calleeName, label), st.guard, t, ex.pos(pos)).SetNote(cl.Src)
		ex.beforeSeen[calleeName] = true
	}
}

// havocPkgHeaps: the fields of every struct type of one package may have changed (state of objects reached only
// through an interface, e.g. aggregate accumulators), nothing else.
func (ex *Exec) havocPkgHeaps(st *State, pkg string) {
	prefix := "H_" + pkg + "."
	for _, h := range append([]string(nil), ex.heapR.order...) {
		if strings.HasPrefix(h, prefix) {
			ex.heapSet(st, h, ex.vc.fresh(h, ex.heapR.sorts[h]))
			ex.heapWrites[h] = true
			ex.wholeWrites[h] = true
		}
	}
	ex.pkgHavocked[pkg] = true
}

// mapCard: len(m) of a map value: the cardinality of its key set (uninterpreted, with the axioms that matter:
// non-negative, zero for the empty set, +-1 on insert/delete, positive when some key is present).
func (ex *Exec) mapCard(st *State, mt types.Type, x T) T {
	vc := ex.vc
	dom, _, _, _ := ex.mapHeaps(st, mt)
	ks, _ := splitArraySort(arrayElem(dom.sort))
	fn := "map.card." + sortSym(ks)
	if !vc.declSet["f:"+fn] {
		vc.ufun(fn, []Sort{arrayElem(dom.sort)}, SInt)
		vc.axiom(fmt.Sprintf("(forall ((d %s)) (! (>= (%s d) 0) :pattern ((%s d))))", arrayElem(dom.sort), fn, fn))
		vc.axiom(fmt.Sprintf("(= (%s ((as const %s) false)) 0)", fn, arrayElem(dom.sort)))
		vc.axiom(fmt.Sprintf("(forall ((d %s) (k %s)) (! (= (%s (store d k true)) (ite (select d k) (%s d) (+ (%s d) 1))) :pattern ((%s (store d k true)))))", arrayElem(dom.sort), ks, fn, fn, fn, fn))
		vc.axiom(fmt.Sprintf("(forall ((d %s) (k %s)) (! (= (%s (store d k false)) (ite (select d k) (- (%s d) 1) (%s d))) :pattern ((%s (store d k false)))))", arrayElem(dom.sort), ks, fn, fn, fn, fn))
		vc.axiom(fmt.Sprintf("(forall ((d %s) (k %s)) (! (=> (select d k) (> (%s d) 0)) :pattern ((select d k) (%s d))))", arrayElem(dom.sort), ks, fn, fn))
	}
	return Ite(Eq(x, IntLit(0)), IntLit(0), mk(SInt, fn, Select(dom, x)))
}

// variadicLiteralLen reports the number of variadic arguments when the call passes a literal argument list to a variadic
// function (the compiler then builds `new [n]T`, stores the arguments and slices the whole array); n is limited to 4.
func variadicLiteralLen(c *ssa.CallCommon) (int, bool) {
	sig := c.Signature()
	if sig == nil || !sig.Variadic() || len(c.Args) == 0 {
		return 0, false
	}
	sl, ok := c.Args[len(c.Args)-1].(*ssa.Slice)
	if !ok || sl.Low != nil || sl.High != nil || sl.Max != nil {
		return 0, false
	}
	al, ok := sl.X.(*ssa.Alloc)
	if !ok {
		return 0, false
	}
	pt, ok := al.Type().Underlying().(*types.Pointer)
	if !ok {
		return 0, false
	}
	at, ok := pt.Elem().Underlying().(*types.Array)
	if !ok || at.Len() < 1 || at.Len() > 4 {
		return 0, false
	}
	return int(at.Len()), true
}
