package main

import (
	"fmt"
	"go/constant"
	"go/token"
	"go/types"
	"sort"
	"strings"

	"golang.org/x/tools/go/ssa"
)

// cutLoop: assert invariants on entry, havoc what the loop modifies, assume invariants.
func (ex *Exec) cutLoop(li *loopInfo, st *State) {
	vc := ex.vc
	var invs []*Clause
	var dec *Clause
	if ex.con != nil {
		if lc := ex.con.Loops[li.ordinal]; lc != nil {
			invs = lc.Invariants
			dec = lc.Decreases
		}
	}
	if ex.con != nil && len(invs) == 0 && !ex.con.LoopsHavocOnly {
		// a loop without invariant: still sound (havoc), but remember it
		vc.note("loop %d of %s has no invariant (modified state is havoc'd)", li.ordinal, ex.conName())
	}
	li.preState = st.clone()
	// initialise the visited set for map iteration
	st.ghost[fmt.Sprintf("visited:%d", li.ordinal)] = T{}
	delete(st.ghost, fmt.Sprintf("visited:%d", li.ordinal))
	ex.initVisited(li, st)
	env := ex.specEnv(st, ex.entry, false)
	env.loop = li
	for i, inv := range invs {
		t, err := env.evalBool(inv.Expr)
		if err != nil {
			ex.fail("loop %d invariant %q: %v", li.ordinal, inv.Src, err)
			continue
		}
		label := inv.Label
		if label == "" {
			label = fmt.Sprintf("%d", i+1)
		}
		o := vc.oblige("inv-init", fmt.Sprintf("inv-init:%s/loop%d#%s", ex.conName(), li.ordinal, label), st.guard, t, ex.pos(li.header.Instrs[0].Pos()))
		o.SetNote(inv.Src)
	}
	// havoc
	ms := ex.loopModified(li)
	if ms.all {
		ex.havocAll(st, fmt.Sprintf("loop %d contains an opaque call or relock", li.ordinal))
	}
	if ms.maps && !ms.all {
		ex.havocMaps(st)
	}
	if !ms.all {
		for _, pk := range ms.pkgs {
			ex.havocPkgHeaps(st, pk)
		}
	}
	var allocs []*ssa.Alloc
	for a := range ms.locals {
		allocs = append(allocs, a)
	}
	sort.Slice(allocs, func(i, j int) bool { return ex.allocIdx[allocs[i]] < ex.allocIdx[allocs[j]] })
	for _, a := range allocs {
		old, ok := st.locals[a]
		if !ok {
			continue // allocated inside the loop
		}
		nv := vc.fresh("h."+a.Comment, old.sort)
		st.locals[a] = nv
		ex.assumeTypeInv(st, nv, a.Type().(*types.Pointer).Elem())
		// syntactic monotonicity: a counter that the loop only ever increments (decrements) by constants
		// never falls below (rises above) its value at loop entry. No obligation is needed: the fact follows
		// from the shape of the stores (machine-integer wrap-around excluded, see the arithmetic assumption).
		if old.sort == SInt {
			switch ex.monotoneCounter(li, a) {
			case 1:
				vc.assume(st.guard, Ge(nv, old))
				vc.note("loop %d of %s: counter %s only incremented (automatic bound)", li.ordinal, ex.conName(), a.Comment)
			case -1:
				vc.assume(st.guard, Le(nv, old))
				vc.note("loop %d of %s: counter %s only decremented (automatic bound)", li.ordinal, ex.conName(), a.Comment)
			}
		}
	}
	var hs []string
	for h := range ms.heaps {
		hs = append(hs, h)
	}
	sort.Strings(hs)
	for _, h := range hs {
		s, ok := ex.heapR.sorts[h]
		if !ok {
			s = ms.heaps[h]
		}
		ex.heapSet(st, h, vc.fresh("h."+h, s))
	}
	if ms.alloc || ms.all {
		old := ex.ghostGet(li.preState, "alloc")
		n := vc.fresh("alloc", SInt)
		vc.assume(st.guard, Ge(n, old))
		st.ghost["alloc"] = n
	}
	for _, g := range ms.ghosts {
		if v, ok := st.ghost[g]; ok {
			st.ghost[g] = vc.fresh("h."+g, v.sort)
		}
	}
	if ms.locks {
		for k, v := range st.ghost {
			if len(k) > 5 && (k[:5] == "held:" || (len(k) > 6 && k[:6] == "wheld:")) {
				st.ghost[k] = vc.fresh("h.held", v.sort)
			}
		}
	}
	// visited set is loop state
	if key := fmt.Sprintf("visited:%d", li.ordinal); true {
		if v, ok := st.ghost[key]; ok {
			nv := vc.fresh("h.visited", v.sort)
			st.ghost[key] = nv
		}
	}
	// automatic loop frame: what the function's `modifies` does not allow stays as at function entry
	li.frameHeaps = nil
	if ex.con != nil && !ex.con.modifiesAll() && !ex.con.NoFrame && !ex.con.AssumedFrame && !ms.all {
		for _, h := range hs {
			srt := ex.heapR.sorts[h]
			if !strings.HasPrefix(srt, "(Array Int ") {
				continue
			}
			li.frameHeaps = append(li.frameHeaps, h)
			cond, ok := ex.frameCond(h, T{"q!fr", SInt})
			if !ok {
				continue
			}
			h0 := ex.heapGet(ex.entry, h, srt)
			h1 := ex.heapGet(st, h, srt)
			vc.assume(st.guard, T{fmt.Sprintf("(forall ((q!fr Int)) (! (=> %s (= (select %s q!fr) (select %s q!fr))) :pattern ((select %s q!fr))))", cond.s, h1.s, h0.s, h1.s), SBool})
		}
	}
	// assume invariants
	env2 := ex.specEnv(st, ex.entry, false)
	env2.loop = li
	for _, inv := range invs {
		t, err := env2.evalBool(inv.Expr)
		if err != nil {
			continue
		}
		vc.assume(st.guard, t)
	}
	// built-in facts for range-index loops: -1 <= idx < len
	if li.rangeIdx != nil {
		if v, ok := st.locals[li.rangeIdx]; ok && li.rangeLen != nil {
			if n, ok := ex.regs[li.rangeLen]; ok {
				vc.assume(st.guard, And(Ge(v, IntLit(-1)), Lt(v, Ite(Gt(n, IntLit(0)), n, IntLit(0)))))
			} else {
				vc.assume(st.guard, Ge(v, IntLit(-1)))
			}
		}
	}
	if dec != nil {
		t, err := env2.eval(dec.Expr)
		if err != nil {
			ex.fail("loop %d decreases %q: %v", li.ordinal, dec.Src, err)
		} else {
			li.variant0 = t.t
			li.hasVar = true
		}
	}
	li.snapshot = st.clone()
}

func (ex *Exec) initVisited(li *loopInfo, st *State) {
	// find the Next instruction in the header to learn the key sort
	for _, in := range li.header.Instrs {
		if nx, ok := in.(*ssa.Next); ok && !nx.IsString {
			rng := nx.Iter.(*ssa.Range)
			dom, _, _, _ := ex.mapHeaps(st, rng.X.Type())
			ds := arrayElem(dom.sort)
			ks, _ := splitArraySort(ds)
			st.ghost[fmt.Sprintf("visited:%d", li.ordinal)] = T{fmt.Sprintf("((as const (Array %s Bool)) false)", ks), ds}
		}
	}
}

// closeLoop: a back edge — invariants must be re-established, the variant must have decreased.
func (ex *Exec) closeLoop(li *loopInfo, st *State, g T) {
	vc := ex.vc
	if ex.con == nil {
		return
	}
	lc := ex.con.Loops[li.ordinal]
	if lc == nil {
		lc = &LoopContract{}
	}
	tmp := st.clone()
	tmp.guard = g
	env := ex.specEnv(tmp, ex.entry, false)
	env.loop = li
	for i, inv := range lc.Invariants {
		t, err := env.evalBool(inv.Expr)
		if err != nil {
			ex.fail("loop %d invariant %q: %v", li.ordinal, inv.Src, err)
			continue
		}
		label := inv.Label
		if label == "" {
			label = fmt.Sprintf("%d", i+1)
		}
		o := vc.oblige("inv-pres", fmt.Sprintf("inv-pres:%s/loop%d#%s", ex.conName(), li.ordinal, label), g, t, ex.pos(token.NoPos))
		o.SetNote(inv.Src)
	}
	for i, sc := range lc.Steps {
		env.inStep = true
		t, err := env.evalBool(sc.Expr)
		env.inStep = false
		if err != nil {
			ex.fail("loop %d step %q: %v", li.ordinal, sc.Src, err)
			continue
		}
		label := sc.Label
		if label == "" {
			label = fmt.Sprintf("%d", i+1)
		}
		o := vc.oblige("inv-pres", fmt.Sprintf("step:%s/loop%d#%s", ex.conName(), li.ordinal, label), g, t, ex.pos(token.NoPos))
		o.SetNote(sc.Src)
	}
	for _, h := range li.frameHeaps {
		srt := ex.heapR.sorts[h]
		q := vc.fresh("fr", SInt)
		cond, ok := ex.frameCond(h, q)
		if !ok {
			continue
		}
		h0 := ex.heapGet(ex.entry, h, srt)
		h1 := ex.heapGet(tmp, h, srt)
		vc.oblige("frame", fmt.Sprintf("frame-loop:%s/loop%d:%s", ex.conName(), li.ordinal, h), g, Imp(cond, Eq(Select(h1, q), Select(h0, q))), ex.pos(token.NoPos))
	}
	if lc.Decreases != nil && li.hasVar {
		t, err := env.eval(lc.Decreases.Expr)
		if err == nil {
			vc.oblige("decr", fmt.Sprintf("decr:%s/loop%d", ex.conName(), li.ordinal), g, And(Lt(t.t, li.variant0), Ge(li.variant0, IntLit(0))), ex.pos(token.NoPos))
		}
	}
}

// frameCond: q is a pre-existing cell of heap h that the contract's `modifies` does not allow to change.
func (ex *Exec) frameCond(h string, q T) (T, bool) {
	if strings.HasPrefix(h, "MapDom_") || strings.HasPrefix(h, "MapVal_") {
		for _, m := range ex.con.Modifies {
			if m.allMaps {
				return T{}, false
			}
		}
	}
	a0 := ex.ghostGet(ex.entry, "alloc")
	cond := And(Ge(q, IntLit(1)), Le(q, a0))
	for _, m := range ex.con.Modifies {
		for _, mh := range m.heaps {
			if mh != h {
				continue
			}
			if m.at == nil {
				return T{}, false // whole heap may change
			}
			env := ex.specEnv(ex.entry, ex.entry, true)
			tv, err := env.eval(m.at)
			if err != nil {
				ex.fail("modifies: %v", err)
				return T{}, false
			}
			cond = And(cond, Not(Eq(q, tv.t)))
		}
	}
	return cond, true
}

// monotoneCounter reports +1 when every store to the local cell a inside the loop has the shape a = a + c with a
// constant c >= 0 (or a = a - c, c <= 0), -1 for the mirror image, 0 otherwise. Cells whose address escapes
// (captured by closures) are never classified.
func (ex *Exec) monotoneCounter(li *loopInfo, a *ssa.Alloc) int {
	if refs := a.Referrers(); refs != nil {
		for _, r := range *refs {
			switch r := r.(type) {
			case *ssa.Store:
				if r.Addr != a {
					return 0
				}
			case *ssa.UnOp, *ssa.DebugRef:
			default:
				return 0
			}
		}
	}
	dir := 0
	for b := range li.blocks {
		for _, in := range b.Instrs {
			st, ok := in.(*ssa.Store)
			if !ok || st.Addr != a {
				continue
			}
			bo, ok := st.Val.(*ssa.BinOp)
			if !ok || (bo.Op != token.ADD && bo.Op != token.SUB) {
				return 0
			}
			ld, ok := bo.X.(*ssa.UnOp)
			if !ok || ld.Op != token.MUL || ld.X != a {
				return 0
			}
			c, ok := bo.Y.(*ssa.Const)
			if !ok || c.Value == nil {
				return 0
			}
			n, exact := constant.Int64Val(constant.ToInt(c.Value))
			if !exact {
				return 0
			}
			if bo.Op == token.SUB {
				n = -n
			}
			d := 0
			switch {
			case n > 0:
				d = 1
			case n < 0:
				d = -1
			default:
				continue
			}
			if dir != 0 && dir != d {
				return 0
			}
			dir = d
		}
	}
	return dir
}
