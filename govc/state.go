package main

import (
	"fmt"
	"os"
	"go/token"
	"go/types"
	"sort"
	"strings"

	"golang.org/x/tools/go/ssa"
)

// State is the symbolic store at one program point.
type State struct {
	guard  T
	locals map[*ssa.Alloc]T
	heaps  map[string]T // heap name -> current term
	epoch  int          // heaps not in the map are name!e<epoch>
	mepoch int          // map heaps not in the map are name!e<epoch>m<mepoch>
	ghost  map[string]T // ghost scalars: alloc watermark, held locks, ...
	defers []deferred
	dead   bool
}

type deferred struct {
	call *ssa.Defer
}

func (s *State) clone() *State {
	n := &State{guard: s.guard, epoch: s.epoch, mepoch: s.mepoch, dead: s.dead}
	n.locals = make(map[*ssa.Alloc]T, len(s.locals))
	for k, v := range s.locals {
		n.locals[k] = v
	}
	n.heaps = make(map[string]T, len(s.heaps))
	for k, v := range s.heaps {
		n.heaps[k] = v
	}
	n.ghost = make(map[string]T, len(s.ghost))
	for k, v := range s.ghost {
		n.ghost[k] = v
	}
	n.defers = append([]deferred(nil), s.defers...)
	return n
}

// heapSorts remembers the sort of every heap ever mentioned in this VC.
type heapReg struct {
	sorts map[string]Sort
	order []string
}

func (ex *Exec) heapGet(st *State, name string, sort Sort) T {
	if t, ok := st.heaps[name]; ok {
		return t
	}
	if _, ok := ex.heapR.sorts[name]; !ok {
		ex.heapR.sorts[name] = sort
		ex.heapR.order = append(ex.heapR.order, name)
	}
	ep := st.epoch
	if ex.P.immutHeaps[name] {
		ep = 0 // immutable fields: one symbol for the whole function (writes to fresh objects go through heapSet)
	}
	sym := fmt.Sprintf("%s!e%d", sanitize(name), ep)
	if st.mepoch > 0 && (strings.HasPrefix(name, "MapDom_") || strings.HasPrefix(name, "MapVal_")) {
		sym = fmt.Sprintf("%s!e%dm%d", sanitize(name), ep, st.mepoch)
	}
	c := ex.vc.constant(sym, sort)
	if ex.P.immutNonNil[name] && ep == 0 && !ex.vc.declSet["ax:nonnil:"+sym] {
		// object invariant of a never-nil immutable field: it holds for every object that existed when this function
		// was entered (established by the constructing function, see nonNilCheckpoint; never written afterwards)
		ex.vc.declSet["ax:nonnil:"+sym] = true
		ex.vc.axiom(fmt.Sprintf("(forall ((r!z Int)) (! (=> (and (< 0 r!z) (<= r!z ghost.alloc!0)) (not (= (select %s r!z) 0))) :pattern ((select %s r!z))))", c.s, c.s))
		ex.vc.assumed["object invariant: a field declared `immutable T: f!` is non-nil on every object that exists at function entry (checked where such objects are constructed)"] = true
	}
	return c
}

func (ex *Exec) heapSet(st *State, name string, v T) {
	if _, ok := ex.heapR.sorts[name]; !ok {
		ex.heapR.sorts[name] = v.sort
		ex.heapR.order = append(ex.heapR.order, name)
	}
	st.heaps[name] = v
}

// define introduces a fresh constant equal to term (keeps terms small).
func (ex *Exec) define(hint string, t T) T {
	if len(t.s) < 40 {
		return t
	}
	c := ex.vc.fresh(hint, t.sort)
	ex.vc.axiom(fmt.Sprintf("(= %s %s)", c.s, t.s))
	if ex.defs == nil {
		ex.defs = map[string]string{}
	}
	ex.defs[c.s] = t.s
	return c
}

// havocAll forgets every heap (opaque call).
func (ex *Exec) havocAll(st *State, why string) {
	// cells of this function's own variables that only its directly called/deferred closures can reach keep their value:
	// no callee holds their address
	type kept struct {
		loc LocDeref
		val T
	}
	var cells []kept
	for _, b := range ex.fn.Blocks {
		for _, in := range b.Instrs {
			a, ok := in.(*ssa.Alloc)
			if !ok || ex.isLocalCell(a) {
				continue
			}
			r, ok := ex.regs[a]
			if os.Getenv("GOVC_DEBUG_CELLS") != "" {
				fmt.Fprintf(os.Stderr, "cell %s %s executed=%v private=%v\n", a.Name(), a.Comment, ok, closurePrivate(a))
			}
			if !ok || !closurePrivate(a) {
				continue
			}
			l := LocDeref{r, a.Type().(*types.Pointer).Elem()}
			cells = append(cells, kept{l, ex.load(st, l)})
		}
	}
	defer func() {
		for _, c := range cells {
			ex.vc.assume(st.guard, Eq(ex.load(st, c.loc), c.val))
		}
	}()
	keep := map[string]T{}
	for h := range ex.P.immutHeaps {
		if srt, ok := ex.heapR.sorts[h]; ok {
			keep[h] = ex.heapGet(st, h, srt)
		} else {
			// not mentioned yet: pin its name under the old epoch lazily by registering it now
			continue
		}
	}
	ex.nepoch++
	st.epoch = ex.nepoch
	st.heaps = keep
	ex.immutKept = true
	// allocation watermark only grows
	old := ex.ghostGet(st, "alloc")
	n := ex.vc.fresh("alloc", SInt)
	ex.vc.assume(st.guard, Ge(n, old))
	st.ghost["alloc"] = n
	ex.epochAlloc[st.epoch] = n
	ex.vc.note("opaque call havocs all heaps: %s", why)
	if ex.wroteAll == "" {
		ex.wroteAll = why
	}
}

func (ex *Exec) ghostGet(st *State, name string) T {
	if t, ok := st.ghost[name]; ok {
		return t
	}
	if strings.HasPrefix(name, "held:") || strings.HasPrefix(name, "wheld:") {
		return TFalse // a lock not mentioned by `held` is not held at entry
	}
	return ex.vc.constant("ghost."+sanitize(name)+"!0", SInt)
}

// merge joins predecessor states at a block entry.
func (ex *Exec) merge(states []*State, edges []T) *State {
	if len(states) == 1 {
		s := states[0].clone()
		s.guard = edges[0]
		return s
	}
	guard := ex.define("g", Or(edges...))
	out := &State{guard: guard, locals: map[*ssa.Alloc]T{}, heaps: map[string]T{}, ghost: map[string]T{}}
	// epoch
	same := true
	for _, s := range states[1:] {
		if s.epoch != states[0].epoch || s.mepoch != states[0].mepoch {
			same = false
		}
	}
	if same {
		out.epoch = states[0].epoch
		out.mepoch = states[0].mepoch
	} else {
		ex.nepoch++
		out.epoch = ex.nepoch
	}
	// locals
	lset := map[*ssa.Alloc]bool{}
	for _, s := range states {
		for a := range s.locals {
			lset[a] = true
		}
	}
	var lkeys []*ssa.Alloc
	for a := range lset {
		lkeys = append(lkeys, a)
	}
	sort.Slice(lkeys, func(i, j int) bool { return ex.allocIdx[lkeys[i]] < ex.allocIdx[lkeys[j]] })
	for _, a := range lkeys {
		var vals []T
		missing := false
		for _, s := range states {
			v, ok := s.locals[a]
			if !ok {
				missing = true
				break
			}
			vals = append(vals, v)
		}
		if missing {
			continue // not yet allocated on some path: dead variable
		}
		out.locals[a] = ex.mergeVals("m."+a.Comment, vals, edges)
	}
	// heaps
	hset := map[string]bool{}
	if same {
		for _, s := range states {
			for h := range s.heaps {
				hset[h] = true
			}
		}
	} else {
		for _, h := range ex.heapR.order {
			hset[h] = true
		}
	}
	var hkeys []string
	for h := range hset {
		hkeys = append(hkeys, h)
	}
	sort.Strings(hkeys)
	for _, h := range hkeys {
		var vals []T
		for _, s := range states {
			vals = append(vals, ex.heapGet(s, h, ex.heapR.sorts[h]))
		}
		out.heaps[h] = ex.mergeVals("m."+h, vals, edges)
	}
	// ghost
	gset := map[string]bool{}
	for _, s := range states {
		for g := range s.ghost {
			gset[g] = true
		}
	}
	var gkeys []string
	for g := range gset {
		gkeys = append(gkeys, g)
	}
	sort.Strings(gkeys)
	for _, g := range gkeys {
		var vals []T
		var srt Sort
		for _, s := range states {
			if v, ok := s.ghost[g]; ok {
				srt = v.sort
			}
		}
		for _, s := range states {
			vals = append(vals, ex.ghostGetSort(s, g, srt))
		}
		out.ghost[g] = ex.mergeVals("m."+g, vals, edges)
	}
	// defers: take the longest list (defers are registered unconditionally in the code under contract)
	for _, s := range states {
		if len(s.defers) > len(out.defers) {
			out.defers = append([]deferred(nil), s.defers...)
		}
	}
	return out
}

func (ex *Exec) mergeVals(hint string, vals []T, edges []T) T {
	same := true
	for _, v := range vals[1:] {
		if v.s != vals[0].s {
			same = false
			break
		}
	}
	if same {
		return vals[0]
	}
	c := ex.vc.fresh(hint, vals[0].sort)
	for i, v := range vals {
		ex.vc.axiom(Imp(edges[i], Eq(c, v)).s)
	}
	return c
}

// ---------------------------------------------------------------- locations

type Loc interface{ String() string }

type LocLocal struct{ a *ssa.Alloc }

// LocCaptured: the cell of a variable captured by a closure. The code under contract never reassigns captured
// variables inside closures, so the cell is a constant of the function (a Store through it is rejected).
type LocCaptured struct{ fv *ssa.FreeVar }

func (l LocCaptured) String() string { return "captured:" + l.fv.Name() }
type LocGlobal struct{ g *ssa.Global }
type LocHeapField struct {
	ref   T
	owner types.Type // struct type (named)
	idx   int
}
type LocDeref struct {
	ref  T
	elem types.Type
}
type LocSubField struct {
	base  Loc
	owner types.Type
	idx   int
}
type LocElem struct {
	base  Loc // may be nil: read-only view of val
	val   T   // slice value at the time the address was formed
	idx   T
	elemT types.Type
}

func (l LocLocal) String() string     { return "local:" + l.a.Comment }
func (l LocGlobal) String() string    { return "global:" + l.g.Name() }
func (l LocHeapField) String() string { return fmt.Sprintf("%s.%d@%s", shortTypeName(l.owner), l.idx, l.ref.s) }
func (l LocDeref) String() string     { return "*" + l.ref.s }
func (l LocSubField) String() string  { return fmt.Sprintf("%s.#%d", l.base, l.idx) }
func (l LocElem) String() string      { return fmt.Sprintf("%v[%s]", l.base, l.idx.s) }

func fieldHeapName(owner types.Type, idx int) string {
	st := owner.Underlying().(*types.Struct)
	return "H_" + shortTypeName(owner) + "." + st.Field(idx).Name()
}

func derefHeapName(elem types.Type) string { return "D_" + shortTypeName(elem) }

func (ex *Exec) load(st *State, l Loc) T {
	vc := ex.vc
	switch l := l.(type) {
	case LocLocal:
		if v, ok := st.locals[l.a]; ok {
			return v
		}
		// read before allocation in this path (hoisted): zero
		return vc.zero(l.a.Type().(*types.Pointer).Elem())
	case LocCaptured:
		et := l.fv.Type().(*types.Pointer).Elem()
		return vc.constant("cap."+sanitize(l.fv.Name()), vc.sortOf(et))
	case LocGlobal:
		et := l.g.Type().(*types.Pointer).Elem()
		name := "G_" + l.g.Pkg.Pkg.Name() + "." + l.g.Name()
		return ex.heapGet(st, name, vc.sortOf(et))
	case LocHeapField:
		sT := l.owner.Underlying().(*types.Struct)
		fs := vc.sortOf(sT.Field(l.idx).Type())
		h := ex.heapGet(st, fieldHeapName(l.owner, l.idx), ArraySort(SInt, fs))
		return Select(h, l.ref)
	case LocDeref:
		if sT, ok := l.elem.Underlying().(*types.Struct); ok && !isTimeTime(l.elem) && !isOpaqueNamed(l.elem) {
			info := vc.structInfo(l.elem)
			var args []T
			for i := 0; i < sT.NumFields(); i++ {
				args = append(args, ex.load(st, LocHeapField{l.ref, l.elem, i}))
			}
			if len(args) == 0 {
				return T{"mk" + info.sort, info.sort}
			}
			return mk(info.sort, "mk"+info.sort, args...)
		}
		s := vc.sortOf(l.elem)
		h := ex.heapGet(st, derefHeapName(l.elem), ArraySort(SInt, s))
		return Select(h, l.ref)
	case LocSubField:
		info := vc.structInfo(l.owner)
		b := ex.load(st, l.base)
		return mk(info.fsorts[l.idx], info.fields[l.idx], b)
	case LocElem:
		var sv T
		if l.base != nil {
			sv = ex.load(st, l.base)
		} else {
			sv = l.val
		}
		return Select(slArr(sv), l.idx)
	}
	panic("load: unknown loc")
}

func (ex *Exec) store(st *State, l Loc, v T) error {
	vc := ex.vc
	switch l := l.(type) {
	case LocLocal:
		st.locals[l.a] = ex.define(l.a.Comment, v)
	case LocCaptured:
		return fmt.Errorf("assignment to captured variable %s inside a closure is not modelled", l.fv.Name())
	case LocGlobal:
		name := "G_" + l.g.Pkg.Pkg.Name() + "." + l.g.Name()
		ex.heapSet(st, name, ex.define(name, v))
		ex.globalWrites[name] = true
	case LocHeapField:
		name := fieldHeapName(l.owner, l.idx)
		sT := l.owner.Underlying().(*types.Struct)
		fs := vc.sortOf(sT.Field(l.idx).Type())
		h := ex.heapGet(st, name, ArraySort(SInt, fs))
		ex.heapSet(st, name, ex.define(name, Store(h, l.ref, v)))
		ex.recordWrite(st, name, l.ref)
	case LocDeref:
		if sT, ok := l.elem.Underlying().(*types.Struct); ok && !isTimeTime(l.elem) && !isOpaqueNamed(l.elem) {
			info := vc.structInfo(l.elem)
			for i := 0; i < sT.NumFields(); i++ {
				if err := ex.store(st, LocHeapField{l.ref, l.elem, i}, mk(info.fsorts[i], info.fields[i], v)); err != nil {
					return err
				}
			}
			return nil
		}
		name := derefHeapName(l.elem)
		h := ex.heapGet(st, name, ArraySort(SInt, v.sort))
		ex.heapSet(st, name, ex.define(name, Store(h, l.ref, v)))
		ex.recordWrite(st, name, l.ref)
	case LocSubField:
		info := vc.structInfo(l.owner)
		b := ex.load(st, l.base)
		var args []T
		for i := range info.fields {
			if i == l.idx {
				args = append(args, v)
			} else {
				args = append(args, mk(info.fsorts[i], info.fields[i], b))
			}
		}
		return ex.store(st, l.base, mk(info.sort, "mk"+info.sort, args...))
	case LocElem:
		if l.base == nil {
			return fmt.Errorf("element write through a slice value of unknown provenance (aliasing not modelled)")
		}
		sv := ex.load(st, l.base)
		nv := mkSlice(sv.sort, Store(slArr(sv), l.idx, v), slLen(sv), slNil(sv))
		return ex.store(st, l.base, nv)
	default:
		panic("store: unknown loc")
	}
	return nil
}

// recordWrite feeds frame / lock-discipline obligations.
func (ex *Exec) recordWrite(st *State, heap string, ref T) {
	ex.heapWrites[heap] = true
	waived := false
	if ex.con != nil {
		for _, w := range ex.con.WritesImmut {
			if strings.HasSuffix(heap, "."+w) || strings.HasSuffix(heap, w) {
				waived = true
				ex.vc.assumed["ownership waiver: "+ex.con.Name+" reassigns "+w+" only on objects no other component under contract can reach"] = true
			}
		}
	}
	if ex.P.immutHeaps[heap] && ex.con != nil && !waived {
		ex.nimm++
		ex.vc.oblige("immut", fmt.Sprintf("immut:%s:%s:%d", ex.conName(), heap, ex.nimm), st.guard, Gt(ref, ex.ghostGet(ex.entry, "alloc")), ex.pos(token.NoPos)).SetNote("field declared immutable is written only on objects allocated by this call")
	}
	if ex.con != nil && ex.con.AssumedFrame && ex.inlineDepth == 0 {
		ex.ownWrites = append(ex.ownWrites, nonNilWrite{heap, st.guard, ref})
	}
	if ex.P.immutNonNil[heap] && ex.con != nil && !waived {
		ex.nonNilPending = append(ex.nonNilPending, nonNilWrite{heap, st.guard, ref})
	}
	if ex.onWrite != nil {
		ex.onWrite(st, heap, ref)
	}
}

type nonNilWrite struct {
	heap  string
	guard T
	ref   T
}

// nonNilCheckpoint: wherever control leaves the function (a call, a return) every object on which this function has
// written a never-nil immutable field holds a non-nil value there.
func (ex *Exec) nonNilCheckpoint(st *State, where string, pos token.Pos) {
	ex.nonNilCheckpointFor(st, where, pos, nil)
}

// only: when non-nil, check just the objects whose reference is one of these terms (the ones handed to a callee)
func (ex *Exec) nonNilCheckpointFor(st *State, where string, pos token.Pos, only []string) {
	if ex.con == nil || ex.inlineDepth > 0 {
		return
	}
	for i, w := range ex.nonNilPending {
		if only != nil {
			hit := false
			for _, o := range only {
				if o == w.ref.s {
					hit = true
				}
			}
			if !hit {
				continue
			}
		}
		srt, ok := ex.heapR.sorts[w.heap]
		if !ok {
			continue
		}
		h := ex.heapGet(st, w.heap, srt)
		ex.vc.oblige("immut", fmt.Sprintf("immut-nonnil:%s:%s:%s:%d", ex.conName(), w.heap, where, i+1), And(st.guard, w.guard), Not(Eq(Select(h, w.ref), IntLit(0))), ex.pos(pos)).SetNote("a never-nil immutable field (`f!`) holds a value whenever control leaves the function that writes it")
	}
}

// closurePrivate: the address of the variable is used only for direct loads and stores in its function and in anonymous
// functions that capture it and are themselves only called or deferred on the spot (never stored, passed or started as a
// goroutine), so no other code can write the cell.
func closurePrivate(a *ssa.Alloc) bool {
	var addrOnly func(v ssa.Value, depth int) bool
	addrOnly = func(v ssa.Value, depth int) bool {
		refs := v.Referrers()
		if refs == nil || depth > 3 {
			return false
		}
		for _, r := range *refs {
			switch r := r.(type) {
			case *ssa.DebugRef:
			case *ssa.UnOp:
				if r.Op != token.MUL {
					return false
				}
			case *ssa.Store:
				if r.Addr != v || r.Val == v {
					return false
				}
			case *ssa.MakeClosure:
				fn, ok := r.Fn.(*ssa.Function)
				if !ok {
					return false
				}
				// the closure value itself: only in callee position of a call or defer
				if crefs := r.Referrers(); crefs != nil {
					for _, cr := range *crefs {
						switch cr := cr.(type) {
						case *ssa.DebugRef:
						case *ssa.Defer:
							if cr.Call.Value != ssa.Value(r) {
								return false
							}
						case *ssa.Call:
							if cr.Call.Value != ssa.Value(r) {
								return false
							}
						default:
							return false
						}
					}
				}
				for i, b := range r.Bindings {
					if b == v && !addrOnly(fn.FreeVars[i], depth+1) {
						return false
					}
				}
			default:
				return false
			}
		}
		return true
	}
	return addrOnly(a, 0)
}
