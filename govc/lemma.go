package main

import (
	"context"
	"fmt"
	"os"
	"path/filepath"
	"strings"
	"time"
)

// solveLemma: lemmas are closed SMT goals written in the contract files (raw SMT-LIB), e.g. the injectivity
// of a key encoding stated over SMT strings, or an induction step over a recursive spec function.
func solveLemma(lm *Lemma, pkg string, outDir string, timeoutMs int) *Result {
	o := &Obligation{Name: "lemma:" + lm.Name, Kind: "lemma", Guard: TTrue, Goal: T{lm.Goal, SBool}, Pos: pkg + " contracts", Note: lm.Goal}
	res := &Result{Obl: o, Func: "lemma", Answers: map[string]string{}}
	var b strings.Builder
	b.WriteString("; lemma " + lm.Name + "\n(set-logic ALL)\n")
	for _, s := range lm.SMT {
		b.WriteString(s + "\n")
	}
	for _, v := range lm.Vars {
		parts := strings.SplitN(v, " ", 2)
		if len(parts) != 2 {
			res.Status = "error"
			res.Detail = "bad var " + v
			return res
		}
		fmt.Fprintf(&b, "(declare-fun %s () %s)\n", parts[0], parts[1])
	}
	for _, a := range lm.Assumes {
		b.WriteString("(assert " + a + ")\n")
	}
	b.WriteString("(assert (not " + lm.Goal + "))\n(check-sat)\n")
	dir := filepath.Join(outDir, "lemmas")
	os.MkdirAll(dir, 0o755)
	fname := uniquePath(dir, sanitizeFile(lm.Name), ".smt2")
	os.WriteFile(fname, []byte(b.String()), 0o644)
	res.File = fname
	start := time.Now()
	type ans struct{ solver, status, out string }
	ch := make(chan ans, len(solvers)+1)
	ctx, cancel := context.WithCancel(context.Background())
	defer cancel()
	n := 0
	for _, sp := range solvers {
		if lm.Solver != "" && !strings.Contains(lm.Solver, sp.name) {
			continue
		}
		n++
		go func(sp solverSpec) {
			args := sp
			if sp.name == "cvc5" && lm.Native {
				args = solverSpec{"cvc5", func(f string, t int) []string {
					return []string{"cvc5", "--strings-exp", fmt.Sprintf("--tlimit=%d", t), f}
				}}
			}
			st, out := runSolver(ctx, args, fname, timeoutMs, false)
			ch <- ans{sp.name, st, out}
		}(sp)
	}
	for i := 0; i < n; i++ {
		a := <-ch
		res.Answers[a.solver] = a.status
		if (a.status == "unsat" || a.status == "sat") && res.Status == "" {
			res.Status = a.status
			res.Solver = a.solver
			res.Millis = time.Since(start).Milliseconds()
			cancel()
		} else if res.Status == "" && a.status == "error" {
			res.Detail += a.solver + ": " + firstLines(a.out, 2) + "; "
		}
	}
	if res.Status == "" {
		res.Status = "unknown"
		res.Millis = time.Since(start).Milliseconds()
	}
	return res
}
