package main

// Bounded stand-ins: exhaustive comparisons of a real function with its definition up to a stated bound, run as
// in-package tests injected through `go test -overlay`. They are labelled bounded in the evidence and are never
// counted among the discharged obligations.

import (
	"context"
	"encoding/json"
	"fmt"
	"os"
	"os/exec"
	"path/filepath"
	"regexp"
	"strings"
	"time"
)

type BoundedResult struct {
	Name     string `json:"name"`
	File     string `json:"file"`
	Bound    string `json:"bound"`
	Cases    int    `json:"cases"`
	Failures int    `json:"failures"`
	Output   string `json:"output,omitempty"`
	OK       bool   `json:"ok"`
	WallS    float64 `json:"wall_s"`
	// FailLines: every GOVC-BOUNDED-FAIL line of the run (the tests print all of them), used to attribute failures
	// to open known findings by input pattern.
	FailLines []string `json:"-"`
	Known     []string `json:"known_findings,omitempty"`
}

func runBounded(repo, prop, tier string) []BoundedResult {
	// the stand-ins of this property, plus those kept under another property that declare `// govc:also <ids>` naming
	// this one (a stand-in serves every property anchored in the code it exercises, as contracts do)
	type standIn struct{ name, file string }
	var files []standIn
	own := map[string]bool{}
	dir := filepath.Join(verifRoot, "bounded", prop)
	if ents, err := os.ReadDir(dir); err == nil {
		for _, e := range ents {
			if strings.HasSuffix(e.Name(), "_test.go") {
				files = append(files, standIn{e.Name(), filepath.Join(dir, e.Name())})
				own[e.Name()] = true
			}
		}
	}
	if dirs, err := os.ReadDir(filepath.Join(verifRoot, "bounded")); err == nil {
		for _, d := range dirs {
			if !d.IsDir() || d.Name() == prop {
				continue
			}
			ents, _ := os.ReadDir(filepath.Join(verifRoot, "bounded", d.Name()))
			for _, e := range ents {
				if !strings.HasSuffix(e.Name(), "_test.go") || own[e.Name()] {
					continue
				}
				f := filepath.Join(verifRoot, "bounded", d.Name(), e.Name())
				data, _ := os.ReadFile(f)
				if m := regexp.MustCompile(`(?m)^// govc:also (.*)$`).FindStringSubmatch(string(data)); m != nil {
					for _, id := range strings.Fields(m[1]) {
						if id == prop {
							files = append(files, standIn{e.Name(), f})
							own[e.Name()] = true
						}
					}
				}
			}
		}
	}
	if len(files) == 0 {
		return nil
	}
	var out []BoundedResult
	for _, e0 := range files {
		e := e0
		file := e.file
		data, _ := os.ReadFile(file)
		m := regexp.MustCompile(`(?m)^// govc:pkg (\S+)`).FindStringSubmatch(string(data))
		b := regexp.MustCompile(`(?m)^// govc:bound (.*)$`).FindStringSubmatch(string(data))
		res := BoundedResult{Name: strings.TrimSuffix(e.name, "_test.go"), File: file}
		if b != nil {
			res.Bound = b[1]
		}
		if m == nil {
			res.Output = "missing // govc:pkg header"
			out = append(out, res)
			continue
		}
		start := time.Now()
		pkgDir := filepath.Join(repo, m[1])
		ov := map[string]map[string]string{"Replace": {filepath.Join(pkgDir, "zz_govc_bounded_"+e.name): file}}
		ovData, _ := json.Marshal(ov)
		ovFile := filepath.Join(verifRoot, "out", prop, "bounded_"+e.name+".overlay.json")
		os.MkdirAll(filepath.Dir(ovFile), 0o755)
		os.WriteFile(ovFile, ovData, 0o644)
		ctx, cancel := context.WithTimeout(context.Background(), 300*time.Second)
		cmd := exec.CommandContext(ctx, "go", "test", "-overlay", ovFile, "-v", "-vet=off", "-count=1", "-timeout", "240s", "-run", "^TestGovcBounded_", "./"+m[1])
		cmd.Dir = repo
		cmd.Env = append(goEnv(), "GOVC_BOUND="+tier) // tests may enlarge their bound when GOVC_BOUND=thorough
		o, err := cmd.CombinedOutput()
		cancel()
		res.WallS = time.Since(start).Seconds()
		txt := string(o)
		dones := regexp.MustCompile(`GOVC-BOUNDED-DONE \S+ cases=(\d+) failures=(\d+)`).FindAllStringSubmatch(txt, -1)
		var done []string
		for _, d := range dones {
			done = d
			var c, f int
			fmt.Sscanf(d[1], "%d", &c)
			fmt.Sscanf(d[2], "%d", &f)
			res.Cases += c
			res.Failures += f
		}
		for _, l := range strings.Split(txt, "\n") {
			if strings.HasPrefix(l, "GOVC-BOUNDED-FAIL") {
				res.FailLines = append(res.FailLines, l)
			}
		}
		res.OK = err == nil && done != nil && res.Failures == 0
		if !res.OK {
			var keep []string
			for _, l := range strings.Split(txt, "\n") {
				if strings.Contains(l, "GOVC-BOUNDED") || strings.HasPrefix(l, "FAIL") || strings.Contains(l, "panic") || strings.Contains(l, "cannot") || strings.Contains(l, "undefined") {
					keep = append(keep, l)
				}
			}
			if len(keep) > 12 {
				keep = keep[:12]
			}
			res.Output = strings.Join(keep, "\n")
		}
		out = append(out, res)
	}
	return out
}
