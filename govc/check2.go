package main

import (
	"bytes"
	"encoding/json"
	"fmt"
	"go/types"
	"os"
	"path/filepath"
	"sort"
	"strings"

	"golang.org/x/tools/go/ssa"
)

type closureRes struct {
	name   string
	ok     bool
	detail string
}

// closureObligations: every function of the package that writes a guarded or immutable field must be under a
// (non-extern) contract, so that an edit cannot move a write into unverified code unnoticed.
func (P *Program) closureObligations(prop string) []closureRes {
	var out []closureRes
	var paths []string
	for p := range P.specs {
		paths = append(paths, p)
	}
	sort.Strings(paths)
	for _, path := range paths {
		ps := P.specs[path]
		relevant := false
		for _, c := range ps.Contracts {
			if hasProp(c.Props, prop) {
				relevant = true
			}
		}
		if !relevant || (len(ps.Guarded) == 0 && len(ps.Immutable) == 0) {
			continue
		}
		sp := P.spkgs[path]
		// heap name -> description
		watch := map[string]string{}
		for mname, fields := range ps.Guarded {
			tn := strings.SplitN(mname, ".", 2)[0]
			obj := sp.Pkg.Scope().Lookup(tn)
			if obj == nil {
				continue
			}
			st, ok := obj.Type().Underlying().(*types.Struct)
			if !ok {
				continue
			}
			for _, f := range fields {
				for i := 0; i < st.NumFields(); i++ {
					if st.Field(i).Name() == f {
						watch[fieldHeapName(obj.Type(), i)] = tn + "." + f
					}
				}
			}
		}
		for tn, fields := range ps.Immutable {
			obj := sp.Pkg.Scope().Lookup(tn)
			if obj == nil {
				continue
			}
			st, ok := obj.Type().Underlying().(*types.Struct)
			if !ok {
				continue
			}
			for _, f := range fields {
				for i := 0; i < st.NumFields(); i++ {
					if st.Field(i).Name() == f {
						watch[fieldHeapName(obj.Type(), i)] = tn + "." + f
					}
				}
			}
		}
		// only the types this property's contracts touch
		propTypes := map[string]bool{}
		for name, c := range ps.Contracts {
			if hasProp(c.Props, prop) {
				if i := strings.Index(name, ")."); i > 0 {
					propTypes[strings.Trim(name[:i], "(*")] = true
				}
			}
		}
		var keys []string
		for k := range P.funcs {
			if strings.HasPrefix(k, path+"::") || len(ps.Immutable) > 0 {
				keys = append(keys, k)
			}
		}
		sort.Strings(keys)
		seen := map[string]bool{}
		for _, k := range keys {
			fn := P.funcs[k]
			var scan func(f *ssa.Function)
			scan = func(f *ssa.Function) {
				for _, b := range f.Blocks {
					for _, in := range b.Instrs {
						st, ok := in.(*ssa.Store)
						if !ok {
							continue
						}
						fa, ok := st.Addr.(*ssa.FieldAddr)
						if !ok {
							continue
						}
						pt, ok := fa.X.Type().Underlying().(*types.Pointer)
						if !ok {
							continue
						}
						if _, ok := pt.Elem().Underlying().(*types.Struct); !ok {
							continue
						}
						h := fieldHeapName(pt.Elem(), fa.Field)
						desc, ok := watch[h]
						if !ok {
							continue
						}
						if !propTypes[strings.SplitN(desc, ".", 2)[0]] && fn.Pkg.Pkg.Path() == path {
							continue
						}
						if fn.Pkg.Pkg.Path() != path {
							// a writer in another package: only relevant for immutable fields
							isImm := false
							for tn, fs := range ps.Immutable {
								for _, f := range fs {
									if desc == tn+"."+f {
										isImm = true
									}
								}
							}
							if !isImm {
								continue
							}
						}
						name := fmt.Sprintf("closure:%s:%s", desc, fn.RelString(fn.Pkg.Pkg))
						if seen[name] {
							continue
						}
						seen[name] = true
						con := P.byFunc[fn]
						if con != nil && !con.Trusted {
							out = append(out, closureRes{name, true, ""})
						} else {
							out = append(out, closureRes{name, false, "function writes " + desc + " but has no contract"})
						}
					}
				}
				for _, af := range f.AnonFuncs {
					scan(af)
				}
			}
			scan(fn)
		}
	}
	return out
}

// remainderHolds re-proves a failing obligation under the extra assumption !(when) of an open known finding:
// only if the remainder is discharged is the failure attributed to the finding.
func remainderHolds(P *Program, vc *VC, fnName string, r *Result, kf KnownFinding, outDir string, timeout int) bool {
	var fn *ssa.Function
	var con *Contract
	for f, c := range P.byFunc {
		if f.Pkg.Pkg.Name()+"."+f.RelString(f.Pkg.Pkg) == fnName {
			fn, con = f, c
		}
	}
	if fn == nil {
		return false
	}
	cl, err := parseClause("!("+kf.When+")", 0)
	if err != nil {
		fmt.Fprintf(os.Stderr, "known finding %s: %v\n", kf.Obligation, err)
		return false
	}
	c2 := *con
	replaced := false
	if r.Obl.Kind == "post" {
		// a postcondition: weaken the clause itself (old() then refers to the same pre-state as in the clause)
		c2.Ensures = nil
		for i, en := range con.Ensures {
			label := en.Label
			if label == "" {
				label = fmt.Sprintf("%d", i+1)
			}
			if !replaced && baseName(r.Obl.Name) == fmt.Sprintf("post:%s#%s", con.Name, label) {
				w, err := parseClause("!("+kf.When+") ==> ("+en.Src+")", en.Line)
				if err != nil {
					fmt.Fprintf(os.Stderr, "known finding %s: %v\n", kf.Obligation, err)
					return false
				}
				w.Label, w.Only = en.Label, en.Only
				c2.Ensures = append(c2.Ensures, w)
				replaced = true
				continue
			}
			c2.Ensures = append(c2.Ensures, en)
		}
	}
	if !replaced {
		c2.Requires = append(append([]*Clause(nil), con.Requires...), cl)
	}
	ex, vc2 := buildVC(P, fn, &c2)
	if len(ex.errs) > 0 {
		fmt.Fprintf(os.Stderr, "known finding %s: %v\n", kf.Obligation, ex.errs)
		return false
	}
	dir := uniquePath(outDir, sanitizeFile(vc2.fnName)+".remainder", "")
	os.MkdirAll(dir, 0o755)
	for _, o := range vc2.obls {
		if o.Name == r.Obl.Name {
			res := solve(vc2, o, dir, timeout, 0, false)
			return res.Status == "unsat"
		}
	}
	return false
}

type ReplayFile struct {
	Property    string            `json:"property"`
	Function    string            `json:"function"`
	Obligation  string            `json:"obligation"`
	Kind        string            `json:"kind"`
	Clause      string            `json:"clause"`
	At          string            `json:"at"`
	Status      string            `json:"status"`
	Answers     map[string]string `json:"solver_answers"`
	SMTFile     string            `json:"smt_file"`
	Model       string            `json:"model,omitempty"`
	Replayed    bool              `json:"replayed_on_real_code"`
	ReplayNote  string            `json:"replay_note"`
	ReplayInput map[string]string `json:"replay_input,omitempty"`
	ReplayTest  string            `json:"replay_test,omitempty"`
}

func writeReplay(P *Program, prop, fn string, vc *VC, r *Result, outDir string) string {
	dir := filepath.Join(verifRoot, "out", "replay", prop)
	os.MkdirAll(dir, 0o755)
	rf := ReplayFile{Property: prop, Function: fn, Obligation: r.Obl.Name, Kind: r.Obl.Kind, Clause: r.Obl.Note, At: r.Obl.Pos, Status: r.Status, Answers: r.Answers, SMTFile: r.File, Model: r.Model}
	if r.Detail != "" {
		rf.ReplayNote = r.Detail
	}
	confirmed := false
	if r.Status == "sat" && vc != nil {
		confirmed = tryScalarReplay(P, vc, r, &rf)
	}
	rf.Replayed = confirmed
	path := uniquePath(dir, sanitizeFile(r.Obl.Name), ".json")
	var buf bytes.Buffer
	enc := json.NewEncoder(&buf)
	enc.SetEscapeHTML(false)
	enc.SetIndent("", " ")
	enc.Encode(rf)
	os.WriteFile(path, buf.Bytes(), 0o644)
	line := fmt.Sprintf("VIOLATION property=%s replay=%s", prop, path)
	if !confirmed {
		line += " no-failing-input-found"
	}
	return line
}

func cmdReplay(args []string) {
	if len(args) < 1 {
		fmt.Fprintln(os.Stderr, "usage: govc replay <file>")
		os.Exit(2)
	}
	data, err := os.ReadFile(args[0])
	if err != nil {
		fmt.Fprintln(os.Stderr, err)
		os.Exit(2)
	}
	var rf ReplayFile
	if err := json.Unmarshal(data, &rf); err != nil {
		fmt.Fprintln(os.Stderr, err)
		os.Exit(2)
	}
	fmt.Printf("obligation %s of %s (%s)\nclause: %s\nsolver status: %s %v\n", rf.Obligation, rf.Function, rf.At, rf.Clause, rf.Status, rf.Answers)
	if rf.ReplayTest != "" {
		ok, out := runReplayTest(rf.ReplayTest, rf.Function)
		fmt.Println(out)
		if ok {
			fmt.Println("replay: the real code violates the clause on this input")
			os.Exit(1)
		}
		fmt.Println("replay: not reproduced")
		return
	}
	fmt.Println("no concrete input: " + rf.ReplayNote)
}

// callerObligations: `only_called_by` clauses. For every contract of the property that carries one, every static call
// of the function from its own package must come from one of the named functions (closures count as their enclosing
// function).
func (P *Program) callerObligations(prop string) []closureRes {
	var out []closureRes
	var paths []string
	for p := range P.specs {
		paths = append(paths, p)
	}
	sort.Strings(paths)
	for _, path := range paths {
		ps := P.specs[path]
		for _, cname := range ps.Order {
			con := ps.Contracts[cname]
			if con == nil || len(con.OnlyCalledBy) == 0 || !hasProp(con.Props, prop) {
				continue
			}
			target := P.funcs[path+"::"+cname]
			if target == nil {
				continue
			}
			allowed := map[string]bool{}
			for _, a := range con.OnlyCalledBy {
				allowed[a] = true
			}
			var offenders []string
			var keys []string
			for k := range P.funcs {
				if strings.HasPrefix(k, path+"::") {
					keys = append(keys, k)
				}
			}
			sort.Strings(keys)
			for _, k := range keys {
				fn := P.funcs[k]
				name := strings.TrimPrefix(k, path+"::")
				outer := name
				if i := strings.Index(outer, "$"); i > 0 {
					outer = outer[:i]
				}
				if fn == target || allowed[outer] || allowed[name] {
					continue
				}
				calls := false
				for _, b := range fn.Blocks {
					for _, in := range b.Instrs {
						if ci, ok := in.(ssa.CallInstruction); ok && ci.Common().StaticCallee() == target {
							calls = true
						}
					}
				}
				if calls {
					offenders = append(offenders, name)
				}
			}
			r := closureRes{name: "callers:" + cname, ok: len(offenders) == 0}
			if !r.ok {
				r.detail = fmt.Sprintf("%s is called by %s; the contract allows only %s", cname, strings.Join(offenders, ", "), strings.Join(con.OnlyCalledBy, ", "))
			}
			out = append(out, r)
		}
	}
	return out
}
