package main

import (
	"fmt"
	"regexp"
	"go/ast"
	"go/token"
	"go/types"
	"strings"

	"golang.org/x/tools/go/ssa"
)

// monitorOf returns ("T.mu", ref, ownerType) for a lock argument that is a field of a heap struct.
func (ex *Exec) monitorOf(v ssa.Value) (string, T, types.Type, bool) {
	l, ok := ex.locs[v].(LocHeapField)
	if !ok {
		return "", T{}, nil, false
	}
	st := l.owner.Underlying().(*types.Struct)
	n, ok := l.owner.(*types.Named)
	if !ok {
		return "", T{}, nil, false
	}
	return n.Obj().Name() + "." + st.Field(l.idx).Name(), l.ref, l.owner, true
}

func (ex *Exec) pkgSpec() *PkgSpec { return ex.P.specs[ex.fn.Pkg.Pkg.Path()] }

func (ex *Exec) evalMonitorInv(st *State, predName string, ref T, owner types.Type) (T, error) {
	return ex.evalMonitorPred(st, ex.entry, predName, ref, owner)
}

func (ex *Exec) evalMonitorPred(st, old *State, predName string, ref T, owner types.Type) (T, error) {
	pd := ex.P.pred(owner.(*types.Named).Obj().Pkg(), predName)
	if pd == nil {
		return T{}, fmt.Errorf("monitor predicate %s not found", predName)
	}
	env := ex.specEnv(st, old, true)
	env.vars = map[string]TV{pd.Params[0]: {ref, types.NewPointer(owner)}}
	return env.evalBool(pd.Body)
}

func (ex *Exec) monitorRelease(st *State, key string, lockArg ssa.Value, pos token.Pos) {
	ps := ex.pkgSpec()
	if ps == nil {
		return
	}
	mname, ref, owner, ok := ex.monitorOf(lockArg)
	if !ok {
		return
	}
	if ex.con == nil {
		return
	}
	if rely, ok := ps.Relies[mname]; ok {
		if snap := ex.acqSnap[mname+"@"+ref.s]; snap != nil {
			t, err := ex.evalMonitorPred(st, snap, rely, ref, owner)
			if err != nil {
				ex.fail("monitor %s rely: %v", mname, err)
			} else {
				o := ex.vc.oblige("rely", fmt.Sprintf("rely:%s@unlock%d", ex.conName(), ex.nmon+1), st.guard, t, ex.pos(pos))
				o.SetNote(rely + " guaranteed by this critical section of " + mname)
			}
		}
	}
	ex.nmon++
	for _, inv := range ps.Monitors[mname] {
		t, err := ex.evalMonitorInv(st, inv, ref, owner)
		if err != nil {
			ex.fail("monitor %s: %v", mname, err)
			return
		}
		o := ex.vc.oblige("monitor", fmt.Sprintf("monitor:%s@unlock%d#%s", ex.conName(), ex.nmon, inv), st.guard, t, ex.pos(pos))
		o.SetNote(inv + " at release of " + mname)
	}
}

func (ex *Exec) monitorAcquire(st *State, key string, lockArg ssa.Value, pos token.Pos) {
	mname, ref, owner, ok := ex.monitorOf(lockArg)
	if !ok {
		return
	}
	ex.acquireMonitor(st, mname, ref, owner)
	ex.nacq++
	if ex.nacq == 1 && ex.curInstr != nil && ((ex.con != nil && len(ex.con.Acquires) > 0) || ex.curInstr.Block().Index == 0 || (ex.con != nil && len(ex.con.Acquires) > 0 && ex.curInstr.Block().Dominates(ex.fn.Blocks[len(ex.fn.Blocks)-1]) || ex.lockDominatesReturns())) {
		// the function's linearisation point: old() refers to the state seen under the lock
		keep := ex.entry
		ex.entry = st.clone()
		ex.entry.guard = keep.guard
		ex.acquiredFirst = mname
	}
}

// acquireMonitor: other threads may have run; guarded fields are arbitrary but satisfy the invariant.
func (ex *Exec) acquireMonitor(st *State, mname string, ref T, owner types.Type) {
	var ps *PkgSpec
	if n, ok := owner.(*types.Named); ok && n.Obj().Pkg() != nil {
		ps = ex.P.specs[n.Obj().Pkg().Path()]
	}
	if ps == nil {
		return
	}
	fields, guarded := ps.Guarded[mname]
	if !guarded {
		return
	}
	vc := ex.vc
	sT := owner.Underlying().(*types.Struct)
	before := st.clone()
	defer func() {
		if rely, ok := ps.Relies[mname]; ok {
			if t, err := ex.evalMonitorPred(st, before, rely, ref, owner); err == nil {
				vc.assume(st.guard, t)
			} else {
				ex.fail("monitor %s rely: %v", mname, err)
			}
		}
		if ex.acqSnap == nil {
			ex.acqSnap = map[string]*State{}
		}
		ex.acqSnap[mname+"@"+ref.s] = st.clone()
	}()
	// other threads may have run: guarded fields of this object are arbitrary (but satisfy the invariant)
	for _, f := range fields {
		for i := 0; i < sT.NumFields(); i++ {
			if sT.Field(i).Name() != f {
				continue
			}
			name := fieldHeapName(owner, i)
			sort := ArraySort(SInt, vc.sortOf(sT.Field(i).Type()))
			cur := ex.heapGet(st, name, sort)
			nv := vc.fresh("relock."+f, arrayElem(sort))
			ex.heapSet(st, name, ex.define(name, Store(cur, ref, nv)))
			ex.assumeTypeInv(st, nv, sT.Field(i).Type())
		}
	}
	// map-valued and pointer-valued guarded fields: contents behind them may have changed too
	for _, f := range fields {
		for i := 0; i < sT.NumFields(); i++ {
			if sT.Field(i).Name() != f {
				continue
			}
			if _, isMap := sT.Field(i).Type().Underlying().(*types.Map); isMap {
				dom, val, dn, vn := ex.mapHeaps(st, sT.Field(i).Type())
				ex.heapSet(st, dn, vc.fresh("relock."+dn, dom.sort))
				ex.heapSet(st, vn, vc.fresh("relock."+vn, val.sort))
			}
		}
	}
	for _, inv := range ps.Monitors[mname] {
		t, err := ex.evalMonitorInv(st, inv, ref, owner)
		if err != nil {
			ex.fail("monitor %s: %v", mname, err)
			return
		}
		vc.assume(st.guard, t)
		vc.assumed["T2: monitor invariant "+inv+" holds whenever "+mname+" is free (established by the constructor, preserved by every critical section under contract)"] = true
	}
}

// lockDiscipline installs the read/write hooks that demand held(mu) at every access of a guarded field.
func (ex *Exec) lockDiscipline() {
	ps := ex.pkgSpec()
	if ps == nil || len(ps.Guarded) == 0 || ex.con == nil {
		return
	}
	// heap name -> (mutex field heap name)
	type g struct {
		muHeap string
		field  string
	}
	guardOf := map[string]g{}
	for mname, fields := range ps.Guarded {
		parts := strings.SplitN(mname, ".", 2)
		obj := ex.fn.Pkg.Pkg.Scope().Lookup(parts[0])
		if obj == nil {
			continue
		}
		sT, ok := obj.Type().Underlying().(*types.Struct)
		if !ok {
			continue
		}
		muIdx := -1
		for i := 0; i < sT.NumFields(); i++ {
			if sT.Field(i).Name() == parts[1] {
				muIdx = i
			}
		}
		if muIdx < 0 {
			continue
		}
		for _, f := range fields {
			for i := 0; i < sT.NumFields(); i++ {
				if sT.Field(i).Name() == f {
					guardOf[fieldHeapName(obj.Type(), i)] = g{fieldHeapName(obj.Type(), muIdx), f}
				}
			}
		}
	}
	count := map[string]int{}
	check := func(st *State, heap string, ref T, write bool) {
		gi, ok := guardOf[heap]
		if !ok {
			return
		}
		key := gi.muHeap + "@" + ex.canonTerm(ref.s)
		kind := "held:"
		if write {
			kind = "wheld:"
		}
		held := ex.ghostGet(st, kind+key)
		// objects allocated by this very call are not shared yet
		own := Gt(ref, ex.ghostGet(ex.entry, "alloc"))
		count[gi.field]++
		rw := "r"
		if write {
			rw = "w"
		}
		ex.vc.oblige("lock", fmt.Sprintf("lock:%s:%s:%s%d", ex.conName(), gi.field, rw, count[gi.field]), st.guard, Or(held, own), ex.pos(token.NoPos))
	}
	ex.onWrite = func(st *State, heap string, ref T) { check(st, heap, ref, true) }
	ex.onRead = func(st *State, l Loc) {
		if hf, ok := l.(LocHeapField); ok {
			check(st, fieldHeapName(hf.owner, hf.idx), hf.ref, false)
		}
	}
}

// applyRecFunc: recursive spec functions are SMT define-fun-rec (raw SMT bodies) applied to argument terms.
func (ex *Exec) applyRecFunc(env *SpecEnv, rf *RecFunc, args []TV) (TV, error) {
	vc := ex.vc
	if len(args) != len(rf.Params) {
		return TV{}, fmt.Errorf("%s expects %d arguments", rf.Name, len(rf.Params))
	}
	name := "spec." + rf.Name
	if !vc.declSet["f:"+name] {
		var ps []string
		for i, p := range rf.Params {
			ps = append(ps, fmt.Sprintf("(%s %s)", p, rf.PSorts[i]))
		}
		body := rf.Body
		all := ex.P.allRecFuncs()
		// declare the other spec functions this one mentions first
		for n, other := range all {
			if n != rf.Name && regexp.MustCompile(`@`+n+`\b`).MatchString(body) && !vc.declSet["f:spec."+n] {
				dummy := make([]TV, len(other.Params))
				for i := range dummy {
					dummy[i] = TV{T{"dummy", other.PSorts[i]}, nil}
				}
				if _, err := ex.applyRecFunc(env, other, dummy); err != nil {
					return TV{}, err
				}
			}
		}
		body = regexp.MustCompile(`@([A-Za-z_][A-Za-z0-9_]*)`).ReplaceAllString(body, "spec.$1")
		vc.declare("f:"+name, fmt.Sprintf("(define-fun-rec %s (%s) %s %s)", name, strings.Join(ps, " "), rf.Res, body))
	}
	var ts []T
	for i, a := range args {
		t := a.t
		if t.sort == SInt && rf.PSorts[i] == SReal {
			t = mk(SReal, "to_real", t)
		}
		ts = append(ts, t)
	}
	return TV{mk(rf.Res, name, ts...), nil}, nil
}

func (P *Program) allRecFuncs() map[string]*RecFunc {
	out := map[string]*RecFunc{}
	for _, ps := range P.specs {
		for n, r := range ps.RecFuncs {
			out[n] = r
		}
	}
	return out
}

var _ = ast.NewIdent

// lockDominatesReturns: the block of the current (first) Lock dominates every return, so it is the linearisation point.
func (ex *Exec) lockDominatesReturns() bool {
	if ex.con == nil || len(ex.con.Acquires) == 0 || ex.curInstr == nil {
		return false
	}
	lb := ex.curInstr.Block()
	for _, b := range ex.fn.Blocks {
		if len(b.Instrs) == 0 {
			continue
		}
		if _, ok := b.Instrs[len(b.Instrs)-1].(*ssa.Return); ok {
			if !lb.Dominates(b) {
				return false
			}
		}
	}
	return true
}
