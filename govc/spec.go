package main

// Specification expressions: Go expression syntax (go/parser) plus
//   a ==> b, a <==> b            (rewritten to imp(a,b), iff(a,b) before parsing)
//   forall(i, lo, hi, body)      ∀ i. lo <= i < hi ⇒ body      (exists likewise)
//   forallv(x, sortexample, body) ∀ x of the sort of sortexample. body
//   old(e), len(e), result, result0.., ite(c,a,b), dom(m,k), held(mu), zero(t), fresh(p)
//   $i  (range loops: number of elements already consumed), $s (ranged slice), $visited(k), $key
// Identifiers resolve, in this order: bound variables, (in invariants) local
// variables by name, parameters (entry values in pre/post), package-level
// constants and variables, predicates and spec functions of the contract files.

import (
	"sort"
	"fmt"
	"go/ast"
	"go/constant"
	"go/parser"
	"go/token"
	"go/types"
	"math/big"
	"regexp"
	"strconv"
	"strings"

	"golang.org/x/tools/go/ssa"
)

type TV struct {
	t   T
	typ types.Type // may be nil for spec-only values
}

type SpecEnv struct {
	ex        *Exec
	st        *State
	old       *State
	vars      map[string]TV
	calleeFn  *ssa.Function // when evaluating a callee's contract at a call site
	isPrePost bool
	loop      *loopInfo
	inOld     bool
	inStep    bool // evaluating a `loop K step` clause (prev(e) allowed)
	depth     int
}

func (ex *Exec) specEnv(st, old *State, prepost bool) *SpecEnv {
	env := &SpecEnv{ex: ex, st: st, old: old, vars: map[string]TV{}, isPrePost: prepost}
	return env
}

func (env *SpecEnv) fn() *ssa.Function {
	if env.calleeFn != nil {
		return env.calleeFn
	}
	return env.ex.fn
}

func (env *SpecEnv) pkg() *types.Package { return env.fn().Pkg.Pkg }

func (env *SpecEnv) bindResults(fn *ssa.Function, rs []T) {
	res := fn.Signature.Results()
	for i := 0; i < res.Len() && i < len(rs); i++ {
		tv := TV{rs[i], res.At(i).Type()}
		env.vars[fmt.Sprintf("result%d", i)] = tv
		if i == 0 {
			// "result" names the first result unless the function has a parameter of that name
			clash := false
			for _, p := range fn.Params {
				if p.Name() == "result" {
					clash = true
				}
			}
			if !clash {
				env.vars["result"] = tv
			}
		}
		if n := res.At(i).Name(); n != "" && n != "_" {
			env.vars[n] = tv
		}
	}
}

func (env *SpecEnv) child() *SpecEnv {
	c := *env
	c.vars = make(map[string]TV, len(env.vars)+2)
	for k, v := range env.vars {
		c.vars[k] = v
	}
	return &c
}

// ------------------------------------------------------------------ pre-pass: ==> and <==>

func rewriteImp(s string) string {
	// process innermost parentheses first via recursion on groups
	var out strings.Builder
	i := 0
	for i < len(s) {
		c := s[i]
		if c == '"' || c == '\'' || c == '`' {
			j := i + 1
			for j < len(s) && s[j] != c {
				if s[j] == '\\' && c != '`' {
					j++
				}
				j++
			}
			if j >= len(s) {
				j = len(s) - 1
			}
			out.WriteString(s[i : j+1])
			i = j + 1
			continue
		}
		if c == '(' || c == '[' {
			closer := byte(')')
			if c == '[' {
				closer = ']'
			}
			depth := 0
			j := i
			for ; j < len(s); j++ {
				if s[j] == c {
					depth++
				} else if s[j] == closer {
					depth--
					if depth == 0 {
						break
					}
				}
			}
			if j >= len(s) {
				out.WriteString(s[i:])
				break
			}
			inner := s[i+1 : j]
			// split by top-level commas
			parts := splitTop(inner, ',')
			for k, p := range parts {
				parts[k] = rewriteImp(p)
			}
			out.WriteByte(c)
			out.WriteString(strings.Join(parts, ","))
			out.WriteByte(closer)
			i = j + 1
			continue
		}
		out.WriteByte(c)
		i++
	}
	t := out.String()
	if parts := splitTopStr(t, "<==>"); len(parts) > 1 {
		r := parts[len(parts)-1]
		for k := len(parts) - 2; k >= 0; k-- {
			r = "iff(" + parts[k] + "," + r + ")"
		}
		return r
	}
	if parts := splitTopStr(t, "==>"); len(parts) > 1 {
		r := parts[len(parts)-1]
		for k := len(parts) - 2; k >= 0; k-- {
			r = "imp(" + parts[k] + "," + r + ")"
		}
		return r
	}
	return t
}

func splitTop(s string, sep byte) []string {
	var parts []string
	depth := 0
	last := 0
	inq := byte(0)
	for i := 0; i < len(s); i++ {
		c := s[i]
		if inq != 0 {
			if c == '\\' && inq != '`' {
				i++
			} else if c == inq {
				inq = 0
			}
			continue
		}
		switch c {
		case '"', '\'', '`':
			inq = c
		case '(', '[', '{':
			depth++
		case ')', ']', '}':
			depth--
		default:
			if c == sep && depth == 0 {
				parts = append(parts, s[last:i])
				last = i + 1
			}
		}
	}
	return append(parts, s[last:])
}

func splitTopStr(s, sep string) []string {
	var parts []string
	depth := 0
	last := 0
	inq := byte(0)
	for i := 0; i < len(s); i++ {
		c := s[i]
		if inq != 0 {
			if c == '\\' && inq != '`' {
				i++
			} else if c == inq {
				inq = 0
			}
			continue
		}
		switch c {
		case '"', '\'', '`':
			inq = c
		case '(', '[', '{':
			depth++
		case ')', ']', '}':
			depth--
		default:
			if depth == 0 && strings.HasPrefix(s[i:], sep) {
				// do not split "<==>" when looking for "==>"
				if sep == "==>" && i > 0 && s[i-1] == '<' {
					continue
				}
				parts = append(parts, s[last:i])
				last = i + len(sep)
				i += len(sep) - 1
			}
		}
	}
	return append(parts, s[last:])
}

func parseSpecExpr(src string) (ast.Expr, error) {
	s := strings.ReplaceAll(src, "$", "ĦĦ") // $i -> identifier
	s = rewriteImp(s)
	e, err := parser.ParseExpr(s)
	if err != nil {
		return nil, fmt.Errorf("parse %q: %v", src, err)
	}
	return e, nil
}

// ------------------------------------------------------------------ evaluation

func (env *SpecEnv) evalBool(e ast.Expr) (T, error) {
	tv, err := env.eval(e)
	if err != nil {
		return T{}, err
	}
	if tv.t.sort != SBool {
		return T{}, fmt.Errorf("expected a boolean, got %s", tv.t.sort)
	}
	return tv.t, nil
}

func (env *SpecEnv) state() *State {
	if env.inOld {
		return env.old
	}
	return env.st
}

func (env *SpecEnv) eval(e ast.Expr) (TV, error) {
	ex := env.ex
	vc := ex.vc
	switch e := e.(type) {
	case *ast.ParenExpr:
		return env.eval(e.X)
	case *ast.BasicLit:
		switch e.Kind {
		case token.INT:
			bi, ok := new(big.Int).SetString(e.Value, 0)
			if !ok {
				return TV{}, fmt.Errorf("bad int %s", e.Value)
			}
			return TV{BigIntLit(bi), nil}, nil
		case token.FLOAT:
			r, ok := new(big.Rat).SetString(e.Value)
			if !ok {
				return TV{}, fmt.Errorf("bad float %s", e.Value)
			}
			return TV{RealLitRat(r), nil}, nil
		case token.STRING:
			s, err := strconv.Unquote(e.Value)
			if err != nil {
				return TV{}, err
			}
			return TV{vc.strLit(s), types.Typ[types.String]}, nil
		case token.CHAR:
			s, err := strconv.Unquote(e.Value)
			if err != nil {
				return TV{}, err
			}
			r := []rune(s)[0]
			return TV{IntLit(int64(r)), nil}, nil
		}
	case *ast.Ident:
		return env.evalIdent(e.Name)
	case *ast.UnaryExpr:
		x, err := env.eval(e.X)
		if err != nil {
			return TV{}, err
		}
		switch e.Op {
		case token.NOT:
			return TV{Not(x.t), x.typ}, nil
		case token.SUB:
			return TV{mk(x.t.sort, "-", x.t), x.typ}, nil
		case token.ADD:
			return x, nil
		}
	case *ast.StarExpr:
		x, err := env.eval(e.X)
		if err != nil {
			return TV{}, err
		}
		pt, ok := x.typ.Underlying().(*types.Pointer)
		if !ok {
			return TV{}, fmt.Errorf("deref of non-pointer")
		}
		return TV{ex.load(env.state(), LocDeref{x.t, pt.Elem()}), pt.Elem()}, nil
	case *ast.BinaryExpr:
		return env.evalBinary(e)
	case *ast.SelectorExpr:
		return env.evalSelector(e)
	case *ast.IndexExpr:
		x, err := env.eval(e.X)
		if err != nil {
			return TV{}, err
		}
		i, err := env.eval(e.Index)
		if err != nil {
			return TV{}, err
		}
		return env.index(x, i)
	case *ast.SliceExpr:
		x, err := env.eval(e.X)
		if err != nil {
			return TV{}, err
		}
		lo := TV{IntLit(0), nil}
		if e.Low != nil {
			if lo, err = env.eval(e.Low); err != nil {
				return TV{}, err
			}
		}
		var hi TV
		if e.High != nil {
			if hi, err = env.eval(e.High); err != nil {
				return TV{}, err
			}
		} else if x.t.sort == SStr {
			hi = TV{mk(SInt, "gs.len", x.t), nil}
		} else {
			hi = TV{slLen(x.t), nil}
		}
		if x.t.sort == SStr {
			return TV{ex.strSub(x.t, lo.t, hi.t), x.typ}, nil
		}
		if lo.t.s != "0" {
			return TV{}, fmt.Errorf("spec slice with non-zero low bound unsupported")
		}
		return TV{mkSlice(x.t.sort, slArr(x.t), hi.t, TFalse), x.typ}, nil
	case *ast.CallExpr:
		return env.evalCall(e)
	}
	return TV{}, fmt.Errorf("unsupported spec expression %T", e)
}

func (env *SpecEnv) index(x, i TV) (TV, error) {
	ex := env.ex
	if x.t.sort == SStr {
		return TV{mk(SInt, "gs.at", x.t, i.t), types.Typ[types.Uint8]}, nil
	}
	if strings.HasPrefix(x.t.sort, "Slice_") {
		var et types.Type
		if x.typ != nil {
			switch u := x.typ.Underlying().(type) {
			case *types.Slice:
				et = u.Elem()
			case *types.Array:
				et = u.Elem()
			}
		}
		return TV{Select(slArr(x.t), i.t), et}, nil
	}
	if x.typ != nil {
		if m, ok := x.typ.Underlying().(*types.Map); ok {
			dom, val, _, _ := ex.mapHeaps(env.state(), x.typ)
			present := And(Not(Eq(x.t, IntLit(0))), Select(Select(dom, x.t), i.t))
			return TV{Ite(present, Select(Select(val, x.t), i.t), ex.vc.zero(m.Elem())), m.Elem()}, nil
		}
	}
	if strings.HasPrefix(x.t.sort, "(Array ") {
		return TV{Select(x.t, i.t), nil}, nil
	}
	return TV{}, fmt.Errorf("cannot index %s", x.t.sort)
}

func (env *SpecEnv) evalIdent(name string) (TV, error) {
	ex := env.ex
	vc := ex.vc
	switch name {
	case "true":
		return TV{TTrue, types.Typ[types.Bool]}, nil
	case "false":
		return TV{TFalse, types.Typ[types.Bool]}, nil
	case "nil":
		return TV{T{"nil", "nil"}, nil}, nil
	case "ZERO_T":
		return TV{T{ZeroTime, SInt}, nil}, nil
	}
	if v, ok := env.vars[name]; ok {
		return v, nil
	}
	if strings.HasPrefix(name, "ĦĦ") {
		return env.evalDollar(strings.TrimPrefix(name, "ĦĦ"))
	}
	if env.calleeFn == nil {
		// locals by name (invariants and asserts); parameters: current value in invariants, entry value in pre/post
		if !env.isPrePost && !env.inOld {
			if a := ex.lookupLocal(name, env.loop); a != nil {
				if ex.isLocalCell(a) {
					return TV{ex.load(env.st, LocLocal{a}), a.Type().(*types.Pointer).Elem()}, nil
				}
				// heap-allocated local: its cell lives behind a ref
				if r, ok := ex.regs[a]; ok {
					et := a.Type().(*types.Pointer).Elem()
					return TV{ex.load(env.st, LocDeref{r, et}), et}, nil
				}
			}
		}
		if p, ok := ex.params[name]; ok {
			return p, nil
		}
		if !env.isPrePost && env.inOld {
			// inside old(...) of an invariant or assertion a local variable (which has no entry value) denotes its
			// current value; heap reads and parameters are taken in the entry state
			if a := ex.lookupLocal(name, env.loop); a != nil {
				if ex.isLocalCell(a) {
					return TV{ex.load(env.st, LocLocal{a}), a.Type().(*types.Pointer).Elem()}, nil
				}
				if r, ok := ex.regs[a]; ok {
					et := a.Type().(*types.Pointer).Elem()
					return TV{ex.load(env.st, LocDeref{r, et}), et}, nil
				}
			}
		}
		for _, fv := range ex.fn.FreeVars {
			if fv.Name() == name {
				// captured variable: a pointer to the enclosing function's cell, or the value itself
				if pt, ok := fv.Type().(*types.Pointer); ok {
					return TV{ex.load(env.state(), LocCaptured{fv}), pt.Elem()}, nil
				}
				return TV{ex.val(env.st, fv), fv.Type()}, nil
			}
		}
		if env.isPrePost || env.inOld {
			// named results in postconditions are bound by bindResults; other locals are not visible
		}
	}
	// package scope
	if obj := env.pkg().Scope().Lookup(name); obj != nil {
		return env.objValue(obj)
	}
	_ = vc
	return TV{}, fmt.Errorf("unknown identifier %q", name)
}

func (env *SpecEnv) evalDollar(name string) (TV, error) {
	ex := env.ex
	li := env.loop
	// $doneK: the K-th loop (a range-over-slice loop) has visited all its elements
	if strings.HasPrefix(name, "done") {
		k, err := strconv.Atoi(strings.TrimPrefix(name, "done"))
		if err != nil || k < 1 || k > len(ex.loopList) {
			return TV{}, fmt.Errorf("$%s: no such loop", name)
		}
		l := ex.loopList[k-1]
		if l.rangeIdx == nil || l.rangeLen == nil {
			return TV{}, fmt.Errorf("$%s: loop %d is not a range-over-slice loop", name, k)
		}
		n, ok := ex.regs[l.rangeLen]
		if !ok {
			return TV{TFalse, types.Typ[types.Bool]}, nil
		}
		return TV{Ge(ex.load(env.state(), LocLocal{l.rangeIdx}), n), types.Typ[types.Bool]}, nil
	}
	// $pK: the K-th parameter of the function under contract by position (a method's receiver is $p0), whatever it is named
	if env.calleeFn == nil && len(name) >= 2 && name[0] == 'p' {
		if k, err := strconv.Atoi(name[1:]); err == nil {
			if k < 0 || k >= len(ex.fn.Params) {
				return TV{}, fmt.Errorf("$%s: the function has %d parameters", name, len(ex.fn.Params))
			}
			pr := ex.fn.Params[k]
			if v, ok := ex.regs[pr]; ok {
				return TV{v, pr.Type()}, nil
			}
			if tv, ok := ex.params[pr.Name()]; ok {
				return tv, nil
			}
			return TV{}, fmt.Errorf("$%s: parameter value not available", name)
		}
	}
	if env.calleeFn == nil && (name == "selected" || name == "recvok") {
		if name == "selected" {
			return TV{ex.ghostGet(env.state(), "sel:idx"), types.Typ[types.Int]}, nil
		}
		if t, ok := env.state().ghost["sel:ok"]; ok {
			return TV{t, types.Typ[types.Bool]}, nil
		}
		return TV{TFalse, types.Typ[types.Bool]}, nil
	}
	// ghost observations of call results
	if env.calleeFn != nil {
		if con := ex.P.contractOf(env.calleeFn); con != nil {
			for _, v := range con.Observe {
				if v == name {
					key := "$obs:" + name
					if tv, ok := env.vars[key]; ok {
						return tv, nil
					}
					return TV{}, fmt.Errorf("observation $%s not bound at call site", name)
				}
			}
		}
	} else if ex.con != nil {
		for _, v := range ex.con.Counts {
			if v == name {
				return TV{ex.ghostGet(env.state(), "cnt:"+name), types.Typ[types.Int]}, nil
			}
		}
		for callee, v := range ex.con.Observe {
			if v == name {
				var srt Sort = SBool
				var otyp types.Type
				if f := ex.P.calleeByShortName(ex.fn, callee); f != nil && f.Signature.Results().Len() > 0 && !strings.Contains(callee, "#") {
					srt = ex.vc.sortOf(f.Signature.Results().At(0).Type())
					// the Go type is kept for struct and map results (field selection / lookup on the observation); other
					// observations stay untyped as before
					switch f.Signature.Results().At(0).Type().Underlying().(type) {
					case *types.Struct, *types.Map:
						otyp = f.Signature.Results().At(0).Type()
					}
				}
				if t, ok := env.st.ghost["obs:"+name]; ok {
					return TV{t, otyp}, nil
				}
				return TV{ex.vc.zeroOfSort(srt, nil), otyp}, nil
			}
		}
	}
	if li == nil {
		return TV{}, fmt.Errorf("$%s outside a loop clause", name)
	}
	switch name {
	case "i":
		if li.rangeIdx == nil {
			return TV{}, fmt.Errorf("$i: loop %d is not a range-over-slice loop", li.ordinal)
		}
		return TV{Add(ex.load(env.state(), LocLocal{li.rangeIdx}), IntLit(1)), types.Typ[types.Int]}, nil
	case "s":
		if li.rangeVal == nil {
			return TV{}, fmt.Errorf("$s: loop %d has no ranged slice", li.ordinal)
		}
		return TV{ex.regs[li.rangeVal], li.rangeVal.Type()}, nil
	case "n":
		if li.rangeLen == nil {
			return TV{}, fmt.Errorf("$n: loop %d has no range length", li.ordinal)
		}
		return TV{ex.regs[li.rangeLen], types.Typ[types.Int]}, nil
	case "visited":
		v, ok := env.state().ghost[fmt.Sprintf("visited:%d", li.ordinal)]
		if !ok {
			return TV{}, fmt.Errorf("$visited: loop %d is not a range-over-map loop", li.ordinal)
		}
		return TV{v, nil}, nil
	}
	return TV{}, fmt.Errorf("unknown $%s", name)
}

func (env *SpecEnv) objValue(obj types.Object) (TV, error) {
	ex := env.ex
	switch o := obj.(type) {
	case *types.Const:
		return env.constValue(o.Val(), o.Type())
	case *types.Var:
		// package-level variable
		name := "G_" + o.Pkg().Name() + "." + o.Name()
		return TV{ex.heapGet(env.state(), name, ex.vc.sortOf(o.Type())), o.Type()}, nil
	}
	return TV{}, fmt.Errorf("object %s is not a value", obj.Name())
}

func (env *SpecEnv) constValue(v constant.Value, t types.Type) (TV, error) {
	vc := env.ex.vc
	switch v.Kind() {
	case constant.Int:
		bi, _ := new(big.Int).SetString(v.ExactString(), 10)
		if bi == nil {
			return TV{}, fmt.Errorf("bad const")
		}
		if vc.sortOf(t) == SReal {
			return TV{RealLitRat(new(big.Rat).SetInt(bi)), t}, nil
		}
		return TV{BigIntLit(bi), t}, nil
	case constant.Bool:
		return TV{BoolLit(constant.BoolVal(v)), t}, nil
	case constant.String:
		return TV{vc.strLit(constant.StringVal(v)), t}, nil
	case constant.Float:
		r, ok := new(big.Rat).SetString(v.ExactString())
		if !ok {
			return TV{}, fmt.Errorf("bad float const")
		}
		return TV{RealLitRat(r), t}, nil
	}
	return TV{}, fmt.Errorf("unsupported constant kind")
}

// lookupLocal finds the Alloc of a named local variable; with several candidates
// the one whose declaration is the closest before the loop (or the last one) wins.
func (ex *Exec) lookupLocal(name string, li *loopInfo) *ssa.Alloc {
	// name__K selects the K-th declaration (in source order) of a local called name
	if i := strings.LastIndex(name, "__"); i > 0 {
		if k, err := strconv.Atoi(name[i+2:]); err == nil && k >= 1 {
			var cs []*ssa.Alloc
			for _, b := range ex.fn.Blocks {
				for _, in := range b.Instrs {
					if a, ok := in.(*ssa.Alloc); ok && a.Comment == name[:i] {
						cs = append(cs, a)
					}
				}
			}
			sort.SliceStable(cs, func(x, y int) bool { return cs[x].Pos() < cs[y].Pos() })
			if k <= len(cs) {
				return cs[k-1]
			}
			return nil
		}
	}
	var cands []*ssa.Alloc
	for _, b := range ex.fn.Blocks {
		for _, in := range b.Instrs {
			if a, ok := in.(*ssa.Alloc); ok && a.Comment == name {
				cands = append(cands, a)
			}
		}
	}
	if len(cands) == 0 {
		return nil
	}
	if len(cands) == 1 || li == nil {
		return cands[0]
	}
	// prefer a candidate allocated in a block that dominates the loop header, the latest such
	var best *ssa.Alloc
	for _, a := range cands {
		if a.Block().Dominates(li.header) && !li.blocks[a.Block()] {
			best = a
		}
	}
	if best != nil {
		return best
	}
	return cands[0]
}

func (env *SpecEnv) coerce(a, b TV) (TV, TV, error) {
	// nil adapts to the other side
	if a.t.sort == "nil" && b.t.sort == "nil" {
		return a, b, fmt.Errorf("nil compared with nil")
	}
	if a.t.sort == "nil" {
		z, err := env.nilOf(b)
		return z, b, err
	}
	if b.t.sort == "nil" {
		z, err := env.nilOf(a)
		return a, z, err
	}
	if a.t.sort == SInt && b.t.sort == SReal {
		return TV{mk(SReal, "to_real", a.t), b.typ}, b, nil
	}
	if a.t.sort == SReal && b.t.sort == SInt {
		return a, TV{mk(SReal, "to_real", b.t), a.typ}, nil
	}
	// untyped constants adopt the type of the other side
	if a.typ == nil {
		a.typ = b.typ
	}
	if b.typ == nil {
		b.typ = a.typ
	}
	if a.t.sort != b.t.sort {
		return a, b, fmt.Errorf("sort mismatch %s vs %s (%s vs %s)", a.t.sort, b.t.sort, a.t.s, b.t.s)
	}
	return a, b, nil
}

func (env *SpecEnv) nilOf(o TV) (TV, error) {
	switch {
	case o.t.sort == SInt:
		return TV{IntLit(0), o.typ}, nil
	case o.t.sort == SVal:
		return TV{T{"VNil", SVal}, o.typ}, nil
	case strings.HasPrefix(o.t.sort, "Slice_"):
		return TV{T{"nil", "nilslice"}, o.typ}, nil
	}
	return TV{}, fmt.Errorf("nil compared with %s", o.t.sort)
}

func (env *SpecEnv) evalBinary(e *ast.BinaryExpr) (TV, error) {
	if e.Op == token.LAND || e.Op == token.LOR {
		a, err := env.evalBool(e.X)
		if err != nil {
			return TV{}, err
		}
		b, err := env.evalBool(e.Y)
		if err != nil {
			return TV{}, err
		}
		if e.Op == token.LAND {
			return TV{And(a, b), types.Typ[types.Bool]}, nil
		}
		return TV{Or(a, b), types.Typ[types.Bool]}, nil
	}
	a, err := env.eval(e.X)
	if err != nil {
		return TV{}, err
	}
	b, err := env.eval(e.Y)
	if err != nil {
		return TV{}, err
	}
	a, b, err = env.coerce(a, b)
	if err != nil {
		return TV{}, err
	}
	boolT := types.Typ[types.Bool]
	switch e.Op {
	case token.EQL, token.NEQ:
		var r T
		if b.t.sort == "nilslice" {
			r = slNil(a.t)
		} else if a.t.sort == "nilslice" {
			r = slNil(b.t)
		} else {
			r = Eq(a.t, b.t)
		}
		if e.Op == token.NEQ {
			r = Not(r)
		}
		return TV{r, boolT}, nil
	case token.LSS, token.LEQ, token.GTR, token.GEQ:
		if a.t.sort == SStr {
			return TV{env.ex.binop(env.st, e.Op, a.t, b.t, types.Typ[types.String], boolT), boolT}, nil
		}
		switch e.Op {
		case token.LSS:
			return TV{Lt(a.t, b.t), boolT}, nil
		case token.LEQ:
			return TV{Le(a.t, b.t), boolT}, nil
		case token.GTR:
			return TV{Gt(a.t, b.t), boolT}, nil
		}
		return TV{Ge(a.t, b.t), boolT}, nil
	case token.ADD:
		if a.t.sort == SStr {
			return TV{env.ex.strConcat(env.st, a.t, b.t), a.typ}, nil
		}
		return TV{Add(a.t, b.t), a.typ}, nil
	case token.SUB:
		return TV{Sub(a.t, b.t), a.typ}, nil
	case token.MUL:
		return TV{Mul(a.t, b.t), a.typ}, nil
	case token.QUO:
		if a.t.sort == SReal {
			return TV{env.ex.realDiv(a.t, b.t), a.typ}, nil
		}
		return TV{mk(SInt, "go.div", a.t, b.t), a.typ}, nil
	case token.REM:
		return TV{mk(SInt, "go.rem", a.t, b.t), a.typ}, nil
	}
	return TV{}, fmt.Errorf("unsupported operator %s", e.Op)
}

func (env *SpecEnv) evalSelector(e *ast.SelectorExpr) (TV, error) {
	ex := env.ex
	// package-qualified?
	if id, ok := e.X.(*ast.Ident); ok {
		if _, bound := env.vars[id.Name]; !bound {
			if _, isParam := ex.params[id.Name]; !isParam || env.calleeFn != nil {
				if pk := env.importedPkg(id.Name); pk != nil && (env.calleeFn != nil || ex.lookupLocal(id.Name, env.loop) == nil) {
					obj := pk.Scope().Lookup(e.Sel.Name)
					if obj == nil {
						return TV{}, fmt.Errorf("%s.%s not found", id.Name, e.Sel.Name)
					}
					return env.objValue(obj)
				}
			}
		}
	}
	x, err := env.eval(e.X)
	if err != nil {
		return TV{}, err
	}
	if x.typ == nil {
		return TV{}, fmt.Errorf("selector %s on untyped value", e.Sel.Name)
	}
	return env.selectField(x, e.Sel.Name)
}

func (env *SpecEnv) selectField(x TV, name string) (TV, error) {
	ex := env.ex
	t := x.typ
	if pt, ok := t.Underlying().(*types.Pointer); ok {
		st, ok := pt.Elem().Underlying().(*types.Struct)
		if !ok {
			return TV{}, fmt.Errorf("selector %s on pointer to non-struct", name)
		}
		// ghost fields
		if gf := ex.P.ghostField(pt.Elem(), name); gf != nil {
			h := ex.heapGet(env.state(), "H_"+shortTypeName(pt.Elem())+".$"+name, ArraySort(SInt, gf.sort(ex.vc)))
			return TV{Select(h, x.t), gf.typ}, nil
		}
		for i := 0; i < st.NumFields(); i++ {
			if st.Field(i).Name() == name {
				return TV{ex.load(env.state(), LocHeapField{x.t, pt.Elem(), i}), st.Field(i).Type()}, nil
			}
		}
		// promoted through embedded struct values: one level
		for i := 0; i < st.NumFields(); i++ {
			if st.Field(i).Embedded() {
				inner := TV{ex.load(env.state(), LocHeapField{x.t, pt.Elem(), i}), st.Field(i).Type()}
				if r, err := env.selectField(inner, name); err == nil {
					return r, nil
				}
			}
		}
		return TV{}, fmt.Errorf("no field %s in %s", name, pt.Elem())
	}
	if st, ok := t.Underlying().(*types.Struct); ok && !isTimeTime(t) {
		info := ex.vc.structInfo(t)
		for i := 0; i < st.NumFields(); i++ {
			if st.Field(i).Name() == name {
				return TV{mk(info.fsorts[i], info.fields[i], x.t), st.Field(i).Type()}, nil
			}
		}
		return TV{}, fmt.Errorf("no field %s in %s", name, t)
	}
	return TV{}, fmt.Errorf("selector %s on %s", name, t)
}

func (env *SpecEnv) importedPkg(name string) *types.Package {
	for _, p := range env.pkg().Imports() {
		if p.Name() == name {
			return p
		}
	}
	return nil
}

func (env *SpecEnv) evalCall(e *ast.CallExpr) (TV, error) {
	ex := env.ex
	vc := ex.vc
	boolT := types.Typ[types.Bool]
	// method-style calls on values: t.Before(u), d.Nanoseconds(), s.Contains(t) ...
	if sel, ok := e.Fun.(*ast.SelectorExpr); ok {
		if id, isId := sel.X.(*ast.Ident); !(isId && env.isPkgName(id.Name)) {
			recv, err := env.eval(sel.X)
			if err != nil {
				return TV{}, err
			}
			var args []TV
			for _, a := range e.Args {
				v, err := env.eval(a)
				if err != nil {
					return TV{}, err
				}
				args = append(args, v)
			}
			return env.methodCall(recv, sel.Sel.Name, args)
		}
		// pkg.Func(...)
		id := sel.X.(*ast.Ident)
		if pk := env.importedPkg(id.Name); pk != nil {
			if rs, sig, err := env.pureApplyIn(pk, sel.Sel.Name, e.Args); err == nil {
				return TV{rs[0], sig.Results().At(0).Type()}, nil
			}
		}
		var args []TV
		for _, a := range e.Args {
			v, err := env.eval(a)
			if err != nil {
				return TV{}, err
			}
			args = append(args, v)
		}
		return env.pkgFuncCall(id.Name, sel.Sel.Name, args)
	}
	id, ok := e.Fun.(*ast.Ident)
	if !ok {
		return TV{}, fmt.Errorf("unsupported call form")
	}
	switch id.Name {
	case "imp", "iff":
		a, err := env.evalBool(e.Args[0])
		if err != nil {
			return TV{}, err
		}
		b, err := env.evalBool(e.Args[1])
		if err != nil {
			return TV{}, err
		}
		if id.Name == "imp" {
			return TV{Imp(a, b), boolT}, nil
		}
		return TV{Eq(a, b), boolT}, nil
	case "ite":
		c, err := env.evalBool(e.Args[0])
		if err != nil {
			return TV{}, err
		}
		a, err := env.eval(e.Args[1])
		if err != nil {
			return TV{}, err
		}
		b, err := env.eval(e.Args[2])
		if err != nil {
			return TV{}, err
		}
		a, b, err = env.coerce(a, b)
		if err != nil {
			return TV{}, err
		}
		return TV{Ite(c, a.t, b.t), a.typ}, nil
	case "old":
		c := env.child()
		c.inOld = true
		return c.eval(e.Args[0])
	case "len":
		x, err := env.eval(e.Args[0])
		if err != nil {
			return TV{}, err
		}
		if x.t.sort == SStr {
			return TV{mk(SInt, "gs.len", x.t), types.Typ[types.Int]}, nil
		}
		if strings.HasPrefix(x.t.sort, "Slice_") {
			l := slLen(x.t)
			if !strings.Contains(l.s, "!q") {
				// type invariant of every slice value the specification talks about
				vc.axiom(Ge(l, IntLit(0)).s)
			}
			return TV{l, types.Typ[types.Int]}, nil
		}
		if x.typ != nil {
			if _, isMap := x.typ.Underlying().(*types.Map); isMap {
				return TV{ex.mapCard(env.state(), x.typ, x.t), types.Typ[types.Int]}, nil
			}
		}
		return TV{}, fmt.Errorf("len of %s", x.t.sort)
	case "ghost":
		g, ok := e.Args[0].(*ast.Ident)
		if !ok {
			return TV{}, fmt.Errorf("ghost(name) expected")
		}
		return TV{ex.heapGet(env.state(), "G_ghost."+g.Name, SInt), types.Typ[types.Int]}, nil
	case "heapof":
		sel, ok := e.Args[0].(*ast.SelectorExpr)
		if !ok {
			return TV{}, fmt.Errorf("heapof(T.f) expected")
		}
		tn, ok := sel.X.(*ast.Ident)
		if !ok {
			return TV{}, fmt.Errorf("heapof(T.f) expected")
		}
		obj := env.pkg().Scope().Lookup(tn.Name)
		if obj == nil {
			return TV{}, fmt.Errorf("heapof: unknown type %s", tn.Name)
		}
		st, ok := obj.Type().Underlying().(*types.Struct)
		if !ok {
			return TV{}, fmt.Errorf("heapof: %s is not a struct", tn.Name)
		}
		for i := 0; i < st.NumFields(); i++ {
			if st.Field(i).Name() == sel.Sel.Name {
				return TV{ex.heapGet(env.state(), fieldHeapName(obj.Type(), i), ArraySort(SInt, vc.sortOf(st.Field(i).Type()))), nil}, nil
			}
		}
		return TV{}, fmt.Errorf("heapof: no field %s", sel.Sel.Name)
	case "seqeq":
		a, err := env.eval(e.Args[0])
		if err != nil {
			return TV{}, err
		}
		b, err := env.eval(e.Args[1])
		if err != nil {
			return TV{}, err
		}
		if !strings.HasPrefix(a.t.sort, "Slice_") || a.t.sort != b.t.sort {
			return TV{}, fmt.Errorf("seqeq needs two slices of one type")
		}
		ex.nq++
		qn := fmt.Sprintf("i!q%d", ex.nq)
		body := Imp(And(Le(IntLit(0), T{qn, SInt}), Lt(T{qn, SInt}, slLen(a.t))), Eq(Select(slArr(a.t), T{qn, SInt}), Select(slArr(b.t), T{qn, SInt})))
		return TV{And(Eq(slLen(a.t), slLen(b.t)), T{fmt.Sprintf("(forall ((%s Int)) %s)", qn, withPatterns(body.s, qn)), SBool}), boolT}, nil
	case "arr":
		x, err := env.eval(e.Args[0])
		if err != nil {
			return TV{}, err
		}
		if !strings.HasPrefix(x.t.sort, "Slice_") {
			return TV{}, fmt.Errorf("arr of %s", x.t.sort)
		}
		return TV{slArr(x.t), nil}, nil
	case "forall", "exists":
		if len(e.Args) != 4 {
			return TV{}, fmt.Errorf("%s(i, lo, hi, body)", id.Name)
		}
		v, ok := e.Args[0].(*ast.Ident)
		if !ok {
			return TV{}, fmt.Errorf("%s: first argument must be an identifier", id.Name)
		}
		lo, err := env.eval(e.Args[1])
		if err != nil {
			return TV{}, err
		}
		hi, err := env.eval(e.Args[2])
		if err != nil {
			return TV{}, err
		}
		c := env.child()
		ex.nq++
		qn := fmt.Sprintf("%s!q%d", sanitize(v.Name), ex.nq)
		c.vars[v.Name] = TV{T{qn, SInt}, types.Typ[types.Int]}
		body, err := c.evalBool(e.Args[3])
		if err != nil {
			return TV{}, err
		}
		rng := And(Le(lo.t, T{qn, SInt}), Lt(T{qn, SInt}, hi.t))
		if id.Name == "forall" {
			return TV{T{fmt.Sprintf("(forall ((%s Int)) %s)", qn, withPatterns(Imp(rng, body).s, qn)), SBool}, boolT}, nil
		}
		return TV{T{fmt.Sprintf("(exists ((%s Int)) %s)", qn, And(rng, body).s), SBool}, boolT}, nil
	case "forallv", "existsv":
		// forallv(x, example, body): x ranges over the sort (and Go type) of example
		v, ok := e.Args[0].(*ast.Ident)
		if !ok || len(e.Args) != 3 {
			return TV{}, fmt.Errorf("%s(x, example, body)", id.Name)
		}
		exm, err := env.eval(e.Args[1])
		if err != nil {
			return TV{}, err
		}
		c := env.child()
		ex.nq++
		qn := fmt.Sprintf("%s!q%d", sanitize(v.Name), ex.nq)
		c.vars[v.Name] = TV{T{qn, exm.t.sort}, exm.typ}
		body, err := c.evalBool(e.Args[2])
		if err != nil {
			return TV{}, err
		}
		q := "forall"
		if id.Name == "existsv" {
			q = "exists"
		}
		bs := body.s
		if q == "forall" {
			bs = withPatterns(bs, qn)
		}
		return TV{T{fmt.Sprintf("(%s ((%s %s)) %s)", q, qn, exm.t.sort, bs), SBool}, boolT}, nil
	case "arrayof":
		// arrayof(x, example, body): the array mapping every x (of the example's sort) to body, for recursive spec
		// functions that walk a heap structure; introduced as a fresh array constant with its defining axiom
		v, ok := e.Args[0].(*ast.Ident)
		if !ok || len(e.Args) != 3 {
			return TV{}, fmt.Errorf("arrayof(x, example, body)")
		}
		exm, err := env.eval(e.Args[1])
		if err != nil {
			return TV{}, err
		}
		c := env.child()
		ex.nq++
		qn := fmt.Sprintf("%s!q%d", sanitize(v.Name), ex.nq)
		c.vars[v.Name] = TV{T{qn, exm.t.sort}, exm.typ}
		body, err := c.eval(e.Args[2])
		if err != nil {
			return TV{}, err
		}
		as := ArraySort(exm.t.sort, body.t.sort)
		arr := ex.vc.fresh("arrayof", as)
		ex.vc.axiom(fmt.Sprintf("(forall ((%s %s)) (! (= (select %s %s) %s) :pattern ((select %s %s))))", qn, exm.t.sort, arr.s, qn, body.t.s, arr.s, qn))
		return TV{arr, nil}, nil
	case "dom":
		m, err := env.eval(e.Args[0])
		if err != nil {
			return TV{}, err
		}
		k, err := env.eval(e.Args[1])
		if err != nil {
			return TV{}, err
		}
		if m.typ == nil {
			return TV{}, fmt.Errorf("dom of untyped map")
		}
		dom, _, _, _ := ex.mapHeaps(env.state(), m.typ)
		return TV{And(Not(Eq(m.t, IntLit(0))), Select(Select(dom, m.t), k.t)), boolT}, nil
	case "held", "wheld":
		key, err := env.lockKey(e.Args[0])
		if err != nil {
			return TV{}, err
		}
		return TV{ex.ghostGet(env.state(), id.Name+":"+key), boolT}, nil
	case "zero":
		x, err := env.eval(e.Args[0])
		if err != nil {
			return TV{}, err
		}
		return TV{Eq(x.t, T{ZeroTime, SInt}), boolT}, nil
	case "second", "third":
		call, ok := e.Args[0].(*ast.CallExpr)
		if !ok {
			return TV{}, fmt.Errorf("%s(f(...)) expects a call of a pure function", id.Name)
		}
		var rs []T
		var sig *types.Signature
		var err error
		switch fx := call.Fun.(type) {
		case *ast.Ident:
			rs, sig, err = env.pureApply(fx.Name, call.Args)
		case *ast.SelectorExpr:
			pid, ok := fx.X.(*ast.Ident)
			if !ok || env.importedPkg(pid.Name) == nil {
				return TV{}, fmt.Errorf("%s(f(...)): f must be a package function", id.Name)
			}
			rs, sig, err = env.pureApplyIn(env.importedPkg(pid.Name), fx.Sel.Name, call.Args)
		default:
			return TV{}, fmt.Errorf("%s(f(...)): f must be a package function", id.Name)
		}
		if err != nil {
			return TV{}, err
		}
		k := 1
		if id.Name == "third" {
			k = 2
		}
		if k >= len(rs) {
			return TV{}, fmt.Errorf("%s: function has %d results", id.Name, len(rs))
		}
		return TV{rs[k], sig.Results().At(k).Type()}, nil
	case "now":
		return TV{ex.ghostGet(env.state(), "now"), nil}, nil
	case "fresh":
		// fresh(p): p was allocated by this call
		x, err := env.eval(e.Args[0])
		if err != nil {
			return TV{}, err
		}
		return TV{Gt(x.t, ex.ghostGet(env.old, "alloc")), boolT}, nil
	case "allocated":
		x, err := env.eval(e.Args[0])
		if err != nil {
			return TV{}, err
		}
		return TV{And(Gt(x.t, IntLit(0)), Le(x.t, ex.ghostGet(env.state(), "alloc"))), boolT}, nil
	case "float64", "real":
		x, err := env.eval(e.Args[0])
		if err != nil {
			return TV{}, err
		}
		if x.t.sort == SInt {
			return TV{mk(SReal, "to_real", x.t), types.Typ[types.Float64]}, nil
		}
		return TV{x.t, types.Typ[types.Float64]}, nil
	case "int", "int64":
		x, err := env.eval(e.Args[0])
		if err != nil {
			return TV{}, err
		}
		return TV{x.t, types.Typ[types.Int64]}, nil
	case "prev":
		// prev(e), in a `loop K step` clause only: the value e had at the head of the iteration that just ended
		if !env.inStep || env.loop == nil || env.loop.snapshot == nil || len(e.Args) != 1 {
			return TV{}, fmt.Errorf("prev(e) is only meaningful in a loop step clause")
		}
		saveSt, saveOld := env.st, env.inOld
		env.st, env.inOld = env.loop.snapshot, false
		r, err := env.eval(e.Args[0])
		env.st, env.inOld = saveSt, saveOld
		return r, err
	case "atloop":
		// atloop(K, e): the value e had at the head of loop K in the current iteration of that loop
		// (the symbolic state right after the loop was cut); for inner-loop invariants and variants.
		lit, ok := e.Args[0].(*ast.BasicLit)
		if !ok || len(e.Args) != 2 {
			return TV{}, fmt.Errorf("atloop(K, expr): K must be a literal loop ordinal")
		}
		k, _ := strconv.Atoi(lit.Value)
		for _, li := range ex.loops {
			if li.ordinal == k {
				if li.snapshot == nil {
					return TV{}, fmt.Errorf("atloop(%d, ...): loop %d has not been entered here", k, k)
				}
				saveSt, saveOld := env.st, env.inOld
				env.st, env.inOld = li.snapshot, false
				r, err := env.eval(e.Args[1])
				env.st, env.inOld = saveSt, saveOld
				return r, err
			}
		}
		return TV{}, fmt.Errorf("atloop: no loop %d", k)
	case "ascii":
		x, err := env.eval(e.Args[0])
		if err != nil {
			return TV{}, err
		}
		vc.declareASCII()
		return TV{mk(SBool, "gs.ascii", x.t), boolT}, nil
	case "divides":
		a, err := env.eval(e.Args[0])
		if err != nil {
			return TV{}, err
		}
		b, err := env.eval(e.Args[1])
		if err != nil {
			return TV{}, err
		}
		// divides(s, x): s > 0 divides x (SMT mod is the non-negative remainder, so this is x % s == 0 for every sign of x)
		return TV{Eq(mk(SInt, "mod", b.t, a.t), IntLit(0)), boolT}, nil
	case "floor":
		// floor(x): the largest integer not above x, as a real
		x, err := env.eval(e.Args[0])
		if err != nil {
			return TV{}, err
		}
		t := x.t
		if t.sort == SInt {
			return TV{mk(SReal, "to_real", t), types.Typ[types.Float64]}, nil
		}
		return TV{mk(SReal, "to_real", mk(SInt, "to_int", t)), types.Typ[types.Float64]}, nil
	case "pow":
		// pow(b, e): the uninterpreted power function the executor uses for math.Pow
		b, err := env.eval(e.Args[0])
		if err != nil {
			return TV{}, err
		}
		x, err := env.eval(e.Args[1])
		if err != nil {
			return TV{}, err
		}
		toR := func(t T) T {
			if t.sort == SInt {
				return mk(SReal, "to_real", t)
			}
			return t
		}
		vc.ufun("real.pow", []Sort{SReal, SReal}, SReal)
		return TV{mk(SReal, "real.pow", toR(b.t), toR(x.t)), types.Typ[types.Float64]}, nil
	case "sqrt":
		x, err := env.eval(e.Args[0])
		if err != nil {
			return TV{}, err
		}
		vc.declareSqrt()
		t := x.t
		if t.sort == SInt {
			t = mk(SReal, "to_real", t)
		}
		return TV{mk(SReal, "real.sqrt", t), types.Typ[types.Float64]}, nil
	case "rnd64":
		x, err := env.eval(e.Args[0])
		if err != nil {
			return TV{}, err
		}
		vc.declareRnd64()
		return TV{mk(SReal, "rnd64", x.t), types.Typ[types.Float64]}, nil
	case "intval", "realval", "strval", "boolval", "refval":
		x, err := env.eval(e.Args[0])
		if err != nil {
			return TV{}, err
		}
		acc := map[string]string{"intval": "vint", "realval": "vreal", "strval": "vstr", "boolval": "vbool", "refval": "vref"}[id.Name]
		srt := map[string]Sort{"intval": SInt, "realval": SReal, "strval": SStr, "boolval": SBool, "refval": SInt}[id.Name]
		return TV{mk(srt, acc, x.t), nil}, nil
	case "isInt", "isFloat", "isString", "isBool", "isNil":
		x, err := env.eval(e.Args[0])
		if err != nil {
			return TV{}, err
		}
		tester := map[string]string{"isInt": "VInt", "isFloat": "VReal", "isString": "VStr", "isBool": "VBool", "isNil": "VNil"}[id.Name]
		return TV{mk(SBool, "(_ is "+tester+")", x.t), boolT}, nil
	case "hasType":
		// hasType(v, T): dynamic type test; T a Go type expression
		x, err := env.eval(e.Args[0])
		if err != nil {
			return TV{}, err
		}
		t, err := env.typeOf(e.Args[1])
		if err != nil {
			return TV{}, err
		}
		return TV{vc.isType(x.t, t), boolT}, nil
	case "unbox":
		x, err := env.eval(e.Args[0])
		if err != nil {
			return TV{}, err
		}
		t, err := env.typeOf(e.Args[1])
		if err != nil {
			return TV{}, err
		}
		return TV{vc.unbox(x.t, t), t}, nil
	case "boxof":
		x, err := env.eval(e.Args[0])
		if err != nil {
			return TV{}, err
		}
		t, err := env.typeOf(e.Args[1])
		if err != nil {
			return TV{}, err
		}
		if x.t.sort == SInt && vc.sortOf(t) == SReal {
			x.t = mk(SReal, "to_real", x.t)
		}
		return TV{vc.box(x.t, t), types.NewInterfaceType(nil, nil)}, nil
	}
	// predicates / spec functions
	if pd := ex.P.pred(env.pkg(), id.Name); pd != nil {
		if len(pd.Params) != len(e.Args) {
			return TV{}, fmt.Errorf("%s expects %d arguments", id.Name, len(pd.Params))
		}
		if env.depth > 40 {
			return TV{}, fmt.Errorf("predicate expansion too deep (recursive pred %s?)", id.Name)
		}
		c := env.child()
		c.depth = env.depth + 1
		for i, a := range e.Args {
			v, err := env.eval(a)
			if err != nil {
				return TV{}, err
			}
			c.vars[pd.Params[i]] = v
		}
		// predicates see only their parameters (and heap)
		return c.eval(pd.Body)
	}
	if rf := ex.P.recFunc(env.pkg(), id.Name); rf != nil {
		var args []TV
		for _, a := range e.Args {
			v, err := env.eval(a)
			if err != nil {
				return TV{}, err
			}
			args = append(args, v)
		}
		return ex.applyRecFunc(env, rf, args)
	}
	// pure functions of the package under contract
	rs, sig, err := env.pureApply(id.Name, e.Args)
	if err != nil {
		return TV{}, err
	}
	return TV{rs[0], sig.Results().At(0).Type()}, nil
}

func (env *SpecEnv) pureApply(name string, argExprs []ast.Expr) ([]T, *types.Signature, error) {
	return env.pureApplyIn(env.pkg(), name, argExprs)
}

func (env *SpecEnv) pureApplyIn(pkg *types.Package, name string, argExprs []ast.Expr) ([]T, *types.Signature, error) {
	ex := env.ex
	if obj := pkg.Scope().Lookup(name); obj != nil {
		if f, ok := obj.(*types.Func); ok {
			sf := ex.P.prog.FuncValue(f)
			if con := ex.P.contractOf(sf); con != nil && con.Pure {
				var args []T
				for i, a := range argExprs {
					v, err := env.eval(a)
					if err != nil {
						return nil, nil, err
					}
					if i < sf.Signature.Params().Len() && v.t.sort == "nil" {
						v.t = ex.vc.zero(sf.Signature.Params().At(i).Type())
					}
					// an argument of a concrete type handed to an interface parameter is boxed, exactly as the
					// call in the code does (otherwise specification and code would talk about different functions)
					if i < sf.Signature.Params().Len() && v.typ != nil && v.t.sort != SVal && v.t.sort != "nil" {
						if _, isIface := sf.Signature.Params().At(i).Type().Underlying().(*types.Interface); isIface {
							if _, argIface := v.typ.Underlying().(*types.Interface); !argIface {
								v.t = ex.vc.box(v.t, v.typ)
							}
						}
					}
					args = append(args, v.t)
				}
				rs := ex.pureCall(env.st, "fn."+con.Name, sf.Signature, args)
				ex.pureAxioms(sf, con)
				return rs, sf.Signature, nil
			}
		}
	}
	if pkg != env.pkg() {
		return nil, nil, fmt.Errorf("%s.%s is not a pure function under contract", pkg.Name(), name)
	}
	// pure methods of the package: name(recv, args...)
	if ps := ex.P.specs[env.pkg().Path()]; ps != nil {
		for _, cn := range ps.Order {
			con := ps.Contracts[cn]
			if !con.Pure || !strings.HasSuffix(cn, ")."+name) {
				continue
			}
			sf := ex.P.funcs[env.pkg().Path()+"::"+cn]
			if sf == nil {
				continue
			}
			var args []T
			for _, a := range argExprs {
				v, err := env.eval(a)
				if err != nil {
					return nil, nil, err
				}
				args = append(args, v.t)
			}
			rs := ex.pureCall(env.st, "fn."+con.Name, sf.Signature, args)
			ex.pureAxioms(sf, con)
			return rs, sf.Signature, nil
		}
	}
	return nil, nil, fmt.Errorf("unknown function %s in specification", name)
}

func (env *SpecEnv) isPkgName(name string) bool {
	if _, bound := env.vars[name]; bound {
		return false
	}
	if env.calleeFn == nil {
		if _, isParam := env.ex.params[name]; isParam {
			return false
		}
		if env.ex.lookupLocal(name, env.loop) != nil {
			return false
		}
	}
	return env.importedPkg(name) != nil
}

func (env *SpecEnv) typeOf(e ast.Expr) (types.Type, error) {
	switch e := e.(type) {
	case *ast.Ident:
		if obj := types.Universe.Lookup(e.Name); obj != nil {
			if tn, ok := obj.(*types.TypeName); ok {
				return tn.Type(), nil
			}
		}
		if obj := env.pkg().Scope().Lookup(e.Name); obj != nil {
			if tn, ok := obj.(*types.TypeName); ok {
				return tn.Type(), nil
			}
		}
	case *ast.SelectorExpr:
		if id, ok := e.X.(*ast.Ident); ok {
			if pk := env.importedPkg(id.Name); pk != nil {
				if obj := pk.Scope().Lookup(e.Sel.Name); obj != nil {
					if tn, ok := obj.(*types.TypeName); ok {
						return tn.Type(), nil
					}
				}
			}
		}
	case *ast.StarExpr:
		t, err := env.typeOf(e.X)
		if err != nil {
			return nil, err
		}
		return types.NewPointer(t), nil
	case *ast.ArrayType:
		t, err := env.typeOf(e.Elt)
		if err != nil {
			return nil, err
		}
		return types.NewSlice(t), nil
	case *ast.MapType:
		k, err := env.typeOf(e.Key)
		if err != nil {
			return nil, err
		}
		v, err := env.typeOf(e.Value)
		if err != nil {
			return nil, err
		}
		return types.NewMap(k, v), nil
	case *ast.InterfaceType:
		return types.NewInterfaceType(nil, nil), nil
	}
	return nil, fmt.Errorf("not a type: %v", e)
}

func (env *SpecEnv) methodCall(recv TV, name string, args []TV) (TV, error) {
	boolT := types.Typ[types.Bool]
	tm := recv.typ
	if tm != nil && isTimeTime(tm) || (tm == nil && recv.t.sort == SInt) {
		switch name {
		case "Before":
			return TV{Lt(recv.t, args[0].t), boolT}, nil
		case "After":
			return TV{Gt(recv.t, args[0].t), boolT}, nil
		case "Equal":
			return TV{Eq(recv.t, args[0].t), boolT}, nil
		case "IsZero":
			return TV{Eq(recv.t, T{ZeroTime, SInt}), boolT}, nil
		case "Add":
			return TV{Add(recv.t, args[0].t), recv.typ}, nil
		case "Sub":
			return TV{Sub(recv.t, args[0].t), types.Typ[types.Int64]}, nil
		case "UnixNano", "Nanoseconds":
			return TV{recv.t, types.Typ[types.Int64]}, nil
		}
	}
	if recv.t.sort == SInt && (name == "Nanoseconds") {
		return TV{recv.t, types.Typ[types.Int64]}, nil
	}
	// interface methods on the pure list (reflect.Type, error.Error, ...): the same uninterpreted symbol the code uses
	if tm != nil && env.ex.P.isPureMethod(name, tm) {
		if obj, _, _ := types.LookupFieldOrMethod(tm, true, env.pkg(), name); obj != nil {
			if f, ok := obj.(*types.Func); ok {
				sig := f.Type().(*types.Signature)
				ts := []T{recv.t}
				for _, a := range args {
					ts = append(ts, a.t)
				}
				rs := env.ex.pureCall(env.st, "iface."+shortTypeName(tm)+"."+name, sig, ts)
				if len(rs) > 0 {
					return TV{rs[0], sig.Results().At(0).Type()}, nil
				}
			}
		}
	}
	return TV{}, fmt.Errorf("unsupported method %s in specification", name)
}

func (env *SpecEnv) pkgFuncCall(pkg, name string, args []TV) (TV, error) {
	// library functions the executor models by a definition rather than by an uninterpreted symbol: the same definition
	if ip := env.importedPkg(pkg); ip != nil && ip.Path() == "strings" && len(args) == 2 && args[0].t.sort == SStr && args[1].t.sort == SStr {
		ln := func(x T) T { return mk(SInt, "gs.len", x) }
		s, p := args[0].t, args[1].t
		switch name {
		case "HasPrefix":
			env.ex.vc.needStrings()
			return TV{And(Le(ln(p), ln(s)), Eq(env.ex.strSub(s, IntLit(0), ln(p)), p)), types.Typ[types.Bool]}, nil
		case "HasSuffix":
			env.ex.vc.needStrings()
			return TV{And(Le(ln(p), ln(s)), Eq(env.ex.strSub(s, Sub(ln(s), ln(p)), ln(s)), p)), types.Typ[types.Bool]}, nil
		}
	}
	// library functions on the pure list: the same uninterpreted symbol the code-side call uses
	if pk := env.importedPkg(pkg); pk != nil {
		full := pk.Path() + "." + name
		if env.ex.P.isPure(full) {
			if f, ok := pk.Scope().Lookup(name).(*types.Func); ok {
				sig := f.Type().(*types.Signature)
				var ts []T
				for i, a := range args {
					t := a.t
					// the variadic arguments of f(x, a, b) are boxed exactly as the call in the code boxes them
					if sig.Variadic() && i >= sig.Params().Len()-1 && a.typ != nil && t.sort != SVal && t.sort != "nil" {
						if st, ok := sig.Params().At(sig.Params().Len() - 1).Type().(*types.Slice); ok {
							if _, isIface := st.Elem().Underlying().(*types.Interface); isIface {
								if _, argIface := a.typ.Underlying().(*types.Interface); !argIface {
									t = env.ex.vc.box(t, a.typ)
								}
							}
						}
					}
					ts = append(ts, t)
				}
				rs := env.ex.pureCall(env.st, full, sig, ts)
				if len(rs) > 0 {
					return TV{rs[0], sig.Results().At(0).Type()}, nil
				}
			}
		}
	}
	switch pkg + "." + name {
	case "time.Unix":
		// time.Unix(0, n)
		return TV{Add(Mul(args[0].t, IntLit(1000000000)), args[1].t), nil}, nil
	case "time.Duration":
		return TV{args[0].t, types.Typ[types.Int64]}, nil
	}
	return TV{}, fmt.Errorf("unsupported %s.%s in specification", pkg, name)
}

// lockKey names a mutex expression such as tw.mu
func (env *SpecEnv) lockKey(e ast.Expr) (string, error) {
	sel, ok := e.(*ast.SelectorExpr)
	if !ok {
		return "", fmt.Errorf("held(x.mu) expected")
	}
	x, err := env.eval(sel.X)
	if err != nil {
		return "", err
	}
	pt, ok := x.typ.Underlying().(*types.Pointer)
	if !ok {
		return "", fmt.Errorf("held: receiver is not a pointer")
	}
	st := pt.Elem().Underlying().(*types.Struct)
	for i := 0; i < st.NumFields(); i++ {
		if st.Field(i).Name() == sel.Sel.Name {
			return fieldHeapName(pt.Elem(), i) + "@" + env.ex.canonTerm(x.t.s), nil
		}
	}
	return "", fmt.Errorf("held: no field %s", sel.Sel.Name)
}

// withPatterns annotates a quantifier body with triggers: every innermost (select A q) / (f .. q ..) application
// whose other arguments do not mention nested quantified variables.
func withPatterns(body, q string) string {
	pats := map[string]bool{}
	var order []string
	// find all occurrences of q as a whole token and take the smallest enclosing application
	for i := 0; i+len(q) <= len(body); i++ {
		if body[i:i+len(q)] != q {
			continue
		}
		if i > 0 && isSymChar(body[i-1]) {
			continue
		}
		if i+len(q) < len(body) && isSymChar(body[i+len(q)]) {
			continue
		}
		// enclosing '(' 
		depth := 0
		j := i
		for ; j >= 0; j-- {
			if body[j] == ')' {
				depth++
			} else if body[j] == '(' {
				if depth == 0 {
					break
				}
				depth--
			}
		}
		if j < 0 {
			continue
		}
		// matching ')'
		depth = 0
		k := j
		for ; k < len(body); k++ {
			if body[k] == '(' {
				depth++
			} else if body[k] == ')' {
				depth--
				if depth == 0 {
					break
				}
			}
		}
		app := body[j : k+1]
		head := strings.Fields(strings.TrimPrefix(app, "("))
		if len(head) == 0 {
			continue
		}
		switch head[0] {
		case "select":
		default:
			// only uninterpreted applications make good triggers
			if strings.ContainsAny(head[0][:1], "=<>+-*/") || head[0] == "and" || head[0] == "or" || head[0] == "not" || head[0] == "ite" || head[0] == "=>" || head[0] == "store" || head[0] == "distinct" || head[0] == "forall" || head[0] == "exists" || head[0] == "let" || head[0] == "to_real" {
				continue
			}
		}
		if strings.Contains(app, "!q") && strings.Count(app, "!q") > strings.Count(app, q) {
			continue // mentions another bound variable
		}
		if badPattern.MatchString(app) {
			continue
		}
		if !pats[app] {
			pats[app] = true
			order = append(order, app)
		}
	}
	if len(order) == 0 || len(order) > 6 {
		return body
	}
	var b strings.Builder
	b.WriteString("(! " + body)
	for _, p := range order {
		b.WriteString(" :pattern (" + p + ")")
	}
	b.WriteString(")")
	return b.String()
}

var badPattern = regexp.MustCompile(`\((ite|and|or|not|=>|=|<|<=|>|>=|\+|-|\*|/|div|mod|distinct|let|forall|exists|to_real|to_int|store) `)

func isSymChar(c byte) bool {
	return c >= 'a' && c <= 'z' || c >= 'A' && c <= 'Z' || c >= '0' && c <= '9' || c == '_' || c == '.' || c == '!' || c == '$'
}

// isRefTypeNamedStruct: captured by value pointer-to-struct (e.g. receiver cw *T) vs captured cell (**T / *int).
func isRefTypeNamedStruct(t types.Type) bool {
	_, ok := t.Underlying().(*types.Struct)
	return ok
}
