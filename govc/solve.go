package main

import (
	"bytes"
	"context"
	"fmt"
	"os"
	"os/exec"
	"path/filepath"
	"strings"
	"sync"
	"time"
)

type Result struct {
	Obl     *Obligation
	Func    string
	Status  string // unsat (discharged), sat (refuted), unknown, trivial, error
	Solver  string
	Millis  int64
	File    string
	Model   string
	Detail  string
	Answers map[string]string
}

type solverSpec struct {
	name string
	args func(file string, timeoutMs int) []string
}

var solvers = []solverSpec{
	{"z3-new", func(f string, t int) []string { return []string{"z3-new", fmt.Sprintf("-t:%d", t), f} }},
	{"z3", func(f string, t int) []string { return []string{"z3", fmt.Sprintf("-t:%d", t), f} }},
	{"cvc5", func(f string, t int) []string {
		return []string{"cvc5", "--produce-models", fmt.Sprintf("--tlimit=%d", t), "--full-saturate-quant", f}
	}},
}

func smtText(vc *VC, o *Obligation, seed int) string {
	var b bytes.Buffer
	b.WriteString("; obligation " + o.Name + " (" + o.Kind + ") of " + vc.fnName + " at " + o.Pos + "\n")
	if o.Note != "" {
		b.WriteString("; " + strings.ReplaceAll(o.Note, "\n", " ") + "\n")
	}
	b.WriteString("(set-option :produce-models true)\n")
	b.WriteString("(set-logic ALL)\n")
	for _, d := range vc.decls[:o.NDecl] {
		b.WriteString(d)
		b.WriteByte('\n')
	}
	for _, a := range vc.assumes[:o.NAssume] {
		b.WriteString(a)
		b.WriteByte('\n')
	}
	if o.MustFail {
		// reachability probe: guard must be satisfiable together with the assumptions
		b.WriteString("(assert " + o.Guard.s + ")\n")
	} else {
		b.WriteString("(assert (not " + Imp(o.Guard, o.Goal).s + "))\n")
	}
	b.WriteString("(check-sat)\n")
	return b.String()
}

var solverSem = make(chan struct{}, 15)

func runSolver(ctx context.Context, sp solverSpec, file string, timeoutMs int, wantModel bool) (string, string) {
	select {
	case solverSem <- struct{}{}:
	case <-ctx.Done():
		return "cancelled", ""
	}
	defer func() { <-solverSem }()
	if ctx.Err() != nil {
		return "cancelled", ""
	}
	args := sp.args(file, timeoutMs)
	cctx, cancel := context.WithTimeout(ctx, time.Duration(timeoutMs+3000)*time.Millisecond)
	defer cancel()
	cmd := exec.CommandContext(cctx, args[0], args[1:]...)
	var out bytes.Buffer
	cmd.Stdout = &out
	cmd.Stderr = &out
	_ = cmd.Run()
	s := out.String()
	if strings.TrimSpace(s) == "" && cctx.Err() == nil {
		// The solver process produced nothing at all (it could not be started, or was killed from outside): that says
		// nothing about the query. Run it once more before recording an error.
		out.Reset()
		cmd = exec.CommandContext(cctx, args[0], args[1:]...)
		cmd.Stdout = &out
		cmd.Stderr = &out
		_ = cmd.Run()
		s = out.String()
	}
	first := strings.TrimSpace(strings.SplitN(s, "\n", 2)[0])
	switch first {
	case "unsat", "sat", "unknown":
		return first, s
	}
	if strings.Contains(s, "timeout") || cctx.Err() != nil {
		return "timeout", s
	}
	return "error", s
}

// solve races the solvers on one obligation.
func solve(vc *VC, o *Obligation, outDir string, timeoutMs int, seed int, all bool) *Result {
	res := &Result{Obl: o, Func: vc.fnName, Answers: map[string]string{}}
	if !o.MustFail && (o.Goal.s == "true" || o.Guard.s == "false") {
		res.Status = "unsat"
		res.Solver = "trivial"
		return res
	}
	if !o.MustFail && o.Goal.s == "false" && o.Guard.s == "true" && o.Kind != "own" {
		res.Status = "sat"
		res.Solver = "trivial"
		res.Detail = "structural obligation: " + o.Note
		return res
	}
	text := smtText(vc, o, seed)
	if o.MustFail {
		text = weaken(text)
	}
	stem := o.Stem
	if stem == "" {
		stem = sanitizeFile(o.Name)
	}
	fname := filepath.Join(outDir, stem+".smt2")
	if err := os.WriteFile(fname, []byte(text), 0o644); err != nil {
		res.Status = "error"
		res.Detail = err.Error()
		return res
	}
	res.File = fname
	start := time.Now()
	ctx, cancel := context.WithCancel(context.Background())
	defer cancel()
	type ans struct {
		solver, status, out string
	}
	ch := make(chan ans, len(solvers))
	var wg sync.WaitGroup
	for _, sp := range solvers {
		wg.Add(1)
		go func(sp solverSpec) {
			defer wg.Done()
			st, out := runSolver(ctx, sp, fname, timeoutMs, false)
			ch <- ans{sp.name, st, out}
		}(sp)
	}
	go func() { wg.Wait(); close(ch) }()
	for a := range ch {
		res.Answers[a.solver] = a.status
		if a.status == "unsat" || a.status == "sat" {
			if res.Status == "" || res.Status == "unknown" {
				res.Status = a.status
				res.Solver = a.solver
				res.Millis = time.Since(start).Milliseconds()
				if !all {
					cancel()
				}
			} else if res.Status != a.status {
				res.Detail = fmt.Sprintf("SOLVER DISAGREEMENT: %s says %s, %s says %s", res.Solver, res.Status, a.solver, a.status)
				res.Status = "error"
			}
		} else if res.Status == "" {
			res.Detail += a.solver + ": " + a.status + "; "
			if a.status == "error" {
				res.Detail += firstLines(a.out, 3) + "; "
			}
		}
	}
	if res.Status == "" {
		res.Status = "unknown"
		res.Millis = time.Since(start).Milliseconds()
		if diagMode && !o.MustFail {
			wf := strings.TrimSuffix(fname, ".smt2") + ".weak.smt2"
			os.WriteFile(wf, []byte(weaken(text)), 0o644)
			st, _ := runSolver(context.Background(), solvers[0], wf, timeoutMs, false)
			if st == "sat" {
				res.Detail += "candidate counterexample without quantified assumptions: " + wf
			}
		}
	}
	if res.Status == "sat" && !o.MustFail {
		res.Model = getModel(vc, o, fname, res.Solver, timeoutMs)
	}
	return res
}

var diagMode = false

// weaken drops quantified assumptions and recursive definitions (reachability probes and diagnostics only:
// a model of the weaker theory is a candidate, never a verdict on a real obligation).
func weaken(text string) string {
	var b strings.Builder
	for _, l := range strings.Split(text, "\n") {
		if strings.Contains(l, "(forall ") || strings.Contains(l, "(exists ") || strings.HasPrefix(l, "(define-fun-rec") {
			if strings.HasPrefix(l, "(define-fun-rec") {
				l = strings.Replace(l, "(define-fun-rec", "(declare-fun", 1)
				if k := defunSigEnd(l); k > 0 {
					l = undefParams(l[:k] + ")")
					b.WriteString(l + "\n")
				}
			}
			continue
		}
		b.WriteString(l + "\n")
	}
	return b.String()
}

// defunSigEnd finds the end of "(define-fun-rec name (params) Sort" in a one-line definition.
func defunSigEnd(l string) int {
	// (declare-fun name ((a S) (b T)) R body)
	i := strings.Index(l, "(")
	i = strings.Index(l[i+1:], "(") + i + 1 // params open
	depth := 0
	j := i
	for ; j < len(l); j++ {
		if l[j] == '(' {
			depth++
		} else if l[j] == ')' {
			depth--
			if depth == 0 {
				break
			}
		}
	}
	// result sort follows
	k := j + 1
	for k < len(l) && l[k] == ' ' {
		k++
	}
	if k < len(l) && l[k] == '(' {
		depth = 0
		for ; k < len(l); k++ {
			if l[k] == '(' {
				depth++
			} else if l[k] == ')' {
				depth--
				if depth == 0 {
					k++
					break
				}
			}
		}
	} else {
		for k < len(l) && l[k] != ' ' {
			k++
		}
	}
	return k
}

// undefParams turns "((a S) (b T))" into "(S T)" in a declare-fun line.
func undefParams(l string) string {
	i := strings.Index(l, "((")
	if i < 0 {
		return l
	}
	depth := 0
	j := i
	for ; j < len(l); j++ {
		if l[j] == '(' {
			depth++
		} else if l[j] == ')' {
			depth--
			if depth == 0 {
				break
			}
		}
	}
	params := l[i+1 : j]
	var sorts []string
	for _, p := range splitParens(params) {
		p = strings.TrimSpace(p[1 : len(p)-1])
		k := strings.Index(p, " ")
		sorts = append(sorts, strings.TrimSpace(p[k+1:]))
	}
	return l[:i] + "(" + strings.Join(sorts, " ") + ")" + l[j+1:]
}

func splitParens(s string) []string {
	var out []string
	depth := 0
	start := -1
	for i := 0; i < len(s); i++ {
		if s[i] == '(' {
			if depth == 0 {
				start = i
			}
			depth++
		} else if s[i] == ')' {
			depth--
			if depth == 0 {
				out = append(out, s[start:i+1])
			}
		}
	}
	return out
}

func firstLines(s string, n int) string {
	ls := strings.Split(s, "\n")
	if len(ls) > n {
		ls = ls[:n]
	}
	return strings.Join(ls, " | ")
}

func sanitizeFile(s string) string {
	var b strings.Builder
	for _, r := range s {
		switch {
		case r >= 'a' && r <= 'z', r >= 'A' && r <= 'Z', r >= '0' && r <= '9', r == '_', r == '.', r == '-', r == '#', r == '@':
			b.WriteRune(r)
		default:
			b.WriteByte('_')
		}
	}
	out := b.String()
	if len(out) > 150 {
		out = out[:150]
	}
	return out
}

// getModel re-runs the winning solver asking for the values of the parameters and entry heaps.
func getModel(vc *VC, o *Obligation, file, solver string, timeoutMs int) string {
	data, err := os.ReadFile(file)
	if err != nil {
		return ""
	}
	mfile := strings.TrimSuffix(file, ".smt2") + ".model.smt2"
	text := string(data) + "(get-model)\n"
	if err := os.WriteFile(mfile, []byte(text), 0o644); err != nil {
		return ""
	}
	for _, sp := range solvers {
		if sp.name != solver {
			continue
		}
		_, out := runSolver(context.Background(), sp, mfile, timeoutMs, true)
		os.Remove(mfile)
		return out
	}
	return ""
}
