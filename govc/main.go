package main

import (
	"flag"
	"fmt"
	"os"
	"path/filepath"
	"sort"
	"strings"
	"sync"
	"time"

	"golang.org/x/tools/go/ssa"
)

type FuncReport struct {
	Func     string
	Contract *Contract
	VC       *VC
	Results  []*Result
	Errors   []string
	Opaque   []string
	Used     []string
	Millis   int64
}

// buildVC lowers one function under its contract.
func buildVC(P *Program, fn *ssa.Function, con *Contract) (*Exec, *VC) {
	name := fn.RelString(fn.Pkg.Pkg)
	vc := newVC(fn.Pkg.Pkg.Name() + "." + name)
	ex := &Exec{P: P, vc: vc, fn: fn, con: con}
	ex.calledOpaque = map[string]bool{}
	ex.usedContracts = map[string]bool{}
	ex.singleton = map[string]T{}
	vc.pureNames = map[string]string{}
	if con != nil {
		ex.safety = con.Safety
		ex.overflow = con.Overflow
	}
	ex.lockDiscipline()
	func() {
		defer func() {
			if r := recover(); r != nil {
				ex.fail("lowering panic: %v", r)
				if os.Getenv("GOVC_DEBUG") != "" {
					panic(r)
				}
			}
		}()
		ex.run()
	}()
	// vacuity: some return must be reachable under requires + invariants
	if len(ex.errs) == 0 {
		var gs []T
		for _, r := range ex.rets {
			gs = append(gs, r.st.guard)
		}
		if len(gs) > 0 {
			o := vc.oblige("vacuity", "vacuity:"+ex.conName()+":return-reachable", Or(gs...), TTrue, ex.pos(fn.Pos()))
			o.MustFail = true
		}
	}
	return ex, vc
}

func verifyFunction(P *Program, fn *ssa.Function, con *Contract, outDir string, timeoutMs int, seed int, all bool) *FuncReport {
	start := time.Now()
	ex, vc := buildVC(P, fn, con)
	rep := &FuncReport{Func: vc.fnName, Contract: con, VC: vc, Errors: ex.errs}
	for k := range ex.calledOpaque {
		rep.Opaque = append(rep.Opaque, k)
	}
	sort.Strings(rep.Opaque)
	for k := range ex.usedContracts {
		rep.Used = append(rep.Used, k)
	}
	sort.Strings(rep.Used)
	dir := uniquePath(outDir, sanitizeFile(vc.fnName), "")
	os.MkdirAll(dir, 0o755)
	assignStems(vc.obls)
	results := make([]*Result, len(vc.obls))
	var wg sync.WaitGroup
	sem := make(chan struct{}, 6)
	for i, o := range vc.obls {
		wg.Add(1)
		go func(i int, o *Obligation) {
			defer wg.Done()
			sem <- struct{}{}
			defer func() { <-sem }()
			results[i] = solve(vc, o, dir, timeoutMs, seed, all)
		}(i, o)
	}
	wg.Wait()
	rep.Results = results
	rep.Millis = time.Since(start).Milliseconds()
	return rep
}

// assignStems gives every obligation of one function its own SMT file. sanitizeFile is not injective on obligation
// names ("#c/2", the second conjunct of a clause, and "#c~2", the clause at a second site, both read "#c_2", and long
// names are cut at 150 bytes); obligations of one function are solved concurrently, so two obligations sharing a file
// would overwrite each other's query while the solvers read it. The stems are allocated in obligation order, before any
// solver starts, so the names are the same on every run.
func assignStems(obls []*Obligation) {
	used := map[string]bool{}
	for _, o := range obls {
		stem := sanitizeFile(o.Name)
		cand := stem
		for k := 2; used[cand]; k++ {
			cand = fmt.Sprintf("%s-%d", stem, k)
		}
		used[cand] = true
		o.Stem = cand
	}
}

var pathReg = struct {
	sync.Mutex
	used map[string]bool
}{used: map[string]bool{}}

// uniquePath returns dir/stem+ext, or dir/stem-k+ext when an earlier caller in this process already took the name.
func uniquePath(dir, stem, ext string) string {
	pathReg.Lock()
	defer pathReg.Unlock()
	cand := filepath.Join(dir, stem+ext)
	for k := 2; pathReg.used[cand]; k++ {
		cand = filepath.Join(dir, fmt.Sprintf("%s-%d%s", stem, k, ext))
	}
	pathReg.used[cand] = true
	return cand
}

func (r *Result) ok() bool {
	if r.Obl.MustFail {
		return r.Status == "sat"
	}
	return r.Status == "unsat"
}

func printReport(rep *FuncReport, verbose bool) (bad int) {
	fmt.Printf("== %s  (%d obligations, %d ms)\n", rep.Func, len(rep.Results), rep.Millis)
	for _, e := range rep.Errors {
		fmt.Printf("   LOWERING-ERROR %s\n", e)
		bad++
	}
	for _, r := range rep.Results {
		mark := "ok  "
		if !r.ok() {
			mark = "FAIL"
			bad++
		}
		if verbose || !r.ok() {
			fmt.Printf("   %s %-70s %-8s %-7s %5dms %s\n", mark, r.Obl.Name, r.Status, r.Solver, r.Millis, r.Detail)
			if !r.ok() && r.Obl.Note != "" {
				fmt.Printf("        clause: %s   [%s]\n", r.Obl.Note, r.Obl.Pos)
			}
			if !r.ok() && r.File != "" {
				fmt.Printf("        file: %s\n", r.File)
			}
		}
	}
	if verbose {
		for _, n := range rep.VC.sortedNotes() {
			fmt.Printf("   note: %s\n", n)
		}
		for _, o := range rep.Opaque {
			fmt.Printf("   opaque: %s\n", o)
		}
	}
	return bad
}

func main() {
	if len(os.Args) < 2 {
		fmt.Fprintln(os.Stderr, "usage: govc verify|check|dump|selftest ...")
		os.Exit(2)
	}
	switch os.Args[1] {
	case "verify":
		cmdVerify(os.Args[2:])
	case "dump":
		cmdDump(os.Args[2:])
	case "check":
		cmdCheck(os.Args[2:])
	case "globals":
		cmdGlobals(os.Args[2:])
	case "replay":
		cmdReplay(os.Args[2:])
	default:
		fmt.Fprintln(os.Stderr, "unknown command", os.Args[1])
		os.Exit(2)
	}
}

func cmdDump(args []string) {
	fs := flag.NewFlagSet("dump", flag.ExitOnError)
	repo := fs.String("repo", "/repo", "repository")
	fs.Parse(args)
	rest := fs.Args()
	P, err := loadProgram(*repo, "", []string{rest[0]})
	if err != nil {
		fmt.Fprintln(os.Stderr, err)
		os.Exit(2)
	}
	for key, fn := range P.funcs {
		for _, n := range rest[1:] {
			if strings.HasSuffix(key, "::"+n) {
				fmt.Println("=====", key)
				fn.WriteTo(os.Stdout)
			}
		}
	}
}

func cmdVerify(args []string) {
	fs := flag.NewFlagSet("verify", flag.ExitOnError)
	repo := fs.String("repo", "/repo", "repository")
	specDir := fs.String("spec-dir", "", "override directory with contract files (development)")
	out := fs.String("out", "/verif/out/dev", "output directory for SMT files")
	timeout := fs.Int("timeout", 5000, "per-solver timeout (ms)")
	verbose := fs.Bool("v", false, "verbose")
	all := fs.Bool("all-solvers", false, "wait for all solvers and require agreement")
	fs.BoolVar(&diagMode, "diag", false, "on unknown, look for a candidate counterexample without quantified assumptions")
	only := fs.String("func", "", "comma-separated function names (default: all under contract in the packages)")
	fs.Parse(args)
	pats := fs.Args()
	if len(pats) == 0 {
		pats = []string{"./..."}
	}
	P, err := loadProgram(*repo, *specDir, pats)
	if err != nil {
		fmt.Fprintln(os.Stderr, "UNDECIDED:", err)
		os.Exit(2)
	}
	want := map[string]bool{}
	if *only != "" {
		for _, f := range strings.Split(*only, ",") {
			want[strings.TrimSpace(f)] = true
		}
	}
	var keys []string
	for path, ps := range P.specs {
		for _, name := range ps.Order {
			if len(want) > 0 && !want[name] {
				continue
			}
			if ps.Contracts[name].Trusted {
				continue
			}
			inPats := false
			for _, pat := range pats {
				if pat == "./..." || strings.TrimPrefix(pat, "./") == shortPkg(path) || (pat == "." && shortPkg(path) == "") {
					inPats = true
				}
			}
			if !inPats {
				continue
			}
			keys = append(keys, path+"::"+name)
		}
	}
	sort.Strings(keys)
	bad := 0
	total := 0
	for _, k := range keys {
		fn := P.funcs[k]
		con := P.byFunc[fn]
		rep := verifyFunction(P, fn, con, *out, *timeout, 0, *all)
		total += len(rep.Results)
		bad += printReport(rep, *verbose)
	}
	fmt.Printf("total obligations %d, failing %d\n", total, bad)
	if bad > 0 {
		os.Exit(1)
	}
}



