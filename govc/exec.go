package main

// Symbolic execution of one go/ssa (NaiveForm) function into guarded,
// single-assignment SMT assumptions and named obligations. Loops are cut at
// their invariants; calls are replaced by contracts (or havoc).

import (
	"fmt"
	"go/ast"
	"go/constant"
	"go/token"
	"go/types"
	"math/big"
	"sort"
	"strings"

	"golang.org/x/tools/go/ssa"
)

type retInfo struct {
	st      *State
	results []T
}

type loopInfo struct {
	header    *ssa.BasicBlock
	blocks    map[*ssa.BasicBlock]bool
	ordinal   int // 1-based, source order
	rangeIdx  *ssa.Alloc
	rangeLen  ssa.Value
	rangeVal  ssa.Value
	snapshot  *State // state right after havoc+assume (for decreases)
	variant0  T
	hasVar    bool
	preState  *State // state before havoc (for loop-old)
	frameHeaps []string
}

type Exec struct {
	P        *Program
	vc       *VC
	fn       *ssa.Function
	con      *Contract
	regs     map[ssa.Value]T
	locs     map[ssa.Value]Loc
	prov     map[ssa.Value]Loc
	tuples   map[ssa.Value][]T
	heapR    heapReg
	nepoch   int
	allocIdx map[*ssa.Alloc]int
	entry    *State
	params   map[string]TV // entry values of parameters by name
	outSt    map[*ssa.BasicBlock]*State
	edge     map[[2]int]T
	loops    map[*ssa.BasicBlock]*loopInfo
	loopList []*loopInfo
	rets     []retInfo
	defs     map[string]string // alias constant -> the term it was defined as (lock keys are compared on definitions)
	inlineDepth int // > 0 while the body of an uncontracted loop-free helper is executed in place
	safety   bool
	nsafe    map[string]int

	calledOpaque  map[string]bool
	usedContracts map[string]bool
	singleton     map[string]T
	onRead        func(st *State, l Loc)
	nq            int
	wroteAll      string
	nown          int
	mapsHavocked  bool
	pkgHavocked   map[string]bool
	nmepoch       int
	epochAlloc    map[int]T
	obsSeen       map[string]bool
	immutKept     bool
	nimm          int
	beforeSeen    map[string]bool
	siteOrd       map[string][]token.Pos
	recoverNoted  bool
	nonNilPending []nonNilWrite
	ownWrites     []nonNilWrite // stores made by the function's own statements (checked against the declared frame under assumed_frame)
	overflow      bool      // contract option: machine-integer overflow of + - * is an obligation
	curPos        token.Pos // position of the instruction being executed (for safety obligations)
	acqSnap       map[string]*State
	nacq          int
	acquiredFirst string
	wholeWrites   map[string]bool
	heapWrites   map[string]bool
	globalWrites map[string]bool
	onWrite      func(st *State, heap string, ref T)
	errs         []string
	nmon         int
	curInstr     ssa.Instruction
	freshRefs    []T
}

func (ex *Exec) pos(p token.Pos) string {
	if !p.IsValid() && ex.curInstr != nil {
		p = ex.curInstr.Pos()
	}
	if !p.IsValid() {
		return ex.fn.Name()
	}
	ps := ex.P.fset.Position(p)
	return fmt.Sprintf("%s:%d", strings.TrimPrefix(ps.Filename, "/repo/"), ps.Line)
}

func (ex *Exec) fail(format string, a ...any) {
	ex.errs = append(ex.errs, fmt.Sprintf(format, a...))
}

// ------------------------------------------------------------------ loops

func (ex *Exec) findLoops() {
	fn := ex.fn
	ex.loops = map[*ssa.BasicBlock]*loopInfo{}
	for _, b := range fn.Blocks {
		for _, s := range b.Succs {
			if s.Dominates(b) { // back edge b -> s
				li := ex.loops[s]
				if li == nil {
					li = &loopInfo{header: s, blocks: map[*ssa.BasicBlock]bool{s: true}}
					ex.loops[s] = li
				}
				// natural loop: blocks reaching b without passing s
				var stack []*ssa.BasicBlock
				if !li.blocks[b] {
					li.blocks[b] = true
					stack = append(stack, b)
				}
				for len(stack) > 0 {
					x := stack[len(stack)-1]
					stack = stack[:len(stack)-1]
					for _, p := range x.Preds {
						if !li.blocks[p] {
							li.blocks[p] = true
							stack = append(stack, p)
						}
					}
				}
			}
		}
	}
	for _, li := range ex.loops {
		ex.loopList = append(ex.loopList, li)
	}
	sort.Slice(ex.loopList, func(i, j int) bool { return ex.loopList[i].header.Index < ex.loopList[j].header.Index })
	for i, li := range ex.loopList {
		li.ordinal = i + 1
		// range-index pattern
		h := li.header
		if strings.HasPrefix(h.Comment, "rangeindex.loop") && len(h.Instrs) >= 4 {
			if ld, ok := h.Instrs[0].(*ssa.UnOp); ok {
				if a, ok := ld.X.(*ssa.Alloc); ok && a.Comment == "rangeindex" {
					li.rangeIdx = a
				}
			}
			if cmp, ok := h.Instrs[3].(*ssa.BinOp); ok && cmp.Op == token.LSS {
				li.rangeLen = cmp.Y
				if call, ok := cmp.Y.(*ssa.Call); ok {
					if b, ok := call.Call.Value.(*ssa.Builtin); ok && b.Name() == "len" {
						li.rangeVal = call.Call.Args[0]
					}
				}
			}
		}
	}
}

func isBackEdge(from, to *ssa.BasicBlock) bool { return to.Dominates(from) }

// order: reverse postorder ignoring back edges
func (ex *Exec) blockOrder() []*ssa.BasicBlock {
	seen := map[*ssa.BasicBlock]bool{}
	var post []*ssa.BasicBlock
	var dfs func(b *ssa.BasicBlock)
	dfs = func(b *ssa.BasicBlock) {
		seen[b] = true
		for _, s := range b.Succs {
			if isBackEdge(b, s) || seen[s] {
				continue
			}
			dfs(s)
		}
		post = append(post, b)
	}
	dfs(ex.fn.Blocks[0])
	for i, j := 0, len(post)-1; i < j; i, j = i+1, j-1 {
		post[i], post[j] = post[j], post[i]
	}
	return post
}

// loopModified computes the local cells, heaps and ghost touched inside a loop.
type modSet struct {
	locals map[*ssa.Alloc]bool
	heaps  map[string]Sort
	maps   bool // every map heap
	pkgs   []string
	ghosts []string
	all    bool // opaque call
	alloc  bool
	locks  bool
}

func (ex *Exec) rootOfAddr(v ssa.Value, ms *modSet) {
	switch a := v.(type) {
	case *ssa.Alloc:
		if ex.isLocalCell(a) {
			ms.locals[a] = true
		} else {
			et := a.Type().(*types.Pointer).Elem()
			ex.heapNamesOfType(et, ms)
		}
	case *ssa.FieldAddr:
		if ex.isAddrValue(a.X) {
			ex.rootOfAddr(a.X, ms)
		} else {
			owner := a.X.Type().Underlying().(*types.Pointer).Elem()
			if isOpaqueNamed(owner) && !isListElementValue(owner, a.Field) {
				return
			}
			ms.heaps[fieldHeapName(owner, a.Field)] = ArraySort(SInt, ex.vc.sortOf(owner.Underlying().(*types.Struct).Field(a.Field).Type()))
		}
	case *ssa.IndexAddr:
		if _, isPtr := a.X.Type().Underlying().(*types.Pointer); isPtr {
			ex.rootOfAddr(a.X, ms)
		} else if ld, ok := a.X.(*ssa.UnOp); ok && ld.Op == token.MUL {
			ex.rootOfAddr(ld.X, ms)
		} else {
			ms.all = true
		}
	case *ssa.Global:
		ms.heaps["G_"+a.Pkg.Pkg.Name()+"."+a.Name()] = ex.vc.sortOf(a.Type().(*types.Pointer).Elem())
	default:
		// store through a pointer value (Ref)
		if pt, ok := v.Type().Underlying().(*types.Pointer); ok {
			ex.heapNamesOfType(pt.Elem(), ms)
		} else {
			ms.all = true
		}
	}
}

func (ex *Exec) heapNamesOfType(et types.Type, ms *modSet) {
	if st, ok := et.Underlying().(*types.Struct); ok && !isTimeTime(et) && !isOpaqueNamed(et) {
		for i := 0; i < st.NumFields(); i++ {
			ms.heaps[fieldHeapName(et, i)] = ArraySort(SInt, ex.vc.sortOf(st.Field(i).Type()))
		}
		return
	}
	ms.heaps[derefHeapName(et)] = ArraySort(SInt, ex.vc.sortOf(et))
}

func (ex *Exec) mapHeapMods(mt types.Type, ms *modSet) {
	m := mt.Underlying().(*types.Map)
	ks := ex.vc.sortOf(m.Key())
	vs := ex.vc.sortOf(m.Elem())
	d, v := ex.mapHeapNames(mt)
	ms.heaps[d] = ArraySort(SInt, ArraySort(ks, SBool))
	ms.heaps[v] = ArraySort(SInt, ArraySort(ks, vs))
}

func (ex *Exec) loopModified(li *loopInfo) *modSet {
	ms := &modSet{locals: map[*ssa.Alloc]bool{}, heaps: map[string]Sort{}}
	for b := range li.blocks {
		for _, in := range b.Instrs {
			switch in := in.(type) {
			case *ssa.Store:
				ex.rootOfAddr(in.Addr, ms)
			case *ssa.Alloc:
				if ex.isLocalCell(in) {
					ms.locals[in] = true
				} else {
					ms.alloc = true
					ex.heapNamesOfType(in.Type().(*types.Pointer).Elem(), ms)
				}
			case *ssa.MakeMap, *ssa.MakeChan, *ssa.MakeClosure:
				ms.alloc = true
				if mm, ok := in.(*ssa.MakeMap); ok {
					ex.mapHeapMods(mm.Type(), ms)
				}
			case *ssa.MapUpdate:
				ex.mapHeapMods(in.Map.Type(), ms)
			case *ssa.Send, *ssa.Select:
				if _, isSel := in.(*ssa.Select); isSel {
					ms.ghosts = append(ms.ghosts, "sel:idx", "sel:ok")
					if ex.con != nil {
						for key, v := range ex.con.Counts {
							if strings.HasPrefix(key, "select@") {
								ms.ghosts = append(ms.ghosts, "cnt:"+v)
							}
						}
					}
				}
				if ex.con != nil && ex.con.ChanEvents {
					for _, g := range []string{"sends", "recvs", "dones", "timeouts", "drained"} {
						ms.heaps["G_ghost."+g] = SInt
					}
					if sel, ok := in.(*ssa.Select); ok {
						for _, s := range sel.States {
							if s.Dir != types.SendOnly {
								ms.heaps["G_ghost."+chanClass(s.Chan)] = SInt
							}
						}
					}
				}
			case ssa.CallInstruction:
				ex.callModified(in, ms)
			}
		}
	}
	return ms
}

// localClosure resolves a called function value to an anonymous function of the function under verification:
// either the MakeClosure itself, or a load of a local that is assigned exactly once, with a MakeClosure.
func (ex *Exec) localClosure(v ssa.Value) *ssa.Function {
	var mc *ssa.MakeClosure
	var plain *ssa.Function // an anonymous function that captures nothing
	switch v := v.(type) {
	case *ssa.MakeClosure:
		mc = v
	case *ssa.Function:
		if v.Parent() == ex.fn {
			return v
		}
	case *ssa.UnOp:
		a, ok := v.X.(*ssa.Alloc)
		if !ok || v.Op != token.MUL {
			return nil
		}
		n := 0
		if refs := a.Referrers(); refs != nil {
			for _, r := range *refs {
				if st, ok := r.(*ssa.Store); ok && st.Addr == a {
					n++
					if m, ok := st.Val.(*ssa.MakeClosure); ok {
						mc = m
					} else if f, ok := st.Val.(*ssa.Function); ok && f.Parent() == ex.fn {
						plain = f
					}
				} else if _, isLoad := r.(*ssa.UnOp); !isLoad {
					if _, isDbg := r.(*ssa.DebugRef); !isDbg {
						return nil // address escapes
					}
				}
			}
		}
		if n != 1 {
			return nil
		}
		if plain != nil && mc == nil {
			return plain
		}
	}
	if mc == nil {
		return nil
	}
	f, _ := mc.Fn.(*ssa.Function)
	if f == nil || f.Parent() != ex.fn {
		return nil
	}
	return f
}

// funcModSet: the syntactic write set of a whole (anonymous) function body; stores through captured variables
// or anything unresolvable make it "all".
func (ex *Exec) funcModSet(f *ssa.Function) *modSet {
	ms := &modSet{locals: map[*ssa.Alloc]bool{}, heaps: map[string]Sort{}}
	for _, b := range f.Blocks {
		for _, in := range b.Instrs {
			switch in := in.(type) {
			case *ssa.Store:
				if _, isFV := in.Addr.(*ssa.FreeVar); isFV {
					ms.all = true
					continue
				}
				ex.rootOfAddr(in.Addr, ms)
			case *ssa.Alloc:
				if !ex.isLocalCell(in) {
					ms.alloc = true
				}
			case *ssa.MakeMap, *ssa.MakeChan, *ssa.MakeClosure:
				ms.alloc = true
			case *ssa.MapUpdate:
				ex.mapHeapMods(in.Map.Type(), ms)
			case *ssa.Send, *ssa.Select, *ssa.Go, *ssa.Defer:
				ms.all = true
			case ssa.CallInstruction:
				ex.callModified(in, ms)
			}
		}
	}
	for _, af := range f.AnonFuncs {
		_ = af
		ms.all = true
	}
	return ms
}

func (ex *Exec) callModified(in ssa.CallInstruction, ms *modSet) {
	c := in.Common()
	if _, isGo := in.(*ssa.Go); isGo {
		return
	}
	if cf := ex.localClosure(c.Value); cf != nil && c.StaticCallee() == nil && !c.IsInvoke() {
		sub := ex.funcModSet(cf)
		if sub.all {
			ms.all = true
		}
		for h, srt := range sub.heaps {
			ms.heaps[h] = srt
		}
		ms.maps = ms.maps || sub.maps
		ms.alloc = ms.alloc || sub.alloc
		ms.pkgs = append(ms.pkgs, sub.pkgs...)
		return
	}
	if b, ok := c.Value.(*ssa.Builtin); ok {
		switch b.Name() {
		case "delete", "clear":
			if len(c.Args) > 0 {
				if _, isMap := c.Args[0].Type().Underlying().(*types.Map); isMap {
					ex.mapHeapMods(c.Args[0].Type(), ms)
				}
			}
		case "copy":
			// the executor writes the copied contents back to the cell dst was loaded from
			if u, ok := c.Args[0].(*ssa.UnOp); ok && u.Op == token.MUL {
				ex.rootOfAddr(u.X, ms)
			} else {
				ms.all = true
			}
		}
		return
	}
	if ex.con != nil && ex.con.Ticks != nil {
		cn := ""
		if callee := c.StaticCallee(); callee != nil {
			cn = callee.Name()
		} else if c.IsInvoke() {
			cn = c.Method.Name()
		}
		if g, ok := ex.con.Ticks[cn]; ok && cn != "" {
			ms.heaps["G_ghost."+g] = SInt
		}
	}
	if callee := c.StaticCallee(); callee != nil {
		name := callee.String()
		if ex.con != nil {
			if v, ok := ex.con.Counts[callee.Name()]; ok {
				ms.ghosts = append(ms.ghosts, "cnt:"+v)
			}
			if v, ok := ex.con.Observe[callee.Name()]; ok {
				ms.ghosts = append(ms.ghosts, "obs:"+v)
			}
			for key, v := range ex.con.Observe {
				if strings.HasPrefix(key, callee.Name()+"#") {
					ms.ghosts = append(ms.ghosts, "obs:"+v)
				}
			}
		}
		if isLockCall(name) {
			ms.locks = true
			ms.all = true // relock havocs guarded state
			return
		}
		if _, ok := ex.P.model(name); ok {
			// library models that write: the cell behind their first argument, or the builder contents
			switch {
			case strings.HasPrefix(name, "sync/atomic.Store"), strings.HasPrefix(name, "sync/atomic.Add"), strings.HasPrefix(name, "sync/atomic.CompareAndSwap"), strings.HasPrefix(name, "sync/atomic.Swap"):
				if len(c.Args) > 0 {
					ex.rootOfAddr(c.Args[0], ms)
				}
			case strings.HasPrefix(name, "(*strings.Builder)."):
				ms.heaps[builderHeap] = ArraySort(SInt, SStr)
			case strings.HasPrefix(name, "(*container/list.List).Push"):
				ms.alloc = true
				if pt, ok := callee.Signature.Results().At(0).Type().Underlying().(*types.Pointer); ok {
					if stt, ok := pt.Elem().Underlying().(*types.Struct); ok {
						for i := 0; i < stt.NumFields(); i++ {
							if stt.Field(i).Name() == "Value" {
								ms.heaps[fieldHeapName(pt.Elem(), i)] = ArraySort(SInt, SVal)
							}
						}
					}
				}
			case name == "container/list.New":
				ms.alloc = true
			}
			return
		}
		if ex.P.isPure(name) {
			return
		}
		if con := ex.P.contractOf(callee); con == nil && ex.inlinable(callee) {
			// executed in place: it writes what its body syntactically writes
			sub := ex.funcModSet(callee)
			if sub.all {
				ms.all = true
			}
			for h, srt := range sub.heaps {
				ms.heaps[h] = srt
			}
			ms.maps = ms.maps || sub.maps
			ms.alloc = ms.alloc || sub.alloc
			ms.pkgs = append(ms.pkgs, sub.pkgs...)
			ms.ghosts = append(ms.ghosts, sub.ghosts...)
			return
		}
		if con := ex.P.contractOf(callee); con != nil {
			if con.Pure {
				return
			}
			for _, m := range con.Modifies {
				if m.all {
					ms.all = true
				}
				if m.allMaps {
					ms.maps = true
				}
				if m.pkgHeaps != "" {
					ms.pkgs = append(ms.pkgs, m.pkgHeaps)
				}
				for i, h := range m.heaps {
					srt := ""
					if m.sorts != nil {
						srt = m.sorts[i]
					}
					if srt == "" {
						if s2, ok := ex.heapR.sorts[h]; ok {
							srt = s2
						} else if s3, ok := ex.P.heapSortHint(ex, h); ok {
							srt = s3
						}
					}
					if srt == "" {
						ms.all = true
					} else {
						ms.heaps[h] = srt
					}
				}
			}
			if con.Allocates {
				ms.alloc = true
			}
			return
		}
	}
	if c.IsInvoke() && ex.con != nil {
		if v, ok := ex.con.Observe[c.Method.Name()]; ok {
			ms.ghosts = append(ms.ghosts, "obs:"+v)
		}
		if v, ok := ex.con.Counts[c.Method.Name()]; ok {
			ms.ghosts = append(ms.ghosts, "cnt:"+v)
		}
	}
	if c.IsInvoke() {
		if ex.P.isPureMethod(c.Method.Name(), c.Value.Type()) {
			return
		}
		if icon := ex.P.ifaceContract(c.Value.Type(), c.Method.Name()); icon != nil {
			for _, m := range icon.Modifies {
				if m.all {
					ms.all = true
				}
				if m.allMaps {
					ms.maps = true
				}
				if m.pkgHeaps != "" {
					ms.pkgs = append(ms.pkgs, m.pkgHeaps)
				}
			}
			ms.alloc = true
			return
		}
	}
	if ex.con != nil && ex.con.CallbackPure && !c.IsInvoke() && c.StaticCallee() == nil {
		// function-value calls assumed not to touch modelled state (contract option callbacks_pure)
		ms.alloc = true
		return
	}
	ms.all = true
	ms.alloc = true
}

func (ex *Exec) isLocalCell(a *ssa.Alloc) bool {
	if !a.Heap {
		return true
	}
	et := a.Type().(*types.Pointer).Elem()
	if _, isArr := et.Underlying().(*types.Array); isArr {
		return true // arrays are values (varargs / makeslice backing)
	}
	return false
}

// isAddrValue: v denotes a symbolic location (not a Ref term)
func (ex *Exec) isAddrValue(v ssa.Value) bool {
	switch a := v.(type) {
	case *ssa.Alloc:
		return ex.isLocalCell(a)
	case *ssa.FieldAddr:
		return true
	case *ssa.IndexAddr:
		return true
	case *ssa.Global:
		return true
	}
	return false
}

// ------------------------------------------------------------------ values

func (ex *Exec) constVal(c *ssa.Const) T {
	vc := ex.vc
	t := c.Type()
	if c.Value == nil {
		return vc.zero(t)
	}
	s := vc.sortOf(t)
	switch s {
	case SInt:
		if c.Value.Kind() == constant.Int {
			if i, ok := constant.Int64Val(c.Value); ok {
				return IntLit(i)
			}
			bi, _ := new(big.Int).SetString(c.Value.ExactString(), 10)
			if bi != nil {
				return BigIntLit(bi)
			}
		}
		if c.Value.Kind() == constant.Float {
			f, _ := constant.Float64Val(c.Value)
			return IntLit(int64(f))
		}
	case SBool:
		return BoolLit(constant.BoolVal(c.Value))
	case SReal:
		v := constant.ToFloat(c.Value)
		if r, ok := new(big.Rat).SetString(v.ExactString()); ok {
			return RealLitRat(r)
		}
		f, _ := constant.Float64Val(v)
		return RealLitRat(new(big.Rat).SetFloat64(f))
	case SStr:
		return vc.strLit(constant.StringVal(c.Value))
	}
	return vc.fresh("const", s)
}

// val evaluates an SSA operand to a term (not for address-valued registers).
func (ex *Exec) val(st *State, v ssa.Value) T {
	switch c := v.(type) {
	case *ssa.Const:
		return ex.constVal(c)
	case *ssa.Function:
		return ex.vc.constant("fn."+sanitize(c.String()), SInt)
	case *ssa.Builtin:
		return ex.vc.constant("builtin."+c.Name(), SInt)
	case *ssa.Global:
		// address of a global used as value: stable ref
		return ex.vc.constant("gaddr."+sanitize(c.String()), SInt)
	case *ssa.Parameter:
		if t, ok := ex.regs[v]; ok {
			return t
		}
	case *ssa.FreeVar:
		if t, ok := ex.regs[v]; ok {
			return t
		}
		t := ex.vc.fresh("freevar."+c.Name(), ex.vc.sortOf(c.Type()))
		ex.regs[v] = t
		return t
	}
	if t, ok := ex.regs[v]; ok {
		return t
	}
	if l, ok := ex.locs[v]; ok {
		// an address escaping as a value
		switch l := l.(type) {
		case LocHeapField:
			// address of a heap field: model as an opaque ref determined by (heap, ref)
			ex.vc.ufun("addr."+sanitize(fieldHeapName(l.owner, l.idx)), []Sort{SInt}, SInt)
			return mk(SInt, "addr."+sanitize(fieldHeapName(l.owner, l.idx)), l.ref)
		case LocDeref:
			return l.ref
		}
		ex.vc.note("address of %s escapes as a value (abstracted to a fresh ref)", l)
		t := ex.vc.fresh("addr", SInt)
		ex.regs[v] = t
		return t
	}
	ex.fail("value %s (%T) used before definition", v.Name(), v)
	return ex.vc.fresh("undef", ex.vc.sortOf(v.Type()))
}

// addr evaluates an address-valued operand to a location.
func (ex *Exec) addr(st *State, v ssa.Value) Loc {
	if l, ok := ex.locs[v]; ok {
		return l
	}
	if g, ok := v.(*ssa.Global); ok {
		return LocGlobal{g}
	}
	if fv, ok := v.(*ssa.FreeVar); ok {
		if _, isPtr := fv.Type().(*types.Pointer); isPtr {
			ex.vc.assumed["captured variable "+fv.Name()+" is not reassigned while the closure runs"] = true
			return LocCaptured{fv}
		}
	}
	// a Ref term
	ref := ex.val(st, v)
	pt, ok := v.Type().Underlying().(*types.Pointer)
	if !ok {
		ex.fail("addr of non-pointer %s", v)
		return LocDeref{ref, v.Type()}
	}
	return LocDeref{ref, pt.Elem()}
}

func (ex *Exec) freshRef(st *State, hint string) T {
	old := ex.ghostGet(st, "alloc")
	r := ex.define("ref."+hint, Add(old, IntLit(1)))
	st.ghost["alloc"] = r
	ex.freshRefs = append(ex.freshRefs, r)
	return r
}

// assumeTypeInv: refs loaded from memory / parameters are allocated or nil.
func (ex *Exec) assumeTypeInv(st *State, v T, t types.Type) {
	ex.assumeTypeInvDepth(st, v, t, 0)
}

func (ex *Exec) assumeTypeInvDepth(st *State, v T, t types.Type, depth int) {
	if t == nil {
		return
	}
	// struct values: the invariants of their fields (slice lengths, integer ranges), a few levels deep
	if info, ok := structInfoGet(v.sort); ok && depth < 3 && !isTimeTime(t) {
		if stt, ok := t.Underlying().(*types.Struct); ok && stt.NumFields() == len(info.fields) {
			for i := range info.fields {
				ft := stt.Field(i).Type()
				switch ft.Underlying().(type) {
				case *types.Slice, *types.Struct, *types.Array:
					ex.assumeTypeInvDepth(st, mk(info.fsorts[i], info.fields[i], v), ft, depth+1)
				}
			}
		}
		return
	}
	if v.sort == SInt && isRefType(t) {
		ex.vc.assume(st.guard, And(Ge(v, IntLit(0)), Le(v, ex.ghostGet(st, "alloc"))))
		return
	}
	if strings.HasPrefix(v.sort, "Slice_") {
		ex.vc.assume(st.guard, And(Ge(slLen(v), IntLit(0)), Imp(slNil(v), Eq(slLen(v), IntLit(0)))))
		return
	}
	if v.sort == SInt && !isTimeTime(t) {
		if b, ok := t.Underlying().(*types.Basic); ok && b.Info()&types.IsInteger != 0 {
			lo, hi := intRange(b)
			ex.vc.assume(st.guard, And(Ge(v, lo), Le(v, hi)))
		}
	}
}

func intRange(b *types.Basic) (T, T) {
	pow := func(n uint) *big.Int { return new(big.Int).Lsh(big.NewInt(1), n) }
	bits := uint(intBits(b))
	if b.Info()&types.IsUnsigned != 0 {
		return IntLit(0), BigIntLit(new(big.Int).Sub(pow(bits), big.NewInt(1)))
	}
	return BigIntLit(new(big.Int).Neg(pow(bits - 1))), BigIntLit(new(big.Int).Sub(pow(bits-1), big.NewInt(1)))
}

// ------------------------------------------------------------------ run

func (ex *Exec) run() {
	fn := ex.fn
	vc := ex.vc
	ex.regs = map[ssa.Value]T{}
	ex.locs = map[ssa.Value]Loc{}
	ex.prov = map[ssa.Value]Loc{}
	ex.tuples = map[ssa.Value][]T{}
	ex.heapR = heapReg{sorts: map[string]Sort{}}
	ex.allocIdx = map[*ssa.Alloc]int{}
	ex.outSt = map[*ssa.BasicBlock]*State{}
	ex.edge = map[[2]int]T{}
	ex.heapWrites = map[string]bool{}
	ex.pkgHavocked = map[string]bool{}
	ex.obsSeen = map[string]bool{}
	ex.beforeSeen = map[string]bool{}
	ex.siteOrd = nil
	ex.nonNilPending = nil
	ex.ownWrites = nil
	ex.wholeWrites = map[string]bool{}
	ex.globalWrites = map[string]bool{}
	ex.nsafe = map[string]int{}
	ex.params = map[string]TV{}
	n := 0
	for _, b := range fn.Blocks {
		for _, in := range b.Instrs {
			if a, ok := in.(*ssa.Alloc); ok {
				ex.allocIdx[a] = n
				n++
			}
		}
	}
	ex.findLoops()

	st := &State{guard: TTrue, locals: map[*ssa.Alloc]T{}, heaps: map[string]T{}, ghost: map[string]T{}}
	alloc0 := ex.ghostGet(st, "alloc")
	ex.epochAlloc = map[int]T{0: alloc0}
	vc.assume(TTrue, Ge(alloc0, IntLit(0)))
	for _, p := range fn.Params {
		t := vc.constant("p."+sanitize(p.Name()), vc.sortOf(p.Type()))
		ex.regs[p] = t
		ex.params[p.Name()] = TV{t, p.Type()}
		ex.assumeTypeInv(st, t, p.Type())
		if isTimeTime(p.Type()) {
			vc.assume(TTrue, Ge(t, T{ZeroTime, SInt}))
			vc.assumed["A-time: time.Time arguments are not before the zero time (year 1)"] = true
		}
	}
	if len(fn.Params) > 0 && fn.Signature.Recv() != nil {
		// receivers are non-nil (a nil receiver panics at the first field access; call sites are checked separately)
		if isRefType(fn.Params[0].Type()) {
			vc.assume(TTrue, Gt(ex.regs[fn.Params[0]], IntLit(0)))
		}
	}
	// $selected / $recvok: the case the latest select took (in source order, -1 for default, -2 before any select) and
	// whether its receive delivered a value (false when the channel was closed)
	st.ghost["sel:idx"] = IntLit(-2)
	st.ghost["sel:ok"] = TFalse
	if ex.con != nil {
		for _, v := range ex.con.Counts {
			st.ghost["cnt:"+v] = IntLit(0)
		}
		for callee, v := range ex.con.Observe {
			var srt Sort = SBool
			k := 0
			if i := strings.Index(callee, "#"); i > 0 {
				fmt.Sscanf(callee[i+1:], "%d", &k)
				callee = callee[:i]
			}
			if f := ex.P.calleeByShortName(fn, callee); f != nil && f.Signature.Results().Len() > k {
				srt = vc.sortOf(f.Signature.Results().At(k).Type())
			} else {
				// an interface method: take the result type from the first invoke of that name
				for _, b := range fn.Blocks {
					for _, in := range b.Instrs {
						if ci, ok := in.(ssa.CallInstruction); ok && ci.Common().IsInvoke() && ci.Common().Method.Name() == callee {
							if rs := ci.Common().Signature().Results(); rs.Len() > k {
								srt = vc.sortOf(rs.At(k).Type())
							}
						}
					}
				}
			}
			st.ghost["obs:"+v] = vc.zeroOfSort(srt, nil)
		}
	}
	ex.entry = st.clone()

	// requires
	if ex.con != nil {
		env := ex.specEnv(st, ex.entry, true)
		for _, r := range ex.con.Requires {
			t, err := env.evalBool(r.Expr)
			if err != nil {
				ex.fail("requires %q: %v", r.Src, err)
				continue
			}
			vc.assume(TTrue, t)
		}
		if ex.con.HeldAtEntry != nil {
			for _, h := range ex.con.HeldAtEntry {
				key, err := env.lockKey(h)
				if err != nil {
					ex.fail("held %v", err)
					continue
				}
				st.ghost["held:"+key] = TTrue
				st.ghost["wheld:"+key] = TTrue
			}
		}
	}

	order := ex.blockOrder()
	for _, b := range order {
		var ins []*State
		var edges []T
		if b.Index == 0 {
			ins = []*State{st}
			edges = []T{TTrue}
		}
		for _, p := range b.Preds {
			if isBackEdge(p, b) {
				continue
			}
			e, ok := ex.edge[[2]int{p.Index, b.Index}]
			if !ok || e.s == "false" {
				continue
			}
			ps := ex.outSt[p]
			if ps == nil || ps.dead {
				continue
			}
			ins = append(ins, ps)
			edges = append(edges, e)
		}
		if len(ins) == 0 {
			continue
		}
		cur := ex.merge(ins, edges)
		ex.resolvePhis(b, cur, ins, edges)
		if li := ex.loops[b]; li != nil {
			ex.cutLoop(li, cur)
		}
		ex.execBlock(b, cur)
		ex.outSt[b] = cur
	}
	ex.finish()
}

func (ex *Exec) resolvePhis(b *ssa.BasicBlock, cur *State, ins []*State, edges []T) {
	for _, in := range b.Instrs {
		phi, ok := in.(*ssa.Phi)
		if !ok {
			break
		}
		// edges are in pred order restricted to live preds; recompute per pred
		var vals []T
		var es []T
		for i, p := range b.Preds {
			e, ok := ex.edge[[2]int{p.Index, b.Index}]
			if !ok || e.s == "false" || isBackEdge(p, b) {
				continue
			}
			if ps := ex.outSt[p]; ps == nil || ps.dead {
				continue
			}
			vals = append(vals, ex.val(cur, phi.Edges[i]))
			es = append(es, e)
		}
		if len(vals) == 0 {
			continue
		}
		ex.regs[phi] = ex.mergeVals("phi", vals, es)
	}
}

func (ex *Exec) execBlock(b *ssa.BasicBlock, st *State) {
	for _, in := range b.Instrs {
		if st.dead {
			return
		}
		ex.curInstr = in
		ex.execInstr(b, st, in)
	}
}

// setEdge records the condition under which control flows from b to its k-th successor.
func (ex *Exec) setEdge(b *ssa.BasicBlock, k int, st *State, cond T) {
	s := b.Succs[k]
	g := And(st.guard, cond)
	if isBackEdge(b, s) {
		ex.closeLoop(ex.loops[s], st, g)
		return
	}
	key := [2]int{b.Index, s.Index}
	if old, ok := ex.edge[key]; ok {
		g = Or(old, g)
	}
	ex.edge[key] = ex.define("e", g)
}

func (ex *Exec) finish() {
	vc := ex.vc
	if ex.con == nil {
		return
	}
	for callee, g := range ex.con.Ticks {
		if !ex.obsSeen["tick:"+g] {
			ex.fail("tick %s at %s: no call of %s found (anchor missing)", g, callee, callee)
		}
	}
	for callee, v := range ex.con.Counts {
		if !ex.obsSeen[v] {
			ex.fail("count %s := %s: no call of %s found (anchor missing)", v, callee, callee)
		}
	}
	for callee, v := range ex.con.Observe {
		if !ex.obsSeen[v] {
			ex.fail("observe %s := %s: no call of %s found (anchor missing)", v, callee, callee)
		}
	}
	for callee := range ex.con.Before {
		if !ex.beforeSeen[callee] {
			ex.fail("before %s: no call of %s found (anchor missing)", callee, callee)
		}
	}
	// postconditions over all returns
	for i, en := range ex.con.Ensures {
		var parts []T
		for _, r := range ex.rets {
			env := ex.specEnv(r.st, ex.entry, true)
			env.bindResults(ex.fn, r.results)
			t, err := env.evalBool(en.Expr)
			if err != nil {
				ex.fail("ensures %q: %v", en.Src, err)
				continue
			}
			parts = append(parts, Imp(r.st.guard, t))
		}
		name := en.Label
		if name == "" {
			name = fmt.Sprintf("%d", i+1)
		}
		o := vc.oblige("post", fmt.Sprintf("post:%s#%s", ex.con.Name, name), TTrue, And(parts...), ex.pos(ex.fn.Pos()))
		o.SetNote(en.Src)
		o.SetOnly(en.Only)
	}
	// frame: every heap written must be unchanged on pre-existing cells, except where `modifies` allows it
	if ex.con.AssumedFrame {
		ex.vc.assumed["frame of "+ex.con.Name+" trusted as declared (option assumed_frame): its callees are outside the contracts"] = true
		ex.ownWriteObligations()
	} else if !ex.con.NoFrame {
		ex.frameObligations()
	}
}

func (ex *Exec) frameObligations() {
	vc := ex.vc
	if ex.con.modifiesAll() {
		return
	}
	if ex.wroteAll != "" {
		vc.oblige("frame", fmt.Sprintf("frame:%s:*", ex.con.Name), TTrue, TFalse, ex.pos(ex.fn.Pos())).SetNote("opaque call (" + ex.wroteAll + ") may write anything; contract lacks `modifies *`")
		return
	}
	// allowed[heap] = list of reference expressions (nil entry: whole heap)
	type allow struct {
		whole bool
		at    []ast.Expr
	}
	allowed := map[string]*allow{}
	for _, m := range ex.con.Modifies {
		for _, h := range m.heaps {
			a := allowed[h]
			if a == nil {
				a = &allow{}
				allowed[h] = a
			}
			if m.at == nil {
				a.whole = true
			} else {
				a.at = append(a.at, m.at)
			}
		}
	}
	allMaps := false
	for _, m := range ex.con.Modifies {
		if m.allMaps {
			allMaps = true
		}
	}
	for pk := range ex.pkgHavocked {
		ok := false
		for _, m := range ex.con.Modifies {
			if m.pkgHeaps == pk {
				ok = true
			}
		}
		if !ok {
			vc.oblige("frame", fmt.Sprintf("frame:%s:pkgheaps(%s)", ex.con.Name, pk), TTrue, TFalse, ex.pos(ex.fn.Pos())).SetNote("a callee may modify the state of " + pk + " objects; contract lacks `modifies pkgheaps(" + pk + ")`")
		}
	}
	if ex.mapsHavocked && !allMaps {
		vc.oblige("frame", fmt.Sprintf("frame:%s:allmaps", ex.con.Name), TTrue, TFalse, ex.pos(ex.fn.Pos())).SetNote("a callee may modify any map; contract lacks `modifies allmaps`")
	}
	var names []string
	for h := range ex.heapWrites {
		names = append(names, h)
	}
	sort.Strings(names)
	for _, h := range names {
		a := allowed[h]
		if a != nil && a.whole {
			continue
		}
		if allMaps && (strings.HasPrefix(h, "MapDom_") || strings.HasPrefix(h, "MapVal_")) {
			continue
		}
		pkgAllowed := false
		for _, m := range ex.con.Modifies {
			if m.pkgHeaps != "" && strings.HasPrefix(h, "H_"+m.pkgHeaps+".") {
				pkgAllowed = true
			}
		}
		if pkgAllowed {
			continue
		}
		srt := ex.heapR.sorts[h]
		var parts []T
		q := vc.fresh("fr", SInt)
		a0 := ex.ghostGet(ex.entry, "alloc")
		for _, r := range ex.rets {
			h0 := ex.heapGet(ex.entry, h, srt)
			h1 := ex.heapGet(r.st, h, srt)
			if !strings.HasPrefix(srt, "(Array ") {
				parts = append(parts, Imp(r.st.guard, Eq(h1, h0)))
				continue
			}
			cond := And(r.st.guard, Ge(q, IntLit(1)), Le(q, a0))
			if a != nil {
				env := ex.specEnv(ex.entry, ex.entry, true)
				for _, e := range a.at {
					tv, err := env.eval(e)
					if err != nil {
						ex.fail("modifies: %v", err)
						continue
					}
					cond = And(cond, Not(Eq(q, tv.t)))
				}
			}
			parts = append(parts, Imp(cond, Eq(Select(h1, q), Select(h0, q))))
		}
		vc.oblige("frame", fmt.Sprintf("frame:%s:%s", ex.con.Name, h), TTrue, And(parts...), ex.pos(ex.fn.Pos())).SetNote("pre-existing cells of " + h + " not listed in `modifies` are unchanged")
	}
}

// inlinable: a function of the repository without a contract whose body is small, loop-free and free of defers,
// goroutines, closures and channel operations is executed in place at its call sites (depth-limited), so that extracting
// such a helper from a function under contract changes nothing for the proof.
func (ex *Exec) inlinable(f *ssa.Function) bool {
	if v, ok := ex.P.inlinableMemo[f]; ok {
		return v
	}
	ok := func() bool {
		if f == nil || f.Blocks == nil || len(f.FreeVars) > 0 || f.Pkg == nil || f.Signature.Variadic() {
			return false
		}
		if !strings.HasPrefix(f.Pkg.Pkg.Path(), "github.com/rulego/streamsql") {
			return false
		}
		n := 0
		for _, b := range f.Blocks {
			for _, s := range b.Succs {
				if isBackEdge(b, s) {
					return false
				}
			}
			for _, in := range b.Instrs {
				n++
				switch in := in.(type) {
				case *ssa.Defer, *ssa.Go, *ssa.MakeClosure, *ssa.Select, *ssa.Send, *ssa.Range, *ssa.Next, *ssa.MakeChan:
					return false
				case *ssa.Call:
					if c := in.Call.StaticCallee(); c == f {
						return false
					}
					if b, isB := in.Call.Value.(*ssa.Builtin); isB && b.Name() == "recover" {
						return false
					}
				}
			}
		}
		return n <= 120
	}()
	ex.P.inlinableMemo[f] = ok
	return ok
}

// inlineCall executes the body of f on st with the given arguments and leaves st as the join of f's return states.
func (ex *Exec) inlineCall(st *State, f *ssa.Function, args []T) []T {
	vc := ex.vc
	saveFn, saveOut, saveEdge, saveLoops, saveRets, saveInstr := ex.fn, ex.outSt, ex.edge, ex.loops, ex.rets, ex.curInstr
	ex.fn, ex.outSt, ex.edge, ex.loops, ex.rets = f, map[*ssa.BasicBlock]*State{}, map[[2]int]T{}, map[*ssa.BasicBlock]*loopInfo{}, nil
	ex.inlineDepth++
	defer func() {
		ex.fn, ex.outSt, ex.edge, ex.loops, ex.rets, ex.curInstr = saveFn, saveOut, saveEdge, saveLoops, saveRets, saveInstr
		ex.inlineDepth--
	}()
	for _, b := range f.Blocks {
		for _, in := range b.Instrs {
			if a, ok := in.(*ssa.Alloc); ok {
				if _, seen := ex.allocIdx[a]; !seen {
					ex.allocIdx[a] = len(ex.allocIdx)
				}
			}
		}
	}
	for i, p := range f.Params {
		if i < len(args) {
			ex.regs[p] = args[i]
		}
	}
	start := st.clone()
	for _, b := range ex.blockOrder() {
		var ins []*State
		var edges []T
		if b.Index == 0 {
			ins, edges = []*State{start}, []T{start.guard}
		}
		for _, p := range b.Preds {
			e, ok := ex.edge[[2]int{p.Index, b.Index}]
			if !ok || e.s == "false" {
				continue
			}
			ps := ex.outSt[p]
			if ps == nil || ps.dead {
				continue
			}
			ins = append(ins, ps)
			edges = append(edges, e)
		}
		if len(ins) == 0 {
			continue
		}
		cur := ex.merge(ins, edges)
		ex.resolvePhis(b, cur, ins, edges)
		ex.execBlock(b, cur)
		ex.outSt[b] = cur
	}
	rets := ex.rets
	vc.note("helper %s executed in place", f.Name())
	if len(rets) == 0 {
		st.dead = true
		return ex.havocResults(st, f.Signature, "r."+f.Name())
	}
	var sts []*State
	var gs []T
	for _, r := range rets {
		sts = append(sts, r.st)
		gs = append(gs, r.st.guard)
	}
	defers := st.defers
	merged := ex.merge(sts, gs)
	*st = *merged
	st.defers = defers
	st.dead = false
	var out []T
	for j := 0; j < f.Signature.Results().Len(); j++ {
		var vals []T
		for _, r := range rets {
			vals = append(vals, r.results[j])
		}
		out = append(out, ex.mergeVals("inl", vals, gs))
	}
	return out
}

// ownWriteObligations: under `option assumed_frame` the callees' effects are trusted to stay inside the declared frame, but
// the stores the function makes itself are still checked against it: each goes to a cell allocated by this call or to a
// location the `modifies` clause lists.
func (ex *Exec) ownWriteObligations() {
	if ex.con.modifiesAll() {
		return
	}
	vc := ex.vc
	allMaps := false
	for _, m := range ex.con.Modifies {
		if m.allMaps {
			allMaps = true
		}
	}
	a0 := ex.ghostGet(ex.entry, "alloc")
	for i, w := range ex.ownWrites {
		h := w.heap
		if strings.HasPrefix(h, "G_ghost.") || strings.HasPrefix(h, "D_") {
			continue
		}
		if allMaps && (strings.HasPrefix(h, "MapDom_") || strings.HasPrefix(h, "MapVal_")) {
			continue
		}
		whole := false
		var ats []ast.Expr
		for _, m := range ex.con.Modifies {
			if m.pkgHeaps != "" && strings.HasPrefix(h, "H_"+m.pkgHeaps+".") {
				whole = true
			}
			for _, mh := range m.heaps {
				if mh == h {
					if m.at == nil {
						whole = true
					} else {
						ats = append(ats, m.at)
					}
				}
			}
		}
		if whole {
			continue
		}
		ok := Gt(w.ref, a0)
		env := ex.specEnv(ex.entry, ex.entry, true)
		for _, e := range ats {
			if tv, err := env.eval(e); err == nil {
				ok = Or(ok, Eq(w.ref, tv.t))
			}
		}
		vc.oblige("frame", fmt.Sprintf("frame-own:%s:%s:%d", ex.con.Name, h, i+1), w.guard, ok, ex.pos(ex.fn.Pos())).SetNote("a store made by the function itself goes to a cell allocated by this call or listed in `modifies` (callees are trusted under assumed_frame, own stores are not)")
	}
}
