package main

import (
	"sort"
	"fmt"
	"go/token"
	"go/types"
	"strings"

	"golang.org/x/tools/go/ssa"
)

func (ex *Exec) safeOblige(st *State, kind string, goal T) {
	if !ex.safety {
		return
	}
	ex.nsafe[kind]++
	name := fmt.Sprintf("safe:%s:%s:%d", ex.conName(), kind, ex.nsafe[kind])
	ex.vc.oblige("safe", name, st.guard, goal, ex.pos(ex.curPos))
	// after the check the program continues only if it held
	ex.vc.assume(st.guard, goal)
}

func (ex *Exec) conName() string {
	if ex.con != nil {
		return ex.con.Name
	}
	return ex.fn.RelString(ex.fn.Pkg.Pkg)
}

func (ex *Exec) execInstr(b *ssa.BasicBlock, st *State, in ssa.Instruction) {
	vc := ex.vc
	if in.Pos().IsValid() {
		ex.curPos = in.Pos()
	}
	switch in := in.(type) {
	case *ssa.DebugRef:
	case *ssa.Phi:
		// resolved at block entry
	case *ssa.Alloc:
		et := in.Type().(*types.Pointer).Elem()
		if ex.isLocalCell(in) {
			ex.locs[in] = LocLocal{in}
			st.locals[in] = vc.zero(et)
		} else {
			r := ex.freshRef(st, in.Comment)
			ex.regs[in] = r
			if err := ex.store(st, LocDeref{r, et}, vc.zero(et)); err != nil {
				ex.fail("%v", err)
			}
		}
	case *ssa.Store:
		l := ex.addr(st, in.Addr)
		if d, ok := l.(LocDeref); ok {
			ex.safeOblige(st, "nil-deref", Not(Eq(d.ref, IntLit(0))))
		}
		var v T
		if ex.isAddrValue(in.Val) || ex.locs[in.Val] != nil {
			v = ex.val(st, in.Val)
		} else {
			v = ex.val(st, in.Val)
		}
		if hf, ok := l.(LocHeapField); ok {
			ex.ownershipCheck(st, in.Val, hf.String(), in.Addr)
		}
		if err := ex.store(st, l, v); err != nil {
			ex.fail("%s: %v", ex.pos(in.Pos()), err)
		}
	case *ssa.UnOp:
		ex.execUnOp(st, in)
	case *ssa.BinOp:
		ex.regs[in] = ex.binop(st, in.Op, ex.val(st, in.X), ex.val(st, in.Y), in.X.Type(), in.Type())
	case *ssa.FieldAddr:
		if ex.isAddrValue(in.X) {
			base := ex.addr(st, in.X)
			owner := in.X.Type().Underlying().(*types.Pointer).Elem()
			if hf, ok := base.(LocHeapField); ok && false {
				_ = hf
			}
			ex.locs[in] = LocSubField{base, owner, in.Field}
		} else {
			ref := ex.val(st, in.X)
			owner := in.X.Type().Underlying().(*types.Pointer).Elem()
			ex.safeOblige(st, "nil-deref", Not(Eq(ref, IntLit(0))))
			if isOpaqueNamed(owner) && !isListElementValue(owner, in.Field) {
				ex.locs[in] = LocDeref{vc.fresh("opq", SInt), owner.Underlying().(*types.Struct).Field(in.Field).Type()}
			} else {
				ex.locs[in] = LocHeapField{ref, owner, in.Field}
			}
		}
	case *ssa.Field:
		x := ex.val(st, in.X)
		info := vc.structInfo(in.X.Type())
		if info == nil || x.sort != info.sort {
			ex.regs[in] = vc.fresh("field", vc.sortOf(in.Type()))
			vc.note("field of opaque struct %s abstracted", in.X.Type())
		} else {
			ex.regs[in] = mk(info.fsorts[in.Field], info.fields[in.Field], x)
		}
	case *ssa.IndexAddr:
		idx := ex.val(st, in.Index)
		if _, isPtr := in.X.Type().Underlying().(*types.Pointer); isPtr {
			// pointer to array
			base := ex.addr(st, in.X)
			sv := ex.load(st, base)
			ex.safeOblige(st, "index", And(Ge(idx, IntLit(0)), Lt(idx, slLen(sv))))
			ex.locs[in] = LocElem{base: base, val: sv, idx: idx, elemT: in.Type().(*types.Pointer).Elem()}
		} else {
			sv := ex.val(st, in.X)
			ex.safeOblige(st, "index", And(Ge(idx, IntLit(0)), Lt(idx, slLen(sv))))
			ex.locs[in] = LocElem{base: ex.prov[in.X], val: sv, idx: idx, elemT: in.Type().(*types.Pointer).Elem()}
		}
	case *ssa.Index:
		x := ex.val(st, in.X)
		idx := ex.val(st, in.Index)
		if x.sort == SStr {
			ex.safeOblige(st, "index", And(Ge(idx, IntLit(0)), Lt(idx, mk(SInt, "gs.len", x))))
			r := mk(SInt, "gs.at", x, idx)
			vc.assume(st.guard, And(Ge(r, IntLit(0)), Le(r, IntLit(255))))
			ex.regs[in] = r
		} else {
			ex.safeOblige(st, "index", And(Ge(idx, IntLit(0)), Lt(idx, slLen(x))))
			ex.regs[in] = Select(slArr(x), idx)
		}
	case *ssa.Lookup:
		ex.execLookup(st, in)
	case *ssa.MapUpdate:
		m := ex.val(st, in.Map)
		k := ex.val(st, in.Key)
		v := ex.val(st, in.Value)
		ex.safeOblige(st, "nil-map-write", Not(Eq(m, IntLit(0))))
		ex.ownershipCheck(st, in.Value, "map "+in.Map.Name(), nil)
		ex.mapStore(st, in.Map.Type(), m, k, v)
	case *ssa.MakeMap:
		r := ex.freshRef(st, "map")
		ex.regs[in] = r
		ex.mapClear(st, in.Type(), r)
	case *ssa.MakeChan:
		ex.regs[in] = ex.freshRef(st, "chan")
	case *ssa.MakeClosure:
		ex.regs[in] = ex.freshRef(st, "closure")
	case *ssa.MakeSlice:
		ss, es := vc.sliceSortOfType(in.Type())
		n := ex.val(st, in.Len)
		ex.safeOblige(st, "make-len", Ge(n, IntLit(0)))
		ez := vc.zero(in.Type().Underlying().(*types.Slice).Elem())
		arr := vc.constArray(ez)
		_ = es
		ex.regs[in] = mkSlice(ss, arr, n, TFalse)
	case *ssa.Slice:
		ex.execSlice(st, in)
	case *ssa.MakeInterface:
		x := ex.val(st, in.X)
		ex.regs[in] = vc.box(x, in.X.Type())
	case *ssa.ChangeInterface:
		ex.regs[in] = ex.val(st, in.X)
	case *ssa.ChangeType:
		ex.regs[in] = ex.val(st, in.X)
	case *ssa.Convert:
		ex.execConvert(st, in)
	case *ssa.TypeAssert:
		ex.execTypeAssert(st, in)
	case *ssa.Extract:
		tup, ok := ex.tuples[in.Tuple]
		if !ok || in.Index >= len(tup) {
			ex.fail("extract from unknown tuple %s", in.Tuple.Name())
			ex.regs[in] = vc.fresh("x", vc.sortOf(in.Type()))
		} else {
			ex.regs[in] = tup[in.Index]
		}
	case *ssa.Call:
		ex.execCall(st, in)
	case *ssa.Defer:
		st.defers = append(st.defers, deferred{in})
	case *ssa.Go:
		vc.note("go statement dropped at %s", ex.pos(in.Pos()))
	case *ssa.RunDefers:
		if ex.inlineDepth > 0 {
			break // a helper executed in place has no defers of its own; the pending ones belong to the caller
		}
		for i := len(st.defers) - 1; i >= 0; i-- {
			d := st.defers[i]
			if mc, ok := d.call.Common().Value.(*ssa.MakeClosure); ok && isRecoverGuard(mc.Fn.(*ssa.Function)) {
				// `defer func() { if r := recover(); r != nil { ... } }()`: without a panic in flight recover() is nil
				// and the guard does nothing; panicking executions are not modelled (they end at the panic)
				vc.note("deferred recover guard skipped on non-panicking paths")
				vc.assumed["panicking executions are not followed into deferred recover guards"] = true
				if ex.con != nil && ex.inlineDepth == 0 && !ex.recoverNoted {
					// a recovered panic leaves the function early with none of the contract's clauses established: the
					// contract has to say so (option recovers, listed as an assumption), otherwise a guard that appears
					// in a function whose callers rely on its clauses is reported
					ex.recoverNoted = true
					if ex.con.Recovers {
						vc.assumed["A12: "+ex.con.Name+" recovers panics (option recovers): its clauses are not established when a callee panics"] = true
					} else {
						vc.oblige("closure", "recover:"+ex.conName(), TTrue, TFalse, ex.pos(d.call.Pos())).SetNote("the function recovers panics in a deferred guard; on such an exit none of the clauses of its contract is established (declare `option recovers` to accept that as an assumption)")
					}
				}
				continue
			}
			ex.execCommon(st, d.call.Common(), nil, d.call.Pos(), true)
		}
		st.defers = nil
	case *ssa.Return:
		var rs []T
		for _, r := range in.Results {
			rs = append(rs, ex.val(st, r))
		}
		ex.nonNilCheckpoint(st, "return", in.Pos())
		if ex.con != nil && ex.inlineDepth == 0 {
			for i, cl := range ex.con.AtReturn {
				env := ex.specEnv(st, ex.entry, false)
				env.bindResults(ex.fn, rs)
				t, err := env.evalBool(cl.Expr)
				if err != nil {
					ex.fail("atreturn %q: %v", cl.Src, err)
					continue
				}
				label := cl.Label
				if label == "" {
					label = fmt.Sprintf("%d", i+1)
				}
				ex.vc.oblige("assert", fmt.Sprintf("assert:%s@return#%s", ex.conName(), label), st.guard, t, ex.pos(in.Pos())).SetNote(cl.Src)
			}
		}
		ex.rets = append(ex.rets, retInfo{st.clone(), rs})
		st.dead = true
	case *ssa.Panic:
		if ex.con != nil && ex.con.NoPanic {
			ex.vc.oblige("safe", fmt.Sprintf("safe:%s:explicit-panic", ex.conName()), st.guard, TFalse, ex.pos(in.Pos()))
		}
		st.dead = true
	case *ssa.Jump:
		ex.setEdge(b, 0, st, TTrue)
	case *ssa.If:
		c := ex.val(st, in.Cond)
		ex.setEdge(b, 0, st, c)
		ex.setEdge(b, 1, st, Not(c))
	case *ssa.Range:
		// iterator over map or string: remember the collection
		x := ex.val(st, in.X)
		ex.regs[in] = x
		ex.rangeStart(st, in, x)
	case *ssa.Next:
		ex.execNext(st, in)
	case *ssa.Select:
		for _, s := range in.States {
			if s.Dir == types.SendOnly {
				ex.beforeChanSend(st, s.Send, in.Pos())
			}
		}
		// non-deterministic choice among the cases
		idx := vc.fresh("select.idx", SInt)
		n := len(in.States)
		lo := IntLit(0)
		if !in.Blocking {
			lo = IntLit(-1)
		}
		vc.assume(st.guard, And(Ge(idx, lo), Lt(idx, IntLit(int64(n)))))
		// a case on a nil channel is never chosen (language semantics: it blocks forever)
		for k, s := range in.States {
			cv := ex.val(st, s.Chan)
			if cv.sort == SInt {
				vc.assume(st.guard, Imp(Eq(idx, IntLit(int64(k))), Not(Eq(cv, vc.zero(s.Chan.Type())))))
			}
		}
		tup := []T{idx, vc.fresh("select.ok", SBool)}
		for _, s := range in.States {
			if s.Dir == types.RecvOnly {
				et := s.Chan.Type().Underlying().(*types.Chan).Elem()
				r := vc.fresh("recv", vc.sortOf(et))
				ex.assumeTypeInv(st, r, et)
				tup = append(tup, r)
			}
		}
		ex.tuples[in] = tup
		st.ghost["sel:idx"] = idx
		st.ghost["sel:ok"] = tup[1]
		// count v := select@N#K: how often the N-th select of the function (source order) took its K-th case
		if ex.con != nil && ex.con.Counts != nil && ex.inlineDepth == 0 {
			ord := ex.selectOrdinal(in)
			for k := range in.States {
				if v, ok := ex.con.Counts[fmt.Sprintf("select@%d#%d", ord, k)]; ok {
					st.ghost["cnt:"+v] = ex.define("cnt", Add(ex.ghostGet(st, "cnt:"+v), Ite(Eq(idx, IntLit(int64(k))), IntLit(1), IntLit(0))))
					ex.obsSeen[v] = true
				}
			}
		}
		if !in.Blocking && ex.con != nil && ex.con.ChanEvents {
			// a non-blocking select that falls to `default` has observed its data channels empty (or full for sends)
			hasDataRecv := false
			for _, s := range in.States {
				if s.Dir == types.RecvOnly && chanClass(s.Chan) == "recvs" {
					hasDataRecv = true
				}
			}
			if hasDataRecv {
				name := "G_ghost.drained"
				cur := ex.heapGet(st, name, SInt)
				nv := Ite(Eq(idx, IntLit(-1)), IntLit(1), cur)
				for k, s := range in.States {
					if s.Dir == types.RecvOnly && chanClass(s.Chan) == "recvs" {
						nv = Ite(Eq(idx, IntLit(int64(k))), IntLit(0), nv)
					}
				}
				ex.heapSet(st, name, ex.define(name, nv))
				ex.heapWrites[name] = true
			}
		}
		for k, s := range in.States {
			chosen := Eq(idx, IntLit(int64(k)))
			if s.Dir == types.SendOnly {
				ex.chanEvent(st, "sends", chosen)
			} else {
				ex.chanEvent(st, chanClass(s.Chan), chosen)
			}
		}
		vc.note("select abstracted to non-deterministic choice")
	case *ssa.Send:
		ex.beforeChanSend(st, in.X, in.Pos())
		vc.note("channel send abstracted (no effect on modelled state)")
		ex.chanEvent(st, "sends", TTrue)
	case *ssa.SliceToArrayPointer, *ssa.MultiConvert:
		ex.regs[in.(ssa.Value)] = vc.fresh("conv", vc.sortOf(in.(ssa.Value).Type()))
		vc.note("conversion %T abstracted", in)
	default:
		ex.fail("unsupported instruction %T at %s", in, ex.pos(in.Pos()))
	}
}

func (ex *Exec) execUnOp(st *State, in *ssa.UnOp) {
	vc := ex.vc
	switch in.Op {
	case token.MUL: // load
		l := ex.addr(st, in.X)
		if d, ok := l.(LocDeref); ok {
			ex.safeOblige(st, "nil-deref", Not(Eq(d.ref, IntLit(0))))
		}
		v := ex.load(st, l)
		v = ex.define(in.Name(), v)
		ex.regs[in] = v
		switch l.(type) {
		case LocHeapField, LocDeref, LocGlobal:
			ex.assumeTypeInv(st, v, in.Type())
			// a cell not written since the epoch began holds a reference that existed when the epoch began
			if v.sort == SInt && isRefType(in.Type()) {
				if b, ok := ex.untouchedBound(st, l); ok {
					vc.assume(st.guard, Le(v, b))
				}
			}
			if ex.onRead != nil {
				ex.onRead(st, l)
			}
		}
		if strings.HasPrefix(v.sort, "Slice_") {
			ex.prov[in] = l
		}
	case token.NOT:
		ex.regs[in] = Not(ex.val(st, in.X))
	case token.SUB:
		x := ex.val(st, in.X)
		ex.regs[in] = mk(x.sort, "-", x)
	case token.ARROW:
		et := in.Type()
		if in.CommaOk {
			tt := in.Type().(*types.Tuple)
			r := vc.fresh("recv", vc.sortOf(tt.At(0).Type()))
			ex.tuples[in] = []T{r, vc.fresh("recv.ok", SBool)}
		} else {
			r := vc.fresh("recv", vc.sortOf(et))
			ex.assumeTypeInv(st, r, et)
			ex.regs[in] = r
		}
		vc.note("channel receive abstracted to havoc")
		ex.chanEvent(st, chanClass(in.X), TTrue)
	case token.XOR:
		ex.regs[in] = vc.fresh("xor", vc.sortOf(in.Type()))
		vc.note("bitwise complement abstracted")
	default:
		ex.fail("unsupported unop %s", in.Op)
	}
}

func (ex *Exec) binop(st *State, op token.Token, x, y T, xt types.Type, rt types.Type) T {
	vc := ex.vc
	if x.sort != y.sort {
		// shifts have differently typed operands; interface vs concrete never happens in SSA
		if op != token.SHL && op != token.SHR {
			ex.fail("binop %s on different sorts %s/%s", op, x.sort, y.sort)
			return vc.fresh("binop", vc.sortOf(rt))
		}
	}
	switch op {
	case token.ADD:
		if x.sort == SStr {
			return ex.strConcat(st, x, y)
		}
		return ex.wrapUnsigned(st, Add(x, y), rt)
	case token.SUB:
		return ex.wrapUnsigned(st, Sub(x, y), rt)
	case token.MUL:
		return ex.wrapUnsigned(st, Mul(x, y), rt)
	case token.QUO:
		if x.sort == SReal {
			return ex.realDiv(x, y)
		}
		ex.safeOblige(st, "div-zero", Not(Eq(y, IntLit(0))))
		return mk(SInt, "go.div", x, y)
	case token.REM:
		ex.safeOblige(st, "div-zero", Not(Eq(y, IntLit(0))))
		return mk(SInt, "go.rem", x, y)
	case token.EQL:
		return ex.eq(x, y, xt)
	case token.NEQ:
		return Not(ex.eq(x, y, xt))
	case token.LSS, token.LEQ, token.GTR, token.GEQ:
		if x.sort == SStr {
			if !vc.declSet["f:gs.lt"] {
				vc.ufun("gs.lt", []Sort{SStr, SStr}, SBool)
				vc.axiom("(forall ((a Str) (b Str)) (! (=> (gs.lt a b) (not (gs.lt b a))) :pattern ((gs.lt a b))))")
				vc.axiom("(forall ((a Str) (b Str)) (! (or (= a b) (gs.lt a b) (gs.lt b a)) :pattern ((gs.lt a b))))")
				vc.axiom("(forall ((a Str) (b Str) (c Str)) (! (=> (and (gs.lt a b) (gs.lt b c)) (gs.lt a c)) :pattern ((gs.lt a b) (gs.lt b c))))")
			}
			lt := func(a, b T) T { return mk(SBool, "gs.lt", a, b) }
			vc.note("string ordering is an uninterpreted strict order")
			switch op {
			case token.LSS:
				return lt(x, y)
			case token.GTR:
				return lt(y, x)
			case token.LEQ:
				return Not(lt(y, x))
			default:
				return Not(lt(x, y))
			}
		}
		m := map[token.Token]string{token.LSS: "<", token.LEQ: "<=", token.GTR: ">", token.GEQ: ">="}
		return mk(SBool, m[op], x, y)
	case token.LAND:
		return And(x, y)
	case token.LOR:
		return Or(x, y)
	case token.AND, token.OR, token.XOR, token.SHL, token.SHR, token.AND_NOT:
		if x.sort == SBool {
			switch op {
			case token.AND:
				return And(x, y)
			case token.OR:
				return Or(x, y)
			case token.XOR:
				return Not(Eq(x, y))
			}
		}
		vc.note("bitwise operator %s abstracted to an uninterpreted function", op)
		name := "bv." + map[token.Token]string{token.AND: "and", token.OR: "or", token.XOR: "xor", token.SHL: "shl", token.SHR: "shr", token.AND_NOT: "andnot"}[op]
		vc.ufun(name, []Sort{SInt, SInt}, SInt)
		return mk(SInt, name, x, y)
	}
	ex.fail("unsupported binop %s", op)
	return vc.fresh("binop", vc.sortOf(rt))
}

// wrapUnsigned: unsigned arithmetic is modular; we do not model wrap-around, so
// results of unsigned subtraction are abstracted unless non-negative.
func (ex *Exec) wrapUnsigned(st *State, t T, rt types.Type) T {
	// Integers are mathematical in this model. Under `option overflow` every +, -, * on a machine integer type
	// carries the obligation that the mathematical result fits the type, so a wrap-around cannot go unnoticed.
	if ex.overflow && t.sort == SInt && rt != nil {
		if b, ok := rt.Underlying().(*types.Basic); ok && b.Info()&types.IsInteger != 0 && b.Kind() != types.UntypedInt {
			lo, hi := intRange(b)
			ex.safeObligeAlways(st, "overflow", And(Le(lo, t), Le(t, hi)))
		}
	}
	return t
}

// safeObligeAlways is safeOblige for checks that have their own option (not gated by `option safety`).
func (ex *Exec) safeObligeAlways(st *State, kind string, goal T) {
	ex.nsafe[kind]++
	name := fmt.Sprintf("safe:%s:%s:%d", ex.conName(), kind, ex.nsafe[kind])
	ex.vc.oblige("safe", name, st.guard, goal, ex.pos(ex.curPos))
	ex.vc.assume(st.guard, goal)
}

func (ex *Exec) eq(x, y T, t types.Type) T {
	return Eq(x, y)
}

func (ex *Exec) strConcat(st *State, x, y T) T {
	vc := ex.vc
	if !vc.declSet["f:gs.cat"] {
		vc.ufun("gs.cat", []Sort{SStr, SStr}, SStr)
		vc.axiom("(forall ((a Str) (b Str)) (! (= (gs.len (gs.cat a b)) (+ (gs.len a) (gs.len b))) :pattern ((gs.cat a b))))")
		vc.axiom("(forall ((a Str) (b Str) (i Int)) (! (= (gs.at (gs.cat a b) i) (ite (< i (gs.len a)) (gs.at a i) (gs.at b (- i (gs.len a))))) :pattern ((gs.at (gs.cat a b) i))))")
	}
	return mk(SStr, "gs.cat", x, y)
}

func (ex *Exec) strSub(x, lo, hi T) T {
	vc := ex.vc
	if !vc.declSet["f:gs.sub"] {
		vc.ufun("gs.sub", []Sort{SStr, SInt, SInt}, SStr)
		vc.axiom("(forall ((a Str) (l Int) (h Int)) (! (=> (and (<= 0 l) (<= l h) (<= h (gs.len a))) (= (gs.len (gs.sub a l h)) (- h l))) :pattern ((gs.sub a l h))))")
		vc.axiom("(forall ((a Str) (l Int) (h Int) (i Int)) (! (=> (and (<= 0 l) (<= l h) (<= h (gs.len a)) (<= 0 i) (< i (- h l))) (= (gs.at (gs.sub a l h) i) (gs.at a (+ l i)))) :pattern ((gs.at (gs.sub a l h) i))))")
	}
	return mk(SStr, "gs.sub", x, lo, hi)
}

func (ex *Exec) execSlice(st *State, in *ssa.Slice) {
	vc := ex.vc
	var x T
	xt := in.X.Type()
	if pt, isPtr := xt.Underlying().(*types.Pointer); isPtr {
		x = ex.load(st, ex.addr(st, in.X))
		xt = pt.Elem()
	} else {
		x = ex.val(st, in.X)
	}
	var lo, hi T
	if in.Low != nil {
		lo = ex.val(st, in.Low)
	} else {
		lo = IntLit(0)
	}
	if x.sort == SStr {
		if in.High != nil {
			hi = ex.val(st, in.High)
		} else {
			hi = mk(SInt, "gs.len", x)
		}
		ex.safeOblige(st, "slice", And(Ge(lo, IntLit(0)), Le(lo, hi), Le(hi, mk(SInt, "gs.len", x))))
		ex.regs[in] = ex.define(in.Name(), ex.strSub(x, lo, hi))
		return
	}
	if in.High != nil {
		hi = ex.val(st, in.High)
	} else {
		hi = slLen(x)
	}
	// slicing up to cap is legal Go; capacity is not modelled, so hi<=len is demanded (stronger than Go)
	ex.safeOblige(st, "slice", And(Ge(lo, IntLit(0)), Le(lo, hi), Le(hi, slLen(x))))
	ss, es := vc.sliceSortOfType(in.Type())
	var arr T
	if lo.s == "0" {
		arr = slArr(x)
	} else {
		arr = vc.fresh("subarr", ArraySort(SInt, es))
		k := "k!q"
		vc.axiom(fmt.Sprintf("(forall ((%s Int)) (! (= (select %s %s) (select %s (+ %s %s))) :pattern ((select %s %s))))", k, arr.s, k, slArr(x).s, k, lo.s, arr.s, k))
	}
	isnil := TFalse
	if _, isSl := xt.Underlying().(*types.Slice); isSl {
		isnil = slNil(x)
	}
	res := ex.define(in.Name(), mkSlice(ss, arr, Sub(hi, lo), isnil))
	ex.regs[in] = res
	if at, isArr := xt.Underlying().(*types.Array); isArr && at.Len() == 1 && in.Low == nil && in.High == nil {
		ex.singleton[res.s] = ex.define("elem0", Select(slArr(x), IntLit(0)))
	}
	if lo.s == "0" {
		if p, ok := ex.prov[in.X]; ok {
			_ = p // a prefix view shares the backing array; element writes through it are rejected (no provenance)
		}
	}
}

func (ex *Exec) execConvert(st *State, in *ssa.Convert) {
	vc := ex.vc
	x := ex.val(st, in.X)
	from := vc.sortOf(in.X.Type())
	to := vc.sortOf(in.Type())
	switch {
	case from == to && from != SStr:
		// int -> narrower int truncation is not modelled (mathematical integers)
		if from == SInt {
			fb, _ := in.X.Type().Underlying().(*types.Basic)
			tb, _ := in.Type().Underlying().(*types.Basic)
			if fb != nil && tb != nil && intBits(tb) < intBits(fb) {
				vc.note("narrowing integer conversion %s -> %s treated as identity (A2)", fb.Name(), tb.Name())
			}
			if fb != nil && tb != nil && (tb.Info()&types.IsUnsigned != 0) != (fb.Info()&types.IsUnsigned != 0) {
				vc.note("signed/unsigned conversion %s -> %s treated as identity (A2)", fb.Name(), tb.Name())
			}
		}
		ex.regs[in] = x
	case from == SStr && to == SStr:
		ex.regs[in] = x
	case from == SInt && to == SReal:
		if ex.con != nil && ex.con.Rnd64 {
			vc.declareRnd64()
			ex.regs[in] = mk(SReal, "rnd64", x)
		} else {
			ex.regs[in] = mk(SReal, "to_real", x)
		}
	case from == SReal && to == SInt:
		// truncation toward zero
		ex.regs[in] = Ite(Ge(x, T{"0.0", SReal}), mk(SInt, "to_int", x), mk(SInt, "-", mk(SInt, "to_int", mk(SReal, "-", x))))
	case to == SStr && from == SInt:
		vc.ufun("gs.fromrune", []Sort{SInt}, SStr)
		ex.regs[in] = mk(SStr, "gs.fromrune", x)
	case to == SStr && strings.HasPrefix(from, "Slice_"):
		// string(bytes)
		vc.ufun("gs.frombytes."+sortSym(from), []Sort{from}, SStr)
		r := mk(SStr, "gs.frombytes."+sortSym(from), x)
		if sliceElemGet(from) == SInt {
			vc.assume(st.guard, Eq(mk(SInt, "gs.len", r), slLen(x)))
		}
		ex.regs[in] = r
	case from == SStr && strings.HasPrefix(to, "Slice_"):
		r := vc.fresh("bytes", to)
		if sliceElemGet(to) == SInt {
			if _, isByte := in.Type().Underlying().(*types.Slice).Elem().Underlying().(*types.Basic); isByte {
				vc.assume(st.guard, And(Eq(slLen(r), mk(SInt, "gs.len", x)), Not(slNil(r))))
				q := "i!q"
				if in.Type().Underlying().(*types.Slice).Elem().Underlying().(*types.Basic).Kind() == types.Uint8 {
					vc.axiom(fmt.Sprintf("(forall ((%s Int)) (! (= (select %s %s) (gs.at %s %s)) :pattern ((select %s %s))))", q, slArr(r).s, q, x.s, q, slArr(r).s, q))
				}
			}
		}
		ex.regs[in] = r
	default:
		ex.regs[in] = vc.fresh("conv", to)
		vc.note("conversion %s -> %s abstracted", in.X.Type(), in.Type())
	}
}

func intBits(b *types.Basic) int {
	switch b.Kind() {
	case types.Int8, types.Uint8:
		return 8
	case types.Int16, types.Uint16:
		return 16
	case types.Int32, types.Uint32:
		return 32
	}
	return 64
}

func (vc *VC) declareRnd64() {
	if vc.declSet["f:rnd64"] {
		return
	}
	vc.ufun("rnd64", []Sort{SInt}, SReal)
	vc.axiom("(forall ((i Int)) (! (=> (and (<= (- 9007199254740992) i) (<= i 9007199254740992)) (= (rnd64 i) (to_real i))) :pattern ((rnd64 i))))")
	vc.axiom("(forall ((i Int) (j Int)) (! (=> (<= i j) (<= (rnd64 i) (rnd64 j))) :pattern ((rnd64 i) (rnd64 j))))")
	// 2^53+1 rounds to 2^53 (ties-to-even): the witness that precision is lost
	vc.axiom("(= (rnd64 9007199254740993) 9007199254740992.0)")
}

func (ex *Exec) execTypeAssert(st *State, in *ssa.TypeAssert) {
	vc := ex.vc
	x := ex.val(st, in.X)
	at := in.AssertedType
	if _, isIface := at.Underlying().(*types.Interface); isIface {
		// interface-to-interface: succeeds iff non-nil and implements (unknown): havoc ok
		ok := vc.fresh("implements", SBool)
		vc.assume(st.guard, Imp(ok, Not(Eq(x, T{"VNil", SVal}))))
		if it := at.Underlying().(*types.Interface); it.NumMethods() == 0 {
			vc.assume(st.guard, Eq(ok, Not(Eq(x, T{"VNil", SVal}))))
		}
		if in.CommaOk {
			ex.tuples[in] = []T{Ite(ok, x, T{"VNil", SVal}), ok}
		} else {
			ex.safeOblige(st, "type-assert", ok)
			ex.regs[in] = x
		}
		return
	}
	is := vc.isType(x, at)
	v := vc.unbox(x, at)
	if in.CommaOk {
		ex.tuples[in] = []T{Ite(is, v, vc.zero(at)), is}
		if isRefType(at) {
			ex.vc.assume(st.guard, Imp(is, And(Ge(v, IntLit(0)), Le(v, ex.ghostGet(st, "alloc")))))
		} else if b, ok := at.Underlying().(*types.Basic); ok && b.Info()&types.IsInteger != 0 && !isTimeTime(at) {
			lo, hi := intRange(b)
			ex.vc.assume(st.guard, Imp(is, And(Ge(v, lo), Le(v, hi))))
		}
	} else {
		ex.safeOblige(st, "type-assert", is)
		ex.regs[in] = v
		ex.assumeTypeInv(st, v, at)
	}
}

// ------------------------------------------------------------------ maps

func (ex *Exec) mapHeapNames(mt types.Type) (string, string) {
	n := mapTypeSym(mt)
	return "MapDom_" + n, "MapVal_" + n
}

func (ex *Exec) mapHeaps(st *State, mt types.Type) (dom, val T, dn, vn string) {
	m := mt.Underlying().(*types.Map)
	ks := ex.vc.sortOf(m.Key())
	vs := ex.vc.sortOf(m.Elem())
	dn, vn = ex.mapHeapNames(mt)
	dom = ex.heapGet(st, dn, ArraySort(SInt, ArraySort(ks, SBool)))
	val = ex.heapGet(st, vn, ArraySort(SInt, ArraySort(ks, vs)))
	return
}

func (ex *Exec) mapStore(st *State, mt types.Type, m, k, v T) {
	dom, val, dn, vn := ex.mapHeaps(st, mt)
	ex.heapSet(st, dn, ex.define(dn, Store(dom, m, Store(Select(dom, m), k, TTrue))))
	ex.heapSet(st, vn, ex.define(vn, Store(val, m, Store(Select(val, m), k, v))))
	ex.recordWrite(st, dn, m)
	ex.recordWrite(st, vn, m)
}

func (ex *Exec) mapDelete(st *State, mt types.Type, m, k T) {
	dom, _, dn, _ := ex.mapHeaps(st, mt)
	ex.heapSet(st, dn, ex.define(dn, Store(dom, m, Store(Select(dom, m), k, TFalse))))
	ex.recordWrite(st, dn, m)
}

func (ex *Exec) mapClear(st *State, mt types.Type, m T) {
	dom, _, dn, _ := ex.mapHeaps(st, mt)
	ks, _ := splitArraySort(arrayElem(dom.sort))
	empty := T{fmt.Sprintf("((as const (Array %s Bool)) false)", ks), arrayElem(dom.sort)}
	ex.heapSet(st, dn, ex.define(dn, Store(dom, m, empty)))
}

func (ex *Exec) execLookup(st *State, in *ssa.Lookup) {
	vc := ex.vc
	x := ex.val(st, in.X)
	k := ex.val(st, in.Index)
	if x.sort == SStr {
		ex.safeOblige(st, "index", And(Ge(k, IntLit(0)), Lt(k, mk(SInt, "gs.len", x))))
		r := mk(SInt, "gs.at", x, k)
		vc.assume(st.guard, And(Ge(r, IntLit(0)), Le(r, IntLit(255))))
		ex.regs[in] = r
		return
	}
	mt := in.X.Type()
	dom, val, _, _ := ex.mapHeaps(st, mt)
	present := Select(Select(dom, x), k)
	// a nil map has no entries
	present = And(Not(Eq(x, IntLit(0))), present)
	et := mt.Underlying().(*types.Map).Elem()
	v := Ite(present, Select(Select(val, x), k), vc.zero(et))
	v = ex.define(in.Name(), v)
	if in.CommaOk {
		ex.tuples[in] = []T{v, ex.define(in.Name()+".ok", present)}
	} else {
		ex.regs[in] = v
	}
	ex.assumeTypeInvGuarded(st, present, Select(Select(val, x), k), et)
	if ex.onRead != nil {
		ex.onRead(st, LocDeref{x, mt})
	}
}

func (ex *Exec) assumeTypeInvGuarded(st *State, g T, v T, t types.Type) {
	if v.sort == SInt && isRefType(t) {
		ex.vc.assume(And(st.guard, g), And(Ge(v, IntLit(0)), Le(v, ex.ghostGet(st, "alloc"))))
	}
	if strings.HasPrefix(v.sort, "Slice_") {
		ex.vc.assume(And(st.guard, g), And(Ge(slLen(v), IntLit(0)), Imp(slNil(v), Eq(slLen(v), IntLit(0)))))
	}
}

// rangeStart / execNext: iteration over a map (or string) yields arbitrary present keys;
// per-loop "visited" reasoning is available through the spec variable $visited.
func (ex *Exec) rangeStart(st *State, in *ssa.Range, x T) {
	if x.sort == SStr {
		return
	}
}

func (ex *Exec) execNext(st *State, in *ssa.Next) {
	vc := ex.vc
	rng := in.Iter.(*ssa.Range)
	x := ex.val(st, rng.X)
	ok := vc.fresh("next.ok", SBool)
	if in.IsString {
		i := vc.fresh("next.i", SInt)
		r := vc.fresh("next.rune", SInt)
		vc.assume(st.guard, Imp(ok, And(Ge(i, IntLit(0)), Lt(i, mk(SInt, "gs.len", x)))))
		ex.tuples[in] = []T{ok, i, r}
		vc.note("range over string yields arbitrary (index, rune) pairs in unspecified order (UTF-8 decoding not modelled)")
		return
	}
	mt := rng.X.Type()
	m := mt.Underlying().(*types.Map)
	k := vc.fresh("next.k", vc.sortOf(m.Key()))
	dom, val, _, _ := ex.mapHeaps(st, mt)
	vc.assume(st.guard, Imp(ok, And(Not(Eq(x, IntLit(0))), Select(Select(dom, x), k))))
	v := ex.define("next.v", Select(Select(val, x), k))
	ex.assumeTypeInvGuarded(st, ok, v, m.Elem())
	ex.tuples[in] = []T{ok, k, v}
	// iteration progress: the ghost visited set of the enclosing loop, if the contract uses it
	if li := ex.loopOfHeader(in.Block()); li != nil {
		vis := ex.ghostGetSort(st, fmt.Sprintf("visited:%d", li.ordinal), ArraySort(k.sort, SBool))
		vc.assume(st.guard, Imp(ok, Not(Select(vis, k))))
		// !ok: every present key has been visited
		q := "k!q"
		vc.assume(st.guard, Imp(Not(ok), T{fmt.Sprintf("(forall ((%s %s)) (! (=> (select (select %s %s) %s) (select %s %s)) :pattern ((select (select %s %s) %s))))", q, k.sort, dom.s, x.s, q, vis.s, q, dom.s, x.s, q), SBool}))
		st.ghost[fmt.Sprintf("visited:%d", li.ordinal)] = ex.define("visited", Ite(ok, Store(vis, k, TTrue), vis))
		st.ghost[fmt.Sprintf("curkey:%d", li.ordinal)] = k
	}
}

func (ex *Exec) ghostGetSort(st *State, name string, sort Sort) T {
	if t, ok := st.ghost[name]; ok {
		return t
	}
	return ex.vc.constant("ghost."+sanitize(name)+"!0", sort)
}

func (ex *Exec) loopOfHeader(b *ssa.BasicBlock) *loopInfo { return ex.loops[b] }

// untouchedBound: if the heap cell read at l belongs to a heap symbol that has not been written in the current
// epoch, the reference stored there was allocated before the epoch started.
func (ex *Exec) untouchedBound(st *State, l Loc) (T, bool) {
	var name string
	switch l := l.(type) {
	case LocHeapField:
		name = fieldHeapName(l.owner, l.idx)
	case LocDeref:
		if _, isStruct := l.elem.Underlying().(*types.Struct); isStruct && !isTimeTime(l.elem) {
			return T{}, false
		}
		name = derefHeapName(l.elem)
	default:
		return T{}, false
	}
	if _, written := st.heaps[name]; written {
		return T{}, false
	}
	b, ok := ex.epochAlloc[st.epoch]
	return b, ok
}

// realDiv: division by a literal stays arithmetic; division by a symbolic divisor is an uninterpreted function
// (keeps the obligations linear; the only fact lost is the field axiom, which no contract here needs).
func (ex *Exec) realDiv(x, y T) T {
	if isNumLit(y.s) {
		return mk(SReal, "/", x, y)
	}
	ex.vc.ufun("real.div", []Sort{SReal, SReal}, SReal)
	return mk(SReal, "real.div", x, y)
}

func isNumLit(s string) bool {
	s = strings.TrimSuffix(strings.TrimPrefix(s, "(- "), ")")
	if s == "" {
		return false
	}
	for _, r := range s {
		if !(r >= '0' && r <= '9' || r == '.') {
			return false
		}
	}
	return true
}

// mapTypeSym names the heap of a map type by its Go type (distinct Go map types never alias).
func mapTypeSym(mt types.Type) string {
	return sanitize(types.TypeString(mt.Underlying(), func(p *types.Package) string { return p.Name() }))
}

// ownershipCheck: slices are modelled as values, which is only faithful while no two owners share a backing
// array. Storing a re-slice of one heap-resident slice into another heap location creates exactly such sharing
// (later appends through either owner overwrite the other's elements), so it is reported as a failed obligation.
func (ex *Exec) ownershipCheck(st *State, v ssa.Value, dst string, dstAddr ssa.Value) {
	if ex.con == nil {
		return
	}
	if _, isSlice := v.Type().Underlying().(*types.Slice); !isSlice {
		return
	}
	sl, ok := v.(*ssa.Slice)
	if !ok {
		return
	}
	ld, ok := sl.X.(*ssa.UnOp)
	if !ok || ld.Op != token.MUL {
		return
	}
	src, ok := ld.X.(*ssa.FieldAddr)
	if !ok || ex.isAddrValue(src.X) {
		return // re-slice of a local: the local is dead after the store in the code under contract
	}
	if d, ok := dstAddr.(*ssa.FieldAddr); ok && d.Field == src.Field && d.X.Type() == src.X.Type() {
		return // x.f = x.f[:n]: same owner
	}
	ex.nown++
	owner := src.X.Type().Underlying().(*types.Pointer).Elem()
	name := fieldHeapName(owner, src.Field)
	ex.vc.oblige("own", fmt.Sprintf("own:%s:%d", ex.conName(), ex.nown), st.guard, TFalse, ex.pos(token.NoPos)).SetNote("a re-slice of " + name + " is stored into " + dst + ": two owners would share one backing array (slices are modelled as values)")
}

// chanClass classifies a receive by the field the channel was read from: done channels, timer channels, data.
func chanClass(ch ssa.Value) string {
	name := ""
	switch x := ch.(type) {
	case *ssa.UnOp:
		if fa, ok := x.X.(*ssa.FieldAddr); ok {
			if st, ok := fa.X.Type().Underlying().(*types.Pointer).Elem().Underlying().(*types.Struct); ok {
				name = st.Field(fa.Field).Name()
			}
		}
	case *ssa.Call:
		if f := x.Call.StaticCallee(); f != nil {
			name = f.Name()
		} else if x.Call.IsInvoke() {
			name = x.Call.Method.Name()
		}
	}
	switch name {
	case "done", "Done":
		return "dones"
	case "After":
		return "timeouts"
	case "C":
		// a timer's channel: name the counter after the local variable holding the timer
		if u, ok := ch.(*ssa.UnOp); ok {
			if fa, ok := u.X.(*ssa.FieldAddr); ok {
				if ld, ok := fa.X.(*ssa.UnOp); ok {
					if a, ok := ld.X.(*ssa.Alloc); ok && a.Comment != "" {
						return "timeouts_" + a.Comment
					}
				}
			}
		}
		return "timeouts"
	}
	return "recvs"
}

// chanEvent bumps a ghost global when a channel operation takes place (contracts with option channel_events).
func (ex *Exec) chanEvent(st *State, ghost string, when T) {
	if ex.con == nil || !ex.con.ChanEvents {
		return
	}
	name := "G_ghost." + ghost
	cur := ex.heapGet(st, name, SInt)
	ex.heapSet(st, name, ex.define(name, Ite(when, Add(cur, IntLit(1)), cur)))
	ex.heapWrites[name] = true
}

// isRecoverGuard: the function is `if r := recover(); r != nil { ... }` and nothing else, i.e. every effect lies under the
// branch taken only while a panic is in flight.
func isRecoverGuard(fn *ssa.Function) bool {
	if fn == nil || len(fn.Blocks) == 0 {
		return false
	}
	b0 := fn.Blocks[0]
	iff, ok := b0.Instrs[len(b0.Instrs)-1].(*ssa.If)
	if !ok {
		return false
	}
	cmp, ok := iff.Cond.(*ssa.BinOp)
	if !ok || cmp.Op != token.NEQ {
		return false
	}
	isRecover := func(v ssa.Value) bool {
		c, ok := v.(*ssa.Call)
		if !ok {
			return false
		}
		b, ok := c.Call.Value.(*ssa.Builtin)
		return ok && b.Name() == "recover"
	}
	isNil := func(v ssa.Value) bool {
		c, ok := v.(*ssa.Const)
		return ok && c.IsNil()
	}
	// the tested value: the recover() call itself, or (unoptimised SSA) a load of the local it was stored to
	holdsRecover := func(v ssa.Value) bool {
		if isRecover(v) {
			return true
		}
		ld, ok := v.(*ssa.UnOp)
		if !ok || ld.Op != token.MUL {
			return false
		}
		cell, ok := ld.X.(*ssa.Alloc)
		if !ok {
			return false
		}
		n := 0
		for _, in := range b0.Instrs {
			if st, ok := in.(*ssa.Store); ok && st.Addr == cell {
				if !isRecover(st.Val) {
					return false
				}
				n++
			}
		}
		return n == 1
	}
	if !(holdsRecover(cmp.X) && isNil(cmp.Y)) && !(holdsRecover(cmp.Y) && isNil(cmp.X)) {
		return false
	}
	for _, in := range b0.Instrs {
		switch in := in.(type) {
		case *ssa.DebugRef, *ssa.If, *ssa.BinOp, *ssa.Alloc:
		case *ssa.Call:
			if b, ok := in.Call.Value.(*ssa.Builtin); !isRecover(in) && !(ok && b.Name() == "ssa:deferstack") {
				return false
			}
		case *ssa.Store:
			if _, ok := in.Addr.(*ssa.Alloc); !ok {
				return false
			}
		case *ssa.UnOp:
			if _, ok := in.X.(*ssa.Alloc); !ok || in.Op != token.MUL {
				return false
			}
		default:
			return false
		}
	}
	thenB := b0.Succs[0]
	for _, b := range fn.Blocks[1:] {
		if thenB.Dominates(b) {
			continue
		}
		for _, in := range b.Instrs {
			switch in.(type) {
			case *ssa.Return, *ssa.Jump, *ssa.RunDefers, *ssa.DebugRef:
			default:
				return false
			}
		}
	}
	return true
}

// selectOrdinal: the position of a select statement among the selects of the function under verification, in source order.
func (ex *Exec) selectOrdinal(sel *ssa.Select) int {
	var ps []token.Pos
	for _, b := range ex.fn.Blocks {
		for _, in := range b.Instrs {
			if s, ok := in.(*ssa.Select); ok {
				ps = append(ps, s.Pos())
			}
		}
	}
	sort.Slice(ps, func(i, j int) bool { return ps[i] < ps[j] })
	for i, p := range ps {
		if p == sel.Pos() {
			return i + 1
		}
	}
	return 0
}
