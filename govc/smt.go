package main

// SMT term construction. Terms are plain strings with a sort tag; the
// generator never inspects a term's structure, so this stays tiny.

import (
	"fmt"
	"math/big"
	"strings"
	"sync"
)

type Sort = string

const (
	SInt  Sort = "Int"
	SBool Sort = "Bool"
	SReal Sort = "Real"
	SStr  Sort = "Str"
	SVal  Sort = "Value"
)

type T struct {
	s    string
	sort Sort
}

// conjTable remembers the top-level conjuncts of terms built by And (used to split obligations).
var conjTable = map[string][]T{}
var conjMu sync.Mutex

func conjOf(t T) []T {
	conjMu.Lock()
	defer conjMu.Unlock()
	return conjTable[t.s]
}

func (t T) String() string { return t.s }
func (t T) ok() bool       { return t.s != "" }

var (
	TTrue  = T{"true", SBool}
	TFalse = T{"false", SBool}
)

func mk(sort Sort, f string, args ...T) T {
	if len(args) == 0 {
		return T{f, sort}
	}
	var b strings.Builder
	b.WriteByte('(')
	b.WriteString(f)
	for _, a := range args {
		b.WriteByte(' ')
		b.WriteString(a.s)
	}
	b.WriteByte(')')
	return T{b.String(), sort}
}

func IntLit(n int64) T {
	if n < 0 {
		return T{fmt.Sprintf("(- %d)", -n), SInt}
	}
	return T{fmt.Sprintf("%d", n), SInt}
}

func BigIntLit(n *big.Int) T {
	if n.Sign() < 0 {
		return T{"(- " + new(big.Int).Neg(n).String() + ")", SInt}
	}
	return T{n.String(), SInt}
}

func RealLitRat(r *big.Rat) T {
	neg := r.Sign() < 0
	a := new(big.Rat).Abs(r)
	s := ""
	if a.IsInt() {
		s = a.Num().String() + ".0"
	} else {
		s = "(/ " + a.Num().String() + ".0 " + a.Denom().String() + ".0)"
	}
	if neg {
		s = "(- " + s + ")"
	}
	return T{s, SReal}
}

func BoolLit(b bool) T {
	if b {
		return TTrue
	}
	return TFalse
}

func And(ts ...T) T {
	var xs []T
	for _, t := range ts {
		if t.s == "true" {
			continue
		}
		if t.s == "false" {
			return TFalse
		}
		if c := conjOf(t); len(c) > 0 {
			xs = append(xs, c...)
		} else {
			xs = append(xs, t)
		}
	}
	switch len(xs) {
	case 0:
		return TTrue
	case 1:
		return xs[0]
	}
	r := mk(SBool, "and", xs...)
	conjMu.Lock()
	conjTable[r.s] = xs
	conjMu.Unlock()
	return r
}

func Or(ts ...T) T {
	var xs []T
	for _, t := range ts {
		if t.s == "false" {
			continue
		}
		if t.s == "true" {
			return TTrue
		}
		xs = append(xs, t)
	}
	switch len(xs) {
	case 0:
		return TFalse
	case 1:
		return xs[0]
	}
	return mk(SBool, "or", xs...)
}

func Not(t T) T {
	switch t.s {
	case "true":
		return TFalse
	case "false":
		return TTrue
	}
	if strings.HasPrefix(t.s, "(not ") {
		return T{t.s[5 : len(t.s)-1], SBool}
	}
	return mk(SBool, "not", t)
}

func Imp(a, b T) T {
	if a.s == "true" {
		return b
	}
	if a.s == "false" || b.s == "true" {
		return TTrue
	}
	return mk(SBool, "=>", a, b)
}

func Eq(a, b T) T {
	if a.s == b.s {
		return TTrue
	}
	return mk(SBool, "=", a, b)
}

func Ite(c, a, b T) T {
	if c.s == "true" {
		return a
	}
	if c.s == "false" {
		return b
	}
	if a.s == b.s {
		return a
	}
	return mk(a.sort, "ite", c, a, b)
}

func Add(a, b T) T { return mk(a.sort, "+", a, b) }
func Sub(a, b T) T { return mk(a.sort, "-", a, b) }
func Mul(a, b T) T { return mk(a.sort, "*", a, b) }
func Lt(a, b T) T  { return mk(SBool, "<", a, b) }
func Le(a, b T) T  { return mk(SBool, "<=", a, b) }
func Gt(a, b T) T  { return mk(SBool, ">", a, b) }
func Ge(a, b T) T  { return mk(SBool, ">=", a, b) }

func Select(a, i T) T {
	return mk(arrayElem(a.sort), "select", a, i)
}
func Store(a, i, v T) T { return mk(a.sort, "store", a, i, v) }

func ArraySort(idx, elem Sort) Sort { return "(Array " + idx + " " + elem + ")" }

// arrayElem returns the element sort of "(Array I E)".
func arrayElem(s Sort) Sort {
	_, e := splitArraySort(s)
	return e
}

func splitArraySort(s Sort) (Sort, Sort) {
	if !strings.HasPrefix(s, "(Array ") {
		panic("not an array sort: " + s)
	}
	body := s[7 : len(s)-1]
	// first component: balanced
	depth := 0
	for i := 0; i < len(body); i++ {
		switch body[i] {
		case '(':
			depth++
		case ')':
			depth--
		case ' ':
			if depth == 0 {
				return body[:i], body[i+1:]
			}
		}
	}
	panic("bad array sort: " + s)
}

// sanitize turns an arbitrary Go type/func string into an SMT simple symbol.
func sanitize(s string) string {
	var b strings.Builder
	for _, r := range s {
		switch {
		case r >= 'a' && r <= 'z', r >= 'A' && r <= 'Z', r >= '0' && r <= '9', r == '_', r == '.', r == '!', r == '$':
			b.WriteRune(r)
		case r == '*':
			b.WriteString("P")
		case r == '[':
			b.WriteString("L")
		case r == ']':
			b.WriteString("J")
		default:
			b.WriteByte('_')
		}
	}
	return b.String()
}
