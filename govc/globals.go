package main

import (
	"fmt"
	"go/types"
	"sort"
	"strings"

	"golang.org/x/tools/go/ssa"
)

// globalWriters lists, for the loaded packages of the module, every (package-level variable, function) pair
// where the function stores to the variable (directly, to one of its fields/elements, or into the map it holds).
func (P *Program) globalWriters() map[string][]string {
	out := map[string][]string{}
	add := func(g *ssa.Global, fn *ssa.Function) {
		if g.Pkg == nil || !strings.HasPrefix(g.Pkg.Pkg.Path(), modPath) {
			return
		}
		if strings.HasPrefix(g.Name(), "init$") {
			return
		}
		k := shortPkg(g.Pkg.Pkg.Path()) + "." + g.Name()
		root := fn
		for root.Parent() != nil {
			root = root.Parent()
		}
		name := shortPkg(root.Pkg.Pkg.Path()) + "." + root.RelString(root.Pkg.Pkg)
		for _, x := range out[k] {
			if x == name {
				return
			}
		}
		out[k] = append(out[k], name)
	}
	var rootOf func(v ssa.Value) *ssa.Global
	rootOf = func(v ssa.Value) *ssa.Global {
		switch x := v.(type) {
		case *ssa.Global:
			return x
		case *ssa.FieldAddr:
			return rootOf(x.X)
		case *ssa.IndexAddr:
			return rootOf(x.X)
		case *ssa.UnOp:
			return rootOf(x.X) // value loaded from a global (e.g. the map it holds)
		}
		return nil
	}
	// struct types of which a package-level variable holds an instance (process-wide singletons): their sync.Map fields
	// are shared tables too, written through Store / LoadOrStore / Delete / Swap / CompareAndSwap
	singleton := map[string]bool{}
	for _, pk := range P.prog.AllPackages() {
		if pk.Pkg == nil || !strings.HasPrefix(pk.Pkg.Path(), modPath) {
			continue
		}
		for _, m := range pk.Members {
			if g, ok := m.(*ssa.Global); ok {
				t := g.Type().(*types.Pointer).Elem()
				if pt, ok := t.(*types.Pointer); ok {
					t = pt.Elem()
				}
				if n, ok := t.(*types.Named); ok && n.Obj().Pkg() != nil {
					if _, isStruct := n.Underlying().(*types.Struct); isStruct {
						singleton[n.Obj().Pkg().Path()+"."+n.Obj().Name()] = true
					}
				}
			}
		}
	}
	addTable := func(fa *ssa.FieldAddr, fn *ssa.Function) {
		pt, ok := fa.X.Type().Underlying().(*types.Pointer)
		if !ok {
			return
		}
		n, ok := pt.Elem().(*types.Named)
		if !ok || n.Obj().Pkg() == nil || !singleton[n.Obj().Pkg().Path()+"."+n.Obj().Name()] {
			return
		}
		st := n.Underlying().(*types.Struct)
		k := shortPkg(n.Obj().Pkg().Path()) + "." + n.Obj().Name() + "." + st.Field(fa.Field).Name()
		root := fn
		for root.Parent() != nil {
			root = root.Parent()
		}
		name := shortPkg(root.Pkg.Pkg.Path()) + "." + root.RelString(root.Pkg.Pkg)
		for _, x := range out[k] {
			if x == name {
				return
			}
		}
		out[k] = append(out[k], name)
	}
	var scan func(fn *ssa.Function)
	scan = func(fn *ssa.Function) {
		if fn.Name() == "init" || strings.HasPrefix(fn.Name(), "init#") {
			return
		}
		for _, b := range fn.Blocks {
			for _, in := range b.Instrs {
				switch in := in.(type) {
				case *ssa.Store:
					if g := rootOf(in.Addr); g != nil {
						add(g, fn)
					}
				case *ssa.MapUpdate:
					if g := rootOf(in.Map); g != nil {
						add(g, fn)
					}
				case ssa.CallInstruction:
					c := in.Common()
					if callee := c.StaticCallee(); callee != nil && len(c.Args) > 0 {
						switch callee.String() {
						case "(*sync.Map).Store", "(*sync.Map).LoadOrStore", "(*sync.Map).Delete", "(*sync.Map).Swap", "(*sync.Map).CompareAndSwap", "(*sync.Map).LoadAndDelete", "(*sync.Map).CompareAndDelete", "(*sync.Map).Clear":
							if fa, ok := c.Args[0].(*ssa.FieldAddr); ok {
								addTable(fa, fn)
							}
						}
					}
					if b, ok := c.Value.(*ssa.Builtin); ok && (b.Name() == "delete" || b.Name() == "clear") && len(c.Args) > 0 {
						if g := rootOf(c.Args[0]); g != nil {
							add(g, fn)
						}
					}
				}
			}
		}
		for _, af := range fn.AnonFuncs {
			scan(af)
		}
	}
	var keys []string
	for k := range P.funcs {
		keys = append(keys, k)
	}
	sort.Strings(keys)
	for _, k := range keys {
		fn := P.funcs[k]
		if fn.Parent() != nil {
			continue
		}
		scan(fn)
	}
	for k := range out {
		sort.Strings(out[k])
	}
	return out
}

func cmdGlobals(args []string) {
	P, err := loadProgram("/repo", "", []string{"./..."})
	if err != nil {
		fmt.Println(err)
		return
	}
	w := P.globalWriters()
	var ks []string
	for k := range w {
		ks = append(ks, k)
	}
	sort.Strings(ks)
	for _, k := range ks {
		fmt.Printf("%s: %s\n", k, strings.Join(w[k], ", "))
	}
}

// globalInventory: obligations global:<var>:<func> for the property that declares an inventory.
func (P *Program) globalInventory(prop string) []closureRes {
	allowed := map[string]bool{}
	declared := false
	for _, ps := range P.specs {
		for _, l := range ps.GlobalWriters {
			f := strings.Fields(l)
			if len(f) == 3 && f[0] == prop {
				allowed[f[1]+" "+f[2]] = true
				declared = true
			}
		}
	}
	if !declared {
		return nil
	}
	var out []closureRes
	w := P.globalWriters()
	var ks []string
	for k := range w {
		ks = append(ks, k)
	}
	sort.Strings(ks)
	for _, k := range ks {
		if strings.HasPrefix(k, "examples") || strings.HasPrefix(k, "test/") {
			continue
		}
		for _, fn := range w[k] {
			name := fmt.Sprintf("global:%s:%s", k, fn)
			if allowed[k+" "+fn] {
				out = append(out, closureRes{name, true, ""})
			} else {
				out = append(out, closureRes{name, false, "package-level variable " + k + " is written by " + fn + ", which the inventory does not list (VIOLATION-class: shared state between instances)"})
			}
		}
	}
	return out
}
